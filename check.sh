#!/bin/bash
# usage: check.sh <property id> [quick|thorough]
# Rebuilds the analyser from /verif/checker if needed (offline) and runs it on /repo's current working tree.
set -u
PROP="$1"; TIER="${2:-${VERIF_TIER:-quick}}"
export GOFLAGS=-mod=mod GOPROXY=off GOSUMDB=off GOTOOLCHAIN=local GOWORK=off
unset GOROOT 2>/dev/null || true
HERE="$(cd "$(dirname "$0")" && pwd)"
mkdir -p "$HERE/bin" "$HERE/evidence" "$HERE/reports"
if ! (cd "$HERE/checker" && go build -o "$HERE/bin/yaccverif" . ) >"$HERE/bin/build.log" 2>&1; then
  echo "checker build failed:"; cat "$HERE/bin/build.log"; exit 2
fi
exec "$HERE/bin/yaccverif" -prop "$PROP" -tier "$TIER" -repo /repo -verif "$HERE"
