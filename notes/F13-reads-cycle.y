%{
package main
%}
%token a b c d e f
%start s
%%
s : n2 | n2 n1 n3 c ;
n1 :  | n2 c f |  ;
n2 :  | n2 n2 n3 n3 ;
n3 : b n2 a | n1 n3 d |  ;
%%
