#!/bin/bash
# usage: mutate.sh <props comma-separated> <file relative to /repo> <python-style old> <new>
# Applies one textual mutation to /repo's working tree, checks that it still builds and passes the suite,
# runs the given property checks, prints which of them fire, and restores the tree.
set -u
PROPS="$1"; FILE="$2"; OLD="$3"; NEW="$4"
export GOFLAGS=-mod=mod GOPROXY=off GOSUMDB=off GOTOOLCHAIN=local
cd /repo || exit 2
if [ -n "$(git status --porcelain)" ]; then echo "repo not clean"; exit 2; fi
python3 - "$FILE" "$OLD" "$NEW" <<'PY'
import sys
p,old,new=sys.argv[1],sys.argv[2],sys.argv[3]
s=open(p).read()
if s.count(old)<1:
    print("MUTATION TARGET NOT FOUND"); sys.exit(3)
s=s.replace(old,new,1)
open(p,'w').write(s)
PY
rc=$?
if [ $rc -ne 0 ]; then git checkout -- .; exit $rc; fi
if ! go build ./... 2>/tmp/mut_build.log; then echo "mutant does not build:"; head -3 /tmp/mut_build.log; git checkout -- .; exit 4; fi
if go test -vet=off -count=1 ./... >/tmp/mut_test.log 2>&1; then T="suite passes"; else T="SUITE FAILS"; fi
for P in ${PROPS//,/ }; do
  out=$(/verif/bin/yaccverif -prop "$P" 2>&1)
  n=$(echo "$out" | grep -c '^VIOLATION')
  first=$(echo "$out" | grep '^FAIL' | head -2 | cut -c1-150)
  echo "[$T] $P violations=$n"
  [ -n "$first" ] && echo "$first"
done
git checkout -- .
