#!/usr/bin/env python3
"""usage: mkpatch.py <out.diff> <edits.json>
edits.json: [{"file": "LALR/Utils.go", "old": "...", "new": "...", "all": false}, ...]
Builds a unified diff against /repo's current working tree (scratch copies under a temp dir, removed afterwards)."""
import json, os, shutil, subprocess, sys, tempfile
out, edits = sys.argv[1], json.load(open(sys.argv[2]))
d = tempfile.mkdtemp(prefix="mkpatch-")
try:
    for side in ("a", "b"):
        subprocess.run(["rsync", "-a", "--exclude", ".git", "/repo/", os.path.join(d, side) + "/"], check=True)
    for e in edits:
        p = os.path.join(d, "b", e["file"])
        s = open(p).read()
        if s.count(e["old"]) < 1:
            sys.exit("target not found in %s: %r" % (e["file"], e["old"][:60]))
        s = s.replace(e["old"], e["new"]) if e.get("all") else s.replace(e["old"], e["new"], 1)
        open(p, "w").write(s)
    r = subprocess.run(["diff", "-ruN", "a", "b"], cwd=d, capture_output=True, text=True)
    open(out, "w").write(r.stdout)
    print("wrote", out, len(r.stdout.splitlines()), "lines")
finally:
    shutil.rmtree(d)
