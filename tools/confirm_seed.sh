#!/bin/bash
# usage: confirm_seed.sh <name e.g. C03a> "<demo command run inside /tmp/wt/<name>_demo>"
# Confirms in the scratch worktree /tmp/wt/<name>: patch applied -> builds, suite passes, demo FAILS; patch reverted -> demo PASSES.
set -u
N="$1"; CMD="$2"
export GOFLAGS=-mod=mod GOPROXY=off GOSUMDB=off GOTOOLCHAIN=local
W=/tmp/wt/$N; D=/tmp/wt/${N}_demo
cd $W || exit 2
git diff > /tmp/wt/${N}_current.diff
if ! cmp -s /tmp/wt/${N}_current.diff $D/patch.diff; then echo "NOTE: worktree diff differs from patch.diff; using worktree diff"; cp /tmp/wt/${N}_current.diff $D/patch.diff; fi
go build ./... && echo "build: ok" || echo "build: FAIL"
go test -vet=off -count=1 ./... >/tmp/wt/${N}_test.log 2>&1 && echo "suite: passes" || echo "suite: FAILS"
(cd $D && timeout 600 bash -c "$CMD" >/tmp/wt/${N}_with.log 2>&1); echo "demo with change: exit $?"
git apply -R $D/patch.diff
(cd $D && timeout 600 bash -c "$CMD" >/tmp/wt/${N}_without.log 2>&1); echo "demo without change: exit $?"
git apply $D/patch.diff
