module mutgen

go 1.19
