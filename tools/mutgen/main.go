// mutgen lists small syntactic mutations of the non-test Go files of a repository (one JSON object per line:
// file, byte range, replacement text, operator, enclosing function, line). It only reads source; applying the
// mutants and judging them is done by tools/mutsweep.py. Used to look for blind spots of the checks: a mutant
// that builds, passes the project's tests and is reported by no check is either equivalent or a gap.
package main

import (
	"encoding/json"
	"fmt"
	"go/ast"
	"go/parser"
	"go/token"
	"os"
	"path/filepath"
	"strconv"
	"strings"
)

type mutant struct {
	ID    int    `json:"id"`
	File  string `json:"file"`
	Start int    `json:"start"`
	End   int    `json:"end"`
	New   string `json:"new"`
	Op    string `json:"op"`
	Func  string `json:"func"`
	Line  int    `json:"line"`
	Old   string `json:"old"`
}

var swapTok = map[token.Token][]token.Token{
	token.LSS: {token.LEQ}, token.LEQ: {token.LSS}, token.GTR: {token.GEQ}, token.GEQ: {token.GTR},
	token.EQL: {token.NEQ}, token.NEQ: {token.EQL}, token.LAND: {token.LOR}, token.LOR: {token.LAND},
	token.ADD: {token.SUB}, token.SUB: {token.ADD},
}

func main() {
	root := os.Args[1]
	id := 0
	enc := json.NewEncoder(os.Stdout)
	filepath.Walk(root, func(p string, info os.FileInfo, err error) error {
		if err != nil || info.IsDir() {
			if info != nil && info.IsDir() && (info.Name() == ".git" || info.Name() == "examples" || info.Name() == "doc") {
				return filepath.SkipDir
			}
			return nil
		}
		if !strings.HasSuffix(p, ".go") || strings.HasSuffix(p, "_test.go") {
			return nil
		}
		rel, _ := filepath.Rel(root, p)
		src, _ := os.ReadFile(p)
		fset := token.NewFileSet()
		f, err := parser.ParseFile(fset, p, src, 0)
		if err != nil {
			return nil
		}
		off := func(pos token.Pos) int { return fset.Position(pos).Offset }
		emit := func(fn string, start, end token.Pos, repl, op string) {
			id++
			enc.Encode(mutant{ID: id, File: rel, Start: off(start), End: off(end), New: repl, Op: op, Func: fn, Line: fset.Position(start).Line, Old: string(src[off(start):off(end)])})
		}
		for _, d := range f.Decls {
			fd, ok := d.(*ast.FuncDecl)
			if !ok || fd.Body == nil {
				continue
			}
			fn := fd.Name.Name
			ast.Inspect(fd.Body, func(n ast.Node) bool {
				switch x := n.(type) {
				case *ast.BinaryExpr:
					for _, t := range swapTok[x.Op] {
						// strings are concatenated with +: skip when an operand is a string literal
						if x.Op == token.ADD || x.Op == token.SUB {
							if isStringish(x.X) || isStringish(x.Y) {
								continue
							}
						}
						emit(fn, x.OpPos, x.OpPos+token.Pos(len(x.Op.String())), t.String(), "binop "+x.Op.String()+"→"+t.String())
					}
				case *ast.BasicLit:
					if x.Kind == token.INT {
						if v, err := strconv.Atoi(x.Value); err == nil && v >= 0 && v <= 300 {
							emit(fn, x.Pos(), x.End(), fmt.Sprint(v+1), "int+1")
							if v > 0 {
								emit(fn, x.Pos(), x.End(), fmt.Sprint(v-1), "int-1")
							}
						}
					}
				case *ast.IfStmt:
					emit(fn, x.Cond.Pos(), x.Cond.End(), "!("+string(src[off(x.Cond.Pos()):off(x.Cond.End())])+")", "negate-if")
				case *ast.BranchStmt:
					if x.Label == nil {
						switch x.Tok {
						case token.BREAK:
							if inLoopNotSwitch(fd.Body, x) {
								emit(fn, x.Pos(), x.End(), "continue", "break→continue")
							}
						case token.CONTINUE:
							emit(fn, x.Pos(), x.End(), "break", "continue→break")
						}
					}
				case *ast.IncDecStmt:
					if x.Tok == token.INC {
						emit(fn, x.TokPos, x.TokPos+2, "--", "++→--")
					}
				case *ast.ExprStmt:
					if _, ok := x.X.(*ast.CallExpr); ok {
						emit(fn, x.Pos(), x.End(), "", "delete-call")
					}
				case *ast.AssignStmt:
					if x.Tok != token.DEFINE {
						emit(fn, x.Pos(), x.End(), "", "delete-assign")
					}
				case *ast.Ident:
					if x.Name == "true" {
						emit(fn, x.Pos(), x.End(), "false", "true→false")
					} else if x.Name == "false" {
						emit(fn, x.Pos(), x.End(), "true", "false→true")
					}
				}
				return true
			})
		}
		return nil
	})
}

func isStringish(e ast.Expr) bool {
	switch x := e.(type) {
	case *ast.BasicLit:
		return x.Kind == token.STRING || x.Kind == token.CHAR
	case *ast.BinaryExpr:
		return isStringish(x.X) || isStringish(x.Y)
	case *ast.CallExpr:
		if se, ok := x.Fun.(*ast.SelectorExpr); ok {
			if id, ok := se.X.(*ast.Ident); ok && (id.Name == "fmt" || id.Name == "strings") {
				return true
			}
		}
	}
	return false
}

// inLoopNotSwitch: the break's innermost breakable statement is a loop.
func inLoopNotSwitch(body *ast.BlockStmt, br *ast.BranchStmt) bool {
	var stack []ast.Node
	res := false
	ast.Inspect(body, func(n ast.Node) bool {
		if n == nil {
			stack = stack[:len(stack)-1]
			return true
		}
		stack = append(stack, n)
		if n == ast.Node(br) {
			for i := len(stack) - 2; i >= 0; i-- {
				switch stack[i].(type) {
				case *ast.ForStmt, *ast.RangeStmt:
					res = true
					return false
				case *ast.SwitchStmt, *ast.TypeSwitchStmt, *ast.SelectStmt:
					return false
				}
			}
		}
		return true
	})
	return res
}
