import json, shutil, re, os
area = {
 '01': ['C03'], '02': ['C02','C04'], '03': ['C03','C14'], '04': ['C09'], '05': ['C10','C13'],
 '06': ['C10','C11','C04'], '07': ['C04','C07','C10','C11','C12'], '08': ['C01','C07','C08','C16'],
 '09': ['C01','C06','C08','C15','C16'], '10': ['C18'],
}
extra = {
 ('01','p8'): ['C05','C06'], ('02','p5'): ['C05'], ('02','p6'): ['C03'], ('02','p7'): ['C03'], ('02','p8'): ['C18'],
 ('03','p5'): ['C05','C06'], ('03','p7'): ['C05','C06'], ('03','p8'): ['C05','C06'],
 ('04','p1'): ['C03','C12'], ('04','p2'): ['C03','C12'],
 ('07','p6'): ['C17','C11'], ('07','p7'): ['C17','C18'], ('08','p5'): ['C11'], ('08','p8'): ['C19','C10','C15'],
 ('08','p6'): ['C17'], ('10','p3'): ['C17','C11'], ('10','p6'): ['C19'], ('10','p7'): ['C19'], ('10','p8'): ['C03'],
}
only = {('03','p5'),('03','p7'),('03','p8')}
idx = json.load(open('tools/benign/index.json'))
names = {e['name'] for e in idx}
for a in sorted(area):
    readme = open(f'/tmp/wt/B{a}_out/README.md').read()
    for k in range(1,9):
        p = f'p{k}'
        m = re.search(rf'^- {p}\.diff\s*[—:-]+\s*(.*)$', readme, re.M)
        desc = m.group(1).strip() if m else ''
        slug = re.sub(r'[^a-z0-9]+','-', desc.lower())[:48].strip('-')
        name = f'A{a}{p}-{slug}'
        if name in names: continue
        props = list(extra.get((a,p), [])) if (a,p) in only else area[a] + [x for x in extra.get((a,p), []) if x not in area[a]]
        shutil.copy(f'/tmp/wt/B{a}_out/{p}.diff', f'tools/benign/{name}.diff')
        idx.append({'name': name, 'patch': name + '.diff', 'props': props, 'what': desc})
json.dump(idx, open('tools/benign/index.json','w'), indent=1)
print(len(idx))
