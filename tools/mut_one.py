#!/usr/bin/env python3
"""usage: mut_one.py <mutants.jsonl> <binary> <id> [<id>…] — re-judge single mutants with another analyser binary (no build/test)."""
import json, os, subprocess, sys, tempfile, shutil, re
muts={json.loads(l)['id']:json.loads(l) for l in open(sys.argv[1])}
binary=sys.argv[2]
for i in map(int, sys.argv[3:]):
    m=muts[i]
    d=tempfile.mkdtemp(prefix='mut1-'); v=tempfile.mkdtemp(prefix='mut1v-')
    try:
        subprocess.run(['rsync','-a','--exclude','.git','/repo/',d+'/'],check=True)
        shutil.copy('/verif/known-findings.jsonl',v)
        p=os.path.join(d,m['file']); s=open(p,'rb').read()
        s=s[:m['start']]+m['new'].encode()+s[m['end']:]
        open(p,'wb').write(s)
        env=dict(os.environ, GOFLAGS='-mod=mod', GOPROXY='off', GOSUMDB='off', GOTOOLCHAIN='local', GOWORK='off')
        a=subprocess.run([binary,'-prop','all','-repo',d,'-verif',v],env=env,capture_output=True,text=True,timeout=300)
        props=sorted(set(re.findall(r'^VIOLATION property=(C\d+)',a.stdout,re.M)))
        print(i, m['file'], m['func'], m['line'], m['op'], '=>', props or 'SURVIVES')
    finally:
        shutil.rmtree(d,ignore_errors=True); shutil.rmtree(v,ignore_errors=True)
