#!/bin/bash
# usage: seedflow.sh <name e.g. C03c> "<demo command>" [props…]  — confirm the seed in its worktree, then run the checks on /repo with the patch applied
N="$1"; CMD="$2"; shift; shift
/verif/tools/confirm_seed.sh "$N" "$CMD"
echo "--- checks"
/verif/tools/try_patch.sh /tmp/wt/${N}_demo/patch.diff "$@"
