#!/usr/bin/env python3
import json,jsonschema,glob,sys
ok=True
try:
    jsonschema.validate(json.load(open('/verif/MANIFEST.json')),json.load(open('/root/.vp/MANIFEST.schema.json')))
    print("MANIFEST valid")
except Exception as e:
    ok=False; print("MANIFEST INVALID",e)
es=json.load(open('/root/.vp/EVIDENCE.schema.json'))
for f in sorted(glob.glob('/verif/evidence/*.json')):
    try:
        jsonschema.validate(json.load(open(f)),es)
    except Exception as e:
        ok=False; print("EVIDENCE INVALID",f,str(e)[:300])
print("evidence files:",len(glob.glob('/verif/evidence/*.json')))
sys.exit(0 if ok else 1)
