#!/bin/bash
# usage: try_patch.sh <patch.diff> [props...]   — applies the patch to /repo, runs the checks, restores /repo
set -u
P="$(readlink -f "$1")"; shift
PROPS="${*:-C01 C02 C03 C04 C05 C06 C07 C08 C09 C10 C11 C12 C13 C14 C15 C16 C17 C18 C19}"
export GOFLAGS=-mod=mod GOPROXY=off GOSUMDB=off GOTOOLCHAIN=local
cd /repo || exit 2
if [ -n "$(git status --porcelain)" ]; then echo "repo not clean"; exit 2; fi
git apply "$P" || { echo "patch does not apply"; exit 3; }
if go build ./... 2>/tmp/tp_build.log; then B="builds"; else B="DOES NOT BUILD"; fi
if go test -vet=off -count=1 ./... >/tmp/tp_test.log 2>&1; then T="suite passes"; else T="SUITE FAILS"; fi
echo "[$B, $T]"
for p in $PROPS; do
  out=$(/verif/bin/yaccverif -prop $p 2>&1)
  n=$(echo "$out" | grep -c '^VIOLATION')
  if [ "$n" != "0" ]; then echo "$p violations=$n"; echo "$out" | grep -A2 '^FAIL' | cut -c1-400 | head -12; fi
done
git checkout -- . ; git status --porcelain | head -3
