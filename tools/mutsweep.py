#!/usr/bin/env python3
"""usage: mutsweep.py <mutants.jsonl> <results.jsonl> [workers]
Applies each mutant (from bin/mutgen) to a scratch copy of /repo, requires `go build ./...` and the project's test
suite to pass, then runs every quick check on the copy (one analyser process, evidence redirected to a scratch
directory). Result per mutant: nobuild | testsfail | killed (with the properties that report a violation) |
survived. Survivors are candidates for blind spots (or equivalent mutants) and are triaged by hand; nothing here
is part of a registered check. Scratch directories live under /tmp and are removed after each mutant."""
import json, os, subprocess, sys, tempfile, shutil, concurrent.futures, re
muts=[json.loads(l) for l in open(sys.argv[1])]
out=sys.argv[2]; workers=int(sys.argv[3]) if len(sys.argv)>3 else 4
done=set()
if os.path.exists(out):
    for l in open(out):
        try: done.add(json.loads(l)['id'])
        except: pass
env=dict(os.environ, GOFLAGS='-mod=mod', GOPROXY='off', GOSUMDB='off', GOTOOLCHAIN='local', GOWORK='off')
def run(m):
    d=tempfile.mkdtemp(prefix='mut-'); v=tempfile.mkdtemp(prefix='mutv-')
    res={'id':m['id'],'file':m['file'],'func':m['func'],'line':m['line'],'op':m['op'],'old':m['old'][:80],'new':m['new'][:80]}
    try:
        subprocess.run(['rsync','-a','--exclude','.git','/repo/',d+'/'],check=True)
        shutil.copy('/verif/known-findings.jsonl',v)
        p=os.path.join(d,m['file']); s=open(p,'rb').read()
        s=s[:m['start']]+m['new'].encode()+s[m['end']:]
        open(p,'wb').write(s)
        b=subprocess.run(['go','build','./...'],cwd=d,env=env,capture_output=True,text=True,timeout=120)
        if b.returncode!=0: res['status']='nobuild'; return res
        try:
            t=subprocess.run(['go','test','-vet=off','-count=1','-timeout','25s','./...'],cwd=d,env=env,capture_output=True,text=True,timeout=150)
        except subprocess.TimeoutExpired:
            res['status']='testsfail'; res['why']='timeout'; return res
        if t.returncode!=0: res['status']='testsfail'; return res
        try:
            a=subprocess.run([os.environ.get('YV_BIN','/verif/bin/yaccverif'),'-prop','all','-repo',d,'-verif',v],env=env,capture_output=True,text=True,timeout=300)
        except subprocess.TimeoutExpired:
            res['status']='killed'; res['by']=['analyser-timeout']; return res
        props=sorted(set(re.findall(r'^VIOLATION property=(C\d+)',a.stdout,re.M)))
        if props:
            res['status']='killed'; res['by']=props
            fails=re.findall(r'^FAIL\s+(\S+)\s+(.*?)\s{2,}(\S.*)$',a.stdout,re.M)
            res['first']=[' '.join(x) for x in fails[:2]]
        else:
            res['status']='survived'
        return res
    except Exception as e:
        res['status']='error'; res['why']=str(e)[:200]; return res
    finally:
        shutil.rmtree(d,ignore_errors=True); shutil.rmtree(v,ignore_errors=True)
todo=[m for m in muts if m['id'] not in done]
print(len(todo),'to do',flush=True)
with concurrent.futures.ThreadPoolExecutor(max_workers=workers) as ex, open(out,'a') as f:
    for r in ex.map(run,todo):
        f.write(json.dumps(r)+'\n'); f.flush()
print('done')
