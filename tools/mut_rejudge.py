#!/usr/bin/env python3
"""usage: mut_rejudge.py <mutants.jsonl> <results.jsonl> <binary> <out.jsonl> [workers] — re-run the survivors of a sweep with another analyser binary."""
import json, os, subprocess, sys, tempfile, shutil, re, concurrent.futures
muts={json.loads(l)['id']:json.loads(l) for l in open(sys.argv[1])}
res=[json.loads(l) for l in open(sys.argv[2])]
binary=sys.argv[3]; out=sys.argv[4]; workers=int(sys.argv[5]) if len(sys.argv)>5 else 5
todo=[r['id'] for r in res if r['status']=='survived']
done=set()
if os.path.exists(out):
    for l in open(out): done.add(json.loads(l)['id'])
todo=[i for i in todo if i not in done]
env=dict(os.environ, GOFLAGS='-mod=mod', GOPROXY='off', GOSUMDB='off', GOTOOLCHAIN='local', GOWORK='off')
def run(i):
    m=muts[i]
    d=tempfile.mkdtemp(prefix='mutr-'); v=tempfile.mkdtemp(prefix='mutrv-')
    try:
        subprocess.run(['rsync','-a','--exclude','.git','/repo/',d+'/'],check=True)
        shutil.copy('/verif/known-findings.jsonl',v)
        p=os.path.join(d,m['file']); s=open(p,'rb').read()
        s=s[:m['start']]+m['new'].encode()+s[m['end']:]
        open(p,'wb').write(s)
        a=subprocess.run([binary,'-prop','all','-repo',d,'-verif',v],env=env,capture_output=True,text=True,timeout=300)
        props=sorted(set(re.findall(r'^VIOLATION property=(C\d+)',a.stdout,re.M)))
        return {'id':i,'file':m['file'],'func':m['func'],'line':m['line'],'op':m['op'],'old':m['old'][:80],'new':m['new'][:60],'by':props}
    finally:
        shutil.rmtree(d,ignore_errors=True); shutil.rmtree(v,ignore_errors=True)
print(len(todo),'to rejudge',flush=True)
with concurrent.futures.ThreadPoolExecutor(max_workers=workers) as ex, open(out,'a') as f:
    for r in ex.map(run,todo):
        f.write(json.dumps(r)+'\n'); f.flush()
print('done')
