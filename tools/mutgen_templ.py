#!/usr/bin/env python3
"""Lists text-level mutants of the Go code inside the two parser templates (Builder/GoCodeTemplate.go and
Builder/GoObjectTemplate.go). A line that occurs exactly once in each template with identical text is mutated in BOTH
files (so the sibling-diff rule C08.a stays silent and the semantic rules have to notice); other lines are mutated in
their own file only. Output: one JSON object per line with a list of edits {file,start,end,new}."""
import json, re, sys
files=['Builder/GoCodeTemplate.go','Builder/GoObjectTemplate.go']
src={f:open('/repo/'+f,'rb').read().decode() for f in files}
def body(s):
    a=s.index('`')+1; b=s.rindex('`'); return a,b
ops=[(r'>=','>'),(r'(?<![<>=!])>(?!=)','>='),(r'<=','<'),(r'(?<![<>=!-])<(?![=-])','<='),(r'==','!='),(r'!=','=='),(r'&&','||'),(r'\|\|','&&'),
     (r'\+ 1\b','+ 2'),(r'- 1\b','- 2'),(r'-1\b','-2'),(r'\+1\b','+2'),(r':= -a\b',':= a'),(r'\+= num','+= num + 1'),(r'-= num','-= num - 1'),(r'\+\+','--'),(r'\btrue\b','false'),(r'\bfalse\b','true'),(r'\bbreak\b','continue'),(r'\bcontinue\b','break')]
lines={}
for f in files:
    a,b=body(src[f]); pos=a
    for ln in src[f][a:b].split('\n'):
        lines.setdefault(ln,[]).append((f,pos,pos+len(ln)))
        pos+=len(ln)+1
out=[]; mid=0
def emit(occs, ln, newln, op):
    global mid
    mid+=1
    out.append({'id':mid,'op':op,'old':ln.strip()[:90],'new':newln.strip()[:90],'edits':[{'file':f,'start':s,'end':e,'new':newln} for (f,s,e) in occs],'file':'+'.join(sorted({f for f,_,_ in occs})),'func':'template','line':0})
for ln,occs in lines.items():
    st=ln.strip()
    if not st or st.startswith('//') or '{{' in ln or st in ('{','}','})','}else{','} else {'):
        continue
    if st.startswith('fmt.Print') or st.startswith('http.') or 'Printf' in st:
        continue
    both = len(occs)==2 and occs[0][0]!=occs[1][0]
    use = occs if both else occs[:1] if len(occs)==1 else None
    if use is None: continue
    for pat,rep in ops:
        for m in re.finditer(pat,ln):
            newln=ln[:m.start()]+rep+ln[m.end():]
            if newln!=ln: emit(use,ln,newln,'text '+pat+'→'+rep)
    # delete simple statements
    if re.match(r'^\s*[A-Za-z_][\w.\[\]()* -]*\s*(=|\+=|-=|:=|\+\+|--)', ln) and not st.endswith('{') and ':=' not in ln:
        emit(use,ln,'','delete-stmt')
    if re.match(r'^\s*[A-Za-z_.]+\(.*\)\s*$', ln) and not st.startswith('func') and not st.startswith('return') and not st.startswith('panic'):
        emit(use,ln,'','delete-call')
for m in out: print(json.dumps(m))
