import json, shutil, re, os
area = {
 '11': ['C02','C04'], '12': ['C03','C05'], '13': ['C09','C12'], '14': ['C10','C13'], '15': ['C10','C07','C19'],
 '16': ['C07','C11','C04','C14'], '17': ['C16','C01','C19'], '18': ['C16','C08','C19','C11'], '19': ['C01','C08','C07','C17'], '20': ['C03','C14','C18','C05'],
}
idx = json.load(open('tools/benign/index.json'))
names = {e['name'] for e in idx}
for a in sorted(area):
    readme = open(f'/tmp/wt/B{a}_out/README.md').read()
    for k in range(1,7):
        p = f'p{k}'
        if not os.path.exists(f'/tmp/wt/B{a}_out/{p}.diff'): continue
        m = re.search(rf'^[-*\s]*\**`?{p}\.diff`?\**\s*[—:-]+\s*(.*)$', readme, re.M)
        desc = m.group(1).strip() if m else ''
        slug = re.sub(r'[^a-z0-9]+','-', desc.lower())[:48].strip('-')
        name = f'S{a}{p}-{slug}'
        if name in names: continue
        shutil.copy(f'/tmp/wt/B{a}_out/{p}.diff', f'tools/benign/{name}.diff')
        idx.append({'name': name, 'patch': name + '.diff', 'props': area[a], 'what': 'structural refactoring (round 2): ' + desc})
json.dump(idx, open('tools/benign/index.json','w'), indent=1)
print(len(idx))
