#!/bin/bash
# usage: probe_dir.sh <dir with p*.diff> [props]  — runs probe_patch.sh on every patch of the directory (all properties by default)
D="$1"; PROPS="${2:-ALL}"
for p in "$D"/p*.diff; do
  [ -f "$p" ] || continue
  /verif/tools/probe_patch.sh "$(basename "$D")/$(basename "$p" .diff)" "$PROPS" "$(readlink -f "$p")" 2>&1 | tail -8 | cut -c1-330
done
