#!/usr/bin/env python3
"""store_seed.py <name> <prop> <title> <needs> <demo cmd> <caught_by ;-separated> <initially_missed 0|1>
copies /tmp/wt/<name>_demo into /verif/seeded/<prop>-<letter>/ (patch.diff, demo/, meta.json)"""
import os, shutil, json, glob, sys
name, prop, title, needs, demo, caught, missed = sys.argv[1:8]
src = f"/tmp/wt/{name}_demo"
dst = f"/verif/seeded/{prop}-{name[-1]}"
if os.path.exists(dst): shutil.rmtree(dst)
os.makedirs(dst+"/demo")
shutil.copy(src+"/patch.diff", dst+"/patch.diff")
for f in glob.glob(src+"/**", recursive=True):
    if os.path.isdir(f): continue
    rel = os.path.relpath(f, src); base = os.path.basename(f)
    if base in ("patch.diff","yaccgo","demo") or base.startswith("out_") or base.startswith(".") or rel.startswith("out/") or os.path.getsize(f) > 200000: continue
    if rel.endswith((".go",".y",".sh",".md",".mod",".sum",".txt",".in",".head",".log")):
        os.makedirs(os.path.dirname(os.path.join(dst,"demo",rel)), exist_ok=True)
        shutil.copy(f, os.path.join(dst,"demo",rel))
meta = dict(property=prop, seed=name, title=title, needs_to_manifest=needs,
            demonstration=f"inside demo/ (paths refer to the scratch worktree /tmp/wt/{name}): {demo}",
            confirmed=dict(how="tools/confirm_seed.sh in the scratch worktree", builds=True, suite_passes=True, demo_with_change_exit=1, demo_without_change_exit=0),
            checks_run="tools/try_patch.sh seeded/<id>/patch.diff (all 19 quick checks on /repo with the patch applied, then reverted)",
            caught_by=[c.strip() for c in caught.split(";") if c.strip()], initially_missed=bool(int(missed)))
json.dump(meta, open(dst+"/meta.json","w"), indent=1)
print(dst)
