#!/bin/bash
# usage: probe.sh <name> <props comma-separated|ALL> <file relative to repo> <old> <new> [all]
# Applies one textual edit to a SCRATCH COPY of /repo (never /repo itself), checks that it builds and passes the
# suite, runs the given property checks on the copy with evidence redirected to a scratch directory, prints the
# checks that fire, and removes the copy. Used for benign-rewrite probes (expected: nothing fires) and for quick
# breaking probes.
set -u
NAME="$1"; PROPS="$2"; FILE="$3"; OLD="$4"; NEW="$5"; ALLOCC="${6:-}"
[ "$PROPS" = ALL ] && PROPS=C01,C02,C03,C04,C05,C06,C07,C08,C09,C10,C11,C12,C13,C14,C15,C16,C17,C18,C19
export GOFLAGS=-mod=mod GOPROXY=off GOSUMDB=off GOTOOLCHAIN=local GOWORK=off
D=$(mktemp -d /tmp/probe-XXXXXX); V=$(mktemp -d /tmp/probev-XXXXXX)
trap 'rm -rf "$D" "$V"' EXIT
rsync -a --exclude .git /repo/ "$D/"
cp /verif/known-findings.jsonl "$V/"
python3 - "$D/$FILE" "$OLD" "$NEW" "$ALLOCC" <<'PY'
import sys
p,old,new,allocc=sys.argv[1:5]
s=open(p).read()
if s.count(old)<1:
    print("PROBE TARGET NOT FOUND"); sys.exit(3)
s=s.replace(old,new) if allocc else s.replace(old,new,1)
open(p,'w').write(s)
PY
[ $? -ne 0 ] && exit 3
cd "$D"
if ! go build ./... 2>"$V/build.log"; then echo "[$NAME] does not build: $(head -2 "$V/build.log" | tr '\n' ' ')"; exit 4; fi
if go test -vet=off -count=1 ./... >"$V/test.log" 2>&1; then T="suite passes"; else T="SUITE FAILS"; fi
fired=""
for P in ${PROPS//,/ }; do
  out=$(/verif/bin/yaccverif -prop "$P" -repo "$D" -verif "$V" 2>&1)
  n=$(echo "$out" | grep -c '^VIOLATION')
  if [ "$n" != 0 ]; then fired="$fired $P($n)"; echo "$out" | grep -A1 '^FAIL' | cut -c1-300 | head -6; fi
done
echo "[$NAME] [$T] fired:${fired:- none}"
