#!/usr/bin/env python3
"""Generates /verif/MANIFEST.json from the table below (kept in one place so the manifest stays valid).
A property is claimed only when its check exists in /verif/checker (prop_cXX.go registered)."""
import json, os, re, sys

HERE = os.path.dirname(os.path.dirname(os.path.abspath(__file__)))

# id -> (technique, level text, level note, design section)
CLAIMS = {
}

NOT_YET = {}

def load_claims():
    path = os.path.join(HERE, "tools", "claims.json")
    return json.load(open(path))

def main():
    data = load_claims()
    props = [json.loads(l) for l in open(os.path.join(HERE, "properties.jsonl")) if l.strip()]
    ids = [p["id"] for p in props]
    checks, na = [], []
    for pid in ids:
        c = data["claims"].get(pid)
        if c:
            checks.append({
                "property_id": pid,
                "quick_cmd": f"/verif/check.sh {pid} quick",
                "thorough_cmd": f"/verif/check.sh {pid} thorough",
                "evidence_file": f"/verif/evidence/{pid}.json",
                "replay_cmd_template": "jq -r .replay {path} | sh",
                "engine": "yaccverif",
                "level_claimed": {"category": "other", "text": c["text"], "design_ref": c.get("design_ref", "DESIGN.md §4 " + pid)},
                "level_note": c["note"],
                "technique": c["technique"],
            })
        else:
            na.append({"property_id": pid, "reason": data["not_applicable"].get(pid, "no sound static rule implemented for this property")})
    m = {
        "version": 1,
        "setup_cmd": "cd /verif/checker && GOFLAGS=-mod=mod GOPROXY=off GOSUMDB=off GOTOOLCHAIN=local GOWORK=off go build -o /verif/bin/yaccverif .",
        "hooks": {
            "guard": "verif",
            "enable": "none needed: static analysis reads /repo's sources; no instrumentation is compiled into yaccgo",
            "baseline_off_cmd": "cd /repo && GOFLAGS=-mod=mod GOPROXY=off GOSUMDB=off go test -vet=off -count=1 ./...",
            "source_commits": [],
            "add_only": True,
        },
        "engines": [{
            "name": "yaccverif",
            "path": "/verif/checker",
            "serves_properties": [c["property_id"] for c in checks],
            "kind_free_text": "repository-specific static analyser (go/packages + go/types + go/cfg; text/template/parse + go/parser + go/types on the staged generated-parser skeletons); never executes yaccgo or a generated parser",
        }],
        "checks": checks,
        "not_applicable": na,
        "notes": data.get("notes", ""),
    }
    json.dump(m, open(os.path.join(HERE, "MANIFEST.json"), "w"), indent=1)
    print(f"MANIFEST.json: {len(checks)} checks, {len(na)} not_applicable")

if __name__ == "__main__":
    main()
