import json, shutil, re, os
area = {
 '31': ['C03','C02','C14'], '32': ['C04','C05','C14','C02','C06'], '33': ['C09','C12','C03'], '34': ['C10','C13'], '35': ['C10','C07','C04','C11'],
 '36': ['C07','C11','C12','C17','C18'], '37': ['C16','C01','C19','C07','C08'], '38': ['C16','C08','C19','C11'], '39': ['C01','C08','C15','C17','C06'], '40': ['C19','C18','C17','C14'],
}
idx = json.load(open('tools/benign/index.json'))
names = {e['name'] for e in idx}
for a in sorted(area):
    readme = open(f'/tmp/wt/B{a}_out/README.md').read()
    for k in range(1,9):
        p = f'p{k}'
        if not os.path.exists(f'/tmp/wt/B{a}_out/{p}.diff'): continue
        m = re.search(rf'^[-*|\s]*\**`?{p}\.diff`?\**\s*[|—:-]+\s*(.*)$', readme, re.M)
        desc = m.group(1).strip() if m else ''
        desc = re.sub(r'\s*\|\s*', ' — ', desc).strip(' —|')
        slug = re.sub(r'[^a-z0-9]+','-', desc.lower())[:48].strip('-')
        name = f'U{a}{p}-{slug}'
        if name in names: continue
        shutil.copy(f'/tmp/wt/B{a}_out/{p}.diff', f'tools/benign/{name}.diff')
        idx.append({'name': name, 'patch': name + '.diff', 'props': area[a], 'what': 'round 4 (moves, swapped operands, stdlib replacements, helpers): ' + desc})
json.dump(idx, open('tools/benign/index.json','w'), indent=1)
print(len(idx))
