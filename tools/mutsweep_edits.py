#!/usr/bin/env python3
"""usage: mutsweep_edits.py <mutants.jsonl> <results.jsonl> <binary> [workers] — like mutsweep.py for multi-file text mutants (mutgen_templ.py)."""
import json, os, subprocess, sys, tempfile, shutil, concurrent.futures, re
muts=[json.loads(l) for l in open(sys.argv[1])]
out=sys.argv[2]; binary=sys.argv[3]; workers=int(sys.argv[4]) if len(sys.argv)>4 else 3
env=dict(os.environ, GOFLAGS='-mod=mod', GOPROXY='off', GOSUMDB='off', GOTOOLCHAIN='local', GOWORK='off')
def run(m):
    d=tempfile.mkdtemp(prefix='mutt-'); v=tempfile.mkdtemp(prefix='muttv-')
    res={'id':m['id'],'op':m['op'],'old':m['old'],'new':m['new'],'file':m['file']}
    try:
        subprocess.run(['rsync','-a','--exclude','.git','/repo/',d+'/'],check=True)
        shutil.copy('/verif/known-findings.jsonl',v)
        byf={}
        for e in m['edits']: byf.setdefault(e['file'],[]).append(e)
        for f,es in byf.items():
            p=os.path.join(d,f); s=open(p,'rb').read().decode()
            for e in sorted(es,key=lambda e:-e['start']): s=s[:e['start']]+e['new']+s[e['end']:]
            open(p,'wb').write(s.encode())
        b=subprocess.run(['go','build','./...'],cwd=d,env=env,capture_output=True,text=True,timeout=120)
        if b.returncode!=0: res['status']='nobuild'; return res
        t=subprocess.run(['go','test','-vet=off','-count=1','-timeout','25s','./...'],cwd=d,env=env,capture_output=True,text=True,timeout=150)
        if t.returncode!=0: res['status']='testsfail'; return res
        a=subprocess.run([binary,'-prop','all','-repo',d,'-verif',v],env=env,capture_output=True,text=True,timeout=300)
        props=sorted(set(re.findall(r'^VIOLATION property=(C\d+)',a.stdout,re.M)))
        res['status']='killed' if props else 'survived'; res['by']=props
        return res
    except Exception as ex:
        res['status']='error'; res['why']=str(ex)[:200]; return res
    finally:
        shutil.rmtree(d,ignore_errors=True); shutil.rmtree(v,ignore_errors=True)
with concurrent.futures.ThreadPoolExecutor(max_workers=workers) as ex, open(out,'w') as f:
    for r in ex.map(run,muts):
        f.write(json.dumps(r)+'\n'); f.flush()
print('done')
