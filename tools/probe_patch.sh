#!/bin/bash
# usage: probe_patch.sh <name> <props comma-separated|ALL> <patch file>
# Like probe.sh but applies a unified diff (git apply) to the scratch copy of /repo.
set -u
NAME="$1"; PROPS="$2"; PATCH="$3"
[ "$PROPS" = ALL ] && PROPS=C01,C02,C03,C04,C05,C06,C07,C08,C09,C10,C11,C12,C13,C14,C15,C16,C17,C18,C19
export GOFLAGS=-mod=mod GOPROXY=off GOSUMDB=off GOTOOLCHAIN=local GOWORK=off
D=$(mktemp -d /tmp/probe-XXXXXX); V=$(mktemp -d /tmp/probev-XXXXXX)
trap 'rm -rf "$D" "$V"' EXIT
rsync -a --exclude .git /repo/ "$D/"
cp /verif/known-findings.jsonl "$V/"
cd "$D"
if ! GIT_DIR=/nonexistent git apply --whitespace=nowarn "$PATCH" 2>"$V/apply.log"; then echo "[$NAME] patch does not apply: $(head -1 "$V/apply.log")"; exit 3; fi
if ! go build ./... 2>"$V/build.log"; then echo "[$NAME] does not build: $(head -2 "$V/build.log" | tr '\n' ' ')"; exit 4; fi
if go test -vet=off -count=1 ./... >"$V/test.log" 2>&1; then T="suite passes"; else T="SUITE FAILS"; fi
fired=""
for P in ${PROPS//,/ }; do
  out=$(${YACCVERIF_BIN:-/verif/bin/yaccverif} -prop "$P" -repo "$D" -verif "$V" 2>&1)
  n=$(echo "$out" | grep -c '^VIOLATION')
  if [ "$n" != 0 ]; then fired="$fired $P($n)"; echo "$out" | grep -A2 '^FAIL' | cut -c1-300 | head -9; fi
done
echo "[$NAME] [$T] fired:${fired:- none}"
