#!/usr/bin/env python3
"""Rewrites the seeded-changes table in DESIGN.md from /verif/seeded/*/meta.json."""
import json, glob, re, os
rows=[]
for m in sorted(glob.glob('/verif/seeded/*/meta.json')):
    d=json.load(open(m)); sid=os.path.basename(os.path.dirname(m))
    rows.append("| %s | %s | %s | %s | %s |" % (sid, d['title'].replace('|','\\|'), d['needs_to_manifest'].replace('|','\\|'), "; ".join(d['caught_by']).replace('|','\\|'), "missed at first → rule added" if d['initially_missed'] else "caught as built"))
table = "<!-- SEEDTABLE:BEGIN -->\n| seed | change | needs | caught by | history |\n|---|---|---|---|---|\n" + "\n".join(rows) + "\n<!-- SEEDTABLE:END -->"
s=open('/verif/DESIGN.md').read()
if 'SEEDTABLE:BEGIN' in s:
    s=re.sub(r'<!-- SEEDTABLE:BEGIN -->.*?<!-- SEEDTABLE:END -->', lambda m: table, s, flags=re.S)
else:
    s=s.replace('SEEDTABLE', table)
open('/verif/DESIGN.md','w').write(s)
print(len(rows),"seeds")
