#!/bin/bash
# usage: dump_patch.sh <patch file> <dump argument e.g. src:TrySplitTable>  — dump of the analyser's view of a scratch copy with the patch
set -u
export GOFLAGS=-mod=mod GOPROXY=off GOSUMDB=off GOTOOLCHAIN=local GOWORK=off
D=$(mktemp -d /tmp/probe-XXXXXX); trap 'rm -rf "$D"' EXIT
rsync -a --exclude .git /repo/ "$D/"
cd "$D" && GIT_DIR=/nonexistent git apply --whitespace=nowarn "$1" && /verif/bin/yaccverif -dump "$2" -repo "$D" -verif /verif
