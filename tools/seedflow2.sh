#!/bin/bash
# usage: seedflow2.sh <name e.g. C03e> "<demo command>"  — confirm the seed in its worktree, then run all checks on a scratch copy with the patch (parallel-safe)
N="$1"; CMD="$2"
/verif/tools/confirm_seed.sh "$N" "$CMD"
echo "--- checks"
/verif/tools/probe_patch.sh "$N" ALL /tmp/wt/${N}_demo/patch.diff
