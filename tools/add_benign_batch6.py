import json, shutil, re, os
area = {
 '61': ['C03','C02','C14','C18'], '62': ['C04','C05','C02','C06'], '63': ['C09','C12','C03'], '64': ['C10','C13','C16'], '65': ['C10','C11','C04','C07','C13'],
 '66': ['C07','C11','C12','C10','C04'], '67': ['C16','C01','C19','C07','C08','C05'], '68': ['C16','C08','C19','C11'], '69': ['C01','C08','C15','C17','C06','C07'], '70': ['C18','C19','C17'],
}
idx = json.load(open('tools/benign/index.json'))
names = {e['name'] for e in idx}
for a in sorted(area):
    readme = open(f'/tmp/wt/B{a}_out/README.md').read()
    for k in range(1,9):
        p = f'p{k}'
        if not os.path.exists(f'/tmp/wt/B{a}_out/{p}.diff'): continue
        m = re.search(rf'^[-*|\s]*\**`?{p}\.diff`?\**\s*[|—:-]+\s*(.*)$', readme, re.M)
        desc = m.group(1).strip() if m else ''
        desc = re.sub(r'\s*\|\s*', ' — ', desc).strip(' —|')
        slug = re.sub(r'[^a-z0-9]+','-', desc.lower())[:48].strip('-')
        name = f'X{a}{p}-{slug}'
        if name in names: continue
        shutil.copy(f'/tmp/wt/B{a}_out/{p}.diff', f'tools/benign/{name}.diff')
        idx.append({'name': name, 'patch': name + '.diff', 'props': area[a], 'what': 'round 7 (free-choice maintenance, two substantial per agent): ' + desc})
json.dump(idx, open('tools/benign/index.json','w'), indent=1)
print(len(idx))
