package main

// C12 — unusable grammars are rejected, usable ones are not.

import (
	"fmt"
	"go/ast"
	"go/constant"
	"go/token"
	"strings"
)

func init() { register("C12", checkC12) }

func checkC12(c *Ctx, r *Report) {
	r.Explanation = "R6 FIXPOINT: CalculateCanTerminate is the least fixpoint 'a left-hand side is productive iff every right-hand symbol is' (terminals start productive, nonterminals unproductive), and returns every nonterminal still unproductive; who-writes CanTerminate: NewSymbol (true), SetNT (false) and the two fixpoints (true), nobody else. R2 ORDER: every right-hand symbol lookup in RuleVistor.Process is nil-tested with a diagnostic panic before use; in BuildLALR1 the rule-less-nonterminal test and the productivity test dominate the automaton construction; ParseAndBuild returns Parse's error. C12.c (prerequisite C11.a): character literals first seen in a precedence list or a rule reach the declaration list on every non-error exit, so the undefined-symbol rejection cannot hit a symbol the file introduced. Not decided: that exactly the usable grammars are accepted (beyond C12.c the converse direction quantifies over all grammars); the 2000-state limit is read and reported."
	// C12.c — the converse direction, as far as it is structural: a symbol the grammar file introduces must reach the
	// declaration list, or the rule visitor rejects a usable grammar as using an undefined symbol (prerequisite C11.a)
	includeSome(r, "C12.c", func(sub *Report) { c11a(c, sub) }, "literal-tokens-flushed")
	// … and a declared token stays a token: an identifier's kind is given where its entry is created and never
	// re-assigned — a %type (or any later line) naming a token must not turn it into a nonterminal without rules,
	// which the rule-less test would then refuse
	if fv := lookupField(c, "Parser", "Idendity", "IDTyp"); fv == nil {
		r.Undecided("C12.c", "WHO-WRITES", "Parser.Idendity.IDTyp", "-", "field not found")
	} else {
		var bad []string
		n := 0
		for _, w := range fieldWrites(c, fv) {
			if w.op == ":" {
				n++
				continue
			}
			bad = append(bad, fmt.Sprintf("%s at %s (%s)", w.fn, c.pos(w.pos), w.op))
		}
		r.Check(len(bad) == 0 && n >= 6, "C12.c", "WHO-WRITES", "Parser.Idendity.IDTyp/kind-fixed-at-creation", c.pos(fv.Pos()),
			fmt.Sprintf("the kind of an identifier is written only where its entry is created (%d composite literals)", n),
			"the kind of an existing identifier is re-assigned by "+strings.Join(bad, "; ")+": a declared token can become a nonterminal without rules (or the reverse), and a usable grammar is refused")
	}
	// … and a name is declared by a declaration line or by being a rule's left-hand side, never by being USED: the
	// rule reader adds entries to the declaration list for character literals only — an identifier that a rule (or a
	// %prec) merely mentions must stay undeclared, so that the rule visitor refuses it
	if f := c.need(r, "C12.c", "Parser", "parser", "parseRule"); f != nil {
		info := f.Pkg.TypesInfo
		var bad []string
		n := 0
		ast.Inspect(f.Decl.Body, func(nd ast.Node) bool {
			as, ok := nd.(*ast.AssignStmt)
			if !ok || len(as.Lhs) != 1 || len(as.Rhs) != 1 {
				return true
			}
			fv := fieldVar(info, as.Lhs[0])
			if fv == nil || fv.Name() != "IdentifyList" {
				return true
			}
			if call, isC := unparen(as.Rhs[0]).(*ast.CallExpr); !isC || builtinName(info, call) != "append" {
				return true
			}
			n++
			literal := false
			for _, a := range guardAtoms(c, f, as) {
				if strings.Contains(a, ".current.Kind == \"Charater\")") && !strings.HasPrefix(a, "!") && !strings.Contains(a, "||") && !strings.Contains(a, "no-earlier") {
					literal = true
				}
			}
			if !literal {
				bad = append(bad, fmt.Sprintf("the entry added at %s is not confined to a character-literal token", c.pos(as.Pos())))
			}
			return true
		})
		if n == 0 {
			r.Undecided("C12.c", "R4 WHO-WRITES", f.Name+"/rules-declare-literals-only", c.pos(f.Decl.Pos()), "no append to the declaration list found in parseRule (one confirmed by hand)")
		} else {
			r.Check(len(bad) == 0, "C12.c", "R4 WHO-WRITES", f.Name+"/rules-declare-literals-only", c.pos(f.Decl.Pos()),
				fmt.Sprintf("%d site(s): the rule reader declares a token only for a character literal it meets", n),
				"a name that a rule only uses is entered into the declaration list ("+strings.Join(bad, "; ")+"): an undeclared symbol is then no longer refused and the grammar is generated with a token the user never declared")
		}
	}
	// C12.a
	c12Flows(c, r)
	if f := c.need(r, "C12.a", "Grammar", "Grammar", "CalculateCanTerminate"); f != nil {
		why := checkFixpoint(c, f, fixpointSpec{mark: "CanTerminate", predAll: []string{"CanTerminate"}})
		r.Check(why == "", "C12.a", "R6 FIXPOINT", f.Name+"/productive-fixpoint", c.pos(f.Decl.Pos()),
			"least fixpoint: a left-hand side becomes productive iff every right-hand symbol is productive (vacuously for an empty rule); passes repeat until nothing changes",
			"the productivity computation deviates from the least-fixpoint template: "+why)
		// result: all nonterminals of VnSet that are still unproductive
		info := f.Pkg.TypesInfo
		ok := false
		ast.Inspect(f.Decl.Body, func(n ast.Node) bool {
			rs, isR := n.(*ast.RangeStmt)
			if !isR {
				return true
			}
			if fv := fieldVar(info, rs.X); fv == nil || fv.Name() != "VnSet" {
				return true
			}
			pe := newPathEnum(info)
			if k := identObj(info, rs.Key); k != nil {
				pe.rename[k] = "SY"
			}
			ps, err := pe.Enumerate(rs.Body.List)
			if err != nil || len(ps) != 2 {
				return true
			}
			good := true
			for _, p := range ps {
				unprod := false
				for _, cd := range p.Conds {
					if cd.Atom.String() == "SY.CanTerminate" {
						unprod = !cd.Pol
					}
				}
				app := false
				for _, t := range p.Env {
					if t != nil && t.Op == "call" && t.Name == "append" && strings.HasSuffix(t.String(), ", SY)") {
						app = true
					}
				}
				if app != unprod {
					good = false
				}
			}
			ok = good
			return true
		})
		r.Check(ok, "C12.a", "R4 DECISION-TABLE", f.Name+"/reports-every-unproductive-nonterminal", c.pos(f.Decl.Pos()),
			"the result lists exactly the nonterminals (left-hand sides) whose CanTerminate is still false", "the result is not exactly the set of nonterminals that stayed unproductive")
	}
	if fv := lookupField(c, "Symbol", "Symbol", "CanTerminate"); fv != nil {
		allowed := map[string]string{"Symbol.NewSymbol": "true", "Symbol.(*Symbol).SetNT": "false", "Grammar.(*Grammar).CalculateEpsilonClosure": "true", "Grammar.(*Grammar).CalculateCanTerminate": "true"}
		bad := ""
		n := 0
		for _, w := range fieldWrites(c, fv) {
			n++
			if v, ok := allowed[w.fn]; !ok || v != w.path {
				bad = fmt.Sprintf("%s writes %s at %s", w.fn, w.path, c.pos(w.pos))
			}
		}
		r.Check(bad == "" && n == 4, "C12.a", "WHO-WRITES", "Symbol.Symbol.CanTerminate", c.pos(fv.Pos()), "written by NewSymbol (true), SetNT (false) and the two fixpoints (true) only", fmt.Sprintf("unexpected writer (%d writers): %s", n, bad))
	}
	// SetNT is what makes a left-hand side a nonterminal: InsertNewRules marks and records it
	if f := c.need(r, "C12.a", "Grammar", "Grammar", "InsertNewRules"); f != nil {
		cf := newCoverFn(f)
		ps := paramObjs(cf.info, f.Decl)
		marks, records := false, false
		if len(ps) == 1 {
			for _, s := range f.Decl.Body.List { // function level: unconditional
				switch x := s.(type) {
				case *ast.ExprStmt:
					if call, isC := x.X.(*ast.CallExpr); isC {
						if fn := callee(cf.info, call); fn != nil && fn.Name() == "SetNT" {
							if se, isS := unparen(call.Fun).(*ast.SelectorExpr); isS && cf.selOn(se.X, "LeftPart", ps[0]) {
								marks = true
							}
						}
					}
				case *ast.AssignStmt:
					if len(x.Lhs) == 1 && len(x.Rhs) == 1 {
						if ix, isI := unparen(x.Lhs[0]).(*ast.IndexExpr); isI && fieldNamed(cf.info, ix.X, "VnSet") && cf.selOn(ix.Index, "LeftPart", ps[0]) {
							// (selOn follows `lhs := r.LeftPart`)
							if cv := constOf(cf.info, x.Rhs[0]); cv != nil && cv.Kind() == constant.Bool && constant.BoolVal(cv) {
								records = true
							}
						}
					}
				}
			}
		}
		ok := marks && records
		r.Check(ok, "C12.a", "R1 PROVENANCE", f.Name, c.pos(f.Decl.Pos()), "every inserted rule marks its left-hand side as a nonterminal and records it in VnSet", "an inserted rule's left-hand side is not marked as nonterminal and recorded in VnSet")
	}
	// C12.b undefined symbols
	if f := c.need(r, "C12.b", "Parser", "RuleVistor", "Process"); f != nil {
		info := f.Pkg.TypesInfo
		var loop *ast.RangeStmt
		ast.Inspect(f.Decl.Body, func(n ast.Node) bool {
			if rs, ok := n.(*ast.RangeStmt); ok {
				if fv := fieldVar(info, rs.X); fv != nil && fv.Name() == "RightPart" {
					loop = rs
				}
			}
			return true
		})
		if loop == nil {
			r.Undecided("C12.b", "R2 ORDER", f.Name+"/undefined-symbol-check", c.pos(f.Decl.Pos()), "no loop over a rule's right-hand side")
		} else {
			pe := newPathEnum(info)
			if v := identObj(info, loop.Value); v != nil {
				pe.rename[v] = "RIGHT"
			}
			paths, err := pe.Enumerate(loop.Body.List)
			bad := ""
			if err != nil {
				bad = err.Error()
			}
			nUse := 0
			for _, p := range paths {
				// paths that append a symbol to the rule must have established lookup != nil; lookup == nil must panic
				isNil, decided := false, false
				for _, cd := range p.Conds {
					a := cd.Atom
					if a.Op == "cmp" && len(a.Args) == 2 && a.Args[0].Op == "index" && strings.HasSuffix(a.Args[0].Args[0].String(), "idsymtabl") &&
						a.Args[0].Args[1].String() == "RIGHT.Element" && a.Args[1].Op == "leaf" && a.Args[1].Name == "nil" {
						decided = true
						isNil = cd.Pol == (a.Name == "==")
					}
				}
				appends := false
				for _, e := range p.Effects {
					if e.Kind == "store" && strings.HasSuffix(e.LHS.String(), ".RighPart") {
						appends = true
					}
				}
				if appends {
					nUse++
					if !decided || isNil {
						bad = "a right-hand symbol is used without the `== nil` test having failed first"
					}
				}
				if decided && isNil && p.Kind != "panic" {
					bad = "an undefined right-hand symbol does not stop generation with a diagnostic (outcome " + p.Kind + ")"
				}
			}
			if nUse == 0 {
				bad = "no path appends the symbol to the rule"
			}
			r.Check(bad == "", "C12.b", "R2 ORDER", f.Name+"/undefined-symbol-check", c.pos(loop.Pos()),
				"every right-hand symbol is looked up and a missing one panics with a diagnostic before it is used", bad)
		}
	}
	if f := c.need(r, "C12.b", "Parser", "Walker", "BuildLALR1"); f != nil {
		info := f.Pkg.TypesInfo
		fc := buildCFG(info, f.Decl.Body)
		var goto_, lalr, prodTest, ruleless ast.Node
		ast.Inspect(f.Decl.Body, func(n ast.Node) bool {
			switch x := n.(type) {
			case *ast.CallExpr:
				if fn := callee(info, x); fn != nil {
					switch fn.Name() {
					case "ComputeAllGoto":
						goto_ = x
					case "ComputeLALR":
						lalr = x
					case "CalculateCanTerminate":
						prodTest = x
					}
				}
			}
			return true
		})
		// the rule-less test: a loop over ALL symbols of the grammar in which every nonterminal (and nothing narrower)
		// is looked up in VnSet and a miss leaves with a diagnostic
		rulelessWhy := "no loop over the grammar's Symbols"
		{
			cf := newCoverFn(f)
			for _, rs := range cf.rangesOver(nil, func(e ast.Expr) bool { return fieldNamed(info, e, "Symbols") }) {
				elem := identObj(info, rs.Value)
				if elem == nil {
					continue
				}
				rulelessWhy = "the loop over the symbols has no `_, ok := VnSet[<symbol>]; !ok → abort` test"
				ast.Inspect(rs.Body, func(n ast.Node) bool {
					is, ok := n.(*ast.IfStmt)
					if !ok || is.Init == nil || !endsInExit(is.Body) {
						return true
					}
					as, ok := is.Init.(*ast.AssignStmt)
					if !ok || len(as.Lhs) != 2 || len(as.Rhs) != 1 {
						return true
					}
					ix, ok := unparen(as.Rhs[0]).(*ast.IndexExpr)
					if !ok || !fieldNamed(info, ix.X, "VnSet") || identObj(info, ix.Index) != elem {
						return true
					}
					okObj := identObj(info, as.Lhs[1])
					// the test's own condition: `!ok`, possibly joined with `<symbol>.IsNonTerminator`
					extra := ""
					sawNT := false
					sawNotOK := false
					for _, cj := range flattenAnd(is.Cond) {
						if un, isNot := unparen(cj).(*ast.UnaryExpr); isNot && un.Op == token.NOT && okObj != nil && identObj(info, un.X) == okObj {
							sawNotOK = true
						} else if se, ok := unparen(cj).(*ast.SelectorExpr); ok && fieldNamed(info, se, "IsNonTerminator") && identObj(info, se.X) == elem {
							sawNT = true
						} else {
							extra = exprString(cj)
						}
					}
					if !sawNotOK {
						return true
					}
					// guards between the loop and the test: exactly `<symbol>.IsNonTerminator`
					for cur := ast.Node(is); cur != nil && cur != ast.Node(rs.Body); cur = cf.pm[cur] {
						if par, ok := cf.pm[cur].(*ast.IfStmt); ok && cur == ast.Node(par.Body) {
							for _, cj := range flattenAnd(par.Cond) {
								if se, ok := unparen(cj).(*ast.SelectorExpr); ok && fieldNamed(info, se, "IsNonTerminator") && identObj(info, se.X) == elem {
									sawNT = true
								} else {
									extra = exprString(cj)
								}
							}
						}
					}
					for _, st := range rs.Body.List {
						if st.End() <= is.Pos() {
							if x, ok := st.(*ast.IfStmt); ok && endsInExit(x.Body) {
								if br, ok := x.Body.List[len(x.Body.List)-1].(*ast.BranchStmt); ok && br.Tok == token.CONTINUE {
									// the guard-clause form of the IsNonTerminator test: `if !sym.IsNonTerminator { continue }`
									if un, isNot := unparen(x.Cond).(*ast.UnaryExpr); isNot && un.Op == token.NOT && len(x.Body.List) == 1 {
										if se, ok := unparen(un.X).(*ast.SelectorExpr); ok && fieldNamed(info, se, "IsNonTerminator") && identObj(info, se.X) == elem {
											sawNT = true
											continue
										}
									}
									extra = "continue when " + exprString(x.Cond)
								}
							}
						}
					}
					switch {
					case extra != "":
						rulelessWhy = "the rule-less test is skipped for some nonterminals (extra condition `" + extra + "`)"
					case !sawNT:
						rulelessWhy = "the rule-less test is not applied to the nonterminals"
					default:
						rulelessWhy = ""
						ruleless = is.Cond
					}
					return true
				})
				if rulelessWhy == "" {
					break
				}
			}
		}
		bad := ""
		if goto_ == nil || lalr == nil || prodTest == nil {
			bad = fmt.Sprintf("anchors missing (ComputeAllGoto %v, ComputeLALR %v, productivity test %v)", goto_ != nil, lalr != nil, prodTest != nil)
		} else if ruleless == nil {
			bad = "nonterminals without rules are not all rejected: " + rulelessWhy
		} else {
			if !fc.Dominates(prodTest, goto_) || !fc.Dominates(prodTest, lalr) {
				bad = "the productivity test does not precede the automaton construction on every path"
			}
			if ruleless.Pos() > goto_.Pos() {
				bad = "the test for nonterminals without rules follows the automaton construction"
			}
		}
		// the productivity test's result aborts
		aborts := false
		ast.Inspect(f.Decl.Body, func(n ast.Node) bool {
			if is, ok := n.(*ast.IfStmt); ok && is.Init != nil {
				if as, ok := is.Init.(*ast.AssignStmt); ok && len(as.Rhs) == 1 {
					if call, ok := as.Rhs[0].(*ast.CallExpr); ok && ast.Node(call) == prodTest {
						if strings.Contains(exprString(is.Cond), "len(") && strings.Contains(exprString(is.Cond), "!= 0") && endsInExit(is.Body) {
							aborts = true
						}
					}
				}
			}
			return true
		})
		if bad == "" && !aborts {
			bad = "a non-empty list of unproductive nonterminals does not abort generation"
		}
		r.Check(bad == "", "C12.b", "R2 ORDER", f.Name+"/checks-dominate-construction", c.pos(f.Decl.Pos()),
			"nonterminals without rules and unproductive nonterminals abort with a diagnostic before the automaton and the tables are built", bad)
	}
	if f := c.need(r, "C12.b", "Parser", "", "ParseAndBuild"); f != nil {
		pe := newPathEnum(f.Pkg.TypesInfo)
		paths, err := pe.Enumerate(f.Decl.Body.List)
		ok := err == nil
		n := 0
		for _, p := range paths {
			failed := false
			for _, cd := range p.Conds {
				if strings.Contains(cd.Atom.String(), "Parser.Parse(") && strings.Contains(cd.Atom.String(), "result1") {
					ne := cd.Atom.Name == "!="
					failed = ne == cd.Pol
				}
			}
			if failed {
				n++
				if p.Kind != "return" || len(p.Vals) != 2 || !strings.Contains(p.Vals[1].String(), "result1") || hasCall(p, "BuildLALR1") != "" {
					ok = false
				}
			}
		}
		r.Check(ok && n > 0, "C12.b", "R2 ORDER", f.Name+"/parse-error-propagated", c.pos(f.Decl.Pos()), "a syntax error of the grammar file is returned to the caller and nothing is built", "Parse's error is not returned unchanged before anything is built")
	}
	// state limit (reported)
	if f := c.Func("Grammar", "Grammar", "ComputeAllGoto"); f != nil {
		info := f.Pkg.TypesInfo
		ast.Inspect(f.Decl.Body, func(n ast.Node) bool {
			if be, ok := n.(*ast.BinaryExpr); ok && be.Op == token.GEQ {
				if v, isC := constInt(info, be.Y); isC {
					r.Note("built-in state limit read from ComputeAllGoto: %d", v)
					r.Extra["C12_state_limit"] = v
				}
			}
			return true
		})
	}
}
