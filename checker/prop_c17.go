package main

// C17 — the parse trace tells the truth.

import (
	"fmt"
	"go/ast"
	"go/token"
	"go/types"
	"strings"
)

func init() { register("C17", checkC17) }

func checkC17(c *Ctx, r *Report) {
	r.Explanation = "R2/R1 on the Go skeletons and the trace builders: stack slots are written only in PushStateSym (and ParserInit), which calls TraceShift on the pushed entry first; in the reduce branch TraceReduce(reduceIndex, gotoState, TraceTranslate(lookAhead)) lies between the goto lookup and the push and receives the rule index given to ReduceFunc and the state that is pushed; ReduceTrace case i is built from the visitor's rule i−1 (the same offset as the reduce cases, C01.c) over all rules; TranslateTrace covers every grammar symbol with id → display name; every trace print is guarded by IsTrace and by nothing else. Not decided: the printed text on any input; that the run is a legal run of the automaton (follows from C01)."
	displayNameRule(c, r, "C17.c")
	st := c.GetStaged()
	stagedErrors(r, "C17", st)
	for _, sk := range quickSkeletons(st) {
		name := "skeleton " + sk.V.Name
		if sk.File == nil || len(sk.TypeErs) > 0 {
			r.Undecided("C17.a", "R2 ORDER", name, sk.pos(token.NoPos), "skeleton does not type-check (see C16)")
			continue
		}
		recv := map[bool]string{true: "Context", false: ""}[sk.V.Object]
		// (1) who writes stack slots
		writers := stackSlotWriters(sk)
		allowed := map[string]bool{"PushStateSym": true, "Context.PushStateSym": true, "ParserInit": true, "Context.ParserInit": true, "PopContex": true}
		bad := ""
		for _, w := range writers {
			if !allowed[w] {
				bad = w
			}
		}
		r.Check(bad == "", "C17.a", "WHO-WRITES", name+"/stack-slots", sk.pos(token.NoPos), fmt.Sprintf("stack slots are written only by %v", writers), "stack slots are also written by "+bad+": such a push is not traced")
		// (2) PushStateSym calls TraceShift(state) before storing
		if push := sk.FuncDecl(recv, "PushStateSym"); push != nil {
			pe := newPathEnum(sk.Info)
			paths, err := pe.Enumerate(push.Body.List)
			ok := err == nil && len(paths) > 0
			for _, p := range paths {
				first := ""
				for _, e := range p.Effects {
					if e.Kind == "call" || e.Kind == "store" {
						first = e.String()
						break
					}
				}
				if !strings.HasPrefix(first, "call main.TraceShift(") {
					ok = false
				}
			}
			r.Check(ok, "C17.a", "R2 ORDER", name+"/PushStateSym-traces-first", sk.pos(push.Pos()), "every push reports the entry being pushed through TraceShift before storing it", "PushStateSym does not call TraceShift on the pushed entry before storing it")
		}
		// (3) TraceShift prints symbol and state of its argument, guarded by IsTrace only
		for _, tf := range []string{"TraceShift", "TraceReduce"} {
			fd := sk.FuncDecl("", tf)
			if fd == nil {
				r.Fail("C17.a", "R2 ORDER", name+"/"+tf, sk.pos(token.NoPos), "no "+tf+" in the generated parser")
				continue
			}
			// by paths: with IsTrace false nothing happens; every path that prints has tested IsTrace true and, apart
			// from that, only looked at the function's own parameters (the case selection of TraceReduce)
			ok := false
			pe := newPathEnum(sk.Info)
			for _, po := range paramObjs(sk.Info, fd) {
				pe.rename[po] = "PARAM"
			}
			if paths, err := pe.Enumerate(fd.Body.List); err == nil && len(paths) > 0 {
				ok = true
				for _, p := range paths {
					on, tested := false, false
					for _, cd := range p.Conds {
						s := cd.Atom.String()
						switch {
						case s == "main.IsTrace" || s == "IsTrace":
							tested, on = true, cd.Pol
						case strings.Contains(s, "PARAM"):
						default:
							ok = false // some other condition decides whether the trace is printed
						}
					}
					effects := 0
					for _, e := range p.Effects {
						if e.Kind == "call" || e.Kind == "store" {
							effects++
						}
					}
					if !tested || (!on && effects > 0) {
						ok = false
					}
				}
			}
			r.Check(ok, "C17.a", "R2 ORDER", name+"/"+tf+"-guarded-by-IsTrace", sk.pos(fd.Pos()), tf+" is exactly `if IsTrace { … }`", tf+" is not guarded by IsTrace alone")
		}
		if ts := sk.FuncDecl("", "TraceShift"); ts != nil {
			// a print whose arguments include TraceTranslate(<entry>.YySymIndex) and <entry>.Yystate of the pushed entry
			ok := false
			var entry types.Object
			if ts.Type.Params != nil && len(ts.Type.Params.List) == 1 && len(ts.Type.Params.List[0].Names) == 1 {
				entry = sk.Info.Defs[ts.Type.Params.List[0].Names[0]]
			}
			ast.Inspect(ts.Body, func(n ast.Node) bool {
				call, isC := n.(*ast.CallExpr)
				if !isC || entry == nil {
					return true
				}
				if fn := callee(sk.Info, call); fn == nil || !isFmtPrint(fn, call) {
					return true
				}
				sym, state := false, false
				for _, a := range call.Args {
					if tc, isT := unparen(a).(*ast.CallExpr); isT && len(tc.Args) == 1 {
						if fn := callee(sk.Info, tc); fn != nil && fn.Name() == "TraceTranslate" {
							if se, isS := unparen(tc.Args[0]).(*ast.SelectorExpr); isS && se.Sel.Name == "YySymIndex" && identObj(sk.Info, se.X) == entry {
								sym = true
							}
						}
					}
					if se, isS := unparen(a).(*ast.SelectorExpr); isS && se.Sel.Name == "Yystate" && identObj(sk.Info, se.X) == entry {
						state = true
					}
				}
				if sym && state {
					ok = true
				}
				return true
			})
			r.Check(ok, "C17.a", "R1 PROVENANCE", name+"/TraceShift-arguments", sk.pos(ts.Pos()), "the shift line shows the pushed entry's own symbol and state", "the shift line does not print the pushed entry's symbol and state")
		}
		// (4) reduce branch: TraceReduce(reduceIndex, gotoState, TraceTranslate(lookAhead)) between lookup and push
		d := analyseDriver(sk)
		if d.err != "" {
			r.Undecided("C17.b", "R2 ORDER", name+"/Parser", sk.pos(token.NoPos), d.err)
			continue
		}
		ps := d.classPaths(constantInt(-3))
		bad = ""
		if len(ps) != 1 {
			bad = "no single reduce path"
		} else {
			var seq []string
			var trArgs, rfArg, gotoTerm, pushedState, pushedLHS string
			for _, e := range ps[0].Effects {
				if e.Kind == "store" && strings.HasSuffix(e.LHS.String(), ".Yystate") {
					pushedState = e.Term.String()
					pushedLHS = e.LHS.String()
				}
				if e.Kind != "call" {
					continue
				}
				n := e.Term.Name
				if i := strings.LastIndex(n, "."); i >= 0 {
					n = n[i+1:]
				}
				switch n {
				case "ReduceFunc":
					seq = append(seq, n)
					rfArg = e.Term.Args[len(e.Term.Args)-1].String()
				case "Action":
					if e.Term.String() != d.aStr {
						seq = append(seq, "goto")
						gotoTerm = e.Term.String()
					}
				case "TraceReduce":
					seq = append(seq, n)
					var as []string
					for _, a := range e.Term.Args {
						as = append(as, a.String())
					}
					trArgs = strings.Join(as, " | ")
				case "PushStateSym":
					seq = append(seq, "push")
				}
			}
			if strings.Join(seq, ",") != "ReduceFunc,goto,TraceReduce,push" {
				bad = "the reduce branch performs " + strings.Join(seq, ",") + ", required ReduceFunc, goto lookup, TraceReduce, push"
			} else {
				want := rfArg + " | " + gotoTerm + " | main.TraceTranslate(" + d.aTerm.Args[len(d.aTerm.Args)-1].String() + ")"
				// the state may be reported from the field it was just stored into (`e.Yystate = goto; TraceReduce(r, e.Yystate, …)`)
				alt := rfArg + " | " + pushedLHS + " | main.TraceTranslate(" + d.aTerm.Args[len(d.aTerm.Args)-1].String() + ")"
				if trArgs != want && !(pushedLHS != "" && pushedState == gotoTerm && trArgs == alt) {
					bad = "TraceReduce receives (" + trArgs + "), required the rule index given to ReduceFunc, the goto state and the lookahead's name (" + want + ")"
				}
				if pushedState != gotoTerm {
					bad = "the state reported by TraceReduce is not the state stored into the pushed entry"
				}
			}
		}
		r.Check(bad == "", "C17.b", "R2 ORDER", name+"/reduce-is-traced-with-its-own-rule", sk.pos(d.loop.Pos()),
			"TraceReduce sits between the goto lookup and the push and reports the reduced rule's index, the state being pushed and the triggering lookahead", bad)
	}
	// the names printed by the trace are safe where they land (a '%' or '"' in a token must not change the line)
	if scq := configOf(st, "go/global/packed"); scq != nil && scq.Tree != nil {
		sub := &Report{Prop: "C17", Extra: map[string]interface{}{}}
		saved := holeSeenGlobal
		holeSeenGlobal = map[string]bool{}
		c16HoleContexts(c, sub, scq)
		holeSeenGlobal = saved
		for _, o := range sub.Obls {
			if strings.Contains(o.Construct, "buildTranslate") {
				n := r.add("C17.c←"+o.Clause, o.Rule, o.Construct, o.Pos, o.Verdict, o.Detail)
				n.Nontriv = true
			}
		}
	}
	// builders: ReduceTrace and TranslateTrace
	sc := configOf(st, "go/global/dense")
	if sc == nil {
		r.Undecided("C17.c", "R1 PROVENANCE", "Builder.(*TemplateBuilder).buildTranslate", "Builder", "configuration not staged")
		return
	}
	if sh, pos := fieldShapeOf(sc.Eval, "ReduceTrace"); sh != nil {
		parts := flatten(sh)
		label := holeAfter(parts, "case ")
		loops := loopsIn(sh)
		ok := label != nil && label.Path == "$i" && len(loops) > 0 && loops[0].Lo == 1 && loops[0].Over == "len(recv.vnode.LALR1.G.ProductoinRules)"
		bad := ""
		names := 0
		for _, h := range holesOf(sh) {
			if strings.Contains(h.Path, ".Name") {
				names++
				if !strings.Contains(h.Path, "GetRules(($i - 1))") {
					bad = h.Path
				}
			}
		}
		r.Check(ok && bad == "" && names >= 2, "C17.c", "R1 PROVENANCE", "Builder.(*TemplateBuilder).buildTranslate/ReduceTrace", c.pos(pos),
			"case i (i from 1 over all grammar rules) prints the left- and right-hand side names of the visitor's rule i−1, the rule ReduceFunc's case i executes",
			fmt.Sprintf("the rule text of case i is not built from user rule i−1 over all rules (label=%v, loop=%v, offending hole=%s)", label, loops, bad))
		// both the left and the right-hand side appear
		hasL, hasR := false, false
		for _, h := range holesOf(sh) {
			if strings.Contains(h.Path, ".LeftPart.Name") {
				hasL = true
			}
			if strings.Contains(h.Path, "RighPart).Name") {
				hasR = true
			}
		}
		// … each by its display name (RemoveTempName(Name): the identifier, or 'c' for a literal), unconditionally,
		// the right-hand side through one loop over the rule's RighPart
		why := ""
		if !hasL || !hasR {
			why = "the rule text omits the left- or right-hand side"
		}
		walkShape(sh, func(x Shape) {
			if _, isAlt := x.(*SAlt); isAlt && why == "" {
				why = "part of the rule text is conditional: some symbols are shown differently from others"
			}
		})
		lhsPath := "Parser.RemoveTempName(recv.vnode.GetRules(($i - 1)).LeftPart.Name)"
		rhsPath := "Parser.RemoveTempName(elem(recv.vnode.GetRules(($i - 1)).RighPart).Name)"
		nL, nR := 0, 0
		for _, h := range holesOf(sh) {
			if !isStringType(h.Typ) {
				continue
			}
			switch h.Path {
			case lhsPath:
				nL++
			case rhsPath:
				nR++
			default:
				if why == "" {
					why = "the rule text contains " + h.Path + ", which is not the display name (RemoveTempName(Name)) of a symbol of rule i−1"
				}
			}
		}
		if why == "" && (nL != 1 || nR != 1) {
			why = fmt.Sprintf("the rule text shows the left-hand side %d time(s) and the right-hand symbols through %d name hole(s), expected one each", nL, nR)
		}
		rhsLoop := false
		for _, lp := range loopsIn(sh) {
			if lp.Over == "recv.vnode.GetRules(($i - 1)).RighPart" {
				rhsLoop = true
			}
		}
		if why == "" && !rhsLoop {
			why = "the right-hand side is not produced by a loop over the rule's RighPart"
		}
		r.Check(why == "", "C17.c", "R1 PROVENANCE", "Builder.(*TemplateBuilder).buildTranslate/ReduceTrace-rule-text", c.pos(pos),
			"the rule text is `lhs -> x1 x2 …`: the display name of the left-hand side and, in one unconditional loop over RighPart, the display name of every right-hand symbol", why)
	} else {
		r.Fail("C17.c", "R1 PROVENANCE", "Builder.(*TemplateBuilder).buildTranslate/ReduceTrace", "Builder/GoTemplBuilder.go", "ReduceTrace is never built")
	}
	if sh, pos := fieldShapeOf(sc.Eval, "TranslateTrace"); sh != nil {
		parts := flatten(sh)
		label := holeAfter(parts, "case ")
		loops := loopsIn(sh)
		var nameHole *SHole
		for _, h := range holesOf(sh) {
			if strings.Contains(h.Path, ".Name") {
				nameHole = h
			}
		}
		uncond := true
		walkShape(sh, func(x Shape) {
			if _, ok := x.(*SAlt); ok {
				uncond = false
			}
		})
		ok := label != nil && label.Path == "elem(recv.vnode.LALR1.G.Symbols).ID" && len(loops) == 1 && loops[0].Over == "recv.vnode.LALR1.G.Symbols" && uncond &&
			nameHole != nil && nameHole.Path == "Parser.RemoveTempName(elem(recv.vnode.LALR1.G.Symbols).Name)"
		r.Check(ok, "C17.c", "R1 PROVENANCE", "Builder.(*TemplateBuilder).buildTranslate/TranslateTrace", c.pos(pos),
			"one case per grammar symbol, unconditionally: symbol id → its own display name",
			"TranslateTrace does not map every symbol's id to that symbol's own name")
	} else {
		r.Fail("C17.c", "R1 PROVENANCE", "Builder.(*TemplateBuilder).buildTranslate/TranslateTrace", "Builder/GoTemplBuilder.go", "TranslateTrace is never built")
	}
}
