package main

// C11 — token codes are unique and the lexer interface is consistent.

import (
	"fmt"
	"go/ast"
	"go/token"
	"go/types"
	"strings"
)

func init() { register("C11", checkC11) }

func checkC11(c *Ctx, r *Report) {
	r.Explanation = "R2 ORDER: in the declaration visitor the scan for the maximum explicit/literal code covers every identifier of every declaration list and precedes the automatic numbering; literals first seen in precedence lines or rules are flushed into the declaration list on every non-error exit of their sub-parser. R3: automatic codes are the pre-incremented maximum (initial value 2, above −1 and 0), nonterminals continue the same counter — so automatic codes are above every explicit and literal code. R1: the const block pairs (Name, Value) of one identifier, the translate switch pairs (Value, ID) of one symbol over all terminals including the end marker, Symbol.Value is copied from the identifier's Value, the default of translate is the error column. Sibling rule: the three places that create a character-literal identity compute its code with the same expression, and that expression decodes a character (rune), not a byte. Not decided: uniqueness when the user's explicit numbers collide (excluded by the property), duplicate case labels that result from that."
	st := c.GetStaged()
	stagedErrors(r, "C11", st)
	c11a(c, r)
	c11b(c, r)
	c11c(c, r, st)
	c11d(c, r)
	c11e(c, r)
	c11f(c, r)
	c11g(c, r)
	c11Flows(c, r)
	// a character literal's token is the character between its quotes: the lexer reads the literal through its closing
	// quote before it emits (C10.d)
	includeSome(r, "C11.d", func(sub *Report) { c10CharLiteralExtent(c, sub, "C10.d") }, "closing-quote")
	c11LiteralValue(c, r, "C11.d")
}

func c11a(c *Ctx, r *Report) {
	const clause = "C11.a"
	f := c.need(r, clause, "Parser", "astDeclareVistor", "Process")
	if f == nil {
		return
	}
	info := f.Pkg.TypesInfo
	// the max scan: loop over TokenDefList × IdentifyList with `if id.Value > max { max = id.Value }`
	var scan, number ast.Stmt
	scanOK := false
	var walk func(list []ast.Stmt)
	walk = func(list []ast.Stmt) {
		for _, s := range list {
			switch x := s.(type) {
			case *ast.IfStmt:
				walk(x.Body.List)
			case *ast.RangeStmt:
				if fv := fieldVar(info, x.X); fv != nil && fv.Name() == "TokenDefList" {
					scan = x
					// inner loop over IdentifyList; first statement-level if updates the maximum unconditionally
					for _, in := range x.Body.List {
						rs, ok := in.(*ast.RangeStmt)
						if !ok {
							continue
						}
						if fv2 := fieldVar(info, rs.X); fv2 == nil || fv2.Name() != "IdentifyList" {
							continue
						}
						for _, bs := range rs.Body.List {
							is, ok := bs.(*ast.IfStmt)
							if !ok {
								continue
							}
							be, ok := unparen(is.Cond).(*ast.BinaryExpr)
							if !ok || (be.Op != token.GTR && be.Op != token.LSS) {
								continue
							}
							fa, fb := fieldVar(info, be.X), fieldVar(info, be.Y)
							if be.Op == token.LSS { // `max < id.Value`
								fa, fb = fb, fa
							}
							if fa != nil && fb != nil && fa.Name() == "Value" && fb.Name() == "idMaxValue" && len(is.Body.List) == 1 {
								if as, ok := is.Body.List[0].(*ast.AssignStmt); ok && len(as.Lhs) == 1 {
									if fl := fieldVar(info, as.Lhs[0]); fl != nil && fl.Name() == "idMaxValue" {
										if fr := fieldVar(info, as.Rhs[0]); fr != nil && fr.Name() == "Value" {
											scanOK = true
										}
									}
								}
							}
						}
					}
				}
				// numbering loop: a loop whose body increments idMaxValue
				inc := false
				ast.Inspect(x.Body, func(n ast.Node) bool {
					if id, ok := n.(*ast.IncDecStmt); ok {
						if fv := fieldVar(info, id.X); fv != nil && fv.Name() == "idMaxValue" {
							inc = true
						}
					}
					return true
				})
				if inc {
					number = x
				}
			}
		}
	}
	walk(f.Decl.Body.List)
	if scan == nil || number == nil {
		r.Undecided(clause, "R2 ORDER", f.Name+"/max-scan-before-numbering", c.pos(f.Decl.Pos()), "max-scan loop or numbering loop not found")
	} else {
		fc := buildCFG(info, f.Decl.Body)
		_ = fc
		r.Check(scanOK && scan.End() < number.Pos(), clause, "R2 ORDER", f.Name+"/max-scan-before-numbering", c.pos(scan.Pos()),
			"every identifier of every declaration list raises the maximum before any automatic code is handed out",
			fmt.Sprintf("the scan for the largest explicit/literal code does not cover every declared identifier unconditionally (%v) or does not precede the numbering loop: an automatic code can collide with an explicit one", scanOK))
	}
	// flush of literal-only token definitions
	for _, fn := range []string{"parsePrecList", "parseRule"} {
		g := c.need(r, clause, "Parser", "parser", fn)
		if g == nil {
			continue
		}
		ginfo := g.Pkg.TypesInfo
		fc := buildCFG(ginfo, g.Decl.Body)
		// appends to the local Tokdef.IdentifyList
		var appends []ast.Node
		var local types.Object
		ast.Inspect(g.Decl.Body, func(n ast.Node) bool {
			if as, ok := n.(*ast.AssignStmt); ok && len(as.Lhs) == 1 {
				if fv := fieldVar(ginfo, as.Lhs[0]); fv != nil && fv.Name() == "IdentifyList" && isAppendSelf(ginfo, as.Lhs[0], as.Rhs[0]) {
					appends = append(appends, as)
					local = rootObject(ginfo, as.Lhs[0])
				}
			}
			return true
		})
		if len(appends) == 0 || local == nil {
			r.Undecided(clause, "R2 ORDER", g.Name+"/literal-tokens-flushed", c.pos(g.Decl.Pos()), "no collection of implicitly declared literals")
			continue
		}
		// the collection may also be handed back as a result: then every caller must append that result to a list
		handedBack := false
		{
			resIdx := -1
			ast.Inspect(g.Decl.Body, func(n ast.Node) bool {
				if rs, ok := n.(*ast.ReturnStmt); ok {
					for k, res := range rs.Results {
						if identObj(ginfo, res) == local {
							resIdx = k
						}
					}
				}
				return true
			})
			if resIdx >= 0 {
				nCallers, nOK := 0, 0
				for _, cf := range c.AllFuncs() {
					if cf.Pkg != g.Pkg {
						continue
					}
					ast.Inspect(cf.Decl.Body, func(n ast.Node) bool {
						as, ok := n.(*ast.AssignStmt)
						if !ok || len(as.Rhs) != 1 || resIdx >= len(as.Lhs) {
							return true
						}
						call, ok := as.Rhs[0].(*ast.CallExpr)
						if !ok || callee(ginfo, call) != g.Obj {
							return true
						}
						nCallers++
						tv := identObj(ginfo, as.Lhs[resIdx])
						ast.Inspect(cf.Decl.Body, func(m ast.Node) bool {
							if ap, ok := m.(*ast.CallExpr); ok && builtinName(ginfo, ap) == "append" && len(ap.Args) == 2 && tv != nil && identObj(ginfo, ap.Args[1]) == tv {
								nOK++
								return false
							}
							return true
						})
						return true
					})
				}
				handedBack = nCallers > 0 && nOK >= nCallers
			}
		}
		isFlush := func(n ast.Node) bool {
			// `*list = append(*list, Tokdef)` possibly guarded by `if len(Tokdef.IdentifyList) != 0`, or an error exit `return nil`
			found := false
			ast.Inspect(n, func(m ast.Node) bool {
				if call, ok := m.(*ast.CallExpr); ok && builtinName(ginfo, call) == "append" && len(call.Args) == 2 && identObj(ginfo, call.Args[1]) == local {
					found = true
				}
				if be, ok := m.(*ast.BinaryExpr); ok && (be.Op == token.NEQ || be.Op == token.GTR || be.Op == token.LSS) && (strings.Contains(exprString(be.X), local.Name()+".IdentifyList") || strings.Contains(exprString(be.Y), local.Name()+".IdentifyList")) {
					found = true // the guard of the flush: empty collections need no flush
				}
				if rs, ok := m.(*ast.ReturnStmt); ok && handedBack {
					for _, res := range rs.Results {
						if identObj(ginfo, res) == local {
							found = true // handed to the caller, which adds it to the declaration list (checked below)
						}
					}
				}
				if rs, ok := m.(*ast.ReturnStmt); ok && len(rs.Results) == 1 {
					if id, ok := rs.Results[0].(*ast.Ident); ok && id.Name == "nil" {
						found = true // error exit
					}
				}
				return true
			})
			return found
		}
		ok := true
		for _, a := range appends {
			if !fc.EveryPathToExitPasses(a, isFlush) {
				ok = false
			}
		}
		r.Check(ok, clause, "R2 ORDER", g.Name+"/literal-tokens-flushed", c.pos(appends[0].Pos()),
			"literals that are first seen here are added to the declaration list on every non-error exit, so the declaration visitor's max-scan sees them",
			"a character literal first seen here can leave the function without being added to the declaration list: it would be unknown to the declaration visitor")
	}
}

func c11b(c *Ctx, r *Report) {
	const clause = "C11.b"
	// initial value
	if f := c.need(r, clause, "Parser", "RootVistor", "Process"); f != nil {
		info := f.Pkg.TypesInfo
		v := int64(-99)
		ast.Inspect(f.Decl.Body, func(n ast.Node) bool {
			if kv, ok := n.(*ast.KeyValueExpr); ok {
				if k, ok := kv.Key.(*ast.Ident); ok && k.Name == "idMaxValue" {
					if x, ok := constInt(info, kv.Value); ok {
						v = x
					}
				}
			}
			return true
		})
		r.Check(v >= 1, clause, "R3 LOCKSTEP", f.Name+"/initial-maximum", c.pos(f.Decl.Pos()), fmt.Sprintf("the maximum starts at %d: automatic codes start above 0 and −1", v), fmt.Sprintf("the maximum starts at %d: an automatic code could be 0 (unnumbered marker) or collide with the end marker −1", v))
	}
	// pre-increment in both numbering sites
	for _, site := range []struct{ recv, fn string }{{"astDeclareVistor", "Process"}, {"RuleVistor", "Process"}} {
		f := c.need(r, clause, "Parser", site.recv, "Process")
		if f == nil {
			continue
		}
		info := f.Pkg.TypesInfo
		n, bad := 0, ""
		ast.Inspect(f.Decl.Body, func(nd ast.Node) bool {
			blk, ok := nd.(*ast.BlockStmt)
			if !ok {
				return true
			}
			for i, s := range blk.List {
				id, ok := s.(*ast.IncDecStmt)
				if !ok || id.Tok != token.INC {
					continue
				}
				if fv := fieldVar(info, id.X); fv == nil || fv.Name() != "idMaxValue" {
					continue
				}
				n++
				// the next statement uses the counter as the new Value
				used := false
				for _, t := range blk.List[i+1:] {
					ast.Inspect(t, func(m ast.Node) bool {
						switch x := m.(type) {
						case *ast.AssignStmt:
							for j, l := range x.Lhs {
								if fl := fieldVar(info, l); fl != nil && fl.Name() == "Value" && j < len(x.Rhs) {
									if fr := fieldVar(info, x.Rhs[j]); fr != nil && fr.Name() == "idMaxValue" {
										used = true
									}
								}
							}
						case *ast.KeyValueExpr:
							if k, ok := x.Key.(*ast.Ident); ok && k.Name == "Value" {
								if fr := fieldVar(info, x.Value); fr != nil && fr.Name() == "idMaxValue" {
									used = true
								}
							}
						}
						return true
					})
				}
				// and no use of the counter as a Value before the increment in this block
				for _, t := range blk.List[:i] {
					ast.Inspect(t, func(m ast.Node) bool {
						if kv, ok := m.(*ast.KeyValueExpr); ok {
							if k, ok := kv.Key.(*ast.Ident); ok && k.Name == "Value" {
								if fr := fieldVar(info, kv.Value); fr != nil && fr.Name() == "idMaxValue" {
									bad = "the counter is used as a code before it is incremented"
								}
							}
						}
						return true
					})
				}
				if !used {
					bad = "the incremented counter is not the code that is assigned"
				}
			}
			return true
		})
		r.Check(n == 1 && bad == "", clause, "R3 LOCKSTEP", f.Name+"/pre-incremented-code", c.pos(f.Decl.Pos()),
			"the counter is incremented first and its new value becomes the identifier's code: strictly above every code seen so far",
			fmt.Sprintf("automatic numbering is not 'increment, then assign' (%d increments; %s)", n, bad))
	}
	// the automatic numbering applies to identifiers whose Value is 0 only
	if f := c.Func("Parser", "astDeclareVistor", "Process"); f != nil {
		info := f.Pkg.TypesInfo
		ok := false
		ast.Inspect(f.Decl.Body, func(n ast.Node) bool {
			is, isIf := n.(*ast.IfStmt)
			if !isIf {
				return true
			}
			be, isB := unparen(is.Cond).(*ast.BinaryExpr)
			if !isB || be.Op != token.EQL {
				return true
			}
			if fv := fieldVar(info, be.X); fv != nil && fv.Name() == "Value" {
				if v, isC := constInt(info, be.Y); isC && v == 0 {
					for _, s := range is.Body.List {
						if id, isInc := s.(*ast.IncDecStmt); isInc {
							if fvv := fieldVar(info, id.X); fvv != nil && fvv.Name() == "idMaxValue" {
								ok = true
							}
						}
					}
				}
			}
			return true
		})
		r.Check(ok, clause, "R4 DECISION-TABLE", f.Name+"/only-unnumbered-get-automatic-codes", c.pos(f.Decl.Pos()),
			"only identifiers without a code (Value == 0) are numbered automatically: explicit numbers and literal codes are kept",
			"automatic numbering is not restricted to identifiers whose Value is 0: explicit numbers or literal codes can be overwritten")
	}
}

func c11c(c *Ctx, r *Report, st *Staged) {
	const clause = "C11.c"
	type be struct {
		name string
		ev   *ShapeEval
	}
	var bes []be
	if sc := configOf(st, "go/global/dense"); sc != nil {
		bes = append(bes, be{"Builder.(*TemplateBuilder)", sc.Eval})
	}
	if st.TS != nil && st.TS.Eval != nil {
		bes = append(bes, be{"Builder.(*TsBuilder)", st.TS.Eval})
	}
	for _, b := range bes {
		// const part
		if sh, pos := fieldShapeOf(b.ev, "ConstPart"); sh != nil {
			parts := flatten(sh)
			nameH := holeAfter(parts, "const ")
			var valH *SHole
			for i, p := range parts {
				if p.hole == nameH && nameH != nil && i+2 < len(parts) && parts[i+1].lit == " = " {
					valH = parts[i+2].hole
				}
			}
			ok := nameH != nil && valH != nil && strings.HasSuffix(nameH.Path, ".Name") && strings.HasSuffix(valH.Path, ".Value") &&
				strings.TrimSuffix(nameH.Path, ".Name") == strings.TrimSuffix(valH.Path, ".Value")
			r.Check(ok, clause, "R1 PROVENANCE", b.name+".buildConstPart/name-value-pair", c.pos(pos),
				"`const NAME = code` pairs the Name and the Value of one identifier", "the emitted constant does not pair the Name and the Value of the same identifier")
			// filter: TERMID and not a literal's temp name
			filt := ""
			var alt *SAlt
			// the guard of the emission: the outermost conditional and, when its taken arm is nothing but another
			// conditional (nested ifs), the conjunction with that one, and so on
			walkShape(sh, func(x Shape) {
				if a, ok := x.(*SAlt); ok && alt == nil {
					alt = a
				}
			})
			var atoms []string
			if alt != nil {
				filt = alt.CondPath
				atoms = append(atoms, alt.CondNNF...)
				for {
					var inner *SAlt
					walkShape(alt.Then, func(x Shape) {
						if a, ok := x.(*SAlt); ok && inner == nil {
							inner = a
						}
					})
					if inner == nil || shapeString(alt.Then) != shapeString(inner) || strings.TrimSpace(shapeString(alt.Else)) != "" {
						break
					}
					filt = "(" + filt + ") && (" + inner.CondPath + ")"
					atoms = append(atoms, inner.CondNNF...)
					alt = inner
				}
			}
			// exactly: IDTyp == TERMID ∧ ¬TestPrefix(Name) of the identifier whose constant is emitted, emitting arm = then
			// (conjuncts with negation pushed inward: `!(IDTyp != TERMID || TestPrefix(Name))` is the same filter)
			filtOK := false
			if alt != nil && nameH != nil {
				base := strings.TrimSuffix(nameH.Path, ".Name")
				want := map[string]bool{"(" + base + ".IDTyp == 1)": false, "!(Parser.TestPrefix(" + base + ".Name))": false}
				extra := false
				for _, a := range atoms {
					if _, ok := want[a]; ok {
						want[a] = true
					} else {
						extra = true
					}
				}
				all := true
				for _, v := range want {
					all = all && v
				}
				emitsThen := strings.Contains(shapeString(alt.Then), "const ") && !strings.Contains(shapeString(alt.Else), "const ")
				filtOK = all && !extra && len(atoms) == 2 && emitsThen
			}
			r.Check(filtOK, clause, "R1 PROVENANCE", b.name+".buildConstPart/filter", c.pos(pos),
				"constants are emitted exactly for named terminals (IDTyp == TERMID and not a character literal's temporary name)", "the constant block is not emitted exactly when `IDTyp == TERMID && !TestPrefix(Name)` holds for the identifier (condition `"+filt+"`)")
		}
		// translate
		if sh, pos := fieldShapeOf(b.ev, "Translate"); sh != nil {
			parts := flatten(sh)
			vH := holeAfter(parts, "case ")
			var idH *SHole
			for i, p := range parts {
				if p.hole == vH && vH != nil && i+2 < len(parts) {
					idH = parts[i+2].hole
				}
			}
			loops := loopsIn(sh)
			filt := ""
			walkShape(sh, func(x Shape) {
				if a, ok := x.(*SAlt); ok {
					filt = a.CondPath
				}
			})
			ok := vH != nil && idH != nil && vH.Path == "elem(recv.vnode.LALR1.G.Symbols).Value" && idH.Path == "elem(recv.vnode.LALR1.G.Symbols).ID" &&
				len(loops) == 1 && loops[0].Over == "recv.vnode.LALR1.G.Symbols" && filt == "!elem(recv.vnode.LALR1.G.Symbols).IsNonTerminator"
			r.Check(ok, clause, "R1 PROVENANCE", b.name+".buildTranslate/code-to-symbol", c.pos(pos),
				"one case per terminal of G.Symbols (the end marker with code −1 included): token code → that symbol's id", "the translate switch does not map every terminal's code to its own symbol id over all of G.Symbols (filter `"+filt+"`)")
		}
	}
	// Symbol.Value ← Idendity.Value ; dollar.Value = -1
	if f := c.need(r, clause, "Parser", "Walker", "BuildLALR1"); f != nil {
		info := f.Pkg.TypesInfo
		copyOK, dollarOK := false, false
		ast.Inspect(f.Decl.Body, func(n ast.Node) bool {
			switch x := n.(type) {
			case *ast.CallExpr:
				if fn := callee(info, x); fn != nil && fn.Name() == "SetValue" && len(x.Args) == 1 {
					if fv := fieldVar(info, x.Args[0]); fv != nil && fv.Name() == "Value" {
						copyOK = true
					}
				}
			case *ast.AssignStmt:
				if len(x.Lhs) == 1 {
					if fv := fieldVar(info, x.Lhs[0]); fv != nil && fv.Name() == "Value" {
						if v, ok := constInt(info, x.Rhs[0]); ok && v == -1 && strings.HasPrefix(exprString(x.Lhs[0]), "dollar") {
							dollarOK = true
						}
					}
				}
			}
			return true
		})
		r.Check(copyOK && dollarOK, clause, "R1 PROVENANCE", f.Name+"/symbol-codes", c.pos(f.Decl.Pos()), "each symbol's code is its identifier's code; the end marker's code is −1", fmt.Sprintf("symbol codes are not copied from the identifiers (%v) or the end marker is not −1 (%v)", copyOK, dollarOK))
	}
}

func c11d(c *Ctx, r *Report) {
	const clause = "C11.d"
	type site struct {
		fn   string
		pos  token.Pos
		path string
		expr ast.Expr
		info *types.Info
	}
	var sites []site
	for _, fn := range []string{"parseTokendef", "parsePrecList", "parseRule"} {
		f := c.need(r, clause, "Parser", "parser", fn)
		if f == nil {
			continue
		}
		info := f.Pkg.TypesInfo
		defs := newDefs(info)
		defs.scan(f.Decl.Body)
		pc := &pathCtx{info: info, defs: defs, root: f.Decl.Body}
		ast.Inspect(f.Decl.Body, func(n ast.Node) bool {
			cl, ok := n.(*ast.CompositeLit)
			if !ok {
				return true
			}
			if tv, ok := info.Types[cl]; !ok || !strings.HasSuffix(types.TypeString(tv.Type, shortQual), "Idendity") {
				return true
			}
			var nameE, valE ast.Expr
			for _, el := range cl.Elts {
				if kv, ok := el.(*ast.KeyValueExpr); ok {
					if k, ok := kv.Key.(*ast.Ident); ok {
						switch k.Name {
						case "Name":
							nameE = kv.Value
						case "Value":
							valE = kv.Value
						}
					}
				}
			}
			if nameE == nil || valE == nil {
				return true
			}
			// literal identity: the name comes from genTempName, or the value is conditional on Is(Charater)
			np := pc.path(nameE)
			vp := pc.path(valE)
			if o := identObj(info, valE); o != nil && defs.count[o] > 1 {
				// a local that is 0 by default and receives the literal's code under Is(Charater)
				ast.Inspect(f.Decl.Body, func(m ast.Node) bool {
					if as, ok := m.(*ast.AssignStmt); ok && as.Tok == token.ASSIGN && len(as.Lhs) == 1 && identObj(info, as.Lhs[0]) == o {
						sites = append(sites, site{f.Name, as.Pos(), pc.path(as.Rhs[0]), as.Rhs[0], info})
					}
					return true
				})
				return true
			}
			if strings.Contains(np, "genTempName(") || strings.Contains(vp, "Value[") || strings.Contains(vp, "rune") {
				if vp == "0" {
					return true
				}
				// in parsePrecList the value is a local assigned under Is(Charater): find that assignment
				if o := identObj(info, valE); o != nil && defs.count[o] > 1 {
					ast.Inspect(f.Decl.Body, func(m ast.Node) bool {
						if as, ok := m.(*ast.AssignStmt); ok && as.Tok == token.ASSIGN && len(as.Lhs) == 1 && identObj(info, as.Lhs[0]) == o {
							sites = append(sites, site{f.Name, as.Pos(), pc.path(as.Rhs[0]), as.Rhs[0], info})
						}
						return true
					})
					return true
				}
				sites = append(sites, site{f.Name, cl.Pos(), vp, valE, info})
			}
			return true
		})
	}
	if len(sites) < 3 {
		r.Undecided(clause, "R10 SIBLING-SITES", "Parser/character-literal-code", "Parser/Parser.go", fmt.Sprintf("only %d character-literal identity constructions found (3 confirmed by hand)", len(sites)))
		return
	}
	same := true
	for _, s := range sites[1:] {
		if s.path != sites[0].path {
			same = false
		}
	}
	r.Check(same, clause, "R10 SIBLING-SITES", "Parser/character-literal-code/same-expression", "Parser/Parser.go",
		fmt.Sprintf("all %d sites compute the code as %s", len(sites), sites[0].path),
		fmt.Sprintf("the sites that create a character-literal token compute its code differently (%s: %s vs %s: %s): the same literal would get two codes depending on where it is first seen", sites[0].fn, sites[0].path, sites[len(sites)-1].fn, sites[len(sites)-1].path))
	for _, s := range sites {
		// the expression must decode a character: indexing a string yields a byte
		byteIndex := false
		ast.Inspect(s.expr, func(n ast.Node) bool {
			if ix, ok := n.(*ast.IndexExpr); ok {
				if isStringType(s.info.TypeOf(ix.X)) {
					byteIndex = true
				}
			}
			return true
		})
		r.Check(!byteIndex, clause, "R1 CHARACTER-CODE", s.fn+"/character-literal-code", c.pos(s.pos),
			"the code is the literal's character (rune) value: "+s.path,
			"the code of a character literal is taken as "+s.path+", the first BYTE of its UTF-8 text: a non-ASCII literal such as 'é' is numbered 195 instead of 233, and 'é' and 'è' get the same code (the generated translate switch then has a duplicate case and does not compile)")
	}
}

// c11e: an identifier that is first seen in a precedence line is recorded with code 0 (to be numbered
// automatically); only a character literal carries its own code. Evaluated on the loop body of parsePrecList under
// "the current token is an identifier" / "… is a character literal".
func c11e(c *Ctx, r *Report) {
	const clause = "C11.d"
	f := c.need(r, clause, "Parser", "parser", "parsePrecList")
	if f == nil {
		return
	}
	info := f.Pkg.TypesInfo
	var loop *ast.ForStmt
	for _, s := range f.Decl.Body.List {
		if fs, ok := s.(*ast.ForStmt); ok {
			loop = fs
		}
	}
	if loop == nil {
		r.Undecided(clause, "R4 DECISION-TABLE", f.Name+"/named-token-code", c.pos(f.Decl.Pos()), "no token loop")
		return
	}
	pe := newPathEnum(info)
	paths, err := pe.Enumerate(loop.Body.List)
	if err != nil {
		r.Undecided(clause, "R4 DECISION-TABLE", f.Name+"/named-token-code", c.pos(loop.Pos()), err.Error())
		return
	}
	bad := ""
	n := 0
	for _, kind := range []string{"Identifier", "Charater"} {
		val := kindValuation(c, kind, nil)
		for _, p := range selectPaths(paths, val) {
			var vals []*Term
			for _, e := range p.Effects {
				collectFieldOfComposite(e.Term, "Idendity", "Value", &vals)
			}
			for _, t := range p.Env {
				collectFieldOfComposite(t, "Idendity", "Value", &vals)
			}
			for _, v := range vals {
				n++
				s := v.String()
				if kind == "Identifier" && s != "0" {
					bad = "a named token first seen in a precedence line is recorded with code `" + s + "` instead of 0: it keeps a stale value (e.g. the code of the literal before it on the line) and is never numbered automatically, so two tokens can share a code"
				}
				if kind == "Charater" && !strings.Contains(s, "rune") && !strings.Contains(s, "Value[") {
					bad = "a character literal in a precedence line is recorded with code `" + s + "`, not its character code"
				}
			}
		}
	}
	r.Check(bad == "" && n >= 2, clause, "R4 DECISION-TABLE", f.Name+"/named-token-code", c.pos(loop.Pos()),
		"in a precedence line an identifier is recorded with code 0 (numbered later) and a character literal with its character code, decided per iteration", bad)
}

// c11f — parseTokendef (%token lines): the code recorded for a declared NAME is a function of this iteration's
// own tokens only: 0 (number it automatically) unless the name is directly followed by a number, then that number.
// A value carried over from an earlier name on the line (a variable declared outside the loop) gives two tokens
// the same code.
func c11f(c *Ctx, r *Report) {
	const clause = "C11.d"
	f := c.need(r, clause, "Parser", "parser", "parseTokendef")
	if f == nil {
		return
	}
	info := f.Pkg.TypesInfo
	key := f.Name + "/declared-token-code"
	var loop *ast.ForStmt
	for _, s := range f.Decl.Body.List {
		if fs, ok := s.(*ast.ForStmt); ok {
			loop = fs
		}
	}
	if loop == nil {
		r.Undecided(clause, "R4 DECISION-TABLE", key, c.pos(f.Decl.Pos()), "no token loop")
		return
	}
	pe := newPathEnum(info)
	paths, err := pe.Enumerate(loop.Body.List)
	if err != nil {
		r.Undecided(clause, "R4 DECISION-TABLE", key, c.pos(loop.Pos()), err.Error())
		return
	}
	isIdendityValue := func(e ast.Expr) bool {
		se, ok := unparen(e).(*ast.SelectorExpr)
		if !ok || se.Sel.Name != "Value" {
			return false
		}
		t := info.TypeOf(se.X)
		if t == nil {
			return false
		}
		if n, ok := t.(*types.Named); ok {
			return n.Obj().Name() == "Idendity"
		}
		return false
	}
	var carried func(t *Term) string
	carried = func(t *Term) string {
		if t == nil {
			return ""
		}
		if t.Op == "leaf" && !strings.Contains(t.Name, ".") && t.Name != "p" {
			return t.Name
		}
		for _, a := range t.Args {
			if s := carried(a); s != "" {
				return s
			}
		}
		for _, a := range t.Fields {
			if s := carried(a); s != "" {
				return s
			}
		}
		return ""
	}
	bad := ""
	n := 0
	for _, p := range paths {
		ident, number, atoiOK := false, false, false
		for _, cd := range p.Conds {
			s := cd.Atom.String()
			if strings.Contains(s, "\"Identifier\"") && cd.Pol {
				ident = true
			}
			if strings.Contains(s, "\"Number\"") && cd.Pol {
				number = true
			}
			if strings.Contains(s, "result1(strconv.Atoi") {
				isNE := cd.Atom.Op == "cmp" && cd.Atom.Name == "!="
				atoiOK = (isNE && !cd.Pol) || (!isNE && cd.Pol)
			}
		}
		if !ident {
			continue
		}
		// the last store to <Idendity>.Value on the path, or the literal's field when there is none
		var val *Term
		for _, e := range p.Effects {
			if e.Kind != "store" {
				continue
			}
			if as, ok := e.Node.(*ast.AssignStmt); ok {
				for _, l := range as.Lhs {
					if isIdendityValue(l) {
						val = e.Term
					}
				}
			}
		}
		if val == nil {
			var vals []*Term
			for _, e := range p.Effects {
				collectFieldOfComposite(e.Term, "Idendity", "Value", &vals)
			}
			if len(vals) > 0 {
				val = vals[len(vals)-1]
			}
		}
		if val == nil {
			bad = "a declared name is recorded without a code"
			continue
		}
		n++
		vs := val.String()
		switch {
		case carried(val) != "":
			bad = "the code recorded for a declared name is taken from `" + carried(val) + "`, a variable that lives across the names of one %token line: a name after an explicitly numbered one inherits its number"
		case number && atoiOK:
			if !strings.Contains(vs, "strconv.Atoi(p.current.Value)") {
				bad = "a name followed by a number is recorded with `" + vs + "`, not that number"
			}
		default:
			if vs != "0" {
				bad = "a name without a (valid) number is recorded with `" + vs + "` instead of 0"
			}
		}
	}
	r.Check(bad == "" && n >= 3, clause, "R4 DECISION-TABLE", key, c.pos(loop.Pos()),
		"in a %token line a name is recorded with the number that directly follows it, else with 0 (numbered automatically); decided per iteration, nothing is carried from one name to the next", bad)
}

// c11g — R16 LOOP-CARRIED: the loops that read the names of one declaration line (parseTokendef, parsePrecList,
// parseTypeList) treat every name on its own: a scalar local that is declared outside the loop and assigned inside it
// must be assigned before it is read in every iteration. Otherwise what is recorded for one name (its code, its
// temporary name) depends on the names before it on the line. Decided on the path enumerator: at the start of the
// loop body such a variable is an unknown leaf; a leaf that survives into a condition or an effect of some path was
// read before this iteration assigned it. Variables that the loop never assigns (the tag, the associativity) and
// non-scalars (lists being built) are outside the rule.
func c11g(c *Ctx, r *Report) {
	const clause = "C11.d"
	for _, fname := range []string{"parseTokendef", "parsePrecList", "parseTypeList"} {
		f := c.need(r, clause, "Parser", "parser", fname)
		if f == nil {
			continue
		}
		info := f.Pkg.TypesInfo
		key := f.Name + "/no-value-carried-between-names"
		var loop *ast.ForStmt
		for _, st := range f.Decl.Body.List {
			if fs, ok := st.(*ast.ForStmt); ok {
				loop = fs
			}
		}
		if loop == nil {
			r.Undecided(clause, "R16 LOOP-CARRIED", key, c.pos(f.Decl.Pos()), "no name loop")
			continue
		}
		// W: scalar locals declared outside the loop and assigned inside it
		assigned := map[types.Object]bool{}
		ast.Inspect(loop.Body, func(n ast.Node) bool {
			switch x := n.(type) {
			case *ast.AssignStmt:
				if x.Tok == token.DEFINE {
					return true
				}
				for _, l := range x.Lhs {
					if o := identObj(info, l); o != nil {
						assigned[o] = true
					}
				}
			case *ast.IncDecStmt:
				if o := identObj(info, x.X); o != nil {
					assigned[o] = true
				}
			}
			return true
		})
		W := map[string]types.Object{}
		for o := range assigned {
			v, ok := o.(*types.Var)
			if !ok || v.IsField() || defIdentIn(info, loop, o) != nil {
				continue
			}
			if b, ok := v.Type().Underlying().(*types.Basic); ok && b.Kind() != types.Invalid {
				W[o.Name()] = o
			}
		}
		pe := newPathEnum(info)
		paths, err := pe.Enumerate(loop.Body.List)
		if err != nil {
			r.Undecided(clause, "R16 LOOP-CARRIED", key, c.pos(loop.Pos()), err.Error())
			continue
		}
		var leafOf func(t *Term) string
		leafOf = func(t *Term) string {
			if t == nil {
				return ""
			}
			if t.Op == "leaf" {
				if _, ok := W[t.Name]; ok {
					return t.Name
				}
			}
			for _, a := range t.Args {
				if s := leafOf(a); s != "" {
					return s
				}
			}
			for _, a := range t.Fields {
				if s := leafOf(a); s != "" {
					return s
				}
			}
			return ""
		}
		bad := ""
		for _, p := range paths {
			for _, cd := range p.Conds {
				if v := leafOf(cd.Atom); v != "" {
					bad = "the condition `" + cd.Atom.String() + "` reads " + v + " before this iteration assigned it"
				}
			}
			for _, e := range p.Effects {
				if v := leafOf(e.Term); v != "" {
					bad = "`" + oneLine(e.String()) + "` uses " + v + " as left by an earlier name of the line"
				}
			}
		}
		r.Check(bad == "", clause, "R16 LOOP-CARRIED", key, c.pos(loop.Pos()),
			fmt.Sprintf("%d path(s) through the loop body: every scalar the loop assigns (%v) is assigned before it is read in the same iteration — nothing recorded for a name depends on the names before it", len(paths), sortedKeysObj(W)), bad)
	}
}

// splitTopLevelAnd splits a printed condition "(A && B)" at its top-level && operators.
func splitTopLevelAnd(s string) []string {
	s = strings.TrimSpace(s)
	for len(s) >= 2 && s[0] == '(' && matchingParen(s, 0) == len(s)-1 {
		s = strings.TrimSpace(s[1 : len(s)-1])
	}
	var out []string
	depth, start := 0, 0
	for i := 0; i < len(s); i++ {
		switch s[i] {
		case '(', '[':
			depth++
		case ')', ']':
			depth--
		case '&':
			if depth == 0 && i+1 < len(s) && s[i+1] == '&' {
				out = append(out, strings.TrimSpace(s[start:i]))
				start = i + 2
				i++
			}
		}
	}
	out = append(out, strings.TrimSpace(s[start:]))
	var flat []string
	for _, p := range out {
		if len(p) >= 2 && p[0] == '(' && matchingParen(p, 0) == len(p)-1 && strings.Contains(p, "&&") {
			flat = append(flat, splitTopLevelAnd(p)...)
		} else {
			flat = append(flat, p)
		}
	}
	return flat
}

func matchingParen(s string, i int) int {
	depth := 0
	for j := i; j < len(s); j++ {
		switch s[j] {
		case '(':
			depth++
		case ')':
			depth--
			if depth == 0 {
				return j
			}
		}
	}
	return -1
}

func sortedKeysObj(m map[string]types.Object) []string {
	var out []string
	for k := range m {
		out = append(out, k)
	}
	sortStrings(out)
	return out
}

func collectFieldOfComposite(t *Term, typeSuffix, field string, out *[]*Term) {
	if t == nil {
		return
	}
	if t.Op == "composite" && strings.HasSuffix(t.Name, typeSuffix) {
		if v, ok := t.Fields[field]; ok {
			*out = append(*out, v)
		}
	}
	for _, a := range t.Args {
		collectFieldOfComposite(a, typeSuffix, field, out)
	}
	for _, v := range t.Fields {
		collectFieldOfComposite(v, typeSuffix, field, out)
	}
}
