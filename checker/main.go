package main

import (
	"flag"
	"fmt"
	"go/ast"
	"go/types"
	"os"
	"runtime/debug"
	"sort"
	"strconv"
	"strings"
	"time"
)

type propFunc func(c *Ctx, r *Report)

var props = map[string]propFunc{}

func register(id string, f propFunc) { props[id] = f }

func main() {
	prop := flag.String("prop", "", "property id (C01..C19) or 'all'")
	tier := flag.String("tier", "", "quick | thorough (default: $VERIF_TIER or quick)")
	repo := flag.String("repo", "/repo", "repository to analyse")
	verif := flag.String("verif", "/verif", "verification directory (evidence, reports, known findings)")
	only := flag.String("only", "", "replay: print only the obligation with this key")
	selftest := flag.Bool("selftest", false, "run the positive fixtures only")
	dump := flag.String("dump", "", "debug: print shapes / skeleton source (shapes|skeleton:<variant>|ts)")
	flag.Parse()
	if *tier == "" {
		*tier = os.Getenv("VERIF_TIER")
	}
	if *tier != "thorough" {
		*tier = "quick"
	}
	seed := 0
	if s := os.Getenv("VERIF_SEED"); s != "" {
		seed, _ = strconv.Atoi(s)
	}
	if *selftest {
		os.Exit(runSelfTests(true))
	}
	if *dump != "" {
		c, err := loadRepo(*repo)
		if err != nil {
			fmt.Println(err)
			os.Exit(2)
		}
		c.Tier = *tier
		if *dump == "skelsyms" {
			dumpSkelSyms(c)
			return
		}
		if *dump == "syms" {
			dumpSyms(c)
			return
		}
		if *dump == "funcs" {
			for _, f := range c.AllFuncs() {
				fmt.Println(f.Name)
			}
			if c.norm != nil {
				fmt.Println("#", c.norm.summary())
			}
			if s := c.renames.summary(); s != "" {
				fmt.Println("#", s)
			}
			return
		}
		if strings.HasPrefix(*dump, "src:") {
			// the function as the rules see it (after the inlining normaliser)
			want := strings.TrimPrefix(*dump, "src:")
			for _, f := range c.AllFuncs() {
				if strings.HasSuffix(f.Name, want) {
					fmt.Println("//", f.Name)
					fmt.Println(printNode(f.Pkg.Fset, f.Decl))
				}
			}
			return
		}
		if strings.HasPrefix(*dump, "writes:") {
			dumpWrites(c, strings.TrimPrefix(*dump, "writes:"))
			return
		}
		if strings.HasPrefix(*dump, "paths:") {
			dumpPaths(c, strings.TrimPrefix(*dump, "paths:"))
			return
		}
		if strings.HasPrefix(*dump, "guards:") {
			dumpGuards(c, strings.TrimPrefix(*dump, "guards:"))
			return
		}
		if strings.HasPrefix(*dump, "loops:") {
			dumpLoops(c, strings.TrimPrefix(*dump, "loops:"))
			return
		}
		dumpStaged(c, *dump)
		return
	}
	if *prop == "" {
		fmt.Println("usage: yaccverif -prop Cxx [-tier quick|thorough]")
		os.Exit(2)
	}
	ids := []string{*prop}
	if *prop == "all" {
		ids = nil
		for id := range props {
			ids = append(ids, id)
		}
		sort.Strings(ids)
	}
	known, err := loadKnown(*verif + "/known-findings.jsonl")
	if err != nil {
		fmt.Println("cannot read known findings:", err)
		os.Exit(2)
	}
	// the fixtures guard against vacuous rules; they do not depend on /repo
	if rc := runSelfTests(false); rc != 0 {
		fmt.Println("checker broken: a positive fixture was not flagged (see above); no verdict on /repo")
		os.Exit(2)
	}
	rc := 0
	for _, id := range ids {
		start := time.Now()
		f, ok := props[id]
		if !ok {
			fmt.Printf("property %s has no check (see MANIFEST.json not_applicable)\n", id)
			os.Exit(2)
		}
		r := &Report{Prop: id, Extra: map[string]interface{}{}}
		var c *Ctx
		c, err = loadRepo(*repo)
		if err != nil {
			// a tree that does not type-check cannot be decided
			c = &Ctx{RepoDir: *repo, Tier: *tier}
			r.Undecided(id, "LOAD", "/repo", "-", "cannot load and type-check the repository: "+err.Error())
		} else {
			c.Tier = *tier
			func() {
				defer func() {
					if p := recover(); p != nil {
						r.Undecided(id, "PANIC", "analyser", "-", fmt.Sprintf("analyser panic: %v\n%s", p, trimStack(debug.Stack())))
					}
				}()
				f(c, r)
			}()
			// what was normalised before the rules ran is part of what was analysed
			if c.norm != nil {
				if sm := c.norm.summary(); sm != "" {
					r.Note("%s", sm)
				}
			}
			if sm := c.renames.summary(); sm != "" {
				r.Note("%s", sm)
			}
		}
		if *tier == "thorough" && err == nil && *only == "" && os.Getenv("VERIF_NO_CONTROLS") == "" {
			base := map[string]bool{}
			for _, o := range r.Obls {
				if o.Verdict != "ok" {
					base[o.Key] = true
				}
			}
			outs := runControls(*repo, *tier, id, base)
			outs = append(outs, runSeedReplays(*repo, *verif, id, base)...)
			outs = append(outs, runBenignReplays(*repo, *verif, id, base)...)
			counts := map[string]int{}
			for _, o := range outs {
				counts[o.Kind+":"+o.Outcome]++
				fmt.Printf("control %-8s %-11s %-60s %s %s\n", o.Kind, o.Outcome, o.Name, o.Obligation, o.Detail)
			}
			r.Extra["controls"] = outs
			r.Extra["controls_summary"] = counts
		}
		if *only != "" {
			var keep []*Obligation
			for _, o := range r.Obls {
				if o.Key == *only {
					keep = append(keep, o)
				}
			}
			for _, o := range keep {
				fmt.Printf("%s  %s\n  at %s\n  %s\n", strings.ToUpper(o.Verdict), o.Key, o.Pos, o.Detail)
			}
			if len(keep) == 0 {
				fmt.Println("no obligation with that key on the current tree")
			}
			continue
		}
		info := map[string]interface{}{
			"packages_analysed":  len(c.All),
			"functions_analysed": c.NFuncs,
			"repo":               *repo,
		}
		if c.stage != nil {
			info["skeletons_analysed"] = c.stage.Summary()
		}
		if x := finish(c, r, *verif, known, seed, start, info); x > rc {
			rc = x
		}
	}
	os.Exit(rc)
}

func trimStack(b []byte) string {
	lines := strings.Split(string(b), "\n")
	if len(lines) > 24 {
		lines = lines[:24]
	}
	return strings.Join(lines, "\n")
}

// dumpLoops prints the enumerated paths of every loop body (and of the whole body) of the functions whose name
// contains the argument: a debugging aid for writing R4 rules.
func dumpLoops(c *Ctx, name string) {
	for _, f := range c.AllFuncs() {
		if !strings.Contains(f.Name, name) {
			continue
		}
		fmt.Println("==", f.Name)
		ast.Inspect(f.Decl.Body, func(n ast.Node) bool {
			var body *ast.BlockStmt
			switch x := n.(type) {
			case *ast.ForStmt:
				body = x.Body
			case *ast.RangeStmt:
				body = x.Body
			}
			if body == nil {
				return true
			}
			fmt.Println("-- loop at", c.pos(n.Pos()))
			pe := newPathEnum(f.Pkg.TypesInfo)
			paths, err := pe.Enumerate(body.List)
			if err != nil {
				fmt.Println("   error:", err)
				return true
			}
			for i, p := range paths {
				fmt.Printf("   path %d [%s] kind=%s\n", i, p.CondString(), p.Kind)
				for _, e := range p.Effects {
					fmt.Println("      ", e.String())
				}
			}
			return true
		})
	}
}

// dumpWrites prints every write to every field of the struct types whose name contains the argument
// ("Parser.Idendity"): a debugging aid for who-writes / must-write tables.
func dumpWrites(c *Ctx, name string) {
	for _, p := range c.All {
		sc := p.Types.Scope()
		for _, n := range sc.Names() {
			tn, ok := sc.Lookup(n).(*types.TypeName)
			if !ok {
				continue
			}
			full := p.Types.Name() + "." + n
			if !strings.Contains(full, name) {
				continue
			}
			st, ok := tn.Type().Underlying().(*types.Struct)
			if !ok {
				continue
			}
			for i := 0; i < st.NumFields(); i++ {
				fv := st.Field(i)
				fmt.Println("==", full+"."+fv.Name())
				for _, w := range fieldWrites(c, fv) {
					fmt.Printf("   %-45s %-3s %s   @%s\n", w.fn, w.op, w.path, c.pos(w.pos))
				}
			}
		}
	}
}

// dumpGuards prints, for every assignment and call statement of the matching functions, the guard atoms.
func dumpGuards(c *Ctx, name string) {
	for _, f := range c.AllFuncs() {
		if !strings.Contains(f.Name, name) {
			continue
		}
		fmt.Println("==", f.Name)
		ast.Inspect(f.Decl.Body, func(n ast.Node) bool {
			switch x := n.(type) {
			case *ast.AssignStmt, *ast.ExprStmt:
				fmt.Printf("  %s: %s\n      %v\n", c.pos(x.Pos()), oneLine(exprStringNode(c, x)), guardAtoms(c, f, x))
			}
			return true
		})
	}
}

func exprStringNode(c *Ctx, n ast.Node) string {
	s := printNode(c.Fset, n)
	if len(s) > 90 {
		s = s[:90] + "…"
	}
	return s
}

func dumpStaged(c *Ctx, what string) {
	st := c.GetStaged()
	for _, e := range st.Errs {
		fmt.Println("staged error:", e)
	}
	if what == "tscanon" {
		for name, f := range st.TS.Funcs {
			fmt.Printf("%s: %s\n", name, tsCanon(f.Body))
		}
		return
	}
	if what == "ts" {
		for _, e := range st.TS.Errs {
			fmt.Println("ts error:", e)
		}
		for fv, sh := range st.TS.Eval.fields {
			fmt.Printf("TS field %s = %s\n\n", fv.Name(), shapeString(sh))
		}
		for _, w := range st.TS.Eval.writes {
			fmt.Println("write", w.Name())
		}
		return
	}
	for _, sc := range st.Configs {
		for _, e := range sc.Errs {
			fmt.Println(sc.V.Name, "error:", e)
		}
		if what == "shapes" {
			fmt.Println("=====", sc.V.Name, "template", sc.TemplVar)
			for fv, sh := range sc.Eval.fields {
				fmt.Printf("field %s = %s\n\n", fv.Name(), shapeString(sh))
			}
			for fv, p := range sc.Eval.fieldsP {
				fmt.Printf("field %s ← %s\n", fv.Name(), p)
			}
		}
		if strings.HasPrefix(what, "skeleton:") && strings.TrimPrefix(what, "skeleton:") == sc.V.Name {
			for _, sk := range sc.Skels {
				fmt.Println(sk.Src)
				fmt.Println("parse error:", sk.ParseEr)
				for _, e := range sk.TypeErs {
					fmt.Println("type error:", e)
				}
				break
			}
		}
	}
	fmt.Println(st.Summary())
}
