package main

import (
	"flag"
	"fmt"
	"os"
	"runtime/debug"
	"sort"
	"strconv"
	"strings"
	"time"
)

type propFunc func(c *Ctx, r *Report)

var props = map[string]propFunc{}

func register(id string, f propFunc) { props[id] = f }

func main() {
	prop := flag.String("prop", "", "property id (C01..C19) or 'all'")
	tier := flag.String("tier", "", "quick | thorough (default: $VERIF_TIER or quick)")
	repo := flag.String("repo", "/repo", "repository to analyse")
	verif := flag.String("verif", "/verif", "verification directory (evidence, reports, known findings)")
	only := flag.String("only", "", "replay: print only the obligation with this key")
	selftest := flag.Bool("selftest", false, "run the positive fixtures only")
	flag.Parse()
	if *tier == "" {
		*tier = os.Getenv("VERIF_TIER")
	}
	if *tier != "thorough" {
		*tier = "quick"
	}
	seed := 0
	if s := os.Getenv("VERIF_SEED"); s != "" {
		seed, _ = strconv.Atoi(s)
	}
	if *selftest {
		os.Exit(runSelfTests(true))
	}
	if *prop == "" {
		fmt.Println("usage: yaccverif -prop Cxx [-tier quick|thorough]")
		os.Exit(2)
	}
	ids := []string{*prop}
	if *prop == "all" {
		ids = nil
		for id := range props {
			ids = append(ids, id)
		}
		sort.Strings(ids)
	}
	known, err := loadKnown(*verif + "/known-findings.jsonl")
	if err != nil {
		fmt.Println("cannot read known findings:", err)
		os.Exit(2)
	}
	// the fixtures guard against vacuous rules; they do not depend on /repo
	if rc := runSelfTests(false); rc != 0 {
		fmt.Println("checker broken: a positive fixture was not flagged (see above); no verdict on /repo")
		os.Exit(2)
	}
	rc := 0
	for _, id := range ids {
		start := time.Now()
		f, ok := props[id]
		if !ok {
			fmt.Printf("property %s has no check (see MANIFEST.json not_applicable)\n", id)
			os.Exit(2)
		}
		r := &Report{Prop: id, Extra: map[string]interface{}{}}
		var c *Ctx
		c, err = loadRepo(*repo)
		if err != nil {
			// a tree that does not type-check cannot be decided
			c = &Ctx{RepoDir: *repo, Tier: *tier}
			r.Undecided(id, "LOAD", "/repo", "-", "cannot load and type-check the repository: "+err.Error())
		} else {
			c.Tier = *tier
			func() {
				defer func() {
					if p := recover(); p != nil {
						r.Undecided(id, "PANIC", "analyser", "-", fmt.Sprintf("analyser panic: %v\n%s", p, trimStack(debug.Stack())))
					}
				}()
				f(c, r)
			}()
		}
		if *only != "" {
			var keep []*Obligation
			for _, o := range r.Obls {
				if o.Key == *only {
					keep = append(keep, o)
				}
			}
			for _, o := range keep {
				fmt.Printf("%s  %s\n  at %s\n  %s\n", strings.ToUpper(o.Verdict), o.Key, o.Pos, o.Detail)
			}
			if len(keep) == 0 {
				fmt.Println("no obligation with that key on the current tree")
			}
			continue
		}
		info := map[string]interface{}{
			"packages_analysed":  len(c.All),
			"functions_analysed": c.NFuncs,
			"repo":               *repo,
		}
		if c.stage != nil {
			info["skeletons_analysed"] = c.stage.Summary()
		}
		if x := finish(c, r, *verif, known, seed, start, info); x > rc {
			rc = x
		}
	}
	os.Exit(rc)
}

func trimStack(b []byte) string {
	lines := strings.Split(string(b), "\n")
	if len(lines) > 24 {
		lines = lines[:24]
	}
	return strings.Join(lines, "\n")
}
