package main

// C18 — debug listing and automaton diagram describe the generated parser.

import (
	"fmt"
	"go/ast"
	"go/constant"
	"go/types"
	"strings"
)

func init() { register("C18", checkC18) }

func checkC18(c *Ctx, r *Report) {
	r.Explanation = "R4 sibling decision table: DrawGrammar classifies a table cell exactly as the generated driver does (error code → nothing, accept code → accepting state, non-negative → edge to state d labelled with the column's symbol, negative → reduce annotation by rule −d with the column's symbol as lookahead), evaluated on the four cell classes. Node-name agreement: the node a state is created under, the endpoints of edges and the nodes looked up for annotation use the same `state_%d` format on the same state numbers. Enumeration rules: one node per state of the LR(0) collection with one line per item; the text listing prints every state, every item and every goto entry; the debug dump runs on the same LALR1 object before the table is generated. Not decided: the rendered picture (the `dot` subprocess), the text of the listing on any grammar."
	displayNameRule(c, r, "C18.b")
	c18EscapeChain(c, r, "C18.b")
	if f := c.need(r, "C18.a", "LALR", "LALR1", "DrawGrammar"); f != nil {
		info := f.Pkg.TypesInfo
		var rows, cells *ast.RangeStmt
		ast.Inspect(f.Decl.Body, func(n ast.Node) bool {
			if rs, ok := n.(*ast.RangeStmt); ok {
				if ps := paramObjs(info, f.Decl); len(ps) == 1 && identObj(info, rs.X) == ps[0] {
					rows = rs
				} else if rows != nil && identObj(info, rs.X) == identObj(info, rows.Value) {
					cells = rs
				}
			}
			return true
		})
		if rows == nil || cells == nil {
			r.Undecided("C18.a", "R4 DECISION-TABLE", f.Name, c.pos(f.Decl.Pos()), "no loop over the table's rows and cells")
		} else {
			pe := newPathEnum(info)
			pe.rename[identObj(info, rows.Key)] = "STATE"
			pe.rename[identObj(info, cells.Key)] = "COL"
			pe.rename[identObj(info, cells.Value)] = "D"
			paths, err := pe.Enumerate(cells.Body.List)
			if err != nil {
				r.Undecided("C18.a", "R4 DECISION-TABLE", f.Name+"/cell-decoding", c.pos(cells.Pos()), err.Error())
			} else {
				bad := ""
				for _, cl := range []struct {
					name string
					v    int64
				}{{"error", 9100}, {"accept", 9200}, {"shift/goto", 5}, {"state-0-target", 0}, {"reduce", -3}} {
					v := cl.v
					val := func(t *Term) (constant.Value, bool) {
						switch {
						case t.Op == "leaf" && t.Name == "D":
							return constant.MakeInt64(v), true
						case t.Op == "call" && strings.HasSuffix(t.Name, "GenErrorCode"):
							return constant.MakeInt64(9100), true
						case t.Op == "call" && strings.HasSuffix(t.Name, "GenAcceptCode"):
							return constant.MakeInt64(9200), true
						}
						return nil, false
					}
					p, err := selectPath(paths, val)
					if err != nil {
						bad = cl.name + ": " + err.Error()
						continue
					}
					if p.Kind != "fall" && p.Kind != "continue" {
						bad = fmt.Sprintf("after a cell of class %s the decoding of the row stops (%s): the remaining cells of that state are never drawn", cl.name, p.Kind)
						continue
					}
					edge, fill, red := "", false, ""
					for _, e := range p.Effects {
						if e.Kind == "call" && strings.HasSuffix(e.Term.Name, "Graph.AddEdge") {
							edge = e.Term.String()
						}
						if e.Kind == "call" && strings.HasSuffix(e.Term.Name, ".Add") && strings.Contains(e.Term.String(), "fillcolor") {
							fill = true
						}
					}
					for _, t := range p.Env {
						if t != nil && t.Op == "call" && t.Name == "append" && strings.Contains(t.String(), "reduce rule at") {
							red = t.String()
						}
					}
					switch cl.name {
					case "error":
						if edge != "" || fill || red != "" {
							bad = "an error cell is drawn"
						}
					case "accept":
						if !fill || edge != "" || red != "" {
							bad = "the accept cell does not mark its state as accepting (and only that)"
						}
					case "shift/goto", "state-0-target":
						if edge == "" || !strings.Contains(edge, "STATE, D,") || !strings.Contains(edge, "Symbols[COL].Name") || fill || red != "" {
							bad = fmt.Sprintf("a non-negative cell is not drawn as an edge STATE → D labelled with the column's symbol (%s)", edge)
						}
					case "reduce":
						if red == "" || !strings.Contains(red, "-D") || !strings.Contains(red, "Symbols[COL].Name") || edge != "" || fill {
							bad = "a negative cell is not annotated as `symbol: reduce rule at −d`"
						}
					}
				}
				r.Check(bad == "", "C18.a", "R4 DECISION-TABLE", f.Name+"/cell-decoding", c.pos(cells.Pos()),
					"cells are decoded like the driver decodes them: error → nothing, accept → accepting state, d ≥ 0 → edge to state d labelled with the column's symbol, d < 0 → reduce by rule −d on that symbol", bad)
			}
		}
		// the reduce annotations collected for a state end up in that state's label
		c18AnnotationsAttached(c, r, f, rows, cells)
		// nodes for all states
		c18NodePerState(c, r, f)
	}
	// labels and annotations are assembled with constant formats only: run-time text (item strings, symbol names)
	// must travel as an argument, never as part of a format
	{
		n, fnd := nonConstantFormats(c, "LALR", "Graph", "Grammar")
		var diag []fmtFinding
		for _, x := range fnd {
			switch x.fn.Decl.Name.Name {
			case "DrawGrammar", "GenDotGraph", "AddEdge", "StateGraphNode", "ItemToStr", "ShowCloure", "Show", "showTrans",
				"ShowDrSet", "ShowReadSet", "ShowFollowSet", "ShowLookAheadSet", "ShowAndCheckConflict":
				diag = append(diag, x)
			}
		}
		bad := ""
		pos := "LALR/LALRDraw.go"
		if len(diag) > 0 {
			bad = diag[0].fn.Name + ": the format of " + exprString(diag[0].call.Fun) + " contains " + diag[0].why
			pos = c.pos(diag[0].call.Pos())
		}
		r.Check(bad == "", "C18.a", "R1 FORMAT-PROVENANCE", "LALR+Graph+Grammar/display-formats-are-constant", pos,
			fmt.Sprintf("%d formatting calls in the diagram and listing code: every format string is built from constants, item and symbol text is passed as arguments", n),
			"a diagram/listing format string contains run-time text — a '%' inside an item or symbol name (the token '%') is then taken for a verb and swallows the annotation: "+bad)
	}
	// node-name format agreement
	formats := map[string][]string{}
	perFn := map[string]int{}
	for _, fr := range []struct{ dir, recv, name string }{{"Graph", "GraghNode", "GenDotGraph"}, {"Graph", "", "AddEdge"}, {"LALR", "LALR1", "DrawGrammar"}} {
		f := c.need(r, "C18.b", fr.dir, fr.recv, fr.name)
		if f == nil {
			continue
		}
		info := f.Pkg.TypesInfo
		ast.Inspect(f.Decl.Body, func(n ast.Node) bool {
			if call, ok := n.(*ast.CallExpr); ok {
				if fn := callee(info, call); fn != nil && fn.FullName() == "fmt.Sprintf" && len(call.Args) == 2 {
					if s, ok := constString(info, call.Args[0]); ok && strings.Contains(s, "state_") {
						formats[s] = append(formats[s], f.Name+"("+exprString(call.Args[1])+")")
						perFn[f.Name]++
					}
				}
			}
			return true
		})
	}
	n := 0
	for _, v := range formats {
		n += len(v)
	}
	sitesOK := perFn["Graph.(*GraghNode).GenDotGraph"] >= 1 && perFn["Graph.AddEdge"] >= 2 && perFn["LALR.(*LALR1).DrawGrammar"] >= 1
	// every node looked up by the diagram code is named through that format (written in place or held in a local)
	if f := c.Func("LALR", "LALR1", "DrawGrammar"); f != nil {
		cf := newCoverFn(f)
		lookups := 0
		ast.Inspect(f.Decl.Body, func(nd ast.Node) bool {
			ix, ok := nd.(*ast.IndexExpr)
			if !ok || !fieldNamed(cf.info, ix.X, "Lookup") {
				return true
			}
			lookups++
			call, ok := cf.resolve(ix.Index).(*ast.CallExpr)
			if !ok {
				sitesOK = false
				return true
			}
			fn := callee(cf.info, call)
			s, isC := "", false
			if len(call.Args) >= 1 {
				s, isC = constString(cf.info, call.Args[0])
			}
			if fn == nil || fn.FullName() != "fmt.Sprintf" || !isC || !strings.Contains(s, "state_") {
				sitesOK = false
			}
			return true
		})
		if lookups < 2 {
			sitesOK = false
		}
	}
	r.Check(len(formats) == 1 && sitesOK, "C18.b", "R10 SIBLING-SITES", "Graph+LALR/node-name-format", "Graph/Graph.go, LALR/LALRDraw.go",
		fmt.Sprintf("all %d places that name a state's node use the one format %v", n, keysOfSS(formats)), fmt.Sprintf("state nodes are named with different formats or too few sites were found (%v): edges or annotations would attach to nodes that do not exist", formats))
	// GenDotGraph names the node by its own state number; StateGraphNode uses IC.Index and every item
	if f := c.need(r, "C18.b", "Grammar", "Grammar", "StateGraphNode"); f != nil {
		c18StateGraphNode(c, r, f)
	}
	if f := c.need(r, "C18.b", "Graph", "GraghNode", "GenDotGraph"); f != nil {
		info := f.Pkg.TypesInfo
		ok := false
		ast.Inspect(f.Decl.Body, func(nd ast.Node) bool {
			if call, isC := nd.(*ast.CallExpr); isC {
				if fn := callee(info, call); fn != nil && fn.Name() == "AddNode" && len(call.Args) >= 2 {
					var recvObj types.Object
					if f.Decl.Recv != nil && len(f.Decl.Recv.List) == 1 && len(f.Decl.Recv.List[0].Names) == 1 {
						recvObj = info.Defs[f.Decl.Recv.List[0].Names[0]]
					}
					nameArg := newCoverFn(f).resolve(call.Args[1]) // the name may sit in a local defined once
					ast.Inspect(nameArg, func(m ast.Node) bool {
						if se, isS := m.(*ast.SelectorExpr); isS && fieldNamed(info, se, "StateNumber") && recvObj != nil && identObj(info, se.X) == recvObj {
							ok = true
						}
						return true
					})
				}
			}
			return true
		})
		r.Check(ok, "C18.b", "R1 PROVENANCE", f.Name, c.pos(f.Decl.Pos()), "the node is added under the name built from its own state number", "the node is not added under its own state number")
	}
	// ItemToStr: dot position
	if f := c.need(r, "C18.c", "Grammar", "Grammar", "ItemToStr"); f != nil {
		c18ItemToStr(c, r, f)
	}
	// text listing
	if f := c.need(r, "C18.c", "Grammar", "Grammar", "ShowCloure"); f != nil {
		c18ShowCloure(c, r, f)
	}
	if f := c.need(r, "C18.c", "Grammar", "Grammar", "Show"); f != nil {
		c18Show(c, r, f)
	}
	// ShowLookAheadSet prints the sets the table is built from; debug dump precedes GenTable on the same object
	if f := c.need(r, "C18.c", "LALR", "", "ComputeLALR"); f != nil {
		info := f.Pkg.TypesInfo
		var show, gen, draw ast.Node
		ast.Inspect(f.Decl.Body, func(n ast.Node) bool {
			if call, ok := n.(*ast.CallExpr); ok {
				if fn := callee(info, call); fn != nil {
					switch fn.Name() {
					case "ShowLookAheadSet":
						show = call
					case "GenTable":
						gen = call
					case "DrawGrammar":
						draw = call
					default:
						// a helper method that prints the look-ahead sets of its own receiver
						if ref := c.FuncOf(fn); ref != nil && ref.Decl.Recv != nil && len(ref.Decl.Recv.List) == 1 && len(ref.Decl.Recv.List[0].Names) == 1 && ref.Decl.Body != nil {
							hinfo := ref.Pkg.TypesInfo
							hrecv := hinfo.Defs[ref.Decl.Recv.List[0].Names[0]]
							ast.Inspect(ref.Decl.Body, func(m ast.Node) bool {
								if hc, isC := m.(*ast.CallExpr); isC {
									if hf := callee(hinfo, hc); hf != nil && hf.Name() == "ShowLookAheadSet" {
										if se, isS := unparen(hc.Fun).(*ast.SelectorExpr); isS && identObj(hinfo, se.X) == hrecv && hrecv != nil {
											show = call
										}
									}
								}
								return true
							})
						}
					}
				}
			}
			return true
		})
		ok := show != nil && gen != nil && draw != nil && show.Pos() < gen.Pos() && gen.Pos() < draw.Pos()
		sameObj := false
		if ok {
			recvOf := func(n ast.Node) string {
				if se, isS := unparen(n.(*ast.CallExpr).Fun).(*ast.SelectorExpr); isS {
					return exprString(se.X)
				}
				return ""
			}
			sameObj = recvOf(show) == recvOf(gen) && recvOf(gen) == recvOf(draw)
			// the diagram is drawn from the table GenTable returned
			if dc := draw.(*ast.CallExpr); len(dc.Args) != 1 {
				sameObj = false
			}
		}
		r.Check(ok && sameObj, "C18.c", "R2 ORDER", f.Name+"/listing-table-diagram-from-one-object", c.pos(f.Decl.Pos()),
			"the listing is printed from the LALR1 object whose GenTable result is then drawn and emitted", "listing, table and diagram do not come from the same LALR1 object in the order listing → table → diagram")
	}
	if f := c.need(r, "C18.c", "LALR", "LALR1", "ShowLookAheadSet"); f != nil {
		c18ShowLookAheadSet(c, r, f)
	}
	if f := c.need(r, "C18.c", "LALR", "LALR1", "showTrans"); f != nil {
		c18ShowTrans(c, r, f)
	}
}

func keysOfSS(m map[string][]string) []string {
	var out []string
	for k := range m {
		out = append(out, k)
	}
	sortStrings(out)
	return out
}
