package main

// C19 — a failed generation never damages an existing output file.
// Decided: who may create files, and that in both generator entry points the creation of the output file is
// dominated by every input-fallible step and followed only by writes; the epilogue is written last.

import (
	"fmt"
	"go/ast"
	"go/token"
	"go/types"
	"strings"
	"text/template/parse"
)

func init() { register("C19", checkC19) }

var fileCreators = map[string]bool{
	"os.Create": true, "os.OpenFile": true, "os.WriteFile": true, "io/ioutil.WriteFile": true, "os.Rename": true,
	"os.Remove": true, "os.RemoveAll": true, "os.Truncate": true, "os.Mkdir": true, "os.MkdirAll": true, "os.CreateTemp": true, "io/ioutil.TempFile": true,
}

func checkC19(c *Ctx, r *Report) {
	r.Explanation = "Who-may-call rule over the whole repository for file-creating/-destroying calls (os.Create, os.OpenFile, os.WriteFile, ioutil.WriteFile, os.Rename, os.Remove, os.Truncate, …): exactly one os.Create of the `file` parameter in each generator entry point (resolved from the genfun arguments in cmdGenerate), plus graph.SaveGraph on the separate -g path. R2 ORDER on the entry points' CFG: the create is dominated by ParseAndBuild (whose error is propagated) and by every build* call; after it only template execution / WriteString / Close / error wrapping run; the embedded templates parse and reference only existing builder fields (so execution cannot fail on input), their last node is {{.CodeLast}}, the last TypeScript write is CodeLast. Not decided: I/O faults (write errors are unchecked in the code), process crashes, and the case where the -g path equals the output path."
	r.Assumptions = append(r.Assumptions, "all input-caused failures surface as an error return of ParseAndBuild or as a panic inside ParseAndBuild / build* (they run before the create)", "no I/O faults")
	// generator entry points from cmdGenerate
	var entries []*FuncRef
	if f := c.need(r, "C19.a", "yaccgo", "", "cmdGenerate"); f != nil {
		info := f.Pkg.TypesInfo
		ast.Inspect(f.Decl.Body, func(n ast.Node) bool {
			call, ok := n.(*ast.CallExpr)
			if !ok {
				return true
			}
			if fn := callee(info, call); fn == nil || fn.Name() != "genCommonFunc" {
				return true
			}
			addFunc := func(e ast.Expr) bool {
				var id *ast.Ident
				switch x := unparen(e).(type) {
				case *ast.SelectorExpr:
					id = x.Sel
				case *ast.Ident:
					id = x
				}
				if id == nil {
					return false
				}
				if fo, ok := info.Uses[id].(*types.Func); ok {
					if ref := c.FuncOf(fo); ref != nil {
						for _, have := range entries {
							if have == ref {
								return true
							}
						}
						entries = append(entries, ref)
						return true
					}
				}
				return false
			}
			cands := append([]ast.Expr{}, call.Args...)
			// the generator may also be the receiver (`genfun(F).genCommonFunc(in, out)`)
			if se, ok := unparen(call.Fun).(*ast.SelectorExpr); ok {
				rx := unparen(se.X)
				if conv, ok := rx.(*ast.CallExpr); ok && len(conv.Args) == 1 {
					if tv, ok := info.Types[conv.Fun]; ok && tv.IsType() {
						rx = unparen(conv.Args[0])
					}
				}
				cands = append(cands, rx)
			}
			for _, a := range cands {
				if addFunc(a) {
					continue
				}
				// a local taken from a constant dispatch table: `gen, ok := table[name]` with a package-level
				// `var table = map[string]genfun{"go": F, …}` that nothing assigns — every function of the table
				lo, isLocal := identObj(info, a).(*types.Var)
				if !isLocal {
					continue
				}
				ast.Inspect(f.Decl.Body, func(m ast.Node) bool {
					as, ok := m.(*ast.AssignStmt)
					if !ok || len(as.Rhs) != 1 || len(as.Lhs) == 0 || identObj(info, as.Lhs[0]) != types.Object(lo) {
						return true
					}
					ix, ok := unparen(as.Rhs[0]).(*ast.IndexExpr)
					if !ok {
						return true
					}
					tv, ok := identObj(info, ix.X).(*types.Var)
					if !ok || tv.Pkg() == nil || tv.Parent() != tv.Pkg().Scope() {
						return true
					}
					init, assigned := pkgVarInitOf(f, tv)
					if assigned || init == nil {
						return true
					}
					cl, isCL := unparen(init).(*ast.CompositeLit)
					if !isCL {
						return true
					}
					for _, el := range cl.Elts {
						if kv, ok := el.(*ast.KeyValueExpr); ok {
							addFunc(kv.Value)
						} else {
							addFunc(el)
						}
					}
					return true
				})
			}
			return true
		})
	}
	if len(entries) < 2 {
		r.Undecided("C19.a", "WHO-MAY-CALL", "yaccgo.cmdGenerate/generator-entry-points", "yaccgo/command.go", fmt.Sprintf("expected two generator functions passed to genCommonFunc, found %d", len(entries)))
	}
	isEntry := map[string]bool{}
	for _, e := range entries {
		isEntry[e.Name] = true
	}
	// who may create files
	perFunc := map[string][]*ast.CallExpr{}
	for _, f := range c.AllFuncs() {
		info := f.Pkg.TypesInfo
		ast.Inspect(f.Decl.Body, func(n ast.Node) bool {
			if call, ok := n.(*ast.CallExpr); ok {
				if fn := callee(info, call); fn != nil && fileCreators[fn.FullName()] {
					perFunc[f.Name] = append(perFunc[f.Name], call)
				}
			}
			return true
		})
		// function values: os.Create used as a value
		ast.Inspect(f.Decl.Body, func(n ast.Node) bool {
			if se, ok := n.(*ast.SelectorExpr); ok {
				if fo, ok := info.Uses[se.Sel].(*types.Func); ok && fileCreators[fo.FullName()] {
					// is it the Fun of a call?
					isCall := false
					ast.Inspect(f.Decl.Body, func(m ast.Node) bool {
						if call, ok := m.(*ast.CallExpr); ok && unparen(call.Fun) == ast.Expr(se) {
							isCall = true
						}
						return true
					})
					if !isCall {
						r.Fail("C19.a", "WHO-MAY-CALL", f.Name+"/"+fo.FullName()+"-as-value", c.pos(se.Pos()), "a file-creating function is used as a value: its call sites cannot be ordered statically")
					}
				}
			}
			return true
		})
	}
	for name, calls := range perFunc {
		switch {
		case isEntry[name]:
			if len(calls) != 1 {
				r.Fail("C19.a", "WHO-MAY-CALL", name+"/file-creating-calls", c.pos(calls[0].Pos()), fmt.Sprintf("%d file-creating calls in a generator entry point, expected exactly one os.Create of the output path", len(calls)))
			}
		case name == "Graph.SaveGraph":
			f := c.Func("Graph", "", "SaveGraph")
			info := f.Pkg.TypesInfo
			ok := len(calls) == 1 && len(paramObjs(info, f.Decl)) > 0 && identObj(info, calls[0].Args[0]) == paramObjs(info, f.Decl)[0]
			// every caller passes utils.GenDotPath
			for _, g := range c.AllFuncs() {
				ginfo := g.Pkg.TypesInfo
				ast.Inspect(g.Decl.Body, func(n ast.Node) bool {
					if call, isC := n.(*ast.CallExpr); isC && callee(ginfo, call) == f.Obj {
						pc := pathCtxFor(g)
						if pc.path(call.Args[0]) != "Utils.GenDotPath" {
							ok = false
						}
					}
					return true
				})
			}
			r.Check(ok, "C19.a", "WHO-MAY-CALL", name+"/creates-only-the-dot-graph-path", c.pos(calls[0].Pos()),
				"SaveGraph creates only its path argument, and every caller passes utils.GenDotPath (the -g path, not the output path)",
				"SaveGraph creates a file other than the -g path utils.GenDotPath")
		default:
			r.Fail("C19.a", "WHO-MAY-CALL", name+"/file-creating-calls", c.pos(calls[0].Pos()),
				fmt.Sprintf("%s creates or removes files (%s) outside the two generator entry points: the output path can be touched before generation has succeeded", name, exprString(calls[0].Fun)))
		}
	}
	r.OK("C19.a", "WHO-MAY-CALL", "repo/file-creating-call-sites", "-", fmt.Sprintf("%d functions contain file-creating calls: the generator entry points and Graph.SaveGraph only", len(perFunc)))

	c19ErrorsAbort(c, r)
	c19ParserErrorDiscipline(c, r, "C19.c")
	c19LexerErrorStops(c, r, "C19.c")
	c19NoSwallowedPanics(c, r, "C19.c")
	st := c.GetStaged()
	stagedErrors(r, "C19", st)
	for _, e := range entries {
		c19Entry(c, r, e, st)
	}
	// templates: parse, last node CodeLast
	for _, sc := range st.Configs {
		if sc.V.Http || sc.V.Packed {
			continue // one obligation per template constant
		}
		name := "Builder." + sc.TemplVar
		if sc.Tree == nil {
			r.Fail("C19.c", "R11 STAGED", name+"/parses", c.pos(sc.TemplPos), "the embedded template does not parse: WriteFile panics after the output file has been created and truncated ("+strings.Join(sc.Errs, "; ")+")")
			continue
		}
		r.OK("C19.c", "R11 STAGED", name+"/parses", c.pos(sc.TemplPos), "the embedded template parses")
		// template data is inert: every {{.X}} names a FIELD of the builder (filled before the file is created);
		// a method would run builder code — with all its panics — inside Execute, after os.Create truncated the file
		{
			refs := templateRefs(sc.Tree)
			bad := ""
			for _, ref := range refs {
				if strings.HasPrefix(ref, "func ") {
					bad = "the template calls the function " + strings.TrimPrefix(ref, "func ")
					continue
				}
				if sc.FieldOf[ref] == nil {
					bad = "{{." + ref + "}} is not a field of the builder (a method or a missing name): it is evaluated while the template executes"
				}
			}
			r.Check(bad == "" && len(refs) > 0, "C19.b", "R2 ORDER", name+"/template-data-is-inert", c.pos(sc.TemplPos),
				fmt.Sprintf("all %d references of the template are plain fields of the builder, computed before the output file is created: executing the template runs no generator code", len(refs)),
				"template execution can fail after the output file has been created and truncated: "+bad)
		}
		nodes := sc.Tree.Root.Nodes
		last := ""
		for i := len(nodes) - 1; i >= 0; i-- {
			if tn, ok := nodes[i].(*parse.TextNode); ok && strings.TrimSpace(string(tn.Text)) == "" {
				continue
			}
			if an, ok := nodes[i].(*parse.ActionNode); ok {
				last, _ = singleField(an.Pipe)
			}
			break
		}
		r.Check(last == "CodeLast", "C19.c", "R2 ORDER", name+"/last-node-is-epilogue", c.pos(sc.TemplPos),
			"the template ends with {{.CodeLast}}: a complete file ends with the user's epilogue",
			"the template's last node is `"+last+"`, not {{.CodeLast}}")
	}
	if st.TS != nil && len(st.TS.Order) > 0 {
		r.Check(st.TS.Order[len(st.TS.Order)-1] == "CodeLast", "C19.c", "R2 ORDER", "Builder.TsGenFromString/last-write-is-epilogue", "Builder/TsGenCode.go",
			"the last WriteString is b.CodeLast", "the last WriteString is b."+st.TS.Order[len(st.TS.Order)-1]+", not the epilogue")
	}
	// "stops with an error for any reason attributable to the input (… undefined or unproductive symbol …)": the file is
	// protected by those rejections happening at all — a grammar that should have been refused and is processed
	// instead replaces the file with a parser for nothing (C12 as a whole)
	includePrereq(c, r, "C19.d", checkC12)
}

// c19ErrorsAbort — a generation that failed must not look like one that succeeded: the error of each step that can
// fail for reasons inside yaccgo (reading the grammar, creating the file, parsing and executing the template) is
// bound to a variable that the very next test compares with nil, and the non-nil branch leaves the function (return
// of an error / panic). I/O errors of the individual writes are outside the rule (and outside the property).
func c19ErrorsAbort(c *Ctx, r *Report) {
	watched := map[string]bool{
		"Parser.ParseAndBuild":              true,
		"os.Create":                         true,
		"(*text/template.Template).Parse":   true,
		"(*text/template.Template).Execute": true,
		"(*html/template.Template).Parse":   true,
		"(*html/template.Template).Execute": true,
		"text/template.Must":                false,
		"os.Open":                           true,
		"os.ReadFile":                       true,
		"io/ioutil.ReadAll":                 true,
		"io/ioutil.ReadFile":                true,
		"io.ReadAll":                        true,
	}
	n := 0
	for _, f := range c.AllFuncs() {
		if !strings.HasPrefix(f.Name, "Builder.") && !strings.HasPrefix(f.Name, "yaccgo.") {
			continue
		}
		info := f.Pkg.TypesInfo
		pm := parentMap(f.Decl.Body)
		ast.Inspect(f.Decl.Body, func(nd ast.Node) bool {
			call, ok := nd.(*ast.CallExpr)
			if !ok {
				return true
			}
			fn := callee(info, call)
			name := ""
			if fn == nil {
				// a call through a function-typed parameter whose last result is an error (the generator passed to
				// the command-line driver)
				id, ok := unparen(call.Fun).(*ast.Ident)
				if !ok {
					return true
				}
				v, ok := info.Uses[id].(*types.Var)
				if !ok {
					return true
				}
				sig, ok := v.Type().Underlying().(*types.Signature)
				if !ok || sig.Results().Len() == 0 || sig.Results().At(sig.Results().Len()-1).Type().String() != "error" {
					return true
				}
				name = id.Name + " (function value)"
			} else {
				name = shortFuncName(fn)
				if !watched[name] && !watched[fn.FullName()] {
					return true
				}
			}
			n++
			short := strings.Fields(name)[0]
			if fn != nil {
				short = fn.Name()
			}
			key := f.Name + "/error-of-" + short + "-aborts"
			// the statement holding the call
			var st ast.Stmt
			for cur := ast.Node(call); cur != nil; cur = pm[cur] {
				if s, ok := cur.(ast.Stmt); ok {
					st = s
					break
				}
			}
			as, ok := st.(*ast.AssignStmt)
			if !ok || len(as.Rhs) != 1 || unparen(as.Rhs[0]) != ast.Expr(call) {
				r.Fail("C19.c", "ERROR-DISCIPLINE", key, c.pos(call.Pos()), "the error result of "+name+" is not bound to a variable: a failed step goes unnoticed and generation reports success")
				return true
			}
			errObj := identObj(info, as.Lhs[len(as.Lhs)-1])
			if errObj == nil {
				r.Fail("C19.c", "ERROR-DISCIPLINE", key, c.pos(call.Pos()), "the error result of "+name+" is discarded (assigned to _)")
				return true
			}
			// the test: `if <init with this assign>; err != nil {exit}` or the statement right after the assignment
			var test *ast.IfStmt
			if is, ok := pm[as].(*ast.IfStmt); ok && is.Init == ast.Stmt(as) {
				test = is
			} else if blk, ok := pm[as].(*ast.BlockStmt); ok {
				for i, s2 := range blk.List {
					if s2 == ast.Stmt(as) && i+1 < len(blk.List) {
						test, _ = blk.List[i+1].(*ast.IfStmt)
					}
				}
			}
			okTest := false
			// propagated as it is: the next statement returns the error variable
			if blk, ok := pm[as].(*ast.BlockStmt); ok {
				for i, s2 := range blk.List {
					if s2 == ast.Stmt(as) && i+1 < len(blk.List) {
						if rt, ok := blk.List[i+1].(*ast.ReturnStmt); ok && len(rt.Results) > 0 && identObj(info, rt.Results[len(rt.Results)-1]) == errObj {
							okTest = true
						}
					}
				}
			}
			if test != nil {
				if tested := nilTestOperand(info, test.Cond, token.NEQ); tested != nil && identObj(info, tested) == errObj {
					if endsInExit(test.Body) {
						// the exit must be a panic or a return of a non-nil error
						last := test.Body.List[len(test.Body.List)-1]
						switch x := last.(type) {
						case *ast.ReturnStmt:
							if len(x.Results) > 0 {
								if id, ok := unparen(x.Results[len(x.Results)-1]).(*ast.Ident); !ok || id.Name != "nil" {
									okTest = true
								}
							}
						case *ast.ExprStmt:
							okTest = true // panic (endsInExit)
						}
					}
				}
			}
			r.Check(okTest, "C19.c", "ERROR-DISCIPLINE", key, c.pos(call.Pos()),
				"the error is tested right after the call and a non-nil error leaves with a panic / a returned error",
				"the error of "+name+" is not followed by `if err != nil { return <error> | panic }`: a failed step goes unnoticed and generation reports success")
			return true
		})
	}
	if n < 8 {
		r.Undecided("C19.c", "ERROR-DISCIPLINE", "Builder/fallible-steps", "Builder", fmt.Sprintf("only %d calls of the fallible steps were found (expected ParseAndBuild, os.Create ×2, template Parse, Execute, os.Open, ReadAll, the generator call)", n))
	}
}

func c19Entry(c *Ctx, r *Report, e *FuncRef, st *Staged) {
	info := e.Pkg.TypesInfo
	fc := buildCFG(info, e.Decl.Body)
	var create, parseCall *ast.CallExpr
	var builds []*ast.CallExpr
	var all []*ast.CallExpr
	ast.Inspect(e.Decl.Body, func(n ast.Node) bool {
		call, ok := n.(*ast.CallExpr)
		if !ok {
			return true
		}
		fn := callee(info, call)
		if fn == nil {
			return true
		}
		all = append(all, call)
		switch {
		case fileCreators[fn.FullName()]:
			create = call
		case fn.Name() == "ParseAndBuild":
			parseCall = call
		case strings.HasPrefix(fn.Name(), "build"), strings.HasPrefix(fn.Name(), "New"):
			builds = append(builds, call)
		}
		return true
	})
	if create == nil || parseCall == nil {
		r.Undecided("C19.b", "R2 ORDER", e.Name, c.pos(e.Decl.Pos()), "no os.Create / ParseAndBuild call in the generator entry point")
		return
	}
	// create's argument is the file parameter
	ps := paramObjs(info, e.Decl)
	argOK := len(ps) == 2 && len(create.Args) >= 1 && identObj(info, create.Args[0]) == ps[1] && shortFuncName(callee(info, create)) == "os.Create"
	r.Check(argOK, "C19.b", "R1 PROVENANCE", e.Name+"/creates-the-output-path", c.pos(create.Pos()), "the only created file is the `file` parameter", "the created file is not the `file` parameter via os.Create")
	// dominance
	bad := ""
	if !fc.Dominates(parseCall, create) {
		bad = "os.Create is reachable without ParseAndBuild having run"
	}
	for _, b := range builds {
		if !fc.Dominates(b, create) {
			bad = fmt.Sprintf("%s does not run before os.Create on every path: a panic in it (e.g. an out-of-range $n) would leave a truncated output file", exprString(b.Fun))
		}
	}
	if len(builds) < 6 {
		bad = fmt.Sprintf("only %d build steps found before the create (7 confirmed by hand)", len(builds))
	}
	// ParseAndBuild's error is propagated before the create: an `if err != nil { return … }` between them
	propagated := false
	for _, s := range e.Decl.Body.List {
		is, ok := s.(*ast.IfStmt)
		if !ok || is.Pos() < parseCall.End() || is.Pos() > create.Pos() {
			continue
		}
		if nilTestOperand(e.Pkg.TypesInfo, is.Cond, token.NEQ) != nil && endsInExit(is.Body) {
			propagated = true
		}
	}
	if !propagated {
		bad = "the error returned by ParseAndBuild is not propagated before os.Create"
	}
	r.Check(bad == "", "C19.b", "R2 ORDER", e.Name+"/create-after-all-fallible-steps", c.pos(create.Pos()),
		fmt.Sprintf("os.Create is dominated by ParseAndBuild (error propagated) and by all %d builder steps", len(builds)), bad)
	// after the create: only allowed calls
	allowed := map[string]bool{"(*os.File).WriteString": true, "(*os.File).Close": true, "fmt.Errorf": true, "(*Builder.TemplateBuilder).WriteFile": true}
	bad = ""
	for _, call := range all {
		if call == create || call.Pos() < create.Pos() {
			continue
		}
		if !fc.Reachable(create, call) {
			continue
		}
		if cf := callee(info, call); cf != nil && plainWriterHelper(c, cf) {
			continue // a helper that only writes / closes the file it is handed
		}
		if n := shortFuncName(callee(info, call)); !allowed[n] {
			bad = "after os.Create the entry point calls " + n + ", which is not a plain write/close: a failure there leaves a damaged output file"
		}
	}
	r.Check(bad == "", "C19.b", "R2 ORDER", e.Name+"/only-writes-after-create", c.pos(create.Pos()), "after os.Create only template execution / WriteString / Close / error wrapping are reachable", bad)
	// WriteFile itself
	if wf := c.Func("Builder", "TemplateBuilder", "WriteFile"); wf != nil && strings.HasSuffix(e.Name, "TemplateGenFromString") {
		winfo := wf.Pkg.TypesInfo
		ok := true
		why := ""
		allowedW := map[string]bool{"text/template.New": true, "(*text/template.Template).Parse": true, "(*text/template.Template).Execute": true, "(*os.File).Close": true}
		ast.Inspect(wf.Decl.Body, func(n ast.Node) bool {
			if call, isC := n.(*ast.CallExpr); isC {
				if builtinName(winfo, call) != "" {
					return true
				}
				if nm := shortFuncName(callee(winfo, call)); !allowedW[nm] {
					ok = false
					why = nm
				}
			}
			return true
		})
		r.Check(ok, "C19.b", "R2 ORDER", wf.Name+"/only-template-execution", c.pos(wf.Decl.Pos()),
			"WriteFile only parses the embedded template (checked to parse) and executes it on string/int/bool fields",
			"WriteFile calls "+why+" after the output file has been created")
	}
}

// c19ParserErrorDiscipline — an error the grammar-file parser detects must not end as a successful generation
// (C19: "if it succeeds, the output file is complete"). The parser records errors with p.error(…) and signals failure
// to Parse by returning nil; Parse turns that into an error through the kind of the current token (not Section / not
// EOF). After a lexical error the lexer stops, so every later token is EOF: if the offending token is stepped over,
// Parse sees a clean end of input and reports success for a truncated grammar (no later rules, no epilogue).
//
// Rule (error discipline, idioms enumerated from the code): every call of (*parser).error is either directly followed
// by `return nil` in a function whose nil result Parse / the rule loop treats as failure, or sits at one of the tabled
// lenient sites of the DECLARATION section, where stepping on cannot end in success because the `%%` separator can no
// longer arrive (Parse's Section test rejects). The rules section has exactly one lenient site: expect(), which does
// not consume the offending token.
func c19ParserErrorDiscipline(c *Ctx, r *Report, clause string) {
	lenient := map[string]string{
		"Parser.(*parser).expect":           "does not consume the token it complains about; the caller goes on with the same token",
		"Parser.(*parser).parseTypeList":    "declaration section only: a missing tag / empty list is recorded, the `%%` test in Parse decides",
		"Parser.(*parser).parseStartSymbol": "declaration section only",
	}
	declOnly := map[string]bool{"Parser.(*parser).parseTypeList": true, "Parser.(*parser).parseStartSymbol": true}
	var bad []string
	nAbort, nLenient := 0, 0
	var errFn *types.Func
	for _, f := range c.AllFuncs() {
		if f.Pkg.Types.Name() != "parser" {
			continue
		}
		info := f.Pkg.TypesInfo
		pm := parentMap(f.Decl.Body)
		ast.Inspect(f.Decl.Body, func(n ast.Node) bool {
			call, ok := n.(*ast.CallExpr)
			if !ok {
				return true
			}
			fn := callee(info, call)
			if fn == nil || fn.Name() != "error" || recvNamed(fn) != "parser" {
				return true
			}
			errFn = fn
			// the statement after the call in its statement list (block or case body)
			var stmt ast.Stmt
			var list []ast.Stmt
			for cur := ast.Node(call); cur != nil; cur = pm[cur] {
				if st, isS := cur.(ast.Stmt); isS {
					switch par := pm[cur].(type) {
					case *ast.BlockStmt:
						stmt, list = st, par.List
					case *ast.CaseClause:
						stmt, list = st, par.Body
					}
					if stmt != nil {
						break
					}
				}
			}
			aborts := false
			for i, st := range list {
				if st == stmt && i+1 < len(list) {
					if rt, isR := list[i+1].(*ast.ReturnStmt); isR && len(rt.Results) == 1 {
						if id, isI := unparen(rt.Results[0]).(*ast.Ident); isI && id.Name == "nil" {
							aborts = true
						}
					}
				}
			}
			switch {
			case aborts:
				nAbort++
			case lenient[f.Name] != "":
				nLenient++
			default:
				bad = append(bad, fmt.Sprintf("%s at %s records an error and goes on: the offending token can be stepped over and the run end as a success", f.Name, c.pos(call.Pos())))
			}
			return true
		})
	}
	// the declaration-only lenient functions are not reachable from parseRule
	if pr := c.Func("Parser", "parser", "parseRule"); pr != nil {
		seen := map[string]bool{}
		var walk func(f *FuncRef)
		walk = func(f *FuncRef) {
			if seen[f.Name] {
				return
			}
			seen[f.Name] = true
			ast.Inspect(f.Decl.Body, func(n ast.Node) bool {
				if call, ok := n.(*ast.CallExpr); ok {
					if fn := callee(f.Pkg.TypesInfo, call); fn != nil {
						if g := c.FuncOf(fn); g != nil {
							walk(g)
						}
					}
				}
				return true
			})
		}
		walk(pr)
		for name := range declOnly {
			if seen[name] {
				bad = append(bad, name+" (lenient about errors, tabled as declaration-section only) is reachable from parseRule")
			}
		}
	} else {
		bad = append(bad, "Parser.(*parser).parseRule not found")
	}
	// Parse turns a nil from the rule loop into an error through the current token's kind
	if f := c.Func("Parser", "", "Parse"); f != nil {
		info := f.Pkg.TypesInfo
		tests := 0
		for _, st := range f.Decl.Body.List {
			is, ok := st.(*ast.IfStmt)
			if !ok || !endsInExit(is.Body) {
				continue
			}
			mentions := func(kind string) bool {
				found := false
				ast.Inspect(is.Cond, func(n ast.Node) bool {
					if call, ok := n.(*ast.CallExpr); ok && len(call.Args) >= 1 {
						if fn := callee(info, call); fn != nil && fn.Name() == "Is" {
							if kv, ok := constString(info, call.Args[0]); ok && kv == kindConsts(c)[kind] {
								found = true
							}
						}
					}
					return true
				})
				return found
			}
			if mentions("Section") && strings.HasPrefix(strings.TrimSpace(exprString(is.Cond)), "!") {
				tests++
			}
		}
		if tests < 2 {
			bad = append(bad, fmt.Sprintf("Parse has %d `if !current.Is(Section)… { return error }` tests, expected one after the declarations and one after the rules", tests))
		}
		// … and through the recorded error itself: the kind test cannot see an error whose offending position is
		// directly in front of `%%` or the end of the file (parseRule returns nil, the current token IS Section / EOF).
		// After the rule loop, Parse must fail whenever an error has been recorded: `if p.err != nil { return nil, … }`
		// (a return whose error result is not nil) at function level, behind the loop.
		reported := false
		afterLoop := false
		for _, st := range f.Decl.Body.List {
			if _, isFor := st.(*ast.ForStmt); isFor {
				afterLoop = true
				continue
			}
			is, ok := st.(*ast.IfStmt)
			if !ok || !afterLoop || !endsInExit(is.Body) {
				continue
			}
			be, ok := unparen(is.Cond).(*ast.BinaryExpr)
			if !ok || be.Op != token.NEQ {
				continue
			}
			x, y := unparen(be.X), unparen(be.Y)
			if id, isNil := x.(*ast.Ident); isNil && id.Name == "nil" {
				x, y = y, x
			}
			if id, isNil := y.(*ast.Ident); !isNil || id.Name != "nil" {
				continue
			}
			if fv := fieldVar(info, x); fv == nil || fv.Name() != "err" {
				continue
			}
			if rt, isR := is.Body.List[len(is.Body.List)-1].(*ast.ReturnStmt); isR && len(rt.Results) == 2 {
				if id, isNil := unparen(rt.Results[1]).(*ast.Ident); !isNil || id.Name != "nil" {
					reported = true
				}
			}
		}
		r.Check(reported, clause, "R7 ERROR-DISCIPLINE", "Parser.Parse/a-recorded-error-is-reported", c.pos(f.Decl.Pos()),
			"behind the rule loop Parse returns an error whenever one was recorded (`if p.err != nil { return nil, … }`): the position of the mistake does not matter",
			"Parse decides between success and failure by the kind of the current token only: an error recorded directly in front of `%%` or the end of the file (a `%prec` without its operand as the last thing of the rules) leaves parseRule with nil at a Section / EOF token, and the run ends as a success without the offending rule")
	} else {
		bad = append(bad, "Parser.Parse not found")
	}
	// expect() is lenient because — and only as long as — it leaves the offending token current: no path of it both
	// records an error and moves on to the next token
	if f := c.Func("Parser", "parser", "expect"); f != nil {
		paths, err := newPathEnum(f.Pkg.TypesInfo).Enumerate(f.Decl.Body.List)
		if err != nil {
			bad = append(bad, "Parser.(*parser).expect: "+err.Error())
		}
		for _, p := range paths {
			errs, steps := false, false
			for _, e := range p.Effects {
				if e.Kind != "call" || e.Term == nil {
					continue
				}
				if strings.HasSuffix(e.Term.Name, "parser).error") {
					errs = true
				}
				if strings.HasSuffix(e.Term.Name, "parser).next") || strings.HasSuffix(e.Term.Name, "parser).nextToken") {
					steps = true
				}
			}
			if errs && steps {
				bad = append(bad, fmt.Sprintf("Parser.(*parser).expect complains about the current token and steps over it on the path [%s]: after a lexical error every later token is EOF, so the rule loop ends cleanly and the truncated grammar is generated", p.CondString()))
			}
		}
	} else {
		bad = append(bad, "Parser.(*parser).expect not found")
	}
	_ = errFn
	sortStrings(bad)
	key := "Parser/a-recorded-error-stops-the-parse"
	if nAbort < 2 && len(bad) == 0 {
		r.Undecided(clause, "R7 ERROR-DISCIPLINE", key, "Parser/Parser.go", fmt.Sprintf("only %d aborting p.error sites found (2 confirmed by hand)", nAbort))
		return
	}
	r.Check(len(bad) == 0, clause, "R7 ERROR-DISCIPLINE", key, "Parser/Parser.go",
		fmt.Sprintf("%d p.error sites are followed by `return nil`, %d sit at the tabled lenient sites (expect; declaration section); Parse rejects unless the rules end at %%%% or EOF", nAbort, nLenient),
		strings.Join(bad, "; "))
}

func recvNamed(fn *types.Func) string {
	sig, ok := fn.Type().(*types.Signature)
	if !ok || sig.Recv() == nil {
		return ""
	}
	t := sig.Recv().Type()
	if p, ok := t.(*types.Pointer); ok {
		t = p.Elem()
	}
	if n, ok := t.(*types.Named); ok {
		return n.Obj().Name()
	}
	return ""
}

// c19NoSwallowedPanics — input-caused failures inside the library are reported by panic (undefined symbol,
// unproductive nonterminal, $n out of range, conflicting precedence entries …); the command-line driver turns an
// unrecovered panic into a non-zero exit before/without a complete output file. A recover() anywhere on the way
// would let such a failure end as a normal return (exit status 0, the stale output file presented as fresh). Rule:
// every function that calls recover() ends, on every path on which something may have been recovered, in a panic or
// in os.Exit / log.Fatal with a non-zero status; a path that returns normally must carry the test that the recovered
// value is nil.
func c19NoSwallowedPanics(c *Ctx, r *Report, clause string) {
	var bad []string
	n := 0
	for _, f := range c.AllFuncs() {
		info := f.Pkg.TypesInfo
		// function bodies (declared and literal) that contain a direct recover() call
		var bodies []*ast.BlockStmt
		var visit func(body *ast.BlockStmt)
		visit = func(body *ast.BlockStmt) {
			direct := false
			ast.Inspect(body, func(nd ast.Node) bool {
				switch x := nd.(type) {
				case *ast.FuncLit:
					visit(x.Body)
					return false
				case *ast.CallExpr:
					if builtinName(info, x) == "recover" {
						direct = true
					}
				}
				return true
			})
			if direct {
				bodies = append(bodies, body)
			}
		}
		visit(f.Decl.Body)
		for _, body := range bodies {
			n++
			pe := newPathEnum(info)
			paths, err := pe.Enumerate(body.List)
			if err != nil {
				bad = append(bad, fmt.Sprintf("%s at %s recovers from panics in a function that cannot be enumerated (%v)", f.Name, c.pos(body.Pos()), err))
				continue
			}
			for _, p := range paths {
				if p.Kind == "panic" {
					continue
				}
				exits := false
				for _, e := range p.Effects {
					if e.Kind != "call" {
						continue
					}
					switch {
					case e.Term.Name == "os.Exit":
						if len(e.Term.Args) == 1 && e.Term.Args[0].Val != nil && e.Term.Args[0].Val.ExactString() != "0" {
							exits = true
						}
					case strings.HasPrefix(e.Term.Name, "log.Fatal"), strings.HasPrefix(e.Term.Name, "log.Panic"):
						exits = true
					}
				}
				if exits {
					continue
				}
				nothingRecovered := false
				for _, cd := range p.Conds {
					s := cd.Atom.String()
					if strings.Contains(s, "recover()") && ((strings.Contains(s, "== nil") && cd.Pol) || (strings.Contains(s, "!= nil") && !cd.Pol)) {
						nothingRecovered = true
					}
				}
				if !nothingRecovered {
					bad = append(bad, fmt.Sprintf("%s at %s: a path [%s] returns normally after recover(): a panic that reports an unusable grammar would end as a successful run", f.Name, c.pos(body.Pos()), p.CondString()))
					break
				}
			}
		}
	}
	sortStrings(bad)
	r.Check(len(bad) == 0, clause, "R7 ERROR-DISCIPLINE", "repo/no-panic-is-swallowed", "-",
		fmt.Sprintf("%d function(s) call recover(); each ends in a panic or a non-zero exit whenever something was recovered", n),
		strings.Join(bad, "; "))
}

// nilTestOperand: cond is `x <op> nil` or `nil <op> x` (op is token.NEQ or token.EQL); the operand x, else nil.
func nilTestOperand(info *types.Info, cond ast.Expr, op token.Token) ast.Expr {
	be, ok := unparen(cond).(*ast.BinaryExpr)
	if !ok || be.Op != op {
		return nil
	}
	isNil := func(e ast.Expr) bool {
		id, ok := unparen(e).(*ast.Ident)
		if !ok {
			return false
		}
		_, isN := info.Uses[id].(*types.Nil)
		return isN
	}
	switch {
	case isNil(be.Y) && !isNil(be.X):
		return unparen(be.X)
	case isNil(be.X) && !isNil(be.Y):
		return unparen(be.Y)
	}
	return nil
}

// c19LexerErrorStops — the premise of the parser-side discipline above ("after a lexical error the lexer stops, so
// every later token is EOF") on the lexer's side: every call of (*lexer).error in a state function ends the state
// machine — it is the operand of the function's return (error() returns the nil state), or the next statement is
// `return nil`. One tabled site: CommentState reports an unterminated comment inside its endless loop; that call is
// guarded by "the rune read is eof", and at end of input no ordinary token can follow (premise re-checked: the guard
// compares a next() result with eof). A state that reports an error and goes on lexing hands the parser an error
// token followed by ordinary ones; where the parser does not look at a token's kind (the <tag> position of a
// declaration) the error's text is taken as a name and the run ends as a success.
func c19LexerErrorStops(c *Ctx, r *Report, clause string) {
	key := "Parser/a-lexical-error-stops-the-lexer"
	tabled := map[string]string{
		"Parser.CommentState": "end of input inside a comment: the guard is `rune == eof`, nothing but this error can follow",
	}
	var bad []string
	nStop, nTabled := 0, 0
	for _, f := range c.AllFuncs() {
		if f.Pkg.Types.Name() != "parser" {
			continue
		}
		info := f.Pkg.TypesInfo
		pm := parentMap(f.Decl.Body)
		ast.Inspect(f.Decl.Body, func(n ast.Node) bool {
			call, ok := n.(*ast.CallExpr)
			if !ok {
				return true
			}
			fn := callee(info, call)
			if fn == nil || fn.Name() != "error" || recvNamed(fn) != "lexer" {
				return true
			}
			if f.Obj == fn {
				return true
			}
			// `return l.error(…)`
			if rt, isR := pm[call].(*ast.ReturnStmt); isR && len(rt.Results) == 1 {
				nStop++
				return true
			}
			var stmt ast.Stmt
			var list []ast.Stmt
			for cur := ast.Node(call); cur != nil && stmt == nil; cur = pm[cur] {
				if st, isS := cur.(ast.Stmt); isS {
					switch par := pm[cur].(type) {
					case *ast.BlockStmt:
						stmt, list = st, par.List
					case *ast.CaseClause:
						stmt, list = st, par.Body
					}
				}
			}
			stops := false
			for i, st := range list {
				if st == stmt && i+1 < len(list) {
					if rt, isR := list[i+1].(*ast.ReturnStmt); isR && len(rt.Results) == 1 {
						if id, isI := unparen(rt.Results[0]).(*ast.Ident); isI && id.Name == "nil" {
							stops = true
						}
					}
				}
			}
			switch {
			case stops:
				nStop++
			case tabled[f.Name] != "":
				eofGuard := false
				for _, a := range guardAtoms(c, f, stmt) {
					if strings.Contains(a, "next(") && strings.Contains(a, "== -1") && !strings.HasPrefix(a, "!") {
						eofGuard = true
					}
				}
				if eofGuard {
					nTabled++
				} else {
					bad = append(bad, fmt.Sprintf("%s at %s: tabled as an end-of-input report, but it is no longer guarded by `rune == eof`", f.Name, c.pos(call.Pos())))
				}
			default:
				bad = append(bad, fmt.Sprintf("%s at %s reports a lexical error and goes on lexing: the parser receives ordinary tokens behind the error token, and where it does not look at a token's kind (a <tag>) the run ends as a success with the error's text in the output", f.Name, c.pos(call.Pos())))
			}
			return true
		})
	}
	sortStrings(bad)
	if nStop < 6 && len(bad) == 0 {
		r.Undecided(clause, "R7 ERROR-DISCIPLINE", key, "Parser/Lex.go", fmt.Sprintf("only %d stopping error sites found (9 confirmed by hand)", nStop))
		return
	}
	r.Check(len(bad) == 0, clause, "R7 ERROR-DISCIPLINE", key, "Parser/Lex.go",
		fmt.Sprintf("%d lexer error sites end the state machine (`return nil` / `return l.error(…)`), %d tabled end-of-input site(s) with the premise re-checked", nStop, nTabled),
		strings.Join(bad, "; "))
}
