package main

// writer.go — analysis of the table writer (LALR.GenTable), shared by C01.a, C04.d, C06.

import (
	"fmt"
	"go/ast"
	"go/constant"
	"go/token"
	"go/types"
	"strings"
)

type genTableCells struct {
	err                 string
	pos                 token.Pos
	prefillIsErrorCode  bool // whole row pre-filled with GenErrorCode()
	errorLeavesPrefill  bool // ERROR action stores nothing into the row
	nonErrorStoresIndex bool // row[key] = act[0].ActionIndex when it is non-zero
	zeroStoresAccept    bool // row[key] = GenAcceptCode() when ActionIndex == 0
	keyIsRangeKey       bool
	rowLenIsSymbols     bool
	paths               int
}

func analyseGenTableCells(c *Ctx, f *FuncRef) genTableCells {
	var res genTableCells
	info := f.Pkg.TypesInfo
	at := map[string]constant.Value{}
	for _, n := range []string{"SHIFT", "REDUCE", "ERROR"} {
		v, ok := pkgConst(c.Pkg("LALR"), n)
		if !ok {
			res.err = "constant " + n + " not found"
			return res
		}
		at[n] = v
	}
	// the loop over the resolved action set: a range over a map[int][]*Action whose body stores into a []int row
	var setLoop *ast.RangeStmt
	ast.Inspect(f.Decl.Body, func(n ast.Node) bool {
		rs, ok := n.(*ast.RangeStmt)
		if !ok {
			return true
		}
		if tv, ok := info.Types[rs.X]; ok {
			if m, ok := tv.Type.Underlying().(*types.Map); ok && strings.Contains(m.Elem().String(), "Action") {
				setLoop = rs
			}
		}
		return true
	})
	if setLoop == nil {
		res.err = "no loop over the resolved action set (map[int][]*Action)"
		return res
	}
	res.pos = setLoop.Pos()
	keyObj := identObj(info, setLoop.Key)
	valObj := identObj(info, setLoop.Value)
	if keyObj == nil || valObj == nil {
		res.err = "the action-set loop does not bind key and value"
		return res
	}
	pe := newPathEnum(info)
	pe.rename[keyObj] = "KEY"
	pe.rename[valObj] = "ACT"
	paths, err := pe.Enumerate(setLoop.Body.List)
	if err != nil {
		res.err = "cannot enumerate the cell writer: " + err.Error()
		return res
	}
	res.paths = len(paths)
	// find row variable: the target of stores indexed by KEY
	rowName := ""
	for _, p := range paths {
		for _, e := range p.Effects {
			if e.Kind == "store" && e.LHS.Op == "index" && e.LHS.Args[1].String() == "KEY" {
				rowName = e.LHS.Args[0].String()
			}
		}
	}
	if rowName == "" {
		res.err = "the action-set loop never stores row[key]"
		return res
	}
	res.keyIsRangeKey = true
	type class struct {
		ty  string
		idx int64
	}
	res.errorLeavesPrefill, res.nonErrorStoresIndex, res.zeroStoresAccept = true, true, true
	for _, cl := range []class{{"SHIFT", 5}, {"REDUCE", -3}, {"REDUCE", 0}, {"ERROR", 0}, {"ERROR", 4}} {
		cc := cl
		val := func(t *Term) (constant.Value, bool) {
			if t.Op == "field" && t.Args[0].String() == "ACT[0]" {
				switch t.Name {
				case "ActionType":
					return at[cc.ty], true
				case "ActionIndex":
					return constant.MakeInt64(cc.idx), true
				}
			}
			return nil, false
		}
		hits := selectPaths(paths, val)
		if len(hits) == 0 {
			res.err = fmt.Sprintf("cell writer, class %v: no path", cl)
			return res
		}
		for _, p := range hits {
			var stores []Effect
			for _, e := range p.Effects {
				if e.Kind == "store" && e.LHS.Op == "index" && e.LHS.Args[0].String() == rowName {
					stores = append(stores, e)
				}
			}
			switch {
			case cl.ty == "ERROR":
				if len(stores) != 0 {
					res.errorLeavesPrefill = false
				}
			case cl.idx != 0:
				if len(stores) != 1 || stores[0].LHS.Args[1].String() != "KEY" || stores[0].Term.String() != "ACT[0].ActionIndex" {
					res.nonErrorStoresIndex = false
				}
			default:
				if len(stores) != 1 || stores[0].LHS.Args[1].String() != "KEY" || stores[0].Term.Op != "call" || !strings.HasSuffix(stores[0].Term.Name, "LALR1).GenAcceptCode") {
					res.zeroStoresAccept = false
				}
			}
		}
	}
	// prefill: a loop over the whole row storing GenErrorCode() that precedes the set loop in the same block
	pm := parentMap(f.Decl.Body)
	blk, _ := pm[setLoop].(*ast.BlockStmt)
	if blk == nil {
		res.err = "action-set loop is not in a block"
		return res
	}
	for _, s := range blk.List {
		if s == ast.Stmt(setLoop) {
			break
		}
		// row := make([]int, len(G.Symbols))
		if as, ok := s.(*ast.AssignStmt); ok && len(as.Rhs) == 1 {
			if call, ok := as.Rhs[0].(*ast.CallExpr); ok && builtinName(info, call) == "make" && len(call.Args) >= 2 {
				defs := newDefs(info)
				defs.scan(f.Decl.Body)
				pc := &pathCtx{info: info, defs: defs, root: f.Decl.Body}
				if strings.HasSuffix(pc.path(call.Args[1]), ".G.Symbols)") && strings.HasPrefix(pc.path(call.Args[1]), "len(") {
					res.rowLenIsSymbols = true
				}
			}
		}
		if full, body, idx := fullRangeLoop(info, s); full != nil && exprString(full) == rowName {
			for _, bs := range body.List {
				if as, ok := bs.(*ast.AssignStmt); ok && len(as.Lhs) == 1 && len(as.Rhs) == 1 && as.Tok == token.ASSIGN {
					if ix, ok := as.Lhs[0].(*ast.IndexExpr); ok && exprString(ix.X) == rowName && identObj(info, ix.Index) == idx {
						rhs := unparen(as.Rhs[0])
						// a local with a single definition stands for its defining expression
						if o := identObj(info, rhs); o != nil {
							defs := newDefs(info)
							defs.scan(f.Decl.Body)
							if defs.count[o] == 1 && defs.single[o] != nil {
								rhs = unparen(defs.single[o])
							}
						}
						if call, ok := rhs.(*ast.CallExpr); ok && strings.HasSuffix(shortFuncName(callee(info, call)), "LALR1).GenErrorCode") {
							res.prefillIsErrorCode = true
						}
					}
				}
			}
		}
	}
	return res
}

// fullRangeLoop recognises `for i := 0; i < len(X); i++ {…}` and `for i := range X {…}`; it returns X, the
// body and the index variable.
func fullRangeLoop(info *types.Info, s ast.Stmt) (ast.Expr, *ast.BlockStmt, types.Object) {
	switch l := s.(type) {
	case *ast.RangeStmt:
		if l.Key != nil {
			if id, ok := l.Key.(*ast.Ident); !ok || id.Name != "_" {
				return l.X, l.Body, identObj(info, l.Key) // with or without a value variable: every index is visited
			}
		}
	case *ast.ForStmt:
		init, ok := l.Init.(*ast.AssignStmt)
		if !ok || len(init.Lhs) != 1 || len(init.Rhs) != 1 {
			return nil, nil, nil
		}
		if v, ok := constInt(info, init.Rhs[0]); !ok || v != 0 {
			return nil, nil, nil
		}
		iv := identObj(info, init.Lhs[0])
		bound, ok := upperBound(info, l.Cond, iv)
		if !ok {
			return nil, nil, nil
		}
		call, ok := unparen(bound).(*ast.CallExpr)
		if !ok || builtinName(info, call) != "len" {
			// allow a constant expression equal to the make length, e.g. i < maxIndex+1: not recognised here
			return nil, nil, nil
		}
		post, ok := l.Post.(*ast.IncDecStmt)
		if !ok || post.Tok != token.INC || identObj(info, post.X) != iv {
			return nil, nil, nil
		}
		return call.Args[0], l.Body, iv
	}
	return nil, nil, nil
}

// upperBound: cond is `i < B` or `B > i` for the counter i; returns B.
func upperBound(info *types.Info, cond ast.Expr, iv types.Object) (ast.Expr, bool) {
	be, ok := unparen(cond).(*ast.BinaryExpr)
	if !ok || iv == nil {
		return nil, false
	}
	switch {
	case be.Op == token.LSS && identObj(info, be.X) == iv:
		return be.Y, true
	case be.Op == token.GTR && identObj(info, be.Y) == iv:
		return be.X, true
	}
	return nil, false
}
