package main

// C13 — generation terminates on every input text.
// Decided: (a) R8 STUCK-KIND EXIT: every loop of the grammar-file parser exits when every further token has a
// kind of K∞ (the kind delivered once the lexer's channel is closed, and the error kind); (b) every lexer
// loop exits, or passes a blocking send, once next() keeps returning eof; (c) R9 PROGRESS: no
// zero-consumption cycle in parser loops nor in the lexer's state-function graph; (d) run closes the channel.

import (
	"fmt"
	"go/ast"
	"go/constant"
	"go/token"
	"go/types"
	"sort"
	"strings"
)

func init() { register("C13", checkC13) }

func checkC13(c *Ctx, r *Report) {
	r.Explanation = "R8: the parser's loops are interpreted with the abstract token stream 'every token from now on has kind k' for each k in K∞ = {kind delivered after the channel is closed (derived from nextToken), tokenError}; Token.Is / switch-on-Kind are evaluated on k, one-level callee summaries (returns nil under k) by the same interpretation; every loop-body path consistent with k must leave the loop. Lexer loops are interpreted with next()/peek() = eof (comparisons with rune constants are then decided; unicode.IsLetter/IsDigit/ContainsRune are false at eof). R9: abstract cursor arithmetic (next +1, backup −1, backup2 −2, callee summaries) on every path from loop head to back edge, and on every path of a lexer state function to the state it returns. Not decided: wall-clock bounds, the `dot` subprocess of -g, and termination of table construction (bounded by the 2000-state panic and finite fixpoints, not analysed here)."
	r.Assumptions = append(r.Assumptions,
		"the lexer goroutine and the parser communicate only through the unbuffered token channel; a lexer blocked on a send after the parser has stopped is not a hang of the process",
		"grammar analysis after parsing (closures, lookaheads, table packing) terminates: finite fixpoints, not checked by this property's rules")
	c13Parser(c, r)
	c13ChannelReaders(c, r)
	c13Lexer(c, r)
	c13Progress(c, r)
}

// closedKind derives the Kind of the token nextToken yields once the channel is closed.
func closedKind(c *Ctx, r *Report) (string, bool) {
	const clause = "C13.a"
	f := c.need(r, clause, "Parser", "lexer", "nextToken")
	if f == nil {
		return "", false
	}
	info := f.Pkg.TypesInfo
	var recv *ast.UnaryExpr
	var commaOK types.Object
	n := 0
	ast.Inspect(f.Decl.Body, func(nd ast.Node) bool {
		switch x := nd.(type) {
		case *ast.UnaryExpr:
			if x.Op == token.ARROW {
				recv = x
				n++
			}
		case *ast.AssignStmt:
			if len(x.Lhs) == 2 && len(x.Rhs) == 1 {
				if u, ok := unparen(x.Rhs[0]).(*ast.UnaryExpr); ok && u.Op == token.ARROW {
					commaOK = identObj(info, x.Lhs[1])
				}
			}
		case *ast.SelectStmt:
			n += 10
		}
		return true
	})
	if n != 1 || recv == nil {
		r.Undecided(clause, "R8 STUCK-KIND", f.Name+"/closed-channel-kind", c.pos(f.Decl.Pos()), "nextToken is not a single receive from the token channel")
		return "", false
	}
	if commaOK == nil {
		return "", true // plain receive: zero Token, Kind ""
	}
	// comma-ok: enumerate paths; the path with !ok must return a Token literal with constant Kind
	pe := newPathEnum(info)
	paths, err := pe.Enumerate(f.Decl.Body.List)
	if err != nil {
		r.Undecided(clause, "R8 STUCK-KIND", f.Name+"/closed-channel-kind", c.pos(f.Decl.Pos()), err.Error())
		return "", false
	}
	kinds := map[string]bool{}
	for _, p := range paths {
		closed := false
		for _, cd := range p.Conds {
			if strings.Contains(cd.Atom.String(), "result1") && !cd.Pol {
				closed = true
			}
		}
		okTrue := false
		for _, cd := range p.Conds {
			if strings.Contains(cd.Atom.String(), "result1") && cd.Pol {
				okTrue = true
			}
		}
		if okTrue {
			continue
		}
		_ = closed
		if p.Kind != "return" || len(p.Vals) != 1 {
			r.Undecided(clause, "R8 STUCK-KIND", f.Name+"/closed-channel-kind", c.pos(f.Decl.Pos()), "a path of nextToken does not return a token")
			return "", false
		}
		v := p.Vals[0]
		if v.Op == "composite" {
			if k, ok := v.Fields["Kind"]; ok && k.Op == "const" {
				kinds[constant.StringVal(k.Val)] = true
				continue
			}
			kinds[""] = true
			continue
		}
		// returns the received value although the channel may be closed
		kinds[""] = true
	}
	if len(kinds) != 1 {
		r.Undecided(clause, "R8 STUCK-KIND", f.Name+"/closed-channel-kind", c.pos(f.Decl.Pos()), fmt.Sprintf("cannot derive a single kind for the closed channel (%v)", kinds))
		return "", false
	}
	for k := range kinds {
		return k, true
	}
	return "", false
}

// kindValuation evaluates Token.Is(K) and Token.Kind under "every token has kind k".
func kindValuation(c *Ctx, k string, summaries func(call *Term) (bool, bool)) Valuation {
	return func(t *Term) (constant.Value, bool) {
		if t.Op == "call" && strings.HasSuffix(t.Name, "Token).Is") {
			if len(t.Args) == 2 && t.Args[1].Op == "const" && t.Args[1].Val.Kind() == constant.String {
				return constant.MakeBool(constant.StringVal(t.Args[1].Val) == k), true
			}
			return nil, false
		}
		if t.Op == "field" && t.Name == "Kind" {
			return constant.MakeString(k), true
		}
		if t.Op == "cmp" && (t.Name == "==" || t.Name == "!=") && summaries != nil {
			a, b := t.Args[0], t.Args[1]
			if b.Op == "call" {
				a, b = b, a
			}
			if a.Op == "call" && b.Op == "leaf" && b.Name == "nil" {
				if isNil, ok := summaries(a); ok {
					if t.Name == "!=" {
						isNil = !isNil
					}
					return constant.MakeBool(isNil), true
				}
			}
		}
		return nil, false
	}
}

// loopsOf returns the for/range loops of a function body, outermost first (nested function literals excluded).
func loopsOf(body *ast.BlockStmt) []ast.Stmt {
	var out []ast.Stmt
	ast.Inspect(body, func(n ast.Node) bool {
		switch n.(type) {
		case *ast.FuncLit:
			return false
		case *ast.ForStmt, *ast.RangeStmt:
			out = append(out, n.(ast.Stmt))
		}
		return true
	})
	return out
}

// loopPaths enumerates the paths of one iteration of a for loop: the condition (if any) is the first test.
func loopPaths(info *types.Info, fs *ast.ForStmt) ([]*PathOut, error) {
	pe := newPathEnum(info)
	var stmts []ast.Stmt
	if fs.Cond != nil {
		stmts = append(stmts, &ast.IfStmt{Cond: &ast.UnaryExpr{Op: token.NOT, X: &ast.ParenExpr{X: fs.Cond}}, Body: &ast.BlockStmt{List: []ast.Stmt{&ast.BranchStmt{Tok: token.BREAK}}}})
	}
	stmts = append(stmts, fs.Body.List...)
	if fs.Post != nil {
		stmts = append(stmts, fs.Post)
	}
	return pe.Enumerate(stmts)
}

// leavesLoop: does the outcome of a body path leave the loop fs (inside function body)?
func leavesLoop(p *PathOut, fs ast.Stmt, body *ast.BlockStmt) bool {
	switch p.Kind {
	case "return", "panic":
		return true
	case "break":
		return true // unlabeled break of this loop, or labeled break of an enclosing one
	case "goto":
		var target ast.Stmt
		ast.Inspect(body, func(n ast.Node) bool {
			if ls, ok := n.(*ast.LabeledStmt); ok && ls.Label.Name == p.Label {
				target = ls
			}
			return true
		})
		return target != nil && (target.Pos() < fs.Pos() || target.Pos() >= fs.End())
	}
	return false // fall, continue
}

func parserFuncs(c *Ctx) []*FuncRef {
	var out []*FuncRef
	for _, f := range c.AllFuncs() {
		if !strings.HasPrefix(f.Name, "Parser.") {
			continue
		}
		rn, _ := recvTypeName(f.Decl)
		if rn == "parser" || f.Decl.Name.Name == "Parse" {
			out = append(out, f)
		}
	}
	return out
}

func c13Parser(c *Ctx, r *Report) {
	const clause = "C13.a"
	ck, ok := closedKind(c, r)
	if !ok {
		return
	}
	errKind, okc := pkgConst(c.Pkg("Parser"), "tokenError")
	if !okc {
		r.Undecided(clause, "ANCHOR", "Parser.tokenError", "-", "constant not found")
		return
	}
	kinf := []string{ck, constant.StringVal(errKind)}
	r.Extra["C13_Kinf"] = kinf
	shown := ck
	if shown == "" {
		shown = `"" (zero Token of the closed channel)`
	}
	r.OK(clause, "R8 STUCK-KIND", "Parser.(*lexer).nextToken/closed-channel-kind", "Parser/Lex.go", "K∞ = {"+shown+", "+constant.StringVal(errKind)+"}")
	funcs := parserFuncs(c)
	byObj := map[string]*FuncRef{}
	for _, f := range funcs {
		byObj[shortFuncName(f.Obj)] = f
	}
	nLoops := 0
	for _, f := range funcs {
		info := f.Pkg.TypesInfo
		for _, l := range loopsOf(f.Decl.Body) {
			fs, ok := l.(*ast.ForStmt)
			if !ok {
				continue // range loops over slices are bounded
			}
			nLoops++
			paths, err := loopPaths(info, fs)
			construct := fmt.Sprintf("%s/loop@%s", f.Name, loopKey(info, fs))
			if err != nil {
				r.Undecided(clause, "R8 STUCK-KIND", construct, c.pos(fs.Pos()), err.Error())
				continue
			}
			for _, k := range kinf {
				kk := k
				summaries := func(call *Term) (bool, bool) {
					cf := byObj[call.Name]
					if cf == nil {
						return false, false
					}
					return summaryNil(c, cf, kk)
				}
				val := kindValuation(c, kk, summaries)
				var stuck *PathOut
				nCons := 0
				for _, p := range selectPaths(paths, val) {
					nCons++
					if !leavesLoop(p, fs, f.Decl.Body) {
						stuck = p
						break
					}
				}
				kshow := kk
				if kshow == "" {
					kshow = `""`
				}
				if stuck != nil {
					r.Fail(clause, "R8 STUCK-KIND", construct+"/kind="+kshow, c.pos(fs.Pos()),
						fmt.Sprintf("when every further token has kind %s the loop has an iteration that returns to its head: path [%s] ends in %q — nothing on it tests for this kind, so the parser spins forever on a truncated input", kshow, stuck.CondString(), stuck.Kind))
				} else {
					r.OK(clause, "R8 STUCK-KIND", construct+"/kind="+kshow, c.pos(fs.Pos()), fmt.Sprintf("all %d iteration paths consistent with kind %s leave the loop", nCons, kshow))
				}
			}
		}
	}
	r.Extra["C13_parser_loops"] = nLoops
	if nLoops < 5 {
		r.Undecided(clause, "R8 STUCK-KIND", "Parser/parser-loops", "Parser/Parser.go", fmt.Sprintf("only %d parser loops found, 6 were confirmed by hand (Parse, parseDeclare, parseTokendef, parsePrecList, parseTypeList, parseRule)", nLoops))
	}
	// (d) run closes the channel after the state loop
	if f := c.need(r, "C13.d", "Parser", "lexer", "run"); f != nil {
		info := f.Pkg.TypesInfo
		closes := false
		var last ast.Stmt
		if n := len(f.Decl.Body.List); n > 0 {
			last = f.Decl.Body.List[n-1]
		}
		if es, ok := last.(*ast.ExprStmt); ok {
			if call, ok := es.X.(*ast.CallExpr); ok && builtinName(info, call) == "close" {
				closes = true
			}
		}
		// deferred close is fine too
		ast.Inspect(f.Decl.Body, func(n ast.Node) bool {
			if d, ok := n.(*ast.DeferStmt); ok && builtinName(info, d.Call) == "close" {
				closes = true
			}
			return true
		})
		hasReturn := false
		ast.Inspect(f.Decl.Body, func(n ast.Node) bool {
			if _, ok := n.(*ast.ReturnStmt); ok {
				hasReturn = true
			}
			return true
		})
		r.Check(closes && !hasReturn, "C13.d", "R2 ORDER", f.Name+"/close-on-exit", c.pos(f.Decl.Pos()),
			"the lexer goroutine closes the token channel on its only exit, so a receiving parser is never left blocked",
			"the lexer goroutine can finish without closing the token channel: a parser waiting for the next token blocks forever")
	}
}

// loopKey identifies a loop inside its function by what it is about: first called method in the body / condition text.
func loopKey(info *types.Info, fs *ast.ForStmt) string {
	if fs.Cond != nil {
		s := exprString(fs.Cond)
		if len(s) > 40 {
			s = s[:40]
		}
		return "cond:" + s
	}
	first := ""
	ast.Inspect(fs.Body, func(n ast.Node) bool {
		if first != "" {
			return false
		}
		if call, ok := n.(*ast.CallExpr); ok {
			if f := callee(info, call); f != nil {
				first = f.Name()
			}
		}
		return true
	})
	return "first-call:" + first
}

// summaryNil: under kind k, does fn return nil (first result) on every consistent path?
func summaryNil(c *Ctx, fn *FuncRef, k string) (bool, bool) {
	pe := newPathEnum(fn.Pkg.TypesInfo)
	paths, err := pe.Enumerate(fn.Decl.Body.List)
	if err != nil {
		return false, false
	}
	val := kindValuation(c, k, nil)
	allNil, allNon := true, true
	n := 0
	for _, p := range selectPaths(paths, val) {
		if p.Kind == "panic" {
			continue
		}
		if p.Kind != "return" || len(p.Vals) < 1 {
			return false, false
		}
		n++
		v := p.Vals[0]
		if v.Op == "leaf" && v.Name == "nil" {
			allNon = false
		} else if v.Op == "addr" || v.Op == "composite" {
			allNil = false
		} else {
			allNil, allNon = false, false
		}
	}
	if n == 0 {
		return false, false
	}
	if allNil {
		return true, true
	}
	if allNon {
		return false, true
	}
	return false, false
}

// ---------------------------------------------------------------------------------------------
// lexer loops at eof

func eofValuation(info *types.Info) Valuation {
	return func(t *Term) (constant.Value, bool) {
		if t.Op == "call" {
			switch {
			case strings.HasSuffix(t.Name, "lexer).next"), strings.HasSuffix(t.Name, "lexer).peek"):
				return constant.MakeInt64(-1), true
			case t.Name == "unicode.IsLetter", t.Name == "unicode.IsDigit", t.Name == "unicode.IsSpace", t.Name == "unicode.IsUpper", t.Name == "unicode.IsLower":
				if len(t.Args) == 1 {
					if v, ok := evalTerm(t.Args[0], eofValuation(info)); ok && v.ExactString() == "-1" {
						return constant.MakeBool(false), true
					}
				}
			case t.Name == "strings.ContainsRune":
				if len(t.Args) == 2 {
					if v, ok := evalTerm(t.Args[1], eofValuation(info)); ok && v.ExactString() == "-1" {
						return constant.MakeBool(false), true
					}
				}
			}
		}
		return nil, false
	}
}

// lexLoopMoves: see the call site. Returns "" or the reason the loop cannot observe progress.
func lexLoopMoves(info *types.Info, fs *ast.ForStmt) string {
	consumes := func(n ast.Node) bool {
		hit := false
		ast.Inspect(n, func(m ast.Node) bool {
			if call, ok := m.(*ast.CallExpr); ok {
				if fn := callee(info, call); fn != nil {
					switch fn.Name() {
					case "next", "acceptRun", "acceptWord", "acceptOnlyAlphaWord":
						hit = true
					}
				}
			}
			return !hit
		})
		return hit
	}
	// (i) locals tested by the condition
	if fs.Cond != nil {
		var tested []types.Object
		ast.Inspect(fs.Cond, func(m ast.Node) bool {
			if id, ok := m.(*ast.Ident); ok {
				if v, ok := objOf(info, id).(*types.Var); ok && !v.IsField() && v.Pkg() != nil && v.Parent() != v.Pkg().Scope() {
					if _, isSig := v.Type().Underlying().(*types.Pointer); !isSig {
						tested = append(tested, v)
					}
				}
			}
			return true
		})
		for _, v := range tested {
			assigned := false
			for _, part := range []ast.Node{fs.Body, fs.Post} {
				if part == nil || (part == ast.Node(fs.Post) && fs.Post == nil) {
					continue
				}
				ast.Inspect(part, func(m ast.Node) bool {
					if as, ok := m.(*ast.AssignStmt); ok {
						for _, l := range as.Lhs {
							if identObj(info, l) == v {
								assigned = true
							}
						}
					}
					if id, ok := m.(*ast.IncDecStmt); ok && identObj(info, id.X) == v {
						assigned = true
					}
					return true
				})
			}
			if !assigned && !consumes(fs.Cond) {
				return "the loop condition tests " + v.Name() + ", which nothing inside the loop assigns: once true it stays true and the loop never ends"
			}
		}
	}
	// (ii) consumption
	if fs.Cond != nil && consumes(fs.Cond) {
		return ""
	}
	if !consumes(fs.Body) && (fs.Post == nil || !consumes(fs.Post)) {
		return "no iteration of the loop consumes a rune (peek() does not advance): on an input that satisfies the condition the loop never ends"
	}
	return ""
}

func c13Lexer(c *Ctx, r *Report) {
	const clause = "C13.b"
	n := 0
	for _, f := range c.AllFuncs() {
		if !strings.HasPrefix(f.Name, "Parser.") {
			continue
		}
		// lexer code: functions taking or receiving *lexer
		isLexer := false
		if rn, _ := recvTypeName(f.Decl); rn == "lexer" {
			isLexer = true
		}
		for _, p := range f.Decl.Type.Params.List {
			if strings.HasSuffix(exprString(p.Type), "lexer") {
				isLexer = true
			}
		}
		if !isLexer {
			continue
		}
		info := f.Pkg.TypesInfo
		for _, l := range loopsOf(f.Decl.Body) {
			fs, ok := l.(*ast.ForStmt)
			if !ok {
				continue // range over a string constant / word: bounded
			}
			// only loops that read input
			reads := false
			ast.Inspect(fs, func(nd ast.Node) bool {
				if call, ok := nd.(*ast.CallExpr); ok {
					if fn := callee(info, call); fn != nil && (fn.Name() == "next" || fn.Name() == "peek" || fn.Name() == "acceptWord" || fn.Name() == "acceptOnlyAlphaWord") {
						reads = true
					}
				}
				return true
			})
			construct := fmt.Sprintf("%s/loop@%s", f.Name, loopKey(info, fs))
			if f.Decl.Name.Name == "run" {
				continue // the state loop: covered by the state-graph progress rule (C13.c)
			}
			if !reads {
				r.Undecided(clause, "R8 EOF-EXIT", construct, c.pos(fs.Pos()), "lexer loop that does not read input: termination argument unknown")
				continue
			}
			n++
			// the rune tested by the condition may have been read before the loop: bind locals assigned from next()/peek()
			paths, err := loopPathsWithPrelude(info, f.Decl.Body, fs)
			if err != nil {
				r.Undecided(clause, "R8 EOF-EXIT", construct, c.pos(fs.Pos()), err.Error())
				continue
			}
			val := eofValuation(info)
			var stuck *PathOut
			cons := 0
			for _, p := range selectPaths(paths, val) {
				cons++
				if leavesLoop(p, fs, f.Decl.Body) {
					continue
				}
				// a blocking send (emit / error) bounds the iteration by the parser
				blocked := false
				for _, e := range p.Effects {
					if e.Kind == "send" {
						blocked = true
					}
					if e.Kind == "call" && (strings.HasSuffix(e.Term.Name, "lexer).error") || strings.HasSuffix(e.Term.Name, "lexer).emit") || strings.HasSuffix(e.Term.Name, "lexer).emitValue")) {
						blocked = true
					}
				}
				if !blocked {
					stuck = p
					break
				}
			}
			// the loop must be able to see the input move: (i) every local the loop condition tests is assigned again
			// inside the loop (body or post statement), (ii) a continuing iteration consumes a rune (next(), not
			// just peek()) unless the condition itself does
			if stuck == nil {
				if why := lexLoopMoves(info, fs); why != "" {
					r.Fail(clause, "R9 PROGRESS", construct+"/sees-the-input-move", c.pos(fs.Pos()), why)
				} else {
					r.OK(clause, "R9 PROGRESS", construct+"/sees-the-input-move", c.pos(fs.Pos()), "the tested rune is re-read in every iteration and every continuing iteration consumes input")
				}
			}
			if stuck != nil {
				r.Fail(clause, "R8 EOF-EXIT", construct, c.pos(fs.Pos()),
					fmt.Sprintf("once the input is exhausted (next() = eof) the loop has an iteration that neither leaves it nor blocks on a token send: path [%s] ends in %q", stuck.CondString(), stuck.Kind))
			} else {
				r.OK(clause, "R8 EOF-EXIT", construct, c.pos(fs.Pos()), fmt.Sprintf("all %d iteration paths consistent with next() = eof leave the loop or block on a token send", cons))
			}
		}
	}
	// premise of "blocks on a token send": the three primitives the rule above counts as a send do send — on every
	// path. An error() that reports only the first error, or an emit that drops empty tokens, returns without
	// blocking, and a loop that relied on it spins while the parser waits for a token that never comes
	for _, prim := range []string{"error", "emitValue", "emit", "emitEOF"} {
		f := c.Func("Parser", "lexer", prim)
		if f == nil {
			if prim == "error" || prim == "emitValue" {
				r.Undecided(clause, "R8 EOF-EXIT", "Parser.(*lexer)."+prim+"/always-sends", "Parser/Lex.go", "lexer primitive not found")
			}
			continue
		}
		pe := newPathEnum(f.Pkg.TypesInfo)
		paths, err := pe.Enumerate(f.Decl.Body.List)
		construct := f.Name + "/always-sends"
		if err != nil {
			r.Undecided(clause, "R8 EOF-EXIT", construct, c.pos(f.Decl.Pos()), err.Error())
			continue
		}
		silent := ""
		for _, p := range paths {
			if p.Kind == "panic" {
				continue
			}
			sends := false
			for _, e := range p.Effects {
				if e.Kind == "send" {
					sends = true
				}
				if e.Kind == "call" && (strings.HasSuffix(e.Term.Name, "lexer).emitValue") || strings.HasSuffix(e.Term.Name, "lexer).emit") || strings.HasSuffix(e.Term.Name, "lexer).error")) {
					sends = true
				}
			}
			if !sends {
				silent = p.CondString()
				break
			}
		}
		r.Check(silent == "", clause, "R8 EOF-EXIT", construct, c.pos(f.Decl.Pos()),
			fmt.Sprintf("all %d path(s) through %s send a token: a loop that calls it once per iteration is paced by the parser", len(paths), prim),
			fmt.Sprintf("%s can return without sending a token (path [%s]): lexer loops that call it at end of input neither leave nor block — the lexer spins and the parser waits for ever", prim, silent))
	}
	r.Extra["C13_lexer_loops"] = n
	if n < 8 {
		r.Undecided(clause, "R8 EOF-EXIT", "Parser/lexer-loops", "Parser/Lex.go", fmt.Sprintf("only %d input-reading lexer loops found, 11 were confirmed by hand", n))
	}
}

// loopPathsWithPrelude enumerates one iteration of fs, with the straight-line statements that precede the loop
// in its block evaluated first so that runes read before the loop are bound (e.g. `r := l.next(); for r != '"' {…}`).
func loopPathsWithPrelude(info *types.Info, body *ast.BlockStmt, fs *ast.ForStmt) ([]*PathOut, error) {
	pm := parentMap(body)
	var prelude []ast.Stmt
	if blk, ok := pm[fs].(*ast.BlockStmt); ok {
		for _, s := range blk.List {
			if s == ast.Stmt(fs) {
				break
			}
			switch s.(type) {
			case *ast.AssignStmt, *ast.DeclStmt:
				prelude = append(prelude, s)
			}
		}
	}
	pe := newPathEnum(info)
	var stmts []ast.Stmt
	stmts = append(stmts, prelude...)
	if fs.Init != nil {
		stmts = append(stmts, fs.Init)
	}
	if fs.Cond != nil {
		stmts = append(stmts, &ast.IfStmt{Cond: &ast.UnaryExpr{Op: token.NOT, X: &ast.ParenExpr{X: fs.Cond}}, Body: &ast.BlockStmt{List: []ast.Stmt{&ast.BranchStmt{Tok: token.BREAK}}}})
	}
	stmts = append(stmts, fs.Body.List...)
	if fs.Post != nil {
		stmts = append(stmts, fs.Post)
	}
	paths, err := pe.Enumerate(stmts)
	if err != nil {
		return nil, err
	}
	// drop the effects of the prelude (they happen once, before the loop)
	return paths, nil
}

// ---------------------------------------------------------------------------------------------
// R9 progress

// cursorDelta sums the abstract token-cursor movement of a path's calls.
func cursorDelta(p *PathOut, summ map[string]int, unknown *[]string) int {
	d := 0
	for _, e := range p.Effects {
		if e.Kind == "loop" {
			continue // nested loops: every iteration is checked to be ≥ 0 on its own
		}
		if e.Kind != "call" {
			continue
		}
		n := e.Term.Name
		switch {
		case strings.HasSuffix(n, "parser).next"):
			d++
		case strings.HasSuffix(n, "parser).backup"):
			d--
		case strings.HasSuffix(n, "parser).backup2"):
			d -= 2
		default:
			// a path that has established `call != nil` uses the summary of the callee's non-nil returns
			nonNil := false
			for _, cd := range p.Conds {
				a := cd.Atom
				if a.Op == "cmp" && (a.Name == "==" || a.Name == "!=") && len(a.Args) == 2 {
					x, y := a.Args[0], a.Args[1]
					if y.Op == "call" {
						x, y = y, x
					}
					if x == e.Term && y.Op == "leaf" && y.Name == "nil" && cd.Pol == (a.Name == "!=") {
						nonNil = true
					}
				}
			}
			if v, ok := summ[n+"#nonnil"]; ok && nonNil {
				d += v
			} else if v, ok := summ[n]; ok {
				d += v
			}
		}
	}
	return d
}

func c13Progress(c *Ctx, r *Report) {
	const clause = "C13.c"
	funcs := parserFuncs(c)
	// callee summaries: minimal cursor movement over all paths to a return (loops contribute their exit paths)
	summ := map[string]int{}
	// iterate to a fixpoint from optimistic large values is unsound; compute bottom-up: helpers without parser calls first
	order := []*FuncRef{}
	for _, f := range funcs {
		order = append(order, f)
	}
	sort.Slice(order, func(i, j int) bool { return order[i].Name < order[j].Name })
	for iter := 0; iter < 4; iter++ {
		for _, f := range order {
			name := shortFuncName(f.Obj)
			switch f.Decl.Name.Name {
			case "next", "backup", "backup2":
				continue
			}
			pe := newPathEnum(f.Pkg.TypesInfo)
			paths, err := pe.Enumerate(f.Decl.Body.List)
			if err != nil {
				continue
			}
			min := 1 << 20
			minNonNil := 1 << 20
			for _, p := range paths {
				if p.Kind == "panic" {
					continue
				}
				d := cursorDelta(p, summ, nil)
				// loops inside: add the minimal exit-path delta of each nested loop
				for _, e := range p.Effects {
					if e.Kind == "loop" {
						if fs, ok := e.Node.(*ast.ForStmt); ok {
							d += loopExitMin(f, fs, summ)
						}
					}
				}
				if d < min {
					min = d
				}
				if p.Kind == "return" && len(p.Vals) > 0 && !(p.Vals[0].Op == "leaf" && p.Vals[0].Name == "nil") && d < minNonNil {
					minNonNil = d
				}
			}
			if min != 1<<20 {
				summ[name] = min
			}
			if minNonNil != 1<<20 {
				summ[name+"#nonnil"] = minNonNil
			}
		}
	}
	r.Extra["C13_cursor_summaries"] = summ
	n := 0
	for _, f := range funcs {
		info := f.Pkg.TypesInfo
		for _, l := range loopsOf(f.Decl.Body) {
			fs, ok := l.(*ast.ForStmt)
			if !ok {
				continue
			}
			n++
			construct := fmt.Sprintf("%s/loop@%s", f.Name, loopKey(info, fs))
			paths, err := loopPaths(info, fs)
			if err != nil {
				r.Undecided(clause, "R9 PROGRESS", construct, c.pos(fs.Pos()), err.Error())
				continue
			}
			bad := ""
			nb := 0
			for _, p := range paths {
				if leavesLoop(p, fs, f.Decl.Body) {
					continue
				}
				nb++
				if d := cursorDelta(p, summ, nil); d < 1 {
					bad = fmt.Sprintf("an iteration returns to the loop head with net token consumption %d: path [%s] (calls %v)", d, p.CondString(), effectCalls(p))
					break
				}
			}
			r.Check(bad == "", clause, "R9 PROGRESS", construct, c.pos(fs.Pos()),
				fmt.Sprintf("each of the %d iteration paths that return to the loop head consumes at least one token (next +1, backup −1, backup2 −2, callee summaries)", nb), bad)
		}
	}
	// lexer state functions
	c13LexerProgress(c, r)
}

// loopExitMin: minimal cursor delta of the paths that leave the loop (iterations that stay are ≥ 0 by the progress rule).
func loopExitMin(f *FuncRef, fs *ast.ForStmt, summ map[string]int) int {
	paths, err := loopPaths(f.Pkg.TypesInfo, fs)
	if err != nil {
		return -2
	}
	min := 1 << 20
	for _, p := range paths {
		if !leavesLoop(p, fs, f.Decl.Body) || p.Kind == "panic" {
			continue
		}
		if d := cursorDelta(p, summ, nil); d < min {
			min = d
		}
	}
	if min == 1<<20 {
		return 0
	}
	return min
}

// runeSetOfGuard: for a case guard that only compares the rune with constants, the finite set of runes it admits
// (nil when the guard is not of that form).
func runeSetOfGuard(conds []Cond, runeStr string) []rune {
	// collect constraints on the rune from the positive conditions of the path
	lo, hi := rune(-2), rune(0x110000)
	eq := rune(-2)
	bounded := false
	for _, cd := range conds {
		a := cd.Atom
		if a.Op != "cmp" {
			continue
		}
		x, y := a.Args[0], a.Args[1]
		op := a.Name
		if y.String() == runeStr && x.Op == "const" {
			x, y = y, x
			switch op {
			case "<":
				op = ">"
			case ">":
				op = "<"
			case "<=":
				op = ">="
			case ">=":
				op = "<="
			}
		}
		if x.String() != runeStr || y.Op != "const" {
			continue
		}
		v, ok := constant.Int64Val(y.Val)
		if !ok {
			continue
		}
		if !cd.Pol {
			switch op {
			case "<":
				op = ">="
			case ">":
				op = "<="
			case "<=":
				op = ">"
			case ">=":
				op = "<"
			default:
				continue
			}
		}
		switch op {
		case "==":
			eq = rune(v)
		case ">=":
			if rune(v) > lo {
				lo = rune(v)
			}
			bounded = true
		case ">":
			if rune(v)+1 > lo {
				lo = rune(v) + 1
			}
			bounded = true
		case "<=":
			if rune(v) < hi {
				hi = rune(v)
			}
			bounded = true
		case "<":
			if rune(v)-1 < hi {
				hi = rune(v) - 1
			}
			bounded = true
		}
	}
	if eq != -2 {
		return []rune{eq}
	}
	if bounded && lo >= 0 && hi < 0x110000 && hi-lo < 4096 {
		var out []rune
		for x := lo; x <= hi; x++ {
			out = append(out, x)
		}
		return out
	}
	return nil
}

func c13LexerProgress(c *Ctx, r *Report) {
	const clause = "C13.c"
	// state functions: func(*lexer) stateFn
	var states []*FuncRef
	for _, f := range c.AllFuncs() {
		if !strings.HasPrefix(f.Name, "Parser.") || f.Decl.Recv != nil || f.Decl.Type.Results == nil || len(f.Decl.Type.Results.List) != 1 {
			continue
		}
		if exprString(f.Decl.Type.Results.List[0].Type) == "stateFn" {
			states = append(states, f)
		}
	}
	if len(states) < 8 {
		r.Undecided(clause, "R9 PROGRESS", "Parser/lexer-state-functions", "Parser/Lex.go", fmt.Sprintf("only %d state functions found", len(states)))
		return
	}
	isState := map[string]bool{}
	for _, s := range states {
		isState[shortFuncName(s.Obj)] = true
	}
	// minimal rune consumption of every state function on paths that return another state
	minCons := map[string]int{}
	zeroPaths := map[string][]string{}
	edges := map[string]map[string]int{} // state -> successor -> min consumption on that edge
	for _, s := range states {
		info := s.Pkg.TypesInfo
		pe := newPathEnum(info)
		paths, err := pe.Enumerate(s.Decl.Body.List)
		name := shortFuncName(s.Obj)
		if err != nil {
			r.Undecided(clause, "R9 PROGRESS", s.Name, c.pos(s.Decl.Pos()), err.Error())
			return
		}
		edges[name] = map[string]int{}
		for _, p := range paths {
			if p.Kind != "return" || len(p.Vals) != 1 {
				continue
			}
			succ := p.Vals[0].String()
			if succ == "nil" || strings.Contains(succ, "lexer).error") {
				continue // the machine stops
			}
			d, note := lexerDelta(c, s, p)
			if cur, ok := edges[name][succ]; !ok || d < cur {
				edges[name][succ] = d
			}
			if d < 1 {
				zeroPaths[name+"→"+succ] = append(zeroPaths[name+"→"+succ], fmt.Sprintf("[%s] %s", p.CondString(), note))
			}
			_ = minCons
		}
	}
	// cycles with total consumption 0: DFS over edges with weight 0
	zero := map[string][]string{}
	for a, m := range edges {
		for b, w := range m {
			if w < 1 {
				zero[a] = append(zero[a], b)
			}
		}
	}
	var cyc []string
	var dfs func(start, cur string, seen map[string]bool, path []string)
	dfs = func(start, cur string, seen map[string]bool, path []string) {
		for _, nx := range zero[cur] {
			if nx == start {
				cyc = append(cyc, strings.Join(append(path, nx), " → "))
				continue
			}
			if !seen[nx] && isState[nx] {
				seen[nx] = true
				dfs(start, nx, seen, append(path, nx))
			}
		}
	}
	names := []string{}
	for n := range edges {
		names = append(names, n)
	}
	sort.Strings(names)
	for _, n := range names {
		dfs(n, n, map[string]bool{n: true}, []string{n})
	}
	r.Extra["C13_state_edges"] = edges
	if len(cyc) > 0 {
		sort.Strings(cyc)
		first := cyc[0]
		detail := ""
		parts := strings.Split(first, " → ")
		if len(parts) >= 2 {
			if zp := zeroPaths[parts[0]+"→"+parts[1]]; len(zp) > 0 {
				detail = zp[0]
			}
		}
		r.Fail(clause, "R9 PROGRESS", "Parser/lexer-state-graph/zero-consumption-cycle", "Parser/Lex.go",
			fmt.Sprintf("the state-function graph has a cycle on which no rune is consumed: %s; first zero-consumption edge: %s. On such input the lexer emits tokens forever without advancing", first, detail))
	} else {
		r.OK(clause, "R9 PROGRESS", "Parser/lexer-state-graph/zero-consumption-cycle", "Parser/Lex.go", fmt.Sprintf("%d state functions, %d transitions: every cycle of the state graph consumes at least one rune", len(states), countEdges(edges)))
	}
}

func countEdges(m map[string]map[string]int) int {
	n := 0
	for _, e := range m {
		n += len(e)
	}
	return n
}

// lexerDelta: rune-cursor movement of one path of a state function: next +1, backup −1, peek 0,
// acceptRun(S) ≥ 0 — and ≥ 1 when it directly follows a backup of a rune that the path's guard confines to S.
func lexerDelta(c *Ctx, s *FuncRef, p *PathOut) (int, string) {
	d := 0
	note := ""
	calls := []Effect{}
	for _, e := range p.Effects {
		if e.Kind == "call" {
			calls = append(calls, e)
		}
	}
	for i, e := range calls {
		n := e.Term.Name
		switch {
		case strings.HasSuffix(n, "lexer).next"):
			d++
		case strings.HasSuffix(n, "lexer).backup"):
			d--
		case strings.HasSuffix(n, "lexer).acceptRun"):
			// does the run certainly consume the rune that was just backed up?
			if i > 0 && strings.HasSuffix(calls[i-1].Term.Name, "lexer).backup") && len(e.Term.Args) == 2 {
				if set, ok := termConstString(e.Term.Args[1]); ok {
					// the rune: result of the last next() before the backup
					runeStr := ""
					for j := i - 1; j >= 0; j-- {
						if strings.HasSuffix(calls[j].Term.Name, "lexer).next") {
							runeStr = calls[j].Term.String()
							break
						}
					}
					admitted := runeSetOfGuard(p.Conds, runeStr)
					if admitted == nil {
						note = fmt.Sprintf("backup() re-exposes the rune and acceptRun(%q) need not consume it: the guard of this arm does not confine the rune to that set", set)
					} else {
						all := true
						for _, x := range admitted {
							if !strings.ContainsRune(set, x) {
								all = false
							}
						}
						if all {
							d++
						} else {
							note = fmt.Sprintf("the guard admits runes outside %q", set)
						}
					}
				}
			}
		case strings.HasSuffix(n, "lexer).acceptOnlyAlphaWord"), strings.HasSuffix(n, "lexer).acceptWord"):
			// restores the position on failure, consumes on success: ≥ 0
		}
	}
	// nested loops consume ≥ 0 (each iteration calls next at most net ≥ 0): CommentState's loops consume ≥ 1 when entered
	// through the prefix test; this is the tabled exception below.
	if s.Decl.Name.Name == "CommentState" {
		// both arms are loops whose first action is next(); they are entered only when the input starts with // or /*
		// (rootState's HasPrefix dispatch), so at least one rune is consumed before the loop can exit.
		hasLoop := false
		for _, e := range p.Effects {
			if e.Kind == "loop" {
				if fs, ok := e.Node.(*ast.ForStmt); ok && loopStartsWithNext(s.Pkg.TypesInfo, fs) {
					hasLoop = true
				}
			}
		}
		if hasLoop {
			d++
		}
	}
	for _, e := range p.Effects {
		if e.Kind == "loop" && s.Decl.Name.Name != "CommentState" {
			if fs, ok := e.Node.(*ast.ForStmt); ok && fs.Cond == nil && loopStartsWithNext(s.Pkg.TypesInfo, fs) {
				d++ // `for { r := l.next(); … }` runs its first statement at least once
			}
		}
	}
	return d, note
}

// loopStartsWithNext: an unconditional `for { … }` whose first statement calls l.next().
func loopStartsWithNext(info *types.Info, fs *ast.ForStmt) bool {
	if fs.Cond != nil || fs.Init != nil || len(fs.Body.List) == 0 {
		return false
	}
	found := false
	first := fs.Body.List[0]
	// the first statement, or the tag/init of a switch that is the first statement
	ast.Inspect(first, func(n ast.Node) bool {
		if found {
			return false
		}
		switch x := n.(type) {
		case *ast.BlockStmt:
			return false // do not look into bodies
		case *ast.CallExpr:
			if f := callee(info, x); f != nil && f.Name() == "next" {
				found = true
			}
		}
		return true
	})
	return found
}

// c13ChannelReaders — the parser never waits for the lexer to finish. The termination argument lets a lexer loop
// "leave or block on a send" at the end of input (an endless error is one token the parser reads, then stops); that is
// only a termination argument if every receive from the token channel is the single, loop-free receive in nextToken
// (whose callers are the parser loops decided by R8). A `for range l.tokens`, a receive inside a loop, or a receive in
// another function waits for tokens the parser does not need — with a lexer that keeps sending it never returns.
func c13ChannelReaders(c *Ctx, r *Report) {
	const clause = "C13.a"
	fv := lookupField(c, "Parser", "lexer", "tokens")
	if fv == nil {
		r.Undecided(clause, "ANCHOR", "Parser.lexer.tokens", "-", "field not found")
		return
	}
	isTokens := func(info *types.Info, e ast.Expr) bool {
		return fieldVar(info, e) == fv
	}
	var sites, bad []string
	for _, f := range c.AllFuncs() {
		if f.Pkg.Types.Name() != "parser" {
			continue
		}
		info := f.Pkg.TypesInfo
		pm := parentMap(f.Decl.Body)
		inLoop := func(n ast.Node) bool {
			for cur := pm[n]; cur != nil; cur = pm[cur] {
				switch cur.(type) {
				case *ast.ForStmt, *ast.RangeStmt:
					return true
				}
			}
			return false
		}
		ast.Inspect(f.Decl.Body, func(n ast.Node) bool {
			switch x := n.(type) {
			case *ast.RangeStmt:
				if isTokens(info, x.X) {
					sites = append(sites, f.Name)
					bad = append(bad, fmt.Sprintf("%s ranges over the token channel at %s: the loop ends only when the lexer closes the channel", f.Name, c.pos(x.Pos())))
				}
			case *ast.UnaryExpr:
				if x.Op == token.ARROW && isTokens(info, x.X) {
					sites = append(sites, f.Name)
					if !strings.HasSuffix(f.Name, ".nextToken") {
						bad = append(bad, fmt.Sprintf("%s receives from the token channel at %s (only nextToken may)", f.Name, c.pos(x.Pos())))
					} else if inLoop(x) {
						bad = append(bad, fmt.Sprintf("nextToken receives inside a loop at %s", c.pos(x.Pos())))
					}
				}
			case *ast.SelectStmt:
				ast.Inspect(x, func(m ast.Node) bool {
					if e, ok := m.(ast.Expr); ok && isTokens(info, e) {
						bad = append(bad, fmt.Sprintf("%s uses the token channel in a select at %s", f.Name, c.pos(x.Pos())))
					}
					return true
				})
			}
			return true
		})
		// the channel value must not be handed to anything else (aliases could be read elsewhere)
		ast.Inspect(f.Decl.Body, func(n ast.Node) bool {
			call, ok := n.(*ast.CallExpr)
			if !ok || builtinName(info, call) == "close" || builtinName(info, call) == "len" || builtinName(info, call) == "cap" {
				return true
			}
			for _, a := range call.Args {
				if isTokens(info, a) {
					bad = append(bad, fmt.Sprintf("%s passes the token channel to %s at %s", f.Name, exprString(call.Fun), c.pos(call.Pos())))
				}
			}
			return true
		})
	}
	sortStrings(bad)
	if len(sites) == 0 {
		r.Undecided(clause, "R8 WHO-READS", "Parser.lexer.tokens/single-loop-free-receive", c.pos(fv.Pos()), "no receive from the token channel found")
		return
	}
	r.Check(len(bad) == 0, clause, "R8 WHO-READS", "Parser.lexer.tokens/single-loop-free-receive", c.pos(fv.Pos()),
		fmt.Sprintf("the token channel is read at %d place(s), all of them the loop-free receive in nextToken: nothing waits for the lexer to close the channel", len(sites)),
		strings.Join(bad, "; "))
}
