package main

// C09 — parser states are exactly the canonical LR(0) collection (rules pinned to the worklist implementation).

import (
	"fmt"
	"go/ast"
	"go/constant"
	"go/token"
	"go/types"
	"strings"
)

func init() { register("C09", checkC09) }

func checkC09(c *Ctx, r *Report) {
	r.Explanation = "Closure: ComputeIClosure repeats {collect the closure items of every current item; insert them; stop when nothing was new} — a FIXPOINT instance whose change counter is the sum of InsertItem's results, and InsertItem returns 1 exactly for an item that was not yet in the set; getItemCloure yields the dot-0 items of all rules whose left-hand side is the nonterminal after the dot. Canonical order: the sort comparator is the strict lexicographic order on (rule, dot), decided on all 9 ordering classes, and the sort is the last thing ComputeIClosure does, so every set that is compared or stored is sorted; CheckIsExist resets its flag per candidate and compares every position. Goto: every item with X after the dot contributes (rule, dot+1) to the one successor registered for X in this state, successors are re-closed after each contribution, registered once per symbol, de-duplicated with CheckIsExist before InsertItemClosure(…, false), whose index is the position before the append; the worklist bound is re-read every iteration; state 0 is the closure of item (0, 0). Pinned to this implementation: another algorithm with the same result would be reported as undecided. Not decided: equality with the canonical collection on any grammar."
	c09a(c, r)
	c09b(c, r)
	c09c(c, r)
}

func c09a(c *Ctx, r *Report) {
	const clause = "C09.a"
	f := c.need(r, clause, "Grammar", "Grammar", "ComputeIClosure")
	if f == nil {
		return
	}
	info := f.Pkg.TypesInfo
	var pass *ast.ForStmt
	var sortIdx, passIdx = -1, -1
	for i, s := range f.Decl.Body.List {
		if fs, ok := s.(*ast.ForStmt); ok && fs.Init == nil && fs.Post == nil {
			pass, passIdx = fs, i // `for { … if change == 0 { break } }` or `for change != 0 { … }`
		}
		if es, ok := s.(*ast.ExprStmt); ok {
			if call, ok := es.X.(*ast.CallExpr); ok {
				if fn := callee(info, call); fn != nil && (fn.FullName() == "sort.SliceStable" || fn.FullName() == "sort.Slice") {
					sortIdx = i
				}
			}
		}
	}
	if pass == nil {
		r.Undecided(clause, "R6 FIXPOINT", f.Name, c.pos(f.Decl.Pos()), "no pass loop")
		return
	}
	bad := ""
	// reset, collect over all items, insert all, exit on no change
	var change types.Object
	if as, ok := pass.Body.List[0].(*ast.AssignStmt); ok && len(as.Lhs) == 1 {
		if v, isC := constInt(info, as.Rhs[0]); isC && v == 0 {
			change = identObj(info, as.Lhs[0])
		}
	}
	if change == nil {
		bad = "the change counter is not reset at the start of a pass"
	}
	collectAll, insertAll, exitOK := false, false, false
	for _, s := range pass.Body.List {
		switch x := s.(type) {
		case *ast.RangeStmt:
			if fv := fieldVar(info, x.X); fv != nil && fv.Name() == "Items" {
				// nested form: for _, i := range g.getItemCloure(it) { change += IC.InsertItem(i) } — the range over
				// IC.Items is evaluated once per pass, so the items inserted meanwhile wait for the next pass
				if len(x.Body.List) == 1 {
					if in, ok := x.Body.List[0].(*ast.RangeStmt); ok && len(in.Body.List) == 1 {
						if ic, ok := unparen(in.X).(*ast.CallExpr); ok && len(ic.Args) == 1 {
							if fn := callee(info, ic); fn != nil && fn.Name() == "getItemCloure" && identObj(info, ic.Args[0]) == identObj(info, x.Value) {
								if as, ok := in.Body.List[0].(*ast.AssignStmt); ok && as.Tok == token.ADD_ASSIGN && identObj(info, as.Lhs[0]) == change {
									if call, ok := as.Rhs[0].(*ast.CallExpr); ok && len(call.Args) == 1 {
										if fn2 := callee(info, call); fn2 != nil && fn2.Name() == "InsertItem" && identObj(info, call.Args[0]) == identObj(info, in.Value) {
											collectAll, insertAll = true, true
										}
									}
								}
							}
						}
					}
				}
				// items = append(items, g.getItemCloure(it)...)
				if len(x.Body.List) == 1 {
					if as, ok := x.Body.List[0].(*ast.AssignStmt); ok && isAppendSelf(info, as.Lhs[0], as.Rhs[0]) {
						call := as.Rhs[0].(*ast.CallExpr)
						if inner, ok := call.Args[1].(*ast.CallExpr); ok && call.Ellipsis.IsValid() {
							if fn := callee(info, inner); fn != nil && fn.Name() == "getItemCloure" && identObj(info, inner.Args[0]) == identObj(info, x.Value) {
								collectAll = true
							}
						}
					}
				}
			} else if len(x.Body.List) == 1 {
				// change += IC.InsertItem(i)
				if as, ok := x.Body.List[0].(*ast.AssignStmt); ok && as.Tok == token.ADD_ASSIGN && identObj(info, as.Lhs[0]) == change {
					if call, ok := as.Rhs[0].(*ast.CallExpr); ok {
						if fn := callee(info, call); fn != nil && fn.Name() == "InsertItem" && identObj(info, call.Args[0]) == identObj(info, x.Value) {
							insertAll = true
						}
					}
				}
			}
		case *ast.IfStmt:
			if change != nil && trueIffUnchanged(info, x.Cond, change) && len(x.Body.List) == 1 {
				if br, ok := x.Body.List[0].(*ast.BranchStmt); ok && br.Tok == token.BREAK {
					exitOK = true
				}
			}
		}
	}
	if pass.Cond != nil {
		// condition form: the loop runs while the counter of the LAST pass is non-zero, and it is entered at least once
		exitOK = false
		if be, ok := unparen(pass.Cond).(*ast.BinaryExpr); ok && (be.Op == token.NEQ || be.Op == token.GTR) && change != nil && identObj(info, be.X) == change {
			if v, isC := constInt(info, be.Y); isC && v == 0 {
				entered := false
				for _, s := range f.Decl.Body.List[:passIdx] {
					switch x := s.(type) {
					case *ast.AssignStmt:
						if len(x.Lhs) == 1 && identObj(info, x.Lhs[0]) == change {
							v, isC := constInt(info, x.Rhs[0])
							entered = isC && v > 0
						}
					case *ast.DeclStmt:
						ast.Inspect(x, func(m ast.Node) bool {
							if vs, ok := m.(*ast.ValueSpec); ok {
								for k, nm := range vs.Names {
									if info.Defs[nm] == change && k < len(vs.Values) {
										v, isC := constInt(info, vs.Values[k])
										entered = isC && v > 0
									}
								}
							}
							return true
						})
					}
				}
				exitOK = entered
			}
		}
	}
	if bad == "" && !(collectAll && insertAll && exitOK) {
		bad = fmt.Sprintf("a pass does not (collect the closure items of every current item: %v) (insert each, adding InsertItem's result to the change counter: %v) (stop iff nothing changed: %v)", collectAll, insertAll, exitOK)
	}
	r.Check(bad == "", clause, "R6 FIXPOINT", f.Name+"/closure-to-fixpoint", c.pos(pass.Pos()),
		"passes repeat until no item is new; each pass expands every item currently in the set", "closure deviates from the fixpoint template: "+bad)
	// the sort is on every path to the function's exit (no early return can skip it)
	fcg := buildCFG(info, f.Decl.Body)
	everyPath := len(f.Decl.Body.List) > 0 && fcg.EveryPathToExitPasses(f.Decl.Body.List[0], func(n ast.Node) bool {
		es, ok := n.(*ast.ExprStmt)
		if !ok {
			return false
		}
		call, ok := es.X.(*ast.CallExpr)
		if !ok {
			return false
		}
		fn := callee(info, call)
		return fn != nil && (fn.FullName() == "sort.SliceStable" || fn.FullName() == "sort.Slice") && len(call.Args) > 0 && strings.HasSuffix(exprString(call.Args[0]), ".Items")
	})
	r.Check(sortIdx > passIdx && sortIdx == len(f.Decl.Body.List)-1 && everyPath, "C09.b", "R2 ORDER", f.Name+"/sorted-after-last-insertion", c.pos(f.Decl.Pos()),
		"the item list is sorted after the fixpoint, as the last step: every closed set is in canonical order", "the item list is not sorted as the last step of the closure on every path (an early return or a condition can skip the sort): equal item sets can then differ as lists and be taken for different states")
	// comparator decision table
	ast.Inspect(f.Decl.Body, func(n ast.Node) bool {
		fl, ok := n.(*ast.FuncLit)
		if !ok {
			return true
		}
		ps := []types.Object{}
		for _, fld := range fl.Type.Params.List {
			for _, nm := range fld.Names {
				ps = append(ps, info.Defs[nm])
			}
		}
		if len(ps) != 2 {
			return true
		}
		pe := newPathEnum(info)
		pe.rename[ps[0]] = "I"
		pe.rename[ps[1]] = "J"
		paths, err := pe.Enumerate(fl.Body.List)
		if err != nil {
			r.Undecided("C09.b", "R4 DECISION-TABLE", f.Name+"/comparator", c.pos(fl.Pos()), err.Error())
			return false
		}
		bad := ""
		for _, rr := range [][2]int64{{1, 2}, {2, 1}, {2, 2}} {
			for _, dd := range [][2]int64{{1, 2}, {2, 1}, {2, 2}} {
				vals := map[string]int64{"[I].RuleIndex": rr[0], "[J].RuleIndex": rr[1], "[I].Dot": dd[0], "[J].Dot": dd[1]}
				val := func(t *Term) (constant.Value, bool) {
					if t.Op == "field" {
						s := t.String()
						for k, v := range vals {
							if strings.HasSuffix(s, k) {
								return constant.MakeInt64(v), true
							}
						}
					}
					return nil, false
				}
				p, err := selectPath(paths, val)
				if err != nil {
					bad = err.Error()
					continue
				}
				got, ok := evalTerm(p.Vals[0], val)
				want := rr[0] < rr[1] || (rr[0] == rr[1] && dd[0] < dd[1])
				if !ok || got.Kind() != constant.Bool || constant.BoolVal(got) != want {
					bad = fmt.Sprintf("less((rule %d, dot %d), (rule %d, dot %d)) = %v, expected %v", rr[0], dd[0], rr[1], dd[1], got, want)
				}
			}
		}
		r.Check(bad == "", "C09.b", "R4 DECISION-TABLE", f.Name+"/comparator", c.pos(fl.Pos()), "strict lexicographic order on (rule, dot) on all 9 ordering classes: a total order, so equal sets sort to equal lists", "the comparator is not the lexicographic order on (rule, dot): "+bad)
		return false
	})
	// InsertItem: 1 iff new
	if g := c.need(r, clause, "Items", "ItemCloure", "InsertItem"); g != nil {
		pe := newPathEnum(g.Pkg.TypesInfo)
		paths, err := pe.Enumerate(g.Decl.Body.List)
		ok := err == nil && len(paths) == 2
		for _, p := range paths {
			present := false
			for _, cd := range p.Conds {
				if strings.Contains(cd.Atom.String(), "itemMap[") {
					present = cd.Pol
				}
			}
			stores := 0
			for _, e := range p.Effects {
				if e.Kind == "store" {
					stores++
				}
			}
			ret := ""
			if p.Kind == "return" && len(p.Vals) == 1 {
				ret = p.Vals[0].String()
			}
			if present && (ret != "0" || stores != 0) {
				ok = false
			}
			if !present && (ret != "1" || stores != 2) {
				ok = false
			}
		}
		r.Check(ok, clause, "R4 DECISION-TABLE", g.Name, c.pos(g.Decl.Pos()), "an item already in the set: no effect, result 0; a new item: appended and recorded, result 1", "InsertItem does not return 1 exactly when it added a new item")
		// "already in the set" is decided by the item itself: the membership map is keyed by the Item value (rule
		// and dot together, compared by ==) and both the test and the record use `*It`, the inserted item. Any
		// derived key (a packed integer, a string) has to be injective for every grammar size to mean the same.
		ginfo := g.Pkg.TypesInfo
		ps := paramObjs(ginfo, g.Decl)
		why := ""
		nIdx := 0
		if len(ps) != 1 {
			why = "expected one parameter (the item)"
		}
		ast.Inspect(g.Decl.Body, func(n ast.Node) bool {
			ix, isI := n.(*ast.IndexExpr)
			if !isI || !fieldNamed(ginfo, ix.X, "itemMap") || why != "" {
				return true
			}
			nIdx++
			mt, isM := ginfo.TypeOf(ix.X).Underlying().(*types.Map)
			if !isM {
				why = "itemMap is not a map"
				return true
			}
			if nt, isN := mt.Key().(*types.Named); !isN || nt.Obj().Name() != "Item" {
				why = "the membership map is keyed by " + types.TypeString(mt.Key(), shortQual) + ", not by the item (rule, dot) itself: two different items may share a key"
				return true
			}
			st, isS := unparen(ix.Index).(*ast.StarExpr)
			if !isS || identObj(ginfo, st.X) != ps[0] {
				why = "the membership map is indexed with " + exprString(ix.Index) + ", not with the inserted item *" + ps[0].Name()
			}
			return true
		})
		if why == "" && nIdx < 2 {
			why = "the membership map is not both tested and updated with the inserted item"
		}
		r.Check(why == "", clause, "R1 PROVENANCE", g.Name+"/membership-is-by-the-item-itself", c.pos(g.Decl.Pos()),
			"itemMap is a map[Item]…, tested and recorded under the inserted item's own value", why)
	}
	// getItemCloure
	if g := c.need(r, clause, "Grammar", "Grammar", "getItemCloure"); g != nil {
		ginfo := g.Pkg.TypesInfo
		pe := newPathEnum(ginfo)
		paths, err := pe.Enumerate(g.Decl.Body.List)
		bad := ""
		if err != nil {
			bad = err.Error()
		} else {
			for _, p := range paths {
				atEnd, nonterm, decidedEnd, decidedNT := false, false, false, false
				for _, cd := range p.Conds {
					s := normCond(Cond{cd.Atom, true})
					if strings.Contains(s, ".Dot ==") || strings.Contains(s, "== len(") {
						atEnd, decidedEnd = cd.Pol, true
					}
					if strings.HasSuffix(cd.Atom.String(), ".IsNonTerminator") {
						nonterm, decidedNT = cd.Pol, true
					}
				}
				empty := p.Kind == "return" && len(p.Vals) == 1 && p.Vals[0].Op == "composite" && len(p.Vals[0].Fields) == 0
				hasLoop := false
				for _, e := range p.Effects {
					if e.Kind == "loop" {
						hasLoop = true
					}
				}
				switch {
				case decidedEnd && atEnd:
					if !empty {
						bad = "an item with the dot at the end contributes items"
					}
				case decidedNT && !nonterm:
					if !empty {
						bad = "a terminal after the dot contributes items"
					}
				case decidedNT && nonterm:
					if !hasLoop {
						bad = "a nonterminal after the dot does not scan the rules"
					}
				}
			}
		}
		// the rule loop: all rules with LeftPart.ID == dotsym.ID → NewItem(index, 0)
		loopOK := false
		ast.Inspect(g.Decl.Body, func(n ast.Node) bool {
			rs, ok := n.(*ast.RangeStmt)
			if !ok {
				return true
			}
			if fv := fieldVar(ginfo, rs.X); fv == nil || fv.Name() != "ProductoinRules" {
				return true
			}
			pe := newPathEnum(ginfo)
			if k := identObj(ginfo, rs.Key); k != nil {
				pe.rename[k] = "INDEX"
			}
			ps, err := pe.Enumerate(rs.Body.List)
			if err != nil || len(ps) != 2 {
				return true
			}
			good := true
			for _, p := range ps {
				match := false
				for _, cd := range p.Conds {
					if strings.Contains(cd.Atom.String(), ".LeftPart.ID") && strings.Contains(cd.Atom.String(), "==") {
						match = cd.Pol
					}
				}
				adds := false
				for _, e := range p.Effects {
					if e.Kind == "call" && strings.HasSuffix(e.Term.Name, "Items.NewItem") && e.Term.String() == "Items.NewItem(INDEX, 0)" {
						adds = true
					}
				}
				if match != adds {
					good = false
				}
			}
			loopOK = good
			return true
		})
		r.Check(bad == "" && loopOK, clause, "R5 DEPENDENCE", g.Name, c.pos(g.Decl.Pos()),
			"only a nonterminal after the dot contributes, and it contributes (rule, 0) for every rule whose left-hand side is that nonterminal", "closure items are not 'all rules of the nonterminal after the dot, dot at 0': "+bad)
		// which symbol: the one tested and matched is the item's rule's right part at the item's dot, and the rules
		// are scanned once per call — closure never looks past the symbol after the dot
		pc := pathCtxFor(g)
		pc.subst = map[types.Object]string{}
		if g.Decl.Recv != nil && len(g.Decl.Recv.List) == 1 && len(g.Decl.Recv.List[0].Names) == 1 {
			pc.subst[ginfo.Defs[g.Decl.Recv.List[0].Names[0]]] = "G"
		}
		if ps := g.Decl.Type.Params.List; len(ps) == 1 && len(ps[0].Names) == 1 {
			pc.subst[ginfo.Defs[ps[0].Names[0]]] = "IT"
		}
		const want = "G.ProductoinRules[IT.RuleIndex].RighPart[IT.Dot]"
		why, seen := "", 0
		parents := parentMap(g.Decl.Body)
		ast.Inspect(g.Decl.Body, func(n ast.Node) bool {
			switch x := n.(type) {
			case *ast.SelectorExpr:
				fv := fieldVar(ginfo, x)
				if fv == nil {
					return true
				}
				if fv.Name() == "IsNonTerminator" {
					seen++
					if got := pc.path(x.X); got != want {
						why = "the nonterminal test is on " + got + ", not on the symbol after the dot"
					}
				}
				if fv.Name() == "ID" {
					if inner := fieldVar(ginfo, x.X); inner != nil && inner.Name() == "LeftPart" {
						return true
					}
					seen++
					if got := pc.path(x.X); got != want {
						why = "rules are matched against " + got + ", not against the symbol after the dot"
					}
				}
			case *ast.RangeStmt:
				if fv := fieldVar(ginfo, x.X); fv != nil && fv.Name() == "ProductoinRules" {
					for p := parents[n]; p != nil; p = parents[p] {
						switch p.(type) {
						case *ast.RangeStmt, *ast.ForStmt:
							why = "the scan of the rules is repeated inside another loop"
						}
					}
				}
			}
			return true
		})
		if why == "" && seen < 2 {
			why = "no nonterminal test and rule match on the symbol after the dot were found"
		}
		r.Check(why == "", clause, "R1 PROVENANCE", g.Name+"/only-the-symbol-after-the-dot", c.pos(g.Decl.Pos()),
			"the symbol tested and matched is "+want+", and the rules are scanned once", why)
	}
}

func c09b(c *Ctx, r *Report) {
	const clause = "C09.b"
	f := c.need(r, clause, "LR", "LR0", "CheckIsExist")
	if f == nil {
		return
	}
	info := f.Pkg.TypesInfo
	// for index, ic_in := range closures { if len == len { found = true; for i … { found = found && (*a[i] == *b[i]) }; if found { return index, true } } } return -1, false
	ok := false
	why := ""
	ast.Inspect(f.Decl.Body, func(n ast.Node) bool {
		rs, isR := n.(*ast.RangeStmt)
		if !isR {
			return true
		}
		if fv := fieldVar(info, rs.X); fv == nil || fv.Name() != "LR0Closure" {
			return true
		}
		if len(rs.Body.List) == 3 {
			// guard-clause form: `if len(a) != len(b) { continue }; for i … { if *a[i] != *b[i] { continue <candidates> } }; return index, true`
			label := ""
			if ls, isL := parentMap(f.Decl.Body)[rs].(*ast.LabeledStmt); isL {
				label = ls.Label.Name
			}
			lenGuard, allPos, ret := false, false, false
			if is, isIf := rs.Body.List[0].(*ast.IfStmt); isIf && is.Else == nil && len(is.Body.List) == 1 {
				if br, isB := is.Body.List[0].(*ast.BranchStmt); isB && br.Tok == token.CONTINUE && (br.Label == nil || br.Label.Name == label) {
					if be, isBE := unparen(is.Cond).(*ast.BinaryExpr); isBE && be.Op == token.NEQ && strings.HasPrefix(exprString(be.X), "len(") && strings.HasPrefix(exprString(be.Y), "len(") &&
						strings.Contains(exprString(be.X)+exprString(be.Y), exprString(rs.Value)+".Items") {
						lenGuard = true
					}
				}
			}
			if full, body, idx := fullRangeLoop(info, rs.Body.List[1]); full != nil && len(body.List) == 1 && label != "" {
				if is, isIf := body.List[0].(*ast.IfStmt); isIf && is.Else == nil && len(is.Body.List) == 1 {
					if br, isB := is.Body.List[0].(*ast.BranchStmt); isB && br.Tok == token.CONTINUE && br.Label != nil && br.Label.Name == label {
						if be, isBE := unparen(is.Cond).(*ast.BinaryExpr); isBE && be.Op == token.NEQ &&
							strings.Contains(exprString(be.X), "["+idx.Name()+"]") && strings.Contains(exprString(be.Y), "["+idx.Name()+"]") &&
							strings.HasPrefix(exprString(be.X), "*") && strings.HasPrefix(exprString(be.Y), "*") {
							allPos = true
						}
					}
				}
			}
			if rt, isRt := rs.Body.List[2].(*ast.ReturnStmt); isRt && len(rt.Results) == 2 && identObj(info, rt.Results[0]) == identObj(info, rs.Key) {
				if cv := constOf(info, rt.Results[1]); cv != nil && cv.Kind() == constant.Bool && constant.BoolVal(cv) {
					ret = true
				}
			}
			ok = lenGuard && allPos && ret
			if !ok {
				why = fmt.Sprintf("guard-clause form: candidates of another length skipped: %v, every position compared (mismatch → next candidate): %v, returns the candidate's index when all match: %v", lenGuard, allPos, ret)
			}
			return false
		}
		if len(rs.Body.List) != 1 {
			why = "the candidate loop does more than one length-guarded comparison"
			return false
		}
		is, isIf := rs.Body.List[0].(*ast.IfStmt)
		if !isIf || !strings.Contains(exprString(is.Cond), "len(") || is.Else != nil {
			why = "candidates are not first compared by length"
			return false
		}
		var flag types.Object
		reset, allPos, ret := false, false, false
		for _, s := range is.Body.List {
			switch x := s.(type) {
			case *ast.AssignStmt:
				if cv := constOf(info, x.Rhs[0]); cv != nil && cv.Kind() == constant.Bool && constant.BoolVal(cv) {
					flag = identObj(info, x.Lhs[0])
					reset = true
				}
			case *ast.ForStmt, *ast.RangeStmt:
				if full, body, idx := fullRangeLoop(info, x); full != nil && len(body.List) == 1 {
					if as, ok := body.List[0].(*ast.AssignStmt); ok && identObj(info, as.Lhs[0]) == flag {
						conj := flattenAnd(as.Rhs[0])
						hasFlag, cmp := false, false
						for _, e := range conj {
							if identObj(info, e) == flag {
								hasFlag = true
							}
							if be, ok := unparen(e).(*ast.BinaryExpr); ok && be.Op == token.EQL {
								if strings.Contains(exprString(be.X), "["+idx.Name()+"]") && strings.Contains(exprString(be.Y), "["+idx.Name()+"]") {
									cmp = true
								}
							}
						}
						allPos = hasFlag && cmp
					}
				}
			case *ast.IfStmt:
				if identObj(info, unparen(x.Cond)) == flag && len(x.Body.List) == 1 {
					if rt, ok := x.Body.List[0].(*ast.ReturnStmt); ok && len(rt.Results) == 2 && identObj(info, rt.Results[0]) == identObj(info, rs.Key) {
						ret = true
					}
				}
			}
		}
		ok = reset && allPos && ret
		if !ok {
			why = fmt.Sprintf("flag reset per candidate: %v, every position compared and AND-ed: %v, returns the candidate's index when all match: %v", reset, allPos, ret)
		}
		return false
	})
	r.Check(ok, clause, "R6 FORALL", f.Name, c.pos(f.Decl.Pos()), "a candidate matches iff it has the same length and equal items at every position; the flag is re-initialised for every candidate; the first match's index is returned", "state lookup is not 'same length and equal at every position, per candidate': "+why)
}

func c09c(c *Ctx, r *Report) {
	const clause = "C09.c"
	c09InsertDecision(c, r, clause)
	f := c.need(r, clause, "Grammar", "Grammar", "ComputeGotoItemNoneRec")
	if f == nil {
		return
	}
	info := f.Pkg.TypesInfo
	ps := paramObjs(info, f.Decl)
	var itemLoop, regLoop *ast.RangeStmt
	for _, s := range f.Decl.Body.List {
		if rs, ok := s.(*ast.RangeStmt); ok {
			if fv := fieldVar(info, rs.X); fv != nil {
				switch fv.Name() {
				case "Items":
					itemLoop = rs
				case "GoTo", "GoToMap":
					regLoop = rs
				}
			}
		}
	}
	if itemLoop == nil || regLoop == nil || len(ps) != 1 {
		r.Undecided(clause, "R2 SKELETON", f.Name, c.pos(f.Decl.Pos()), "item loop / successor registration loop not found (rule is pinned to the worklist implementation)")
		return
	}
	// the marker "successor not registered yet": the value a new goto entry's ItemCl is created with must be the value
	// the item loop tests for, and it must not be a possible state index — otherwise a second item with the same
	// symbol is added to the state with that index instead of the pending successor
	{
		cf := newCoverFn(f)
		var created, tested []int64
		unknown := ""
		ast.Inspect(itemLoop.Body, func(n ast.Node) bool {
			switch x := n.(type) {
			case *ast.KeyValueExpr:
				if id, ok := x.Key.(*ast.Ident); ok && id.Name == "ItemCl" {
					if v, isC := constInt(info, cf.resolve(x.Value)); isC {
						created = append(created, v)
					} else {
						unknown = "a new goto entry's ItemCl is created with the non-constant " + exprString(x.Value)
					}
				}
			case *ast.BinaryExpr:
				if x.Op == token.NEQ || x.Op == token.EQL {
					for _, pr := range [][2]ast.Expr{{x.X, x.Y}, {x.Y, x.X}} {
						if fieldNamed(info, pr[0], "ItemCl") {
							if v, isC := constInt(info, pr[1]); isC {
								tested = append(tested, v)
							}
						}
					}
				}
			}
			return true
		})
		why := unknown
		switch {
		case why != "":
		case len(created) == 0:
			why = "no goto entry is created with a marker in the item loop"
		case len(tested) == 0:
			// nothing tests the marker: the pending successor is always taken from ICref — fine
		default:
			for _, cv := range created {
				if cv >= 0 {
					why = fmt.Sprintf("pending successors are marked with ItemCl = %d, which is a possible state index", cv)
				}
				for _, tv := range tested {
					if tv != cv {
						why = fmt.Sprintf("pending successors are created with ItemCl = %d but recognised by comparing with %d", cv, tv)
					}
				}
			}
		}
		r.Check(why == "", clause, "R2 SKELETON", f.Name+"/pending-successor-marker", c.pos(itemLoop.Pos()),
			fmt.Sprintf("a goto entry whose successor is not registered yet carries ItemCl = %v, the value the item loop tests for, and no state has that index", created),
			why)
	}
	pe := newPathEnum(info)
	pe.rename[ps[0]] = "IC"
	if v := identObj(info, itemLoop.Value); v != nil {
		pe.rename[v] = "IT"
	}
	paths, err := pe.Enumerate(itemLoop.Body.List)
	if err != nil {
		r.Undecided(clause, "R2 SKELETON", f.Name+"/item-loop", c.pos(itemLoop.Pos()), err.Error())
		return
	}
	bad := ""
	nExisting, nNew := 0, 0
	for _, p := range paths {
		hasSym, decided, existing, decidedEx := false, false, false, false
		for _, cd := range p.Conds {
			s := cd.Atom.String()
			if strings.Contains(s, "IT.Dot <") {
				hasSym, decided = cd.Pol, true
			}
			if strings.Contains(s, "FindItemClosure") && cd.Atom.Op == "cmp" && len(cd.Atom.Args) == 2 && cd.Atom.Args[1].Op == "leaf" && cd.Atom.Args[1].Name == "nil" {
				decidedEx = true
				ne := cd.Atom.Op == "cmp" && cd.Atom.Name == "!="
				existing = (ne && cd.Pol) || (!ne && !cd.Pol)
			}
		}
		var calls []string
		for _, e := range p.Effects {
			if e.Kind == "call" {
				calls = append(calls, e.Term.String())
			}
		}
		joined := strings.Join(calls, " ; ")
		if decided && !hasSym {
			if strings.Contains(joined, "InsertItem") || strings.Contains(joined, "InsertGoTO") {
				bad = "a final item (dot at the end) contributes to a successor"
			}
			continue
		}
		if !decidedEx {
			continue
		}
		adv := "Items.NewItem(IT.RuleIndex, (IT.Dot + 1))"
		if !strings.Contains(joined, adv) {
			bad = "the contributed item is not (rule, dot+1): " + joined
		}
		if !strings.Contains(joined, "ComputeIClosure(") {
			bad = "the successor is not (re-)closed after the contribution"
		}
		if existing {
			nExisting++
			if strings.Contains(joined, "InsertGoTO") {
				bad = "a second successor is registered for a symbol that already has one"
			}
		} else {
			nNew++
			if !strings.Contains(joined, "InsertGoTO") {
				bad = "a new successor is not registered under the symbol after the dot"
			}
			if !strings.Contains(joined, "Items.NewItemCloure()") {
				bad = "a new successor does not start from an empty item set: " + joined
			}
		}
		// the symbol: rule.RighPart[it.Dot]
		if !strings.Contains(joined, "RighPart[IT.Dot]") {
			bad = "the successor is not looked up under the symbol right after the dot"
		}
	}
	if nExisting == 0 || nNew == 0 {
		bad = "the item loop does not distinguish 'successor for X exists' from 'first item with X after the dot'"
	}
	r.Check(bad == "", clause, "R2 SKELETON", f.Name+"/goto-kernels", c.pos(itemLoop.Pos()),
		"every item with X after the dot puts (rule, dot+1) into the single successor registered for X and the successor is closed again", bad)
	// registration loop: CheckIsExist before InsertItemClosure(…, false); ItemCl = index
	pe = newPathEnum(info)
	if v := identObj(info, regLoop.Value); v != nil {
		pe.rename[v] = "GT"
	}
	rp, err := pe.Enumerate(regLoop.Body.List)
	bad = ""
	if err != nil {
		bad = err.Error()
	} else {
		for _, p := range rp {
			exists := false
			for _, cd := range p.Conds {
				if cd.Atom.Op == "call" && cd.Atom.Name == "result1" && strings.Contains(cd.Atom.String(), "CheckIsExist") {
					exists = cd.Pol
				} else if strings.Contains(cd.Atom.String(), "CheckIsExist") {
					bad = "the reuse of an existing state depends on more than CheckIsExist's verdict: " + cd.String()
				}
			}
			inserted := false
			idx := ""
			for _, e := range p.Effects {
				if e.Kind == "call" && strings.HasSuffix(e.Term.Name, "LR0).InsertItemClosure") {
					inserted = true
					if e.Term.Args[len(e.Term.Args)-1].String() != "false" {
						bad = "InsertItemClosure is asked to check again"
					}
				}
				if e.Kind == "store" && e.LHS.String() == "GT.ItemCl" {
					idx = e.Term.String()
				}
			}
			if exists == inserted {
				bad = "a successor is inserted as a new state although an equal state exists (or is not inserted although none exists): duplicate or missing states"
			}
			if exists && !strings.Contains(idx, "result0") {
				bad = "an existing state's index is not the one CheckIsExist returned (" + idx + ")"
			}
			if !exists && !strings.HasSuffix(idx, ".Index") {
				bad = "a new state's index is not the Index assigned by InsertItemClosure (" + idx + ")"
			}
		}
	}
	r.Check(bad == "", clause, "R2 SKELETON", f.Name+"/successor-registration", c.pos(regLoop.Pos()),
		"each successor set is looked up among the existing states; it becomes a new state only if absent; the transition stores the resulting state index", bad)
	// InsertItemClosure: index = length before append
	if g := c.need(r, clause, "LR", "LR0", "InsertItemClosure"); g != nil {
		ginfo := g.Pkg.TypesInfo
		ps := paramObjs(ginfo, g.Decl)
		why := "no `<state>.Index = len(<list>)` directly followed by `<list> = append(<list>, <state>)`"
		if len(ps) >= 1 {
			ast.Inspect(g.Decl.Body, func(n ast.Node) bool {
				blk, ok := n.(*ast.BlockStmt)
				if !ok {
					return true
				}
				for i := 0; i+1 < len(blk.List); i++ {
					a1, ok1 := blk.List[i].(*ast.AssignStmt)
					a2, ok2 := blk.List[i+1].(*ast.AssignStmt)
					if !ok1 || !ok2 || len(a1.Lhs) != 1 || len(a2.Lhs) != 1 || len(a1.Rhs) != 1 || len(a2.Rhs) != 1 {
						continue
					}
					// a1: P.Index = len(L)
					se, ok := unparen(a1.Lhs[0]).(*ast.SelectorExpr)
					if !ok || !fieldNamed(ginfo, se, "Index") || identObj(ginfo, se.X) != ps[0] {
						continue
					}
					lc, ok := unparen(a1.Rhs[0]).(*ast.CallExpr)
					if !ok || builtinName(ginfo, lc) != "len" || len(lc.Args) != 1 || !fieldNamed(ginfo, lc.Args[0], "LR0Closure") {
						continue
					}
					list := exprString(lc.Args[0])
					// a2: L = append(L, P)
					ac, ok := unparen(a2.Rhs[0]).(*ast.CallExpr)
					if !ok || builtinName(ginfo, ac) != "append" || len(ac.Args) != 2 || exprString(a2.Lhs[0]) != list || exprString(ac.Args[0]) != list || identObj(ginfo, ac.Args[1]) != ps[0] {
						continue
					}
					why = ""
				}
				return true
			})
		}
		r.Check(why == "", clause, "R3 LOCKSTEP", g.Name+"/index-is-position", c.pos(g.Decl.Pos()), "a new state's Index is the list length right before it is appended: state index = position", "a new state's Index is not the position at which it is appended: "+why)
	}
	// worklist
	if g := c.need(r, clause, "Grammar", "Grammar", "ComputeAllGoto"); g != nil {
		ginfo := g.Pkg.TypesInfo
		ok := false
		ast.Inspect(g.Decl.Body, func(n ast.Node) bool {
			fs, isF := n.(*ast.ForStmt)
			if !isF || fs.Cond == nil {
				return true
			}
			be, isB := fs.Cond.(*ast.BinaryExpr)
			if !isB || be.Op != token.LSS {
				return true
			}
			call, isC := be.Y.(*ast.CallExpr)
			if !isC || builtinName(ginfo, call) != "len" {
				return true
			}
			if fv := fieldVar(ginfo, call.Args[0]); fv == nil || fv.Name() != "LR0Closure" {
				return true
			}
			iv := identObj(ginfo, be.X)
			inc, visit := 0, false
			// the step: `i++` at the end of the body (while form) or as the post statement (three-clause form)
			if id, isI := fs.Post.(*ast.IncDecStmt); isI && id.Tok == token.INC && identObj(ginfo, id.X) == iv {
				inc++
			}
			// start at 0
			startOK := false
			if init, isA := fs.Init.(*ast.AssignStmt); isA && len(init.Lhs) == 1 && identObj(ginfo, init.Lhs[0]) == iv {
				if v, isC := constInt(ginfo, init.Rhs[0]); isC && v == 0 {
					startOK = true
				}
			} else if fs.Init == nil {
				ast.Inspect(g.Decl.Body, func(m ast.Node) bool {
					switch x := m.(type) {
					case *ast.ValueSpec:
						for i, nm := range x.Names {
							if ginfo.Defs[nm] == iv && (i >= len(x.Values) || func() bool { v, isC := constInt(ginfo, x.Values[i]); return isC && v == 0 }()) {
								startOK = true
							}
						}
					case *ast.AssignStmt:
						if x.Tok == token.DEFINE && len(x.Lhs) == 1 && identObj(ginfo, x.Lhs[0]) == iv && x.Pos() < fs.Pos() {
							if v, isC := constInt(ginfo, x.Rhs[0]); isC && v == 0 {
								startOK = true
							}
						}
					}
					return true
				})
			}
			if !startOK {
				return true
			}
			if !noSkips(fs.Body) {
				return true
			}
			for _, s := range fs.Body.List {
				if id, isI := s.(*ast.IncDecStmt); isI && id.Tok == token.INC && identObj(ginfo, id.X) == iv {
					inc++
				}
				if es, isE := s.(*ast.ExprStmt); isE {
					if cc, isCC := es.X.(*ast.CallExpr); isCC {
						if fn := callee(ginfo, cc); fn != nil && fn.Name() == "ComputeGotoItemNoneRec" && strings.Contains(exprString(cc.Args[0]), "["+iv.Name()+"]") {
							visit = true
						}
					}
				}
			}
			ok = inc == 1 && visit
			return true
		})
		r.Check(ok, clause, "R2 SKELETON", g.Name+"/worklist", c.pos(g.Decl.Pos()), "states are processed in index order once each; the bound len(states) is re-read on every iteration, so states added on the way are processed too", "the worklist does not visit every state (including the ones added while it runs) exactly once")
	}
	// state 0
	if g := c.need(r, clause, "Parser", "Walker", "BuildLALR1"); g != nil {
		ginfo := g.Pkg.TypesInfo
		var seq []string
		ast.Inspect(g.Decl.Body, func(n ast.Node) bool {
			if call, ok := n.(*ast.CallExpr); ok {
				if fn := callee(ginfo, call); fn != nil {
					switch fn.Name() {
					case "NewItem":
						a, _ := constInt(ginfo, call.Args[0])
						b, _ := constInt(ginfo, call.Args[1])
						seq = append(seq, fmt.Sprintf("NewItem(%d,%d)", a, b))
					case "ComputeIClosure", "InsertItemClosure", "ComputeAllGoto", "ComputeLALR", "CalculateCanTerminate", "CalculateEpsilonClosure":
						seq = append(seq, fn.Name())
					}
				}
			}
			return true
		})
		got := strings.Join(seq, ",")
		r.Check(strings.Contains(got, "NewItem(0,0),ComputeIClosure,InsertItemClosure,ComputeAllGoto,ComputeLALR"), clause, "R2 ORDER", g.Name+"/state-0-is-closure-of-start-item", c.pos(g.Decl.Pos()),
			"the first state is the closure of item (rule 0, dot 0); the goto construction follows, then the lookahead computation", "start state construction order is `"+got+"`")
	}
}
