package main

// C07 — semantic actions see the right values: $$ and $n address the right stack slots.

import (
	"fmt"
	"go/ast"
	"go/token"
	"regexp"
	"strings"
)

func init() { register("C07", checkC07) }

var reAtoiMinus = regexp.MustCompile(`RighPart\[\(strconv\.Atoi\(\$match\[1:\]\) - (\d+)\)\]\.Tag$`)
var reAtoiPlus = regexp.MustCompile(`^\(strconv\.Atoi\(\$match\[1:\]\) \+ (\d+)\)$`)

func checkC07(c *Ctx, r *Report) {
	r.Explanation = "R13 AFFINE AGREEMENT between the value window and the $n index: from the skeleton, topIndex = pointer + a; from the reduce fragment's shape, the window is stack[topIndex − |rhs| + b : pointer] with |rhs| of the case's own rule; from the extracted replacement shapes, $n is emitted as Dollar[n + c] with the tag of RighPart[n + d] of the same rule and $$ as dollarDolar with the left-hand side's tag. The n-th right-hand symbol lives at pointer − |rhs| + (n−1), so the identity a + b + c = −1 and d = −1 is checked per backend. R2 ORDER: the action text precedes the pop inside a case; in the shift branch the token's value is pushed before the next token is fetched; the reduced entry returned by ReduceFunc is the one pushed; accept returns the value of the entry the lookup was made on. R1: tags flow from %type/%token to Symbol.Tag by copies. Not decided: values computed by user actions; evaluation on inputs."
	r.Assumptions = append(r.Assumptions, "the parse stack holds one entry per symbol of the viable prefix (C01)")
	st := c.GetStaged()
	stagedErrors(r, "C07", st)
	c07Flows(c, r)
	c10DirectiveWords(c, r, "C07.c")
	// "the n-th right-hand-side symbol of that very reduction": positions in RighPart are positions in the file only
	// if the right-hand sides and the rule list are kept in source order from the parser to the grammar (C10.c)
	includeClauses(c, r, "C07.c", checkC10, "C10.c")
	// the Dollar window and the returned *ValType point into the stack array: it must belong to one parse
	c15FreshStackAll(r, "C07.b←C15.c", st)
	type backend struct {
		name, recvMode string
		sh             Shape
		pos            token.Pos
		ts             bool
	}
	var bs []backend
	if sc := configOf(st, "go/global/dense"); sc != nil {
		sh, pos := fieldShapeOf(sc.Eval, "ReduceFunc")
		bs = append(bs, backend{"Builder.(*TemplateBuilder).buildReduceFunc+actionCodeReplace", "global", sh, pos, false})
	}
	if st.TS != nil && st.TS.Eval != nil {
		sh, pos := fieldShapeOf(st.TS.Eval, "ReduceFunc")
		bs = append(bs, backend{"Builder.(*TsBuilder).buildReduceFunc+actionCodeReplaceTs", "ts", sh, pos, true})
	}
	for _, b := range bs {
		if b.sh == nil {
			r.Undecided("C07.a", "R13 AFFINE", b.name, "Builder", "no ReduceFunc shape")
			continue
		}
		parts := flatten(b.sh)
		roles := reduceFuncRoles(b.sh)
		// a: topIndex = pointer − 1 (skeleton / literal)
		a := -99
		if b.ts {
			for _, p := range parts {
				if p.hole == nil && strings.Contains(p.lit, "let topIndex = StackPointer - 1") {
					a = -1
				}
			}
		} else {
			for _, sk := range quickSkeletons(st) {
				if sk.V.Name != "go/global/dense" {
					continue
				}
				if rf := sk.FuncDecl("", "ReduceFunc"); rf != nil && reduceFuncFrame(sk, rf) == "" {
					a = -1
				}
			}
		}
		// b: window lower bound topIndex-<len> with nothing added, upper bound the pointer
		bOff, winOK := -99, false
		for i, p := range parts {
			if p.hole != nil && p.hole.Path == roles["window-start"] && i > 0 && i+1 < len(parts) {
				before, after := parts[i-1].lit, parts[i+1].lit
				if strings.HasSuffix(before, "[topIndex-") && strings.HasPrefix(after, " : StackPointer]") {
					bOff, winOK = 0, true
				}
				if strings.HasSuffix(before, ".slice(topIndex-") && strings.HasPrefix(after, " , StackPointer)") {
					bOff, winOK = 0, true
				}
				break
			}
		}
		// c: emitted index is the NUMBER the reference denotes: "Dollar[" ‹%d ← Atoi($match[1:])› "]". The digits as
		// written are not that number in the target language: the pattern admits a leading zero, and `010` is 8 in
		// Go (and rejected or 8 in TypeScript) while the tag is taken from symbol 10 — so the verbatim text is
		// reported (index-is-emitted-as-a-number below)
		cOff := -99
		verbatim := false
		for i, p := range parts {
			if p.hole == nil || i == 0 || i+1 >= len(parts) {
				continue
			}
			if !strings.HasSuffix(parts[i-1].lit, "Dollar[") || !strings.HasPrefix(parts[i+1].lit, "]") {
				continue
			}
			switch {
			case p.hole.Path == "$match[1:]":
				cOff, verbatim = 0, true
			case p.hole.Path == "strconv.Atoi($match[1:])" && p.hole.Verb == "d":
				cOff = 0
			default:
				if m := reAtoiPlus.FindStringSubmatch(p.hole.Path); m != nil && p.hole.Verb == "d" {
					fmt.Sscan(m[1], &cOff)
				}
			}
		}
		r.Check(cOff != -99 && !verbatim, "C07.a", "R11 HOLE-CONTEXT", b.name+"/index-is-emitted-as-a-number", c.pos(b.pos),
			"the index of Dollar[…] is printed with %d from the parsed number: $010 and $10 are the same reference",
			"the index of Dollar[…] is the text of the reference as written: the pattern admits a leading zero, and `$010` is emitted as Dollar[010] — 8 in the generated Go, while the union field is taken from the 10th symbol (`$08` does not compile)")
		// the $n pattern: a '$' followed by the MAXIMAL run of decimal digits is one reference ($10 is the tenth symbol)
		patOK, patWhy := false, "no regular-expression replacement of $n in the fragment"
		walkShape(b.sh, func(x Shape) {
			rp, ok := x.(*SRepl)
			if !ok || !rp.IsRegex {
				return
			}
			re, err := regexp.Compile(rp.Old)
			if err != nil {
				patWhy = "the $n pattern does not compile"
				return
			}
			patOK, patWhy = true, ""
			for _, ref := range []string{"$1", "$9", "$10", "$12", "$20", "$100", "$205"} {
				if got := re.FindString("x = " + ref + " + y"); got != ref {
					patOK = false
					patWhy = fmt.Sprintf("the pattern %q reads %q as the reference %q: the rest of the number stays in the action text and another symbol's value is used", rp.Old, ref, got)
				}
			}
			if re.MatchString("$$") || re.MatchString("$x") || re.MatchString("price") {
				patOK = false
				patWhy = fmt.Sprintf("the pattern %q also matches text that is not a $n reference", rp.Old)
			}
		})
		r.Check(patOK, "C07.a", "R13 AFFINE", b.name+"/$n-pattern", c.pos(b.pos),
			"the $n pattern matches '$' followed by the maximal run of digits, evaluated on $1 … $205 (constant pattern, evaluated by the analyser)", patWhy)
		// d: tag index n − 1 into the same rule's right-hand side
		dOff := -99
		sameRule := false
		if m := reAtoiMinus.FindStringSubmatch(roles["$n-tag"]); m != nil {
			fmt.Sscan(m[1], &dOff)
			dOff = -dOff
			sameRule = strings.HasPrefix(roles["$n-tag"], "recv.vnode.LALR1.G.ProductoinRules[$i].RighPart[")
		}
		ok := winOK && a+bOff+cOff == -1 && dOff == -1 && sameRule
		r.Check(ok, "C07.a", "R13 AFFINE", b.name+"/slot-equation", c.pos(b.pos),
			fmt.Sprintf("topIndex = pointer%+d, window = stack[topIndex−|rhs|%+d : pointer], $n → Dollar[n%+d] with the tag of RighPart[n%+d] of the same rule: Dollar[n] is the n-th right-hand symbol", a, bOff, cOff, dOff),
			fmt.Sprintf("the slot equation does not hold (topIndex = pointer%+d, window offset %+d, window ok=%v, $n index offset %+d, tag offset %+d, same rule=%v): $n would read another symbol's value or another symbol's union field", a, bOff, winOK, cOff, dOff, sameRule))
		// $$ ← LeftPart.Tag of the same rule
		r.Check(roles["$$-tag"] == "recv.vnode.LALR1.G.ProductoinRules[$i].LeftPart.Tag", "C07.a", "R1 PROVENANCE", b.name+"/$$-tag", c.pos(b.pos),
			"$$ is the new entry's union field named by the tag of rule i's left-hand side", "$$ takes its tag from "+roles["$$-tag"])
		// order inside a case: action text before the pop
		iAct, iPop := -1, -1
		for i, p := range parts {
			if p.hole != nil && strings.HasSuffix(p.hole.Path, ".ActionCode") {
				iAct = i // last occurrence: the executable copy
			}
			if p.hole == nil && strings.Contains(p.lit, "PopStateSym(") && iPop < 0 {
				iPop = i
			}
		}
		// $$ is what the action makes it: apart from the symbol index, the generator's own text of a case never
		// touches the new entry — an action that leaves $$ alone yields the zero value, for every rule alike
		{
			var touched []string
			var walk func(x Shape, inCase bool)
			walk = func(x Shape, inCase bool) {
				switch v := x.(type) {
				case *SLit:
					if !inCase {
						return
					}
					rest := v.S
					for {
						i := strings.Index(rest, "dollarDolar")
						if i < 0 {
							break
						}
						rest = rest[i+len("dollarDolar"):]
						if !strings.HasPrefix(rest, ".YySymIndex = ") {
							line := rest
							if j := strings.IndexByte(line, '\n'); j >= 0 {
								line = line[:j]
							}
							touched = append(touched, "dollarDolar"+line)
						}
					}
				case *SCat:
					for _, p := range v.Parts {
						walk(p, inCase)
					}
				case *SLoop:
					walk(v.Body, inCase || strings.HasSuffix(v.Over, "ProductoinRules)") || strings.HasSuffix(v.Over, "ProductoinRules"))
				case *SAlt:
					walk(v.Then, inCase)
					walk(v.Else, inCase)
				case *SRepl:
					walk(v.Base, inCase) // the replacement text is the user's $$ / $n, not the generator's own statement
				case *SQuote:
					walk(v.Inner, inCase)
				}
			}
			walk(b.sh, false)
			r.Check(iAct >= 0 && len(touched) == 0, "C07.b", "R12 STATE-INVENTORY", b.name+"/$$-only-the-action-fills-it", c.pos(b.pos),
				"the generator's own text of a reduce case writes the new entry's symbol index and nothing else of it: $$ is the zero value until the action assigns it",
				"the generated case touches the new entry outside the action ("+strings.Join(dedupStrings(touched), "; ")+"): a rule whose action does not assign $$ no longer yields the zero value, and fields of the union other than the tagged one are filled")
		}
		r.Check(iAct >= 0 && iPop > iAct, "C07.b", "R2 ORDER", b.name+"/action-before-pop", c.pos(b.pos),
			"inside a case the action runs while the right-hand side's entries are still on the stack; the pop follows", "the pop precedes the action text: $n would read entries that are already above the stack pointer")
	}
	// a value stays in its stack entry from its push to the reduction that reads it: only pushing (and the
	// re-initialisation / context restore) writes stack slots — in particular popping only moves the pointer
	for _, sk := range quickSkeletons(st) {
		if sk.File == nil || sk.Pkg == nil || len(sk.TypeErs) > 0 {
			continue
		}
		allowed := map[string]bool{"PushStateSym": true, "Context.PushStateSym": true, "ParserInit": true, "Context.ParserInit": true, "PopContex": true}
		bad := ""
		ws := stackSlotWriters(sk)
		for _, w := range ws {
			if !allowed[w] {
				bad = w
			}
		}
		r.Check(bad == "", "C07.b", "WHO-WRITES", "skeleton "+sk.V.Name+"/stack-entries-written-only-by-push", sk.pos(token.NoPos),
			fmt.Sprintf("stack entries are written only by %v: a pushed value is still there when a later reduction reads it as $n", ws),
			"stack entries are also written by "+bad+" (directly or through a slice / pointer into the stack): values below the reduced handle or the values being reduced can be overwritten before an action reads them")
	}
	// $$ starts from the zero value at every reduction: the entry a case fills is freshly allocated, not reused
	for _, sk := range quickSkeletons(st) {
		recv := map[bool]string{true: "Context", false: ""}[sk.V.Object]
		rf := sk.FuncDecl(recv, "ReduceFunc")
		name := "skeleton " + sk.V.Name + "/ReduceFunc/fresh-$$-entry"
		if rf == nil || sk.Info == nil {
			r.Undecided("C07.b", "R12 STATE-INVENTORY", name, sk.pos(token.NoPos), "no ReduceFunc")
			continue
		}
		fresh := false
		why := "no definition of the entry that receives $$"
		for _, s := range rf.Body.List {
			as, ok := s.(*ast.AssignStmt)
			if !ok || len(as.Lhs) != 1 || len(as.Rhs) != 1 {
				continue
			}
			id, ok := as.Lhs[0].(*ast.Ident)
			if !ok || id.Name != "dollarDolar" {
				continue
			}
			rhs := unparen(as.Rhs[0])
			if u, ok := rhs.(*ast.UnaryExpr); ok && u.Op == token.AND {
				if cl, ok := unparen(u.X).(*ast.CompositeLit); ok && len(cl.Elts) == 0 {
					fresh = true
				} else {
					why = "the entry that receives $$ is `" + printNode(sk.Fset, rhs) + "`, storage that outlives the reduction: a rule whose action does not assign $$ (an empty rule) then yields the previous reduction's value instead of the zero value"
				}
			} else {
				why = "the entry that receives $$ is `" + printNode(sk.Fset, rhs) + "`"
			}
			break
		}
		r.Check(fresh, "C07.b", "R12 STATE-INVENTORY", name, sk.pos(rf.Pos()), "every reduction starts with a freshly allocated, zero-valued entry for $$", why)
	}
	if st.TS != nil && st.TS.Eval != nil {
		sh, pos := fieldShapeOf(st.TS.Eval, "ReduceFunc")
		txt := ""
		for _, p := range flatten(sh) {
			txt += p.lit
		}
		ok := strings.Contains(txt, "let dollarDolar = new StateSym(-1,-1)") && strings.Contains(txt, "dollarDolar.ValType = new ValType()")
		r.Check(ok, "C07.b", "TS STATE", "typescript/ReduceFunc/fresh-$$-entry", c.pos(pos), "TypeScript: a new StateSym with a new ValType per reduction", "TypeScript ReduceFunc does not create a new entry and value per reduction")
	}
	// driver order
	for _, sk := range quickSkeletons(st) {
		name := "skeleton " + sk.V.Name + "/Parser"
		ir, err := goDriverIR(sk)
		if err != "" {
			r.Undecided("C07.b", "R2 ORDER", name, sk.pos(token.NoPos), err)
			continue
		}
		bad := ""
		if ir.classes["shift"] != "push(state=a,sym=look,val=val); fetch" {
			bad = "shift branch is `" + ir.classes["shift"] + "`: the token's value must be pushed before the next fetch overwrites it"
		}
		if !strings.Contains(ir.classes["reduce"], "push(reduced)") {
			bad = "the entry pushed after a reduction is not the one ReduceFunc returned (" + ir.classes["reduce"] + ")"
		}
		if ir.classes["accept"] != "return top.value" {
			bad = "accept returns `" + ir.classes["accept"] + "`, not the value of the entry on top"
		}
		// val is the variable whose address is given to fetchLookAhead
		if why := valIsFetchTarget(sk); why != "" {
			bad = why
		}
		r.Check(bad == "", "C07.b", "R2 ORDER", name+"/values-travel-with-symbols", sk.pos(token.NoPos),
			"shift pushes the value the lexer stored for this token, then fetches; reduce pushes ReduceFunc's entry; accept returns the top entry's value", bad)
	}
	if st.TS != nil && st.TS.LexEr == "" {
		if ir, err := tsDriverIR(st.TS); err == "" {
			ok := ir.classes["shift"] == "push(state=a,sym=look,val=val); fetch" && strings.Contains(ir.classes["reduce"], "push(reduced)") && ir.classes["accept"] == "return top.value"
			r.Check(ok, "C07.b", "TS DRIVER", "typescript/Parser/values-travel-with-symbols", "Builder/TsGenCode.go (StateFunc literal)",
				"TypeScript: sym.ValType = model.ValType before the push, fetch after; reduced entry pushed; accept returns state.ValType (token-level)",
				fmt.Sprintf("shift `%s`, reduce `%s`, accept `%s`", ir.classes["shift"], ir.classes["reduce"], ir.classes["accept"]))
		}
	}
	// C07.c tags: Symbol.Tag ← Idendity.Tag ← declaration
	if fv := lookupField(c, "Symbol", "Symbol", "Tag"); fv != nil {
		bad := ""
		for _, w := range fieldWrites(c, fv) {
			if w.fn != "Symbol.(*Symbol).SetTag" {
				bad = w.fn
			}
		}
		r.Check(bad == "", "C07.c", "WHO-WRITES", "Symbol.Symbol.Tag", c.pos(fv.Pos()), "written only by SetTag", "also written by "+bad)
	}
	if f := c.need(r, "C07.c", "Parser", "Walker", "BuildLALR1"); f != nil {
		info := f.Pkg.TypesInfo
		ok, n := true, 0
		ast.Inspect(f.Decl.Body, func(nd ast.Node) bool {
			if call, isC := nd.(*ast.CallExpr); isC {
				if fn := callee(info, call); fn != nil && fn.Name() == "SetTag" && len(call.Args) == 1 {
					n++
					if fvv := fieldVar(info, call.Args[0]); fvv == nil || fvv.Name() != "Tag" {
						ok = false
					}
				}
			}
			return true
		})
		r.Check(ok && n == 1, "C07.c", "R1 PROVENANCE", f.Name+"/SetTag", c.pos(f.Decl.Pos()), "the symbol's tag is the identifier's declared tag, copied unchanged", "the symbol's tag is not a plain copy of the identifier's declared tag")
	}
	if fv := lookupField(c, "Parser", "Idendity", "Tag"); fv != nil {
		bad := ""
		n := 0
		for _, w := range fieldWrites(c, fv) {
			n++
			p := w.path
			plainLocal := strings.HasPrefix(p, "$") && !strings.ContainsAny(p, ".[(") // the line's tag local (tag-is-the-text-between-angle-brackets checks what it holds)
			if !(strings.HasSuffix(p, ".Tag") || plainLocal || p == `""` || strings.HasSuffix(p, ".current.Value")) {
				bad = fmt.Sprintf("%s writes %s", w.fn, p)
			}
		}
		r.Check(bad == "" && n > 0, "C07.c", "R1 PROVENANCE", "Parser.Idendity.Tag/writers", c.pos(fv.Pos()), fmt.Sprintf("%d writers: the <tag> token's text or a copy of another declaration's tag", n), bad)
	}
}

// valIsFetchTarget: the value pushed on shift is the variable whose address is passed to fetchLookAhead.
func valIsFetchTarget(sk *Skeleton) string {
	d := analyseDriver(sk)
	if d.err != "" {
		return d.err
	}
	info := sk.Info
	var target string
	ast.Inspect(d.fn.Body, func(n ast.Node) bool {
		if call, ok := n.(*ast.CallExpr); ok {
			if f := callee(info, call); f != nil && (f.Name() == "fetchLookAhead" || f.Name() == "GetToken") && len(call.Args) == 3 {
				if u, ok := unparen(call.Args[1]).(*ast.UnaryExpr); ok && u.Op == token.AND {
					target = printNode(sk.Fset, u.X)
				}
			}
		}
		return true
	})
	pushed := ""
	ast.Inspect(d.loop.Body, func(n ast.Node) bool {
		if kv, ok := n.(*ast.KeyValueExpr); ok {
			if k, ok := kv.Key.(*ast.Ident); ok && k.Name == "ValType" {
				pushed = printNode(sk.Fset, kv.Value)
			}
		}
		return true
	})
	if target == "" || pushed != target {
		return fmt.Sprintf("the shifted entry's value is `%s` but the lexer stores token values into `%s`", pushed, target)
	}
	return ""
}
