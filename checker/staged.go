package main

// staged.go — the staged program: generated-parser skeletons (DESIGN.md §2).
// For every documented configuration {packed, dense} × {global, object} the embedded template constant
// is parsed with text/template/parse (never executed), its holes are filled with the builders' shapes
// rendered abstractly (loops unrolled k times, typed placeholders in literal position), and the resulting
// ordinary Go source is parsed and type-checked. Rules then analyse that source like any Go package.

import (
	"fmt"
	"go/ast"
	"go/importer"
	"go/parser"
	"go/token"
	"go/types"
	"os"
	"regexp"
	"sort"
	"strconv"
	"strings"
	"text/template/parse"
)

type Variant struct {
	Name   string // e.g. "go/global/packed"
	Object bool
	Packed bool
	Http   bool
}

type Skeleton struct {
	V       Variant
	K       int    // loop unrolling
	ActSet  int    // index of the representative action assignment
	Src     string // rendered Go source
	Fset    *token.FileSet
	File    *ast.File
	Info    *types.Info
	Pkg     *types.Package
	ParseEr error
	TypeErs []string
}

type StagedConfig struct {
	V        Variant
	Eval     *ShapeEval
	Template string // template constant value
	TemplVar string // name of the template variable chosen
	TemplPos token.Pos
	Tree     *parse.Tree
	FieldOf  map[string]*types.Var // builder field name -> var
	Skels    []*Skeleton
	Errs     []string
	Used     map[string]bool // template fields consulted when rendering this configuration
	Unfilled map[string]bool // … of which no builder step assigns a value (zero value rendered)
}

type Staged struct {
	thorough bool
	Configs  []*StagedConfig
	TS       *TSStaged
	Errs     []string
}

func (s *Staged) Summary() interface{} {
	var out []string
	for _, c := range s.Configs {
		for _, k := range c.Skels {
			st := "type-checked"
			if k.ParseEr != nil {
				st = "parse error"
			} else if len(k.TypeErs) > 0 {
				st = fmt.Sprintf("%d type errors", len(k.TypeErs))
			}
			out = append(out, fmt.Sprintf("%s k=%d actions=%d: %d bytes, %s", c.V.Name, k.K, k.ActSet, len(k.Src), st))
		}
	}
	return out
}

// GetStaged builds the staged program once per run.
func (c *Ctx) GetStaged() *Staged {
	if c.stage != nil {
		return c.stage
	}
	st := &Staged{thorough: c.Tier == "thorough"}
	c.stage = st
	entry := c.Func("Builder", "", "TemplateGenFromString")
	wf := c.Func("Builder", "TemplateBuilder", "WriteFile")
	if entry == nil || wf == nil {
		st.Errs = append(st.Errs, "Builder.TemplateGenFromString / (*TemplateBuilder).WriteFile not found")
		return st
	}
	variants := []Variant{
		{Name: "go/global/packed", Packed: true},
		{Name: "go/global/dense"},
		{Name: "go/object/packed", Object: true, Packed: true},
		{Name: "go/object/dense", Object: true},
	}
	// the --httpdebug variant switches on extra template text (and the holes in it): staged in both tiers
	variants = append(variants, Variant{Name: "go/global/packed/http", Packed: true, Http: true})
	for _, v := range variants {
		sc := &StagedConfig{V: v, FieldOf: map[string]*types.Var{}}
		st.Configs = append(st.Configs, sc)
		cfg := map[string]bool{
			"Utils.ObjectMode": v.Object,
			"recv.NeedPacked":  v.Packed,
		}
		sc.Eval = newShapeEval(c, cfg)
		sc.Eval.EvalEntry(entry)
		sc.Errs = append(sc.Errs, sc.Eval.errs...)
		// template choice in WriteFile under this configuration
		sc.Template, sc.TemplVar, sc.TemplPos = chooseTemplate(c, wf, cfg)
		if sc.Template == "" {
			sc.Errs = append(sc.Errs, "cannot resolve the template constant parsed in WriteFile")
			continue
		}
		trees, err := parse.Parse("gotemplate", sc.Template, "{{", "}}")
		if err != nil {
			sc.Errs = append(sc.Errs, "embedded template does not parse: "+err.Error())
			continue
		}
		sc.Tree = trees["gotemplate"]
		// builder struct fields
		if tb := c.Pkg("Builder").Types.Scope().Lookup("TemplateBuilder"); tb != nil {
			if stt := structOf(tb.Type()); stt != nil {
				for i := 0; i < stt.NumFields(); i++ {
					sc.FieldOf[stt.Field(i).Name()] = stt.Field(i)
				}
			}
		}
		ks := []int{2}
		acts := []int{0, 2, 3}
		if c.Tier == "thorough" {
			ks = []int{1, 2, 3}
			acts = []int{0, 1, 2, 3}
		}
		for _, k := range ks {
			for _, a := range acts {
				sc.Skels = append(sc.Skels, sc.render(c, k, a))
			}
		}
	}
	st.TS = buildTSStaged(c)
	return st
}

// chooseTemplate resolves `chooseTemplate := A; if utils.ObjectMode { chooseTemplate = B }; template.New(..).Parse(chooseTemplate)`.
func chooseTemplate(c *Ctx, wf *FuncRef, cfg map[string]bool) (string, string, token.Pos) {
	info := wf.Pkg.TypesInfo
	se := newShapeEval(c, cfg)
	fr := se.newFrame(wf)
	// evaluate only the statements before the Parse call that assign the string local
	var argObj types.Object
	ast.Inspect(wf.Decl.Body, func(n ast.Node) bool {
		if call, ok := n.(*ast.CallExpr); ok {
			if f := callee(info, call); f != nil && f.FullName() == "(*text/template.Template).Parse" && len(call.Args) == 1 {
				argObj = identObj(info, call.Args[0])
			}
		}
		return true
	})
	if argObj == nil {
		return "", "", token.NoPos
	}
	name := ""
	var pos token.Pos
	for _, s := range wf.Decl.Body.List {
		switch x := s.(type) {
		case *ast.AssignStmt:
			if len(x.Lhs) == 1 && identObj(info, x.Lhs[0]) == argObj {
				se.stmt(fr, s)
				name, pos = exprString(x.Rhs[0]), x.Rhs[0].Pos()
			}
		case *ast.IfStmt:
			if v, ok := se.configValue(fr, x.Cond); ok {
				if v {
					for _, bs := range x.Body.List {
						if as, ok := bs.(*ast.AssignStmt); ok && len(as.Lhs) == 1 && identObj(info, as.Lhs[0]) == argObj {
							se.stmt(fr, bs)
							name, pos = exprString(as.Rhs[0]), as.Rhs[0].Pos()
						}
					}
				}
			} else if assignsObj(info, x, argObj) {
				return "", "", token.NoPos
			}
		}
	}
	if l, ok := fr.env[argObj].(*SLit); ok {
		// position of the constant's declaration
		if id, ok := findIdentByName(c, "Builder", name); ok {
			pos = id
		}
		return l.S, name, pos
	}
	return "", "", token.NoPos
}

func assignsObj(info *types.Info, n ast.Node, o types.Object) bool {
	found := false
	ast.Inspect(n, func(m ast.Node) bool {
		if as, ok := m.(*ast.AssignStmt); ok {
			for _, l := range as.Lhs {
				if identObj(info, l) == o {
					found = true
				}
			}
		}
		return true
	})
	return found
}

func findIdentByName(c *Ctx, dir, name string) (token.Pos, bool) {
	p := c.Pkg(dir)
	if p == nil {
		return token.NoPos, false
	}
	if o := p.Types.Scope().Lookup(name); o != nil {
		return o.Pos(), true
	}
	return token.NoPos, false
}

// ---------------------------------------------------------------------------------------------
// rendering

type renderer struct {
	c        *Ctx
	k        int
	actSet   int
	errs     []string
	loops    []loopFrame
	match    string                        // current regex match for replacement functions
	ts       bool                          // TypeScript placeholders
	sentinel func(h *SHole) (string, bool) // optional: replaces the text of selected holes
	bothAlts bool                          // render both arms of data-dependent alternatives
	quoted   int                           // > 0 while rendering the inside of a %q
	repls    []*SRepl                      // replacements enclosing the part being rendered
}

type loopFrame struct {
	lp   *SLoop
	iter int
}

// representative action bodies (raw, before $-substitution), chosen per iteration
var actionSets = [][]string{
	{"", "$$ = $1", "$$ = $1 + $2", "{ $$ = $2 }"},
	{"$$ = $1 * 2", "", "if $1 > 0 { $$ = $1 }", "$$ = $3"},
	// adversarial representatives: $n / $$ mentioned only where Go does not read them (comment, string literal)
	{"/* $1 */ $$ = 0", "_ = \"$1 $$\"", "$$ = 0 // $1 and $2", "/* $$ */"},
	// multi-digit references: $10 is symbol 10, not symbol 1 followed by a 0
	{"$$ = $10", "$$ = $1 + $20", "$$ = $12 + $100"},
}

// minimum unrolling per loop, with the reason (DESIGN.md §2.3)
func loopLowerBound(lp *SLoop) int {
	switch {
	case strings.HasSuffix(lp.Over, ".G.ProductoinRules)") && lp.Lo >= 1:
		return 1 // BuildLALR1 inserts rule 0 and panics unless the start symbol has a rule: at least 2 rules
	case strings.HasSuffix(lp.Over, ".G.Symbols"):
		return 2 // `start` and `$` are always present
	}
	return 0
}

func (r *renderer) errf(format string, a ...interface{}) {
	r.errs = append(r.errs, fmt.Sprintf(format, a...))
}

func (r *renderer) iterOf(varName string) (int, *SLoop, bool) {
	for i := len(r.loops) - 1; i >= 0; i-- {
		if r.loops[i].lp.Var == varName || r.loops[i].lp.KeyVar == varName {
			return r.loops[i].iter, r.loops[i].lp, true
		}
	}
	return 0, nil, false
}

func (r *renderer) innerIter() int {
	if len(r.loops) == 0 {
		return 0
	}
	return r.loops[len(r.loops)-1].iter
}

var reLoopVar = regexp.MustCompile(`^\$[A-Za-z_][A-Za-z_0-9]*$`)

func (r *renderer) render(s Shape) string {
	switch x := s.(type) {
	case nil:
		return ""
	case *SLit:
		return x.S
	case *SCat:
		var b strings.Builder
		for _, p := range x.Parts {
			b.WriteString(r.render(p))
		}
		return b.String()
	case *SLoop:
		n := r.k
		if lb := loopLowerBound(x); n < lb {
			n = lb
		}
		var b strings.Builder
		for i := 0; i < n; i++ {
			r.loops = append(r.loops, loopFrame{x, i})
			b.WriteString(r.render(x.Body))
			r.loops = r.loops[:len(r.loops)-1]
		}
		return b.String()
	case *SAlt:
		// a recognised predicate of user text: take the arm the generator takes for this placeholder text
		if x.Pred != nil && !r.bothAlts {
			saved := r.sentinel
			r.sentinel = nil
			subject := r.render(x.Pred.Subject)
			r.sentinel = saved
			v, err := x.Pred.eval(subject)
			if err != nil {
				r.errf("alternative on %s: %v", x.CondPath, err)
			} else if v {
				return r.render(x.Then)
			} else {
				return r.render(x.Else)
			}
		} else if x.Pred == nil && userTextPath(x.CondPath) && !r.bothAlts {
			r.errf("the shape of the generated text depends on an unrecognised predicate of user-written text (%s): no placeholder can stand for all texts", x.CondPath)
		}
		// data-dependent alternative: alternate by iteration so both arms are rendered
		if r.bothAlts {
			return r.render(x.Then) + r.render(x.Else)
		}
		if (r.innerIter()+r.actSet)%2 == 0 {
			return r.render(x.Then)
		}
		return r.render(x.Else)
	case *SRepl:
		r.repls = append(r.repls, x)
		base := r.render(x.Base)
		r.repls = r.repls[:len(r.repls)-1]
		if !x.IsRegex {
			return strings.ReplaceAll(base, x.Old, r.render(x.New))
		}
		re, err := regexp.Compile(x.Old)
		if err != nil {
			r.errf("replacement pattern %q does not compile", x.Old)
			return base
		}
		return re.ReplaceAllStringFunc(base, func(m string) string {
			old := r.match
			r.match = m
			defer func() { r.match = old }()
			return r.render(x.New)
		})
	case *SHole:
		return r.hole(x)
	case *SQuote:
		r.quoted++
		inner := r.render(x.Inner)
		r.quoted--
		return strconv.Quote(inner)
	case *sVar:
		r.errf("internal marker left in shape")
		return ""
	}
	return ""
}

func isIntType(t types.Type) bool {
	if t == nil {
		return false
	}
	b, ok := t.Underlying().(*types.Basic)
	return ok && b.Info()&types.IsInteger != 0
}

func (r *renderer) hole(h *SHole) string {
	if r.sentinel != nil {
		if s, ok := r.sentinel(h); ok {
			return s
		}
	}
	s := r.holeText(h)
	if h.Verb == "q" {
		return strconv.Quote(s)
	}
	if h.Verb == "c" && isIntType(h.Typ) {
		return string(rune('a' + r.innerIter()%26))
	}
	return s
}

func (r *renderer) holeText(h *SHole) string {
	p := h.Path
	it := r.innerIter()
	// regex replacement function: the match and its suffix
	if p == "$match" {
		return r.match
	}
	if p == "$match[1:]" && len(r.match) > 0 {
		return r.match[1:]
	}
	// strconv.Itoa(<int>) / fmt.Sprint(<int>) is that integer's decimal text
	intLike := isIntType(h.Typ)
	if isStringType(h.Typ) && h.Itoa {
		for _, pre := range []string{"strconv.Itoa(", "fmt.Sprint("} {
			if strings.HasPrefix(p, pre) && strings.HasSuffix(p, ")") {
				p = strings.TrimSuffix(strings.TrimPrefix(p, pre), ")")
				intLike = true
			}
		}
	}
	if intLike {
		if reLoopVar.MatchString(p) {
			if i, lp, ok := r.iterOf(p); ok {
				if lp.Lo >= 0 {
					return fmt.Sprint(int(lp.Lo) + i)
				}
				return fmt.Sprint(i)
			}
		}
		if strings.HasPrefix(p, "key(") {
			return fmt.Sprint(it)
		}
		switch {
		case strings.HasSuffix(p, "GenErrorCode()"):
			return "9100"
		case strings.HasSuffix(p, "GenAcceptCode()"):
			return "9200"
		case strings.HasSuffix(p, ".LeftPart.ID"):
			return fmt.Sprint(50 + it)
		case strings.HasPrefix(p, "len(") && strings.HasSuffix(p, ".RighPart)"):
			return fmt.Sprint(it)
		case strings.HasSuffix(p, ".Value"):
			return fmt.Sprint(300 + it)
		case strings.HasSuffix(p, ".ID"):
			return fmt.Sprint(400 + it)
		case strings.HasSuffix(p, ".LineNo"):
			return fmt.Sprint(10 + it)
		}
		return fmt.Sprint(1 + it)
	}
	if isStringType(h.Typ) {
		switch {
		case strings.HasSuffix(p, ".Tag"):
			return "val"
		case strings.HasSuffix(p, ".ActionCode"):
			set := actionSets[r.actSet%len(actionSets)]
			return set[it%len(set)]
		case strings.HasSuffix(p, ".Name") || strings.HasSuffix(p, ".Name)"):
			return fmt.Sprintf("T%d", it)
		case strings.HasSuffix(p, ".Alias"):
			return fmt.Sprintf("alias%d", it)
		case strings.HasSuffix(p, ".GetCode()"):
			if r.ts {
				return "// prologue\n"
			}
			return "package main\n\nimport \"fmt\"\n"
		case strings.HasSuffix(p, ".GetUion()"):
			if r.ts {
				return "val :number;"
			}
			return "val int"
		case strings.HasSuffix(p, ".GetCodeCopy()"):
			if r.ts {
				return "\nfunction GetToken(input :string, model :{ValType :ValType, pos :number}) :number { return -1 }\n"
			}
			return "\nfunc GetToken(input string, val *ValType, pos *int) int { return -1 }\n"
		}
		r.errf("string hole with unclassified provenance %s in %s", p, h.Fn)
		return "X"
	}
	if b, ok := h.Typ.Underlying().(*types.Basic); ok && b.Info()&types.IsBoolean != 0 {
		return "true"
	}
	r.errf("hole of unsupported type %s (%s)", h.Typ, p)
	return "0"
}

// templateRefs lists the names the parsed template refers to: fields (".X") and functions ("func f").
func templateRefs(tree *parse.Tree) []string {
	var refs []string
	var walk func(n parse.Node)
	walk = func(n parse.Node) {
		switch x := n.(type) {
		case *parse.ListNode:
			if x != nil {
				for _, m := range x.Nodes {
					walk(m)
				}
			}
		case *parse.ActionNode:
			walk(x.Pipe)
		case *parse.PipeNode:
			if x != nil {
				for _, cmd := range x.Cmds {
					for _, a := range cmd.Args {
						walk(a)
					}
				}
			}
		case *parse.FieldNode:
			if len(x.Ident) > 0 {
				refs = append(refs, x.Ident[0])
			}
		case *parse.ChainNode:
			walk(x.Node)
		case *parse.IfNode:
			walk(x.Pipe)
			walk(x.List)
			walk(x.ElseList)
		case *parse.RangeNode:
			walk(x.Pipe)
			walk(x.List)
			walk(x.ElseList)
		case *parse.WithNode:
			walk(x.Pipe)
			walk(x.List)
			walk(x.ElseList)
		case *parse.IdentifierNode:
			refs = append(refs, "func "+x.Ident)
		case *parse.TemplateNode:
			walk(x.Pipe)
		}
	}
	if tree != nil {
		walk(tree.Root)
	}
	return refs
}

// renderTemplate walks the parsed template for one configuration.
func (sc *StagedConfig) renderTemplate(r *renderer) string {
	var b strings.Builder
	var walk func(n parse.Node)
	if sc.Used == nil {
		sc.Used, sc.Unfilled = map[string]bool{}, map[string]bool{}
	}
	fieldShape := func(name string) string {
		fv := sc.FieldOf[name]
		if fv == nil {
			r.errf("template refers to unknown builder field .%s", name)
			return ""
		}
		sc.Used[name] = true
		if sh, ok := sc.Eval.fields[fv]; ok {
			return r.render(sh)
		}
		if p, ok := sc.Eval.fieldsP[fv]; ok {
			if isIntType(fv.Type()) {
				_ = p
				return "7"
			}
			return "true"
		}
		// never assigned: zero value
		sc.Unfilled[name] = true
		if isStringType(fv.Type()) {
			return ""
		}
		if isIntType(fv.Type()) {
			return "0"
		}
		return "false"
	}
	walk = func(n parse.Node) {
		switch x := n.(type) {
		case *parse.ListNode:
			if x == nil {
				return
			}
			for _, m := range x.Nodes {
				walk(m)
			}
		case *parse.TextNode:
			b.Write(x.Text)
		case *parse.ActionNode:
			name, ok := singleField(x.Pipe)
			if !ok {
				r.errf("template action %s is not a single field reference", x.String())
				return
			}
			b.WriteString(fieldShape(name))
		case *parse.IfNode:
			name, ok := singleField(x.Pipe)
			if !ok {
				r.errf("template condition %s is not a single field reference", x.Pipe.String())
				return
			}
			var v bool
			sc.Used[name] = true // a mode switch nobody sets merely disables the mode: not reported as unfilled
			switch name {
			case "NeedPacked":
				v = sc.V.Packed
			case "HttpParser":
				v = sc.V.Http
			default:
				r.errf("template condition on unexpected field .%s", name)
			}
			if v {
				walk(x.List)
			} else if x.ElseList != nil {
				walk(x.ElseList)
			}
		default:
			r.errf("template node %T is outside the recognised subset", n)
		}
	}
	walk(sc.Tree.Root)
	return b.String()
}

func singleField(p *parse.PipeNode) (string, bool) {
	if p == nil || len(p.Cmds) != 1 || len(p.Cmds[0].Args) != 1 || len(p.Decl) != 0 {
		return "", false
	}
	f, ok := p.Cmds[0].Args[0].(*parse.FieldNode)
	if !ok || len(f.Ident) != 1 {
		return "", false
	}
	return f.Ident[0], true
}

var stdImporter types.Importer

func (sc *StagedConfig) render(c *Ctx, k, actSet int) *Skeleton {
	sk := &Skeleton{V: sc.V, K: k, ActSet: actSet, Fset: token.NewFileSet()}
	r := &renderer{c: c, k: k, actSet: actSet}
	sk.Src = sc.renderTemplate(r)
	for _, e := range r.errs {
		sk.TypeErs = append(sk.TypeErs, "render: "+e)
	}
	f, err := parser.ParseFile(sk.Fset, "skeleton_"+strings.ReplaceAll(sc.V.Name, "/", "_")+".go", sk.Src, parser.ParseComments|parser.SkipObjectResolution)
	if err != nil {
		sk.ParseEr = err
		return sk
	}
	sk.File = f
	sk.Info = &types.Info{Types: map[ast.Expr]types.TypeAndValue{}, Defs: map[*ast.Ident]types.Object{}, Uses: map[*ast.Ident]types.Object{},
		Selections: map[*ast.SelectorExpr]*types.Selection{}, Implicits: map[ast.Node]types.Object{}, Scopes: map[ast.Node]*types.Scope{}}
	if stdImporter == nil {
		stdImporter = &depImporter{c: c, fallback: importer.ForCompiler(token.NewFileSet(), "source", nil)}
	}
	conf := types.Config{Importer: stdImporter, Error: func(err error) {
		sk.TypeErs = append(sk.TypeErs, err.Error())
	}}
	sk.Pkg, _ = conf.Check("main", sk.Fset, []*ast.File{f}, sk.Info)
	if sk.Info.Instances == nil {
		sk.Info.Instances = map[*ast.Ident]types.Instance{}
	}
	// parameters of the generated parser's functions in another order than on the confirmed tree: declaration and
	// calls are put back into that order (rename.go, permuteParams) and the skeleton is checked again
	if base := baselineSkelSyms[sc.V.Name]; base != nil && sk.Pkg != nil && len(sk.TypeErs) == 0 && os.Getenv("YACCVERIF_NORENAME") == "" {
		plog := &renameLog{}
		// a helper that changed sides (function ↔ method of its first parameter) is put back first
		if changeSides(base, sk.Pkg, sk.Info, f, plog) {
			info2 := &types.Info{Types: map[ast.Expr]types.TypeAndValue{}, Defs: map[*ast.Ident]types.Object{}, Uses: map[*ast.Ident]types.Object{},
				Selections: map[*ast.SelectorExpr]*types.Selection{}, Implicits: map[ast.Node]types.Object{}, Scopes: map[ast.Node]*types.Scope{}, Instances: map[*ast.Ident]types.Instance{}}
			var errs []string
			conf2 := types.Config{Importer: stdImporter, Error: func(err error) { errs = append(errs, err.Error()) }}
			pkg2, _ := conf2.Check("main", sk.Fset, []*ast.File{f}, info2)
			sk.Pkg, sk.Info = pkg2, info2
			for _, e := range errs {
				sk.TypeErs = append(sk.TypeErs, "after function↔method normalisation: "+e)
			}
		}
		if undo := permuteParams([]*permUnit{{dir: "generated parser", base: base, pkg: sk.Pkg, info: sk.Info, files: []*ast.File{f}}}, []*ast.File{f}, []*types.Info{sk.Info}, plog); undo != nil {
			info2 := &types.Info{Types: map[ast.Expr]types.TypeAndValue{}, Defs: map[*ast.Ident]types.Object{}, Uses: map[*ast.Ident]types.Object{},
				Selections: map[*ast.SelectorExpr]*types.Selection{}, Implicits: map[ast.Node]types.Object{}, Scopes: map[ast.Node]*types.Scope{}, Instances: map[*ast.Ident]types.Instance{}}
			var errs []string
			conf2 := types.Config{Importer: stdImporter, Error: func(err error) { errs = append(errs, err.Error()) }}
			pkg2, _ := conf2.Check("main", sk.Fset, []*ast.File{f}, info2)
			if len(errs) == 0 {
				sk.Pkg, sk.Info = pkg2, info2
			} else {
				undo()
			}
		}
	}
	normaliseSkeleton(c, sk) // helpers the templates may have gained are inlined back (inline.go)
	return sk
}

// depImporter serves std packages from the already loaded dependency graph of /repo.
type depImporter struct {
	c        *Ctx
	cache    map[string]*types.Package
	fallback types.Importer
}

func (d *depImporter) Import(path string) (*types.Package, error) {
	if d.cache == nil {
		d.cache = map[string]*types.Package{}
		seen := map[string]bool{}
		var visit func(p interface{})
		_ = visit
		var walk func(tp *types.Package)
		walk = func(tp *types.Package) {
			if tp == nil || seen[tp.Path()] {
				return
			}
			seen[tp.Path()] = true
			d.cache[tp.Path()] = tp
			for _, im := range tp.Imports() {
				walk(im)
			}
		}
		for _, p := range d.c.All {
			walk(p.Types)
		}
	}
	if p, ok := d.cache[path]; ok && p.Complete() {
		return p, nil
	}
	return d.fallback.Import(path)
}

// FuncDecl finds a function or method of the skeleton by name (receiver type name "" for functions).
func (sk *Skeleton) FuncDecl(recv, name string) *ast.FuncDecl {
	if sk.File == nil {
		return nil
	}
	for _, d := range sk.File.Decls {
		fd, ok := d.(*ast.FuncDecl)
		if !ok || fd.Name.Name != name || fd.Body == nil {
			continue
		}
		rn, _ := recvTypeName(fd)
		if rn == recv {
			return fd
		}
	}
	// a helper of the generated parser that changed sides (function ↔ method) is still that helper when the name is
	// unique in the file
	var only *ast.FuncDecl
	n := 0
	for _, d := range sk.File.Decls {
		if fd, ok := d.(*ast.FuncDecl); ok && fd.Name.Name == name && fd.Body != nil {
			only = fd
			n++
		}
	}
	if n == 1 {
		return only
	}
	return nil
}

func (sk *Skeleton) pos(p token.Pos) string {
	if sk.Fset == nil || !p.IsValid() {
		return "skeleton " + sk.V.Name
	}
	for k := 0; p >= virtualBase && skelNorm != nil && k < 8; k++ {
		p = skelNorm.virtualToOrig(p)
	}
	if !p.IsValid() {
		return "skeleton " + sk.V.Name
	}
	pp := sk.Fset.Position(p)
	line := ""
	lines := strings.Split(sk.Src, "\n")
	if pp.Line-1 < len(lines) && pp.Line > 0 {
		line = strings.TrimSpace(lines[pp.Line-1])
	}
	return fmt.Sprintf("skeleton %s line %d: `%s`", sk.V.Name, pp.Line, line)
}

func sortedFieldNames(m map[*types.Var]Shape) []string {
	var out []string
	for k := range m {
		out = append(out, k.Name())
	}
	sort.Strings(out)
	return out
}
