package main

// Staged is the staged program (generated-parser skeletons); see stage_*.go.
type Staged struct{}

func (s *Staged) Summary() interface{} { return nil }
