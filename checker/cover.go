package main

// cover.go — R2 COVERAGE helpers: "F emits one thing per element of collection X". Everything is decided on the
// type-checked AST by object identity (renaming a variable or reordering independent statements changes nothing):
//   - the loop ranges over an expression identified by its field / parameter,
//   - it is reached unconditionally (no enclosing if/switch/select between the function body and the loop),
//   - no iteration is skipped (no continue / return / goto in its body, no break that leaves it),
//   - the emitting call sits unconditionally in the body and depends on the element (through local definitions).

import (
	"fmt"
	"go/ast"
	"go/constant"
	"go/token"
	"go/types"
	"strconv"
	"strings"
)

type coverFn struct {
	info *types.Info
	fd   *ast.FuncDecl
	pm   map[ast.Node]ast.Node
	defs *Defs
}

func newCoverFn(f *FuncRef) *coverFn {
	d := newDefs(f.Pkg.TypesInfo)
	d.scan(f.Decl.Body)
	return &coverFn{info: f.Pkg.TypesInfo, fd: f.Decl, pm: parentMap(f.Decl.Body), defs: d}
}

// rangesOver returns the range statements of the function (inside `within`, or the whole body when nil) whose ranged
// expression satisfies pred.
func (cf *coverFn) rangesOver(within ast.Node, pred func(e ast.Expr) bool) []*ast.RangeStmt {
	if within == nil {
		within = cf.fd.Body
	}
	var out []*ast.RangeStmt
	ast.Inspect(within, func(n ast.Node) bool {
		if rs, ok := n.(*ast.RangeStmt); ok && ast.Node(rs) != within && (pred(unparen(rs.X)) || pred(cf.resolve(rs.X))) {
			out = append(out, rs)
		}
		return true
	})
	return out
}

// unconditional: n is executed whenever `within` (a block: function body or loop body) is executed from its start —
// the chain of parents up to within consists of blocks and labeled statements only, and no earlier statement of
// those blocks can leave them (return / continue / break / goto / panic at that level).
func (cf *coverFn) unconditional(n ast.Node, within *ast.BlockStmt) bool {
	cur := n
	for cur != nil && cur != ast.Node(within) {
		par := cf.pm[cur]
		switch p := par.(type) {
		case *ast.BlockStmt:
			for _, s := range p.List {
				if ast.Node(s) == cur {
					break
				}
				if leaves(s) {
					return false
				}
			}
		case *ast.LabeledStmt:
		default:
			return false
		}
		cur = par
	}
	return cur == ast.Node(within)
}

// leaves: the statement itself is a jump out of the enclosing block.
func leaves(s ast.Stmt) bool {
	switch x := s.(type) {
	case *ast.ReturnStmt:
		return true
	case *ast.BranchStmt:
		return x.Tok != token.FALLTHROUGH
	case *ast.ExprStmt:
		if call, ok := x.X.(*ast.CallExpr); ok {
			if id, ok := call.Fun.(*ast.Ident); ok && id.Name == "panic" {
				return true
			}
		}
	}
	return false
}

// noSkips: no iteration of the loop can end before its last statement and the loop cannot stop early: its body
// contains no return / goto / continue, and a break only inside a nested loop / switch / select (which it leaves).
func noSkips(body *ast.BlockStmt) bool {
	ok := true
	var walk func(n ast.Node, nested bool)
	walk = func(n ast.Node, nested bool) {
		ast.Inspect(n, func(m ast.Node) bool {
			if m == nil || m == n {
				return true
			}
			switch x := m.(type) {
			case *ast.FuncLit:
				return false
			case *ast.ReturnStmt:
				ok = false
			case *ast.BranchStmt:
				switch x.Tok {
				case token.GOTO, token.CONTINUE:
					if !(x.Tok == token.CONTINUE && nested && x.Label == nil) {
						ok = false
					}
				case token.BREAK:
					if !nested || x.Label != nil {
						ok = false
					}
				}
			case *ast.ForStmt:
				walk(x.Body, true)
				return false
			case *ast.RangeStmt:
				walk(x.Body, true)
				return false
			case *ast.SwitchStmt:
				// break inside a switch leaves the switch only; continue would still skip
				ast.Inspect(x.Body, func(k ast.Node) bool {
					switch y := k.(type) {
					case *ast.FuncLit:
						return false
					case *ast.ReturnStmt:
						ok = false
					case *ast.BranchStmt:
						if y.Tok == token.GOTO || (y.Tok == token.CONTINUE && !nested) || y.Label != nil {
							ok = false
						}
					}
					return true
				})
				return false
			}
			return true
		})
	}
	walk(body, false)
	return ok
}

// dependsOn: the expression mentions one of the objects, directly or through locals with a single definition.
func (cf *coverFn) dependsOn(e ast.Node, objs ...types.Object) bool {
	want := map[types.Object]bool{}
	for _, o := range objs {
		if o != nil {
			want[o] = true
		}
	}
	seen := map[types.Object]bool{}
	var visit func(n ast.Node) bool
	visit = func(n ast.Node) bool {
		hit := false
		ast.Inspect(n, func(m ast.Node) bool {
			if hit {
				return false
			}
			id, ok := m.(*ast.Ident)
			if !ok {
				return true
			}
			o := objOf(cf.info, id)
			if o == nil {
				return true
			}
			if want[o] {
				hit = true
				return false
			}
			if !seen[o] {
				seen[o] = true
				if d, ok := cf.defs.single[o]; ok && cf.defs.count[o] == 1 && d != nil {
					if visit(d) {
						hit = true
					}
				}
			}
			return true
		})
		return hit
	}
	return visit(e)
}

// callsIn lists the calls inside n whose callee satisfies pred (resolved by type information).
func (cf *coverFn) callsIn(n ast.Node, pred func(fn *types.Func, call *ast.CallExpr) bool) []*ast.CallExpr {
	var out []*ast.CallExpr
	ast.Inspect(n, func(m ast.Node) bool {
		if call, ok := m.(*ast.CallExpr); ok {
			if fn := callee(cf.info, call); fn != nil && pred(fn, call) {
				out = append(out, call)
			}
		}
		return true
	})
	return out
}

func isFmtPrint(fn *types.Func, _ *ast.CallExpr) bool {
	if fn.Pkg() == nil || fn.Pkg().Path() != "fmt" {
		return false
	}
	switch fn.Name() {
	case "Print", "Printf", "Println":
		return true
	}
	return false
}

// stmtOfNode climbs to the statement that contains n.
func (cf *coverFn) stmtOfNode(n ast.Node) ast.Stmt {
	for cur := n; cur != nil; cur = cf.pm[cur] {
		if s, ok := cur.(ast.Stmt); ok {
			return s
		}
	}
	return nil
}

// fieldNamed: e is a selector of a struct field with that name.
func fieldNamed(info *types.Info, e ast.Expr, name string) bool {
	fv := fieldVar(info, unparen(e))
	return fv != nil && fv.Name() == name
}

// resolve replaces a local that has a single definition by its defining expression (repeatedly).
func (cf *coverFn) resolve(e ast.Expr) ast.Expr {
	e = unparen(e)
	for k := 0; k < 6; k++ {
		o := identObj(cf.info, e)
		if o == nil || cf.defs.count[o] != 1 || cf.defs.single[o] == nil {
			break
		}
		e = unparen(cf.defs.single[o])
	}
	return e
}

// selOn: e is (or is a local defined as) `<x>.<name>` (field) where x depends on one of objs.
func (cf *coverFn) selOn(e ast.Expr, name string, objs ...types.Object) bool {
	se, ok := cf.resolve(e).(*ast.SelectorExpr)
	if !ok || !fieldNamed(cf.info, se, name) {
		return false
	}
	return cf.dependsOn(se.X, objs...)
}

// mentionsSel: n contains a selector `.name` of a field whose base depends on objs.
func (cf *coverFn) mentionsSel(n ast.Node, name string, objs ...types.Object) bool {
	hit := false
	ast.Inspect(n, func(m ast.Node) bool {
		if e, ok := m.(ast.Expr); ok && !hit && cf.selOn(e, name, objs...) {
			hit = true
		}
		return !hit
	})
	return hit
}

// ---------------------------------------------------------------------------------------------
// skeleton-level structural helpers (generated parser source, type-checked)

// isStackPointerExpr: the stack pointer of a skeleton — the package-level StackPointer or <receiver>.Stackpos.
func isStackPointerExpr(info *types.Info, e ast.Expr) bool {
	switch x := unparen(e).(type) {
	case *ast.Ident:
		o := info.Uses[x]
		return isPkgLevelVar(o) && o.Name() == "StackPointer"
	case *ast.SelectorExpr:
		if sel, ok := info.Selections[x]; ok && sel.Kind() == types.FieldVal {
			return x.Sel.Name == "Stackpos"
		}
	}
	return false
}

// reduceFuncFrame checks ReduceFunc of a skeleton: the identifier `topIndex` that the case fragments use is defined
// once as <stack pointer> − 1, and the entry the cases fill in (`dollarDolar`, named by the fragments) is returned.
func reduceFuncFrame(sk *Skeleton, rf *ast.FuncDecl) string {
	info := sk.Info
	var top, dd types.Object
	topDefs, topOK := 0, false
	ast.Inspect(rf.Body, func(n ast.Node) bool {
		as, ok := n.(*ast.AssignStmt)
		if !ok {
			return true
		}
		for i, l := range as.Lhs {
			id, ok := l.(*ast.Ident)
			if !ok {
				continue
			}
			switch id.Name {
			case "topIndex":
				topDefs++
				if o := info.Defs[id]; o != nil {
					top = o
				}
				if len(as.Lhs) == len(as.Rhs) {
					if be, ok := unparen(as.Rhs[i]).(*ast.BinaryExpr); ok && be.Op == token.SUB && isStackPointerExpr(info, be.X) {
						if v, isC := constInt(info, be.Y); isC && v == 1 {
							topOK = true
						}
					}
				}
			case "dollarDolar":
				if o := info.Defs[id]; o != nil {
					dd = o
				}
			}
		}
		return true
	})
	if top == nil || topDefs != 1 || !topOK {
		return "topIndex is not defined exactly once as <stack pointer> − 1"
	}
	if dd == nil {
		return "no entry `dollarDolar` for the cases to fill in"
	}
	last, ok := rf.Body.List[len(rf.Body.List)-1].(*ast.ReturnStmt)
	if !ok || len(last.Results) != 1 || identObj(info, last.Results[0]) != dd {
		return "the function does not end by returning the entry its case filled in"
	}
	// every return returns that entry
	bad := false
	ast.Inspect(rf.Body, func(n ast.Node) bool {
		if _, isLit := n.(*ast.FuncLit); isLit {
			return false
		}
		if rt, ok := n.(*ast.ReturnStmt); ok && (len(rt.Results) != 1 || identObj(info, rt.Results[0]) != dd) {
			// returns inside user actions are rendered from placeholders that contain none
			bad = true
		}
		return true
	})
	if bad {
		return "some return does not return the filled entry"
	}
	return ""
}

// ---------------------------------------------------------------------------------------------
// displayNameRule — symbol names shown in traces, listings and diagrams go through RemoveTempName, which must
// invert genTempName: genTempName(x) = PREFIX + x, and RemoveTempName(PREFIX + x) shows exactly x (between quotes),
// any other name unchanged. Decided on the two functions: the prefix constant is the same, the test is a prefix
// test with it, and the text removed is exactly len(PREFIX) bytes (slice from len(PREFIX) or strings.TrimPrefix) —
// a character-set operation (TrimLeft, Trim) also eats characters of x.
func displayNameRule(c *Ctx, r *Report, clause string) {
	symbolNamesWrittenOnce(c, r, clause)
	gen := c.need(r, clause, "Parser", "", "genTempName")
	if gen == nil {
		return
	}
	for _, dir := range []string{"Parser", "Utils"} {
		if rem := c.need(r, clause, dir, "", "RemoveTempName"); rem != nil {
			displayNameRuleFor(c, r, clause, gen, rem)
		}
	}
}

func displayNameRuleFor(c *Ctx, r *Report, clause string, gen, rem *FuncRef) {
	key := rem.Name + "/inverts-genTempName"
	ginfo, rinfo := gen.Pkg.TypesInfo, rem.Pkg.TypesInfo
	prefix, okP := "", false
	gp := paramObjs(ginfo, gen.Decl)
	ast.Inspect(gen.Decl.Body, func(n ast.Node) bool {
		if rt, ok := n.(*ast.ReturnStmt); ok && len(rt.Results) == 1 && len(gp) == 1 {
			if be, ok := unparen(rt.Results[0]).(*ast.BinaryExpr); ok && be.Op == token.ADD && identObj(ginfo, be.Y) == gp[0] {
				prefix, okP = constString(ginfo, be.X)
			}
		}
		return true
	})
	if !okP || prefix == "" {
		r.Undecided(clause, "R1 PROVENANCE", key, c.pos(gen.Decl.Pos()), "genTempName is not `return <constant prefix> + name`")
		return
	}
	rp := paramObjs(rinfo, rem.Decl)
	if len(rp) != 1 {
		r.Undecided(clause, "R1 PROVENANCE", key, c.pos(rem.Decl.Pos()), "RemoveTempName does not take one name")
		return
	}
	in := rp[0]
	why := ""
	// every strings.* call must be a prefix operation on (in, PREFIX)
	ast.Inspect(rem.Decl.Body, func(n ast.Node) bool {
		call, ok := n.(*ast.CallExpr)
		if !ok {
			return true
		}
		fn := callee(rinfo, call)
		if fn == nil || fn.Pkg() == nil || fn.Pkg().Path() != "strings" {
			return true
		}
		switch fn.Name() {
		case "HasPrefix", "TrimPrefix":
			if len(call.Args) != 2 || identObj(rinfo, call.Args[0]) != in {
				why = "strings." + fn.Name() + " is not applied to the name"
			} else if p, ok := constString(rinfo, call.Args[1]); !ok || p != prefix {
				why = "strings." + fn.Name() + " uses another prefix than genTempName's " + fmt.Sprintf("%q", prefix)
			}
		default:
			why = "the name is edited with strings." + fn.Name() + ", which is not a prefix operation (it can remove characters of the literal itself)"
		}
		return true
	})
	// slices of the name: in[n:] and in[0:n] with n == len(PREFIX)
	ast.Inspect(rem.Decl.Body, func(n ast.Node) bool {
		se, ok := n.(*ast.SliceExpr)
		if !ok || identObj(rinfo, se.X) != in {
			return true
		}
		for _, b := range []ast.Expr{se.Low, se.High} {
			if b == nil {
				continue
			}
			if v, isC := constInt(rinfo, b); isC {
				if v != 0 && int(v) != len(prefix) {
					why = fmt.Sprintf("the name is cut at byte %d but the prefix %q is %d bytes long", v, prefix, len(prefix))
				}
			} else if call, ok := unparen(b).(*ast.CallExpr); ok && builtinName(rinfo, call) == "len" && len(call.Args) == 1 {
				if p, ok := constString(rinfo, call.Args[0]); !ok || p != prefix {
					why = "the name is cut at the length of something other than the prefix"
				}
			} else {
				why = "the name is cut at a position that is not the prefix length (" + exprString(b) + ")"
			}
		}
		return true
	})
	// comparisons with a constant must use the prefix
	ast.Inspect(rem.Decl.Body, func(n ast.Node) bool {
		be, ok := n.(*ast.BinaryExpr)
		if !ok || (be.Op != token.EQL && be.Op != token.NEQ) {
			return true
		}
		for k, side := range []ast.Expr{be.X, be.Y} {
			other := unparen([]ast.Expr{be.Y, be.X}[k])
			if se, isSl := other.(*ast.SliceExpr); isSl {
				other = unparen(se.X)
			}
			if identObj(rinfo, other) != in {
				continue // not a test of the name's own text (e.g. `rest != ""` on the stripped text)
			}
			if p, ok := constString(rinfo, side); ok && p != prefix {
				why = fmt.Sprintf("the name is compared with %q, not with genTempName's prefix %q", p, prefix)
			}
		}
		return true
	})
	// a length test must let every `prefix + at least one character` through: len(in) ⋈ K evaluated at len(prefix)+1
	ast.Inspect(rem.Decl.Body, func(n ast.Node) bool {
		be, ok := n.(*ast.BinaryExpr)
		if !ok {
			return true
		}
		call, okc := unparen(be.X).(*ast.CallExpr)
		k, isC := constInt(rinfo, be.Y)
		if !okc || builtinName(rinfo, call) != "len" || len(call.Args) != 1 || identObj(rinfo, call.Args[0]) != in || !isC {
			return true
		}
		nlen := int64(len(prefix) + 1)
		v := false
		switch be.Op {
		case token.GTR:
			v = nlen > k
		case token.GEQ:
			v = nlen >= k
		case token.NEQ:
			v = nlen != k
		case token.LSS:
			v = nlen < k
		case token.LEQ:
			v = nlen <= k
		case token.EQL:
			v = nlen == k
		}
		// the test guards the stripping branch: it must hold for a one-character literal
		if !v {
			why = fmt.Sprintf("the length test `%s` fails for a one-character literal (%d bytes with the prefix): such names are shown with the internal prefix", exprString(be), nlen)
		}
		return true
	})
	// some return strips (slice from len(prefix) / TrimPrefix) and some return gives the name back unchanged
	strips, keeps := false, false
	rdefs := newDefs(rinfo)
	rdefs.scan(rem.Decl.Body)
	ast.Inspect(rem.Decl.Body, func(n ast.Node) bool {
		rt, ok := n.(*ast.ReturnStmt)
		if !ok || len(rt.Results) != 1 {
			return true
		}
		if identObj(rinfo, rt.Results[0]) == in {
			keeps = true
			return true
		}
		ast.Inspect(rt.Results[0], func(m ast.Node) bool {
			if id, isId := m.(*ast.Ident); isId {
				// a local bound once to the stripped text (`rest := strings.TrimPrefix(in, P)`)
				if o := rinfo.Uses[id]; o != nil && rdefs.count[o] == 1 && rdefs.single[o] != nil {
					if call, isC := unparen(rdefs.single[o]).(*ast.CallExpr); isC {
						if fn := callee(rinfo, call); fn != nil && fn.FullName() == "strings.TrimPrefix" {
							strips = true
						}
					}
				}
			}
			switch x := m.(type) {
			case *ast.SliceExpr:
				if identObj(rinfo, x.X) == in && x.Low != nil && x.High == nil {
					strips = true
				}
			case *ast.CallExpr:
				if fn := callee(rinfo, x); fn != nil && fn.FullName() == "strings.TrimPrefix" {
					strips = true
				}
			}
			return true
		})
		return true
	})
	if why == "" && (!strips || !keeps) {
		why = "RemoveTempName does not have the two outcomes `literal → text after the prefix` and `other name → unchanged`"
	}
	// which outcome is taken when: enumerate the paths and evaluate them on the three classes of names
	if why == "" {
		pe := newPathEnum(rinfo)
		pe.rename[in] = "IN"
		paths, err := pe.Enumerate(rem.Decl.Body.List)
		if err != nil {
			why = err.Error()
		}
		for _, cls := range []struct {
			name     string
			prefixed bool
			n        int64
		}{{"a one-character literal", true, int64(len(prefix) + 1)}, {"a short plain name", false, 3}, {"a long plain name", false, 20}} {
			cl := cls
			val := func(t *Term) (constant.Value, bool) {
				ts := t.String()
				switch {
				case t.Op == "len" && ts == "len(IN)":
					return constant.MakeInt64(cl.n), true
				case t.Op == "call" && (strings.HasSuffix(t.Name, "strings.HasPrefix") || strings.HasSuffix(t.Name, "TestPrefix")):
					return constant.MakeBool(cl.prefixed), true
				case t.Op == "cmp" && (t.Name == "==" || t.Name == "!=") && len(t.Args) == 2 && isTrimOfIN(t.Args[0], prefix) != isTrimOfIN(t.Args[1], prefix):
					// the stripped text compared with the name itself (equal iff there was nothing to strip) or with ""
					o := t.Args[1]
					if isTrimOfIN(o, prefix) {
						o = t.Args[0]
					}
					eq, known := false, false
					if o.String() == "IN" {
						eq, known = !cl.prefixed, true
					} else if o.Op == "const" && o.Val != nil && o.Val.Kind() == constant.String {
						if constant.StringVal(o.Val) == "" {
							rest := cl.n
							if cl.prefixed {
								rest -= int64(len(prefix))
							}
							eq, known = rest == 0, true
						}
					}
					if !known {
						return nil, false
					}
					if t.Name == "!=" {
						eq = !eq
					}
					return constant.MakeBool(eq), true
				case t.Op == "len" && len(t.Args) == 1 && isTrimOfIN(t.Args[0], prefix):
					rest := cl.n
					if cl.prefixed {
						rest -= int64(len(prefix))
					}
					return constant.MakeInt64(rest), true
				case t.Op == "cmp" && (t.Name == "==" || t.Name == "!=") && strings.Contains(ts, "IN[") && strings.Contains(ts, strconv.Quote(prefix)):
					v := cl.prefixed
					if t.Name == "!=" {
						v = !v
					}
					return constant.MakeBool(v), true
				}
				return nil, false
			}
			hits := selectPaths(paths, val)
			if len(hits) == 0 {
				why = "no path for " + cl.name
				continue
			}
			for _, p := range hits {
				if p.Kind != "return" || len(p.Vals) != 1 {
					continue
				}
				rs := p.Vals[0].String()
				isKeep := rs == "IN"
				if cl.prefixed && isKeep {
					why = cl.name + " is returned with its internal prefix"
				}
				if !cl.prefixed && !isKeep {
					why = cl.name + " is rewritten (" + rs + ") although it does not carry the prefix"
				}
			}
		}
	}
	r.Check(why == "", clause, "R1 PROVENANCE", key, c.pos(rem.Decl.Pos()),
		fmt.Sprintf("genTempName prepends %q; RemoveTempName tests for that prefix and removes exactly its %d bytes: a literal is displayed with its own character(s), every other name unchanged", prefix, len(prefix)),
		"the displayed name of a character-literal token is not the literal: "+why)
}

// isTrimOfIN: the term strings.TrimPrefix(IN, prefix).
func isTrimOfIN(t *Term, prefix string) bool {
	if t == nil || t.Op != "call" || !strings.HasSuffix(t.Name, "strings.TrimPrefix") || len(t.Args) != 2 {
		return false
	}
	return t.Args[0].String() == "IN" && t.Args[1].Op == "const" && t.Args[1].Val != nil && t.Args[1].Val.Kind() == constant.String && constant.StringVal(t.Args[1].Val) == prefix
}

// collectsInto: every iteration of rs contributes exactly one entry to the slice X, taken from the element:
//
//	X = append(X, node)                      at the top level of the body, or
//	X[k] = node  with k the range key of a slice range and X := make([]T, len(<the ranged sequence>)).
//
// isNode decides whether the stored expression is the wanted function of the element.
func (cf *coverFn) collectsInto(rs *ast.RangeStmt, xObj types.Object, isNode func(e ast.Expr) bool) bool {
	if xObj == nil {
		return false
	}
	info := cf.info
	for _, bs := range rs.Body.List {
		as, ok := bs.(*ast.AssignStmt)
		if !ok || len(as.Lhs) != 1 || len(as.Rhs) != 1 {
			continue
		}
		if identObj(info, as.Lhs[0]) == xObj {
			if call, ok := unparen(as.Rhs[0]).(*ast.CallExpr); ok && builtinName(info, call) == "append" && len(call.Args) == 2 && identObj(info, call.Args[0]) == xObj && isNode(call.Args[1]) {
				return true
			}
			continue
		}
		ix, ok := unparen(as.Lhs[0]).(*ast.IndexExpr)
		if !ok || as.Tok != token.ASSIGN || identObj(info, ix.X) != xObj || rs.Key == nil || identObj(info, ix.Index) == nil || identObj(info, ix.Index) != identObj(info, rs.Key) || !isNode(as.Rhs[0]) {
			continue
		}
		if _, isSlice := info.TypeOf(rs.X).Underlying().(*types.Slice); !isSlice {
			continue
		}
		// X := make([]T, len(R)) with R the ranged sequence
		if cf.defs.count[xObj] != 1 {
			continue
		}
		mk, ok := unparen(cf.defs.single[xObj]).(*ast.CallExpr)
		if !ok || builtinName(info, mk) != "make" || len(mk.Args) != 2 {
			continue
		}
		ln, ok := unparen(mk.Args[1]).(*ast.CallExpr)
		if !ok || builtinName(info, ln) != "len" || len(ln.Args) != 1 {
			continue
		}
		if exprString(unparen(ln.Args[0])) == exprString(unparen(rs.X)) {
			if o := identObj(info, rs.X); o == nil || cf.defs.count[o] == 1 {
				return true
			}
		}
	}
	return false
}

// symbolNamesWrittenOnce — the names that traces, listings and diagrams print are the names read from the grammar file:
// a grammar symbol's Name (and ID) and an identifier's Name are set where the value is constructed and never assigned
// afterwards. The diagram and the listing run in the same process BEFORE the code generator (`-g`, `debug`): a
// drawing routine that "prepares" the names for its own output (escaping, quoting) changes what the generator puts
// into the trace tables.
func symbolNamesWrittenOnce(c *Ctx, r *Report, clause string) {
	for _, f := range []struct{ dir, typ, field string }{{"Symbol", "Symbol", "Name"}, {"Symbol", "Symbol", "ID"}, {"Parser", "Idendity", "Name"}} {
		fv := lookupField(c, f.dir, f.typ, f.field)
		construct := f.dir + "." + f.typ + "." + f.field + "/written-at-construction-only"
		if fv == nil {
			r.Undecided(clause, "WHO-WRITES", construct, "-", "field not found")
			continue
		}
		ws := fieldWrites(c, fv)
		bad := ""
		for _, w := range ws {
			if w.op != ":" {
				bad = fmt.Sprintf("%s assigns it (`%s %s`) at %s", w.fn, w.op, w.path, c.pos(w.pos))
			}
		}
		r.Check(bad == "" && len(ws) > 0, clause, "WHO-WRITES", construct, c.pos(fv.Pos()),
			fmt.Sprintf("%d writer(s), all of them composite literals: the name a symbol was read with is the name every later stage sees", len(ws)),
			"a symbol's name can change after it was read: "+bad+" — stages that run later in the same process (the code generator after `-g` / `debug`) print the altered name")
	}
}
