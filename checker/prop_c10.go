package main

// C10 — the grammar file is read faithfully.
// Decided (three structural clauses only): (a) R14: the section offset EndAt is set by every constructor of
// the token kinds under which Parse reads it; (b) R1: prologue / %union body / epilogue are passed through
// assignments, field copies and returns only; (c) rule and symbol sequences are append-only, never sorted.
// Layout independence (all textual renderings of a grammar) is NOT decided.

import (
	"fmt"
	"go/ast"
	"go/constant"
	"go/token"
	"go/types"
	"sort"
	"strings"
)

func init() { register("C10", checkC10) }

func checkC10(c *Ctx, r *Report) {
	r.Explanation = "R14 VARIANT-FIELD-INIT: the token kinds under which Parse reads Token.EndAt are derived by evaluating the tail of Parse under each Kind constant; every Token literal that can carry such a kind must set EndAt from the lexer position. R1 PROVENANCE: who-writes tables for the fields that carry prologue, union body and epilogue from the lexer to the template holes (assignment/field-copy/return only, `+=` for the prologue). Append-only rule: the slices holding rules and right-hand sides are written only by literal initialisation, make, append-at-end or copies of such locals, and are never passed to a sort. NOT decided: layout independence (whitespace, comments, optional `;`) — a language-recognition question over all texts; known limits noted in DESIGN.md (\\r is not whitespace, braces inside strings in actions are counted, mid-rule actions overwrite each other)."
	r.Assumptions = append(r.Assumptions, "text/template does not escape (it is text/template, not html/template) — checked by import path in C16")
	c10a(c, r)
	c10InputIsTheFile(c, r, "C10.a")
	c10b(c, r)
	c01StartSymbolFlow(c, r, "C10.c")
	c10DirectiveWords(c, r, "C10.d")
	c10DeclareDispatch(c, r, "C10.d")
	c10CursorDiscipline(c, r, "C10.d")
	c10RootDispatch(c, r, "C10.d")
	c10UnionBraceLayout(c, r, "C10.d")
	c10CharLiteralExtent(c, r, "C10.d")
	c10BlockCommentEnd(c, r, "C10.d")
	c10TokenStartDiscipline(c, r, "C10.d")
	c10SectionExtents(c, r)
	c10ActionExtent(c, r)
	c10c(c, r)
	c10NothingDropped(c, r, "C10.c")
	c10d(c, r)
	// whether a rule ends with `;`, with the next rule's name, with %% or with the end of the file is layout: on every
	// way out of parseRule the literals first seen in the rule must have been handed to the declaration list (C11.a)
	includeSome(r, "C10.d", func(sub *Report) { c11a(c, sub) }, "literal-tokens-flushed", "max-scan-before-numbering")
	// the order of the names on one declaration line is layout too: each name's code is decided from its own tokens
	includeSome(r, "C10.d", func(sub *Report) { c11e(c, sub); c11f(c, sub); c11g(c, sub) }, "named-token-code", "declared-token-code", "no-value-carried-between-names")
}

func kindConsts(c *Ctx) map[string]string {
	out := map[string]string{}
	p := c.Pkg("Parser")
	if p == nil {
		return out
	}
	for _, n := range p.Types.Scope().Names() {
		if cst, ok := p.Types.Scope().Lookup(n).(*types.Const); ok {
			if named, ok := cst.Type().(*types.Named); ok && named.Obj().Name() == "Kind" && cst.Val().Kind() == constant.String {
				out[n] = constant.StringVal(cst.Val())
			}
		}
	}
	return out
}

func c10a(c *Ctx, r *Report) {
	const clause = "C10.a"
	f := c.need(r, clause, "Parser", "", "Parse")
	if f == nil {
		return
	}
	info := f.Pkg.TypesInfo
	// tail of Parse: statements after the last top-level loop
	last := -1
	for i, s := range f.Decl.Body.List {
		if _, ok := s.(*ast.ForStmt); ok {
			last = i
		}
	}
	if last < 0 {
		r.Undecided(clause, "R14 VARIANT-FIELD-INIT", f.Name+"/tail", c.pos(f.Decl.Pos()), "Parse has no rule loop")
		return
	}
	tail := f.Decl.Body.List[last+1:]
	pe := newPathEnum(info)
	paths, err := pe.Enumerate(tail)
	if err != nil {
		r.Undecided(clause, "R14 VARIANT-FIELD-INIT", f.Name+"/tail", c.pos(f.Decl.Pos()), err.Error())
		return
	}
	kinds := kindConsts(c)
	need := map[string]bool{}
	readsEndAt := false
	for name, kv := range kinds {
		_ = name
		val := kindValuation(c, kv, nil)
		for _, p := range selectPaths(paths, val) {
			if p.Kind != "return" || len(p.Vals) == 0 {
				continue
			}
			if p.Vals[0].Op == "leaf" && p.Vals[0].Name == "nil" {
				continue
			}
			if strings.Contains(p.Vals[0].String(), ".EndAt") {
				need[kv] = true
				readsEndAt = true
			}
		}
	}
	var needList []string
	for k := range need {
		needList = append(needList, k)
	}
	sort.Strings(needList)
	r.Extra["C10.a_kinds_reading_EndAt"] = needList
	if !readsEndAt {
		r.Undecided(clause, "R14 VARIANT-FIELD-INIT", f.Name+"/epilogue-offset", c.pos(f.Decl.Pos()), "Parse's successful return does not read Token.EndAt: the epilogue offset is computed in a way this rule does not recognise")
		return
	}
	r.OK(clause, "R14 VARIANT-FIELD-INIT", f.Name+"/epilogue-offset", c.pos(tail[0].Pos()), fmt.Sprintf("the epilogue is input[current.EndAt:], read when the current token's kind is one of %v", needList))
	// every Token literal in the Parser package
	nLits := 0
	for _, fn := range c.AllFuncs() {
		if !strings.HasPrefix(fn.Name, "Parser.") {
			continue
		}
		finfo := fn.Pkg.TypesInfo
		ast.Inspect(fn.Decl.Body, func(n ast.Node) bool {
			cl, ok := n.(*ast.CompositeLit)
			if !ok {
				return true
			}
			tv, ok := finfo.Types[cl]
			if !ok || !strings.HasSuffix(types.TypeString(tv.Type, shortQual), "Parser.Token") {
				return true
			}
			nLits++
			var kindE, endE ast.Expr
			for _, el := range cl.Elts {
				if kv, ok := el.(*ast.KeyValueExpr); ok {
					if k, ok := kv.Key.(*ast.Ident); ok {
						switch k.Name {
						case "Kind":
							kindE = kv.Value
						case "EndAt":
							endE = kv.Value
						}
					}
				}
			}
			kindDesc := "any kind (not a constant)"
			relevant := true
			if kindE == nil {
				relevant = need[""]
				kindDesc = `""`
			} else if s, ok := constString(finfo, kindE); ok {
				relevant = need[s]
				kindDesc = s
			}
			if !relevant {
				return true
			}
			construct := fn.Name + "/Token{Kind: " + kindDesc + "}"
			if endE == nil {
				r.Fail(clause, "R14 VARIANT-FIELD-INIT", construct, c.pos(cl.Pos()),
					fmt.Sprintf("this constructor produces a token of kind %s without setting EndAt, but Parse reads current.EndAt under that kind to cut the epilogue: the offset is 0 and the whole grammar text is appended to the output as epilogue (a file without a second %%%% section mark)", kindDesc))
				return true
			}
			pc := pathCtxFor(fn)
			p := pc.path(endE)
			ok2 := strings.HasSuffix(p, ".end") || (strings.HasPrefix(p, "len(") && strings.HasSuffix(p, ".input)"))
			r.Check(ok2, clause, "R14 VARIANT-FIELD-INIT", construct, c.pos(cl.Pos()),
				"EndAt ← "+p+" (the lexer position just past the token)",
				"EndAt is set from "+p+", expected the lexer's position (l.end) or the input length")
			return true
		})
	}
	if nLits < 3 {
		r.Undecided(clause, "R14 VARIANT-FIELD-INIT", "Parser/Token-literals", "Parser/Lex.go", fmt.Sprintf("only %d Token literals found (3 confirmed by hand)", nLits))
	}
}

// writeSite is one place where a struct field or a local variable receives a value.
type writeSite struct {
	pos  token.Pos
	path string
	op   string
	fn   string
	expr ast.Expr
	info *types.Info
	pc   *pathCtx
}

// fieldWrites lists every write to the struct field (assignments, op-assignments, composite-literal keys).
func fieldWrites(c *Ctx, fv *types.Var) []writeSite {
	var out []writeSite
	for _, fn := range c.AllFuncs() {
		info := fn.Pkg.TypesInfo
		defs := newDefs(info)
		defs.scan(fn.Decl.Body)
		pc := &pathCtx{info: info, defs: defs, root: fn.Decl.Body}
		ast.Inspect(fn.Decl.Body, func(n ast.Node) bool {
			switch x := n.(type) {
			case *ast.AssignStmt:
				if len(x.Lhs) == len(x.Rhs) {
					for i, l := range x.Lhs {
						if fieldVar(info, l) == fv {
							out = append(out, writeSite{x.Pos(), pc.path(x.Rhs[i]), x.Tok.String(), fn.Name, x.Rhs[i], info, pc})
						}
					}
				} else {
					for _, l := range x.Lhs {
						if fieldVar(info, l) == fv {
							out = append(out, writeSite{x.Pos(), "<multi-value>", x.Tok.String(), fn.Name, nil, info, pc})
						}
					}
				}
			case *ast.IncDecStmt:
				if fieldVar(info, x.X) == fv {
					out = append(out, writeSite{x.Pos(), "<incdec>", x.Tok.String(), fn.Name, nil, info, pc})
				}
			case *ast.CompositeLit:
				tv, ok := info.Types[x]
				if !ok {
					return true
				}
				st := structOf(tv.Type)
				if st == nil {
					return true
				}
				for i, el := range x.Elts {
					if kv, ok := el.(*ast.KeyValueExpr); ok {
						if k, ok := kv.Key.(*ast.Ident); ok {
							if o, ok := info.Uses[k].(*types.Var); ok && o == fv {
								out = append(out, writeSite{kv.Pos(), pc.path(kv.Value), ":", fn.Name, kv.Value, info, pc})
							}
						}
					} else if i < st.NumFields() && st.Field(i) == fv {
						out = append(out, writeSite{el.Pos(), pc.path(el), ":", fn.Name, el, info, pc})
					}
				}
			case *ast.UnaryExpr:
				if x.Op == token.AND && fieldVar(info, x.X) == fv {
					out = append(out, writeSite{x.Pos(), "<address taken>", "&", fn.Name, nil, info, pc})
				}
			}
			return true
		})
	}
	return out
}

func lookupField(c *Ctx, dir, typ, field string) *types.Var {
	p := c.Pkg(dir)
	if p == nil {
		return nil
	}
	o := p.Types.Scope().Lookup(typ)
	if o == nil {
		return nil
	}
	st := structOf(o.Type())
	if st == nil {
		return nil
	}
	for i := 0; i < st.NumFields(); i++ {
		if st.Field(i).Name() == field {
			return st.Field(i)
		}
	}
	return nil
}

// localWrites lists every write to a local variable inside its function.
func localWrites(fn *FuncRef, obj types.Object) []writeSite {
	info := fn.Pkg.TypesInfo
	defs := newDefs(info)
	defs.scan(fn.Decl.Body)
	// do not substitute the variable itself
	delete(defs.single, obj)
	pc := &pathCtx{info: info, defs: defs, root: fn.Decl.Body}
	var out []writeSite
	ast.Inspect(fn.Decl.Body, func(n ast.Node) bool {
		switch x := n.(type) {
		case *ast.AssignStmt:
			if len(x.Lhs) == len(x.Rhs) {
				for i, l := range x.Lhs {
					if identObj(info, l) == obj {
						out = append(out, writeSite{x.Pos(), pc.path(x.Rhs[i]), x.Tok.String(), fn.Name, x.Rhs[i], info, pc})
					}
				}
			}
		case *ast.ValueSpec:
			for i, nm := range x.Names {
				if info.Defs[nm] == obj {
					if i < len(x.Values) {
						out = append(out, writeSite{x.Pos(), pc.path(x.Values[i]), "var", fn.Name, x.Values[i], info, pc})
					} else {
						out = append(out, writeSite{x.Pos(), "<zero>", "var", fn.Name, nil, info, pc})
					}
				}
			}
		}
		return true
	})
	return out
}

type passStep struct {
	what    string // description
	dir     string
	typ     string
	field   string
	allowed []string // each write's path must end with one of these suffixes (after local substitution)
	ops     []string // allowed operators
}

func c10b(c *Ctx, r *Report) {
	const clause = "C10.b"
	steps := []passStep{
		{"prologue: astDeclareVistor.code ← DeclareNode.CodeList", "Parser", "astDeclareVistor", "code", []string{".CodeList"}, []string{"="}},
		{"prologue: DeclareNode.CodeList ← the accumulated CodeQuote values", "Parser", "DeclareNode", "CodeList", []string{"$Codestr"}, []string{":"}},
		{"union: astDeclareVistor.union ← DeclareNode.Union", "Parser", "astDeclareVistor", "union", []string{".Union"}, []string{"="}},
		{"union: DeclareNode.Union ← the UnionDirective token's value", "Parser", "DeclareNode", "Union", []string{"$Unionstr", ".current.Value"}, []string{":"}},
		{"epilogue: RootVistor.CodeCpy ← RootNode.rest", "Parser", "RootVistor", "CodeCpy", []string{".rest"}, []string{"="}},
		{"epilogue: RootNode.rest ← input[current.EndAt:]", "Parser", "RootNode", "rest", []string{".current.EndAt:]"}, []string{":"}},
		// an action body is ONE brace-balanced block as the lexer cut it out (C10.b action extent): the rule takes it by
		// plain assignment — text glued to it (`+=`) is no longer one block and lands in the generated case as it is
		{"action: oneRule.ActionCode ← the action element of the alternative", "Parser", "oneRule", "ActionCode", []string{`""`, ".Element"}, []string{":", "="}},
	}
	for _, s := range steps {
		fv := lookupField(c, s.dir, s.typ, s.field)
		construct := s.dir + "." + s.typ + "." + s.field + "/writers"
		if fv == nil {
			r.Undecided(clause, "R1 PROVENANCE", construct, "-", "field not found")
			continue
		}
		ws := fieldWrites(c, fv)
		bad := ""
		for _, w := range ws {
			okOp := false
			for _, o := range s.ops {
				if w.op == o {
					okOp = true
				}
			}
			okPath := false
			for _, a := range s.allowed {
				if strings.HasSuffix(w.path, a) {
					okPath = true
				}
				// `$Name` in the table stands for "a local of the writing function" (its own writes are checked below)
				if strings.HasPrefix(a, "$") && strings.HasPrefix(w.path, "$") && !strings.ContainsAny(w.path, ".[(") {
					okPath = true
				}
			}
			// the node filled in place instead of through a local: `node.CodeList += current.Value` / `node.Union = current.Value`
			if (s.field == "CodeList" && w.op == "+=" || s.field == "Union" && w.op == "=") && strings.HasSuffix(w.path, ".current.Value") {
				okOp, okPath = true, true
			}
			if s.field == "rest" && !(strings.Contains(w.path, ".lex.input[") && strings.Count(w.path, "[") == 1) {
				okPath = false
			}
			if !okOp || !okPath {
				bad = fmt.Sprintf("%s writes it with `%s %s` at %s", w.fn, w.op, w.path, c.pos(w.pos))
			}
		}
		if len(ws) == 0 {
			bad = "nobody writes this field"
		}
		r.Check(bad == "", clause, "R1 PROVENANCE", construct, c.pos(fv.Pos()), fmt.Sprintf("%s — %d writer(s), copy only", s.what, len(ws)), "the user's text no longer passes through unchanged: "+bad)
	}
	// … and the three sections arrive in the generated file, each exactly once and unedited: among the builder
	// fields that the Go templates consult / the TypeScript generator writes, exactly one hole is fed by GetCode(),
	// one by GetUion() and one by GetCodeCopy(), taken verbatim (%s, no replacement applied to it)
	{
		st := c.GetStaged()
		type out struct {
			name   string
			shapes []Shape
		}
		var outs []out
		for _, sc := range st.Configs {
			if sc.V.Http || sc.Eval == nil || sc.Used == nil {
				continue
			}
			o := out{name: sc.V.Name}
			for fname := range sc.Used {
				if fv := sc.FieldOf[fname]; fv != nil {
					if sh, ok := sc.Eval.fields[fv]; ok {
						o.shapes = append(o.shapes, sh)
					}
				}
			}
			outs = append(outs, o)
		}
		if st.TS != nil && st.TS.Eval != nil {
			o := out{name: "typescript"}
			for _, fname := range st.TS.Order {
				if sh, _ := fieldShapeOf(st.TS.Eval, fname); sh != nil {
					o.shapes = append(o.shapes, sh)
				}
			}
			outs = append(outs, o)
		}
		for _, o := range outs {
			for _, sec := range []struct{ what, getter string }{{"prologue", ".GetCode()"}, {"union", ".GetUion()"}, {"epilogue", ".GetCodeCopy()"}} {
				n, edited := 0, false
				for _, sh := range o.shapes {
					var visit func(x Shape, inRepl bool)
					visit = func(x Shape, inRepl bool) {
						switch v := x.(type) {
						case *SHole:
							if strings.HasSuffix(v.Path, sec.getter) {
								n++
								if inRepl || v.Verb != "s" {
									edited = true
								}
							}
						case *SCat:
							for _, p := range v.Parts {
								visit(p, inRepl)
							}
						case *SLoop:
							visit(v.Body, true) // repeated = not "exactly once"
						case *SAlt:
							visit(v.Then, true)
							visit(v.Else, true)
						case *SRepl:
							visit(v.Base, true)
							visit(v.New, true)
						case *SQuote:
							visit(v.Inner, true)
						}
					}
					visit(sh, false)
				}
				r.Check(n == 1 && !edited, clause, "R1 PROVENANCE", "output "+o.name+"/"+sec.what+"-arrives-unchanged", "Builder",
					"the "+sec.what+" is pasted into the generated file exactly once, verbatim ("+strings.TrimPrefix(sec.getter, ".")+")",
					fmt.Sprintf("the %s does not arrive in the generated file exactly once and verbatim (%d occurrence(s) of %s in the emitted fragments, edited/conditional: %v)", sec.what, n, strings.TrimPrefix(sec.getter, "."), edited))
			}
		}
		if len(outs) < 5 {
			r.Undecided(clause, "R1 PROVENANCE", "output/sections", "Builder", fmt.Sprintf("only %d of 5 outputs staged", len(outs)))
		}
	}
	// locals Codestr / Unionstr in parseDeclare: += / = of the current token's Value under the matching kind
	if f := c.need(r, clause, "Parser", "parser", "parseDeclare"); f != nil {
		info := f.Pkg.TypesInfo
		for _, lv := range []struct{ name, kind, op string }{{"Codestr", "CodeQuote", "+="}, {"Unionstr", "UnionDirective", "="}} {
			// the local whose value becomes DeclareNode.CodeList / .Union (whatever it is called); when the node is
			// filled in place, the field's own writes take the local's role
			field := map[string]string{"Codestr": "CodeList", "Unionstr": "Union"}[lv.name]
			var obj types.Object
			ast.Inspect(f.Decl.Body, func(n ast.Node) bool {
				if kv, ok := n.(*ast.KeyValueExpr); ok {
					if k, ok := kv.Key.(*ast.Ident); ok && k.Name == field {
						if o, isV := identObj(info, kv.Value).(*types.Var); isV && !o.IsField() {
							obj = o
						}
					}
				}
				return true
			})
			construct := f.Name + "/" + lv.name
			if obj == nil {
				// in-place form: every write of the field in this function is `op current.Value` under the kind
				fv := lookupField(c, "Parser", "DeclareNode", field)
				bad, n := "", 0
				if fv != nil {
					for _, w := range fieldWrites(c, fv) {
						if w.fn != f.Name || w.op == ":" {
							continue
						}
						n++
						guard := false
						if st := stmtOf(f.Decl.Body, w.expr); st != nil {
							for _, a := range guardAtoms(c, f, st) {
								if strings.HasSuffix(a, `.current.Kind == "`+lv.kind+`")`) && !strings.HasPrefix(a, "!") {
									guard = true
								}
							}
						}
						if w.op != lv.op || !strings.HasSuffix(w.path, ".current.Value") || !guard {
							bad = fmt.Sprintf("`%s %s` at %s", w.op, w.path, c.pos(w.pos))
						}
					}
				}
				if n == 0 {
					r.Undecided(clause, "R1 PROVENANCE", construct, c.pos(f.Decl.Pos()), "local not found")
				} else {
					r.Check(bad == "", clause, "R1 PROVENANCE", construct, c.pos(f.Decl.Pos()),
						fmt.Sprintf("DeclareNode.%s %s current.Value under Is(%s), nothing else (node filled in place)", field, lv.op, lv.kind), "unexpected write: "+bad)
				}
				continue
			}
			bad := ""
			n := 0
			for _, w := range localWrites(f, obj) {
				if w.op == "var" {
					continue
				}
				n++
				if w.op != lv.op || !strings.HasSuffix(w.path, ".current.Value") {
					bad = fmt.Sprintf("`%s %s %s` at %s", lv.name, w.op, w.path, c.pos(w.pos))
					continue
				}
				// guarded by the token kind: `if current.Is(kind)` or `case kind:` of a switch on current.Kind
				guard := false
				if st := stmtOf(f.Decl.Body, w.expr); st != nil {
					for _, a := range guardAtoms(c, f, st) {
						if strings.HasSuffix(a, `.current.Kind == "`+lv.kind+`")`) && !strings.HasPrefix(a, "!") && !strings.Contains(a, " or ") {
							guard = true
						}
					}
				}
				if !guard {
					bad = fmt.Sprintf("the write at %s is not guarded by Is(%s)", c.pos(w.pos), lv.kind)
				}
			}
			r.Check(bad == "" && n > 0, clause, "R1 PROVENANCE", construct, c.pos(obj.Pos()),
				fmt.Sprintf("%s %s current.Value under Is(%s), nothing else", lv.name, lv.op, lv.kind), "unexpected write: "+bad)
		}
	}
	// the lexer emits these values as untransformed slices of the input
	for _, st := range []struct{ fn, kind string }{{"CodeQuoteBegin", "CodeQuote"}, {"DirectiveUnionState", "UnionDirective"}} {
		f := c.need(r, clause, "Parser", "", st.fn)
		if f == nil {
			continue
		}
		info := f.Pkg.TypesInfo
		ok := false
		ast.Inspect(f.Decl.Body, func(n ast.Node) bool {
			call, isCall := n.(*ast.CallExpr)
			if !isCall || len(call.Args) != 2 {
				return true
			}
			if fn := callee(info, call); fn == nil || fn.Name() != "emitValue" {
				return true
			}
			if s, isC := constString(info, call.Args[0]); !isC || s != st.kind {
				return true
			}
			if se, isSl := unparen(call.Args[1]).(*ast.SliceExpr); isSl {
				pc := pathCtxFor(f)
				if strings.HasSuffix(pc.path(se.X), ".input") {
					ok = true
				}
			}
			return true
		})
		r.Check(ok, clause, "R1 PROVENANCE", f.Name+"/emitValue("+st.kind+")", c.pos(f.Decl.Pos()),
			"the token value is a slice of the input text, untransformed", "the "+st.kind+" token's value is not a plain slice of the input text")
	}
	// getters return the field
	for _, g := range []struct{ name, field string }{{"GetCode", "code"}, {"GetUion", "union"}, {"GetCodeCopy", "CodeCpy"}} {
		f := c.need(r, clause, "Parser", "RootVistor", g.name)
		if f == nil {
			continue
		}
		pe := newPathEnum(f.Pkg.TypesInfo)
		paths, err := pe.Enumerate(f.Decl.Body.List)
		ok := err == nil && len(paths) == 1 && paths[0].Kind == "return" && len(paths[0].Vals) == 1 && strings.HasSuffix(paths[0].Vals[0].String(), "."+g.field) && len(paths[0].Effects) == 0
		r.Check(ok, clause, "R1 PROVENANCE", f.Name, c.pos(f.Decl.Pos()), "returns the field "+g.field+" unchanged", "does not simply return the field "+g.field)
	}
	// builder holes: CodeHeader ← GetCode(), UnionPart ← GetUion() (Go) and CodeLast ← GetCodeCopy(); checked on shapes
	st := c.GetStaged()
	stagedErrors(r, "C10", st)
	for _, sc := range st.Configs {
		if sc.V.Http || sc.V.Name != "go/global/packed" && sc.V.Name != "go/object/dense" {
			continue
		}
		for _, want := range []struct{ field, getter string }{{"CodeHeader", ".GetCode()"}, {"UnionPart", ".GetUion()"}, {"CodeLast", ".GetCodeCopy()"}} {
			found := false
			for fv, sh := range sc.Eval.fields {
				if fv.Name() != want.field {
					continue
				}
				found = true
				h, ok := sh.(*SHole)
				r.Check(ok && strings.HasSuffix(h.Path, want.getter), clause, "R1 PROVENANCE", "Builder.(*TemplateBuilder)."+want.field+"/"+sc.V.Name, c.pos(sc.Eval.fieldPos[fv]),
					want.field+" is exactly the visitor's "+want.getter, want.field+" is not the untransformed result of "+want.getter+": "+shapeString(sh))
			}
			if !found {
				r.Fail(clause, "R1 PROVENANCE", "Builder.(*TemplateBuilder)."+want.field+"/"+sc.V.Name, "Builder/GoTemplBuilder.go", "the builder never assigns "+want.field)
			}
		}
	}
	if st.TS != nil && st.TS.Eval != nil {
		for _, want := range []struct{ field, getter string }{{"CodeHeader", ".GetCode()"}, {"CodeLast", ".GetCodeCopy()"}} {
			for fv, sh := range st.TS.Eval.fields {
				if fv.Name() != want.field {
					continue
				}
				h, ok := sh.(*SHole)
				r.Check(ok && strings.HasSuffix(h.Path, want.getter), clause, "R1 PROVENANCE", "Builder.(*TsBuilder)."+want.field, c.pos(st.TS.Eval.fieldPos[fv]),
					want.field+" is exactly the visitor's "+want.getter, want.field+" is not the untransformed result of "+want.getter+": "+shapeString(sh))
			}
		}
	}
}

// ---------------------------------------------------------------------------------------------
// C10.c append-only sequences

func isAppendSelf(info *types.Info, lhs ast.Expr, rhs ast.Expr) bool {
	call, ok := unparen(rhs).(*ast.CallExpr)
	if !ok || builtinName(info, call) != "append" || len(call.Args) < 2 {
		return false
	}
	return exprString(unparen(call.Args[0])) == exprString(unparen(lhs))
}

func c10c(c *Ctx, r *Report) {
	const clause = "C10.c"
	seqs := []struct{ dir, typ, field string }{
		{"Parser", "RuleDefNode", "RuleDefList"},
		{"Parser", "RuleDef", "RightPart"},
		{"Parser", "RuleVistor", "rules"},
		{"Parser", "oneRule", "RighPart"},
		{"Grammar", "Grammar", "ProductoinRules"},
		{"Rules", "ProductoinRule", "RighPart"},
		{"Grammar", "Grammar", "Symbols"},
	}
	protected := map[*types.Var]bool{}
	for _, s := range seqs {
		fv := lookupField(c, s.dir, s.typ, s.field)
		construct := s.dir + "." + s.typ + "." + s.field + "/append-only"
		if fv == nil {
			r.Undecided(clause, "R3 APPEND-ONLY", construct, "-", "field not found")
			continue
		}
		protected[fv] = true
		bad := ""
		ws := fieldWrites(c, fv)
		for _, w := range ws {
			switch {
			case w.expr == nil:
				bad = fmt.Sprintf("%s at %s", w.path, c.pos(w.pos))
			case w.op == "=" && isAppendToField(w, fv):
			case w.op == ":" || w.op == "=":
				// initialisation / copy from a local or parameter that is itself built append-only, or make / empty literal
				if !appendOnlySource(c, w) {
					bad = fmt.Sprintf("written from %s at %s, which is not an append-only sequence", w.path, c.pos(w.pos))
				}
			default:
				bad = fmt.Sprintf("`%s %s` at %s", w.op, w.path, c.pos(w.pos))
			}
		}
		r.Check(bad == "" && len(ws) > 0, clause, "R3 APPEND-ONLY", construct, c.pos(fv.Pos()),
			fmt.Sprintf("%d writer(s): literal initialisation, make, or append at the end only — source order is kept", len(ws)), "the sequence can be reordered or rewritten: "+bad)
	}
	// no sort over a protected sequence
	nSort := 0
	for _, fn := range c.AllFuncs() {
		info := fn.Pkg.TypesInfo
		ast.Inspect(fn.Decl.Body, func(n ast.Node) bool {
			call, ok := n.(*ast.CallExpr)
			if !ok {
				return true
			}
			f := callee(info, call)
			if f == nil || f.Pkg() == nil || (f.Pkg().Path() != "sort" && f.Pkg().Path() != "slices") {
				return true
			}
			nSort++
			for _, a := range call.Args {
				hit := false
				ast.Inspect(a, func(m ast.Node) bool {
					if e, ok := m.(ast.Expr); ok {
						if fv := fieldVar(info, e); fv != nil && protected[fv] {
							hit = true
						}
					}
					return true
				})
				if hit {
					r.Fail(clause, "R3 APPEND-ONLY", fn.Name+"/"+f.FullName(), c.pos(call.Pos()), "a sequence that must keep the grammar file's order is passed to "+f.FullName())
				}
			}
			return true
		})
	}
	r.OK(clause, "R3 APPEND-ONLY", "repo/sort-calls", "-", fmt.Sprintf("%d sort/slices calls in the repository, none receives a rule or symbol sequence", nSort))
}

func isAppendToField(w writeSite, fv *types.Var) bool {
	call, ok := unparen(w.expr).(*ast.CallExpr)
	if !ok || builtinName(w.info, call) != "append" || len(call.Args) < 2 {
		return false
	}
	return fieldVar(w.info, call.Args[0]) == fv
}

// appendOnlySource: the written expression is make(...), an empty/explicit literal, a parameter, or a local
// whose every write is make / literal / append-to-itself.
func appendOnlySource(c *Ctx, w writeSite) bool {
	e := unparen(w.expr)
	switch x := e.(type) {
	case *ast.CompositeLit:
		return true
	case *ast.CallExpr:
		if builtinName(w.info, x) == "make" {
			return true
		}
		return false
	case *ast.Ident:
		o := objOf(w.info, x)
		v, ok := o.(*types.Var)
		if !ok {
			return false
		}
		// parameter: the callers' arguments are checked where they are built
		var fn *FuncRef
		for _, f := range c.AllFuncs() {
			if f.Pkg.TypesInfo == w.info && (defIdentIn(f.Pkg.TypesInfo, f.Decl, v) != nil) {
				fn = f
			}
		}
		if fn == nil {
			return false
		}
		for _, p := range paramObjs(fn.Pkg.TypesInfo, fn.Decl) {
			if p == o {
				// every call site's argument must be append-only too
				return paramArgsAppendOnly(c, fn, p)
			}
		}
		for _, lw := range localWrites(fn, o) {
			switch {
			case lw.op == "var" && lw.expr == nil:
			case lw.expr == nil:
				return false
			default:
				le := unparen(lw.expr)
				if cl, ok := le.(*ast.CompositeLit); ok {
					_ = cl
					continue
				}
				if call, ok := le.(*ast.CallExpr); ok {
					if builtinName(lw.info, call) == "make" {
						continue
					}
					if builtinName(lw.info, call) == "append" && len(call.Args) >= 2 && identObj(lw.info, call.Args[0]) == o {
						continue
					}
				}
				return false
			}
		}
		return true
	}
	return false
}

func paramArgsAppendOnly(c *Ctx, fn *FuncRef, p types.Object) bool {
	idx := -1
	for i, q := range paramObjs(fn.Pkg.TypesInfo, fn.Decl) {
		if q == p {
			idx = i
		}
	}
	if idx < 0 {
		return false
	}
	ok := true
	n := 0
	for _, caller := range c.AllFuncs() {
		info := caller.Pkg.TypesInfo
		ast.Inspect(caller.Decl.Body, func(nd ast.Node) bool {
			call, isCall := nd.(*ast.CallExpr)
			if !isCall || callee(info, call) != fn.Obj || idx >= len(call.Args) {
				return true
			}
			n++
			defs := newDefs(info)
			defs.scan(caller.Decl.Body)
			w := writeSite{call.Pos(), "", ":", caller.Name, call.Args[idx], info, &pathCtx{info: info, defs: defs, root: caller.Decl.Body}}
			if !appendOnlySource(c, w) {
				ok = false
			}
			return true
		})
	}
	return ok && n > 0
}

// C10.d — token boundaries: when a lexer state hands control back to rootState, every rune it consumed has been
// accounted for (emitted as a token or dropped with ignore). Otherwise the text of skipped material (a comment,
// blanks) leaks into the next token and the layout changes the grammar.
func c10d(c *Ctx, r *Report) {
	const clause = "C10.d"
	n := 0
	for _, f := range c.AllFuncs() {
		if !strings.HasPrefix(f.Name, "Parser.") || f.Decl.Recv != nil || f.Decl.Type.Results == nil || len(f.Decl.Type.Results.List) != 1 {
			continue
		}
		if exprString(f.Decl.Type.Results.List[0].Type) != "stateFn" {
			continue
		}
		info := f.Pkg.TypesInfo
		fc := buildCFG(info, f.Decl.Body)
		accounted := func(nd ast.Node) bool {
			ok := false
			ast.Inspect(nd, func(m ast.Node) bool {
				switch x := m.(type) {
				case *ast.FuncLit:
					return false
				case *ast.CallExpr:
					if fn := callee(info, x); fn != nil {
						switch fn.Name() {
						case "emit", "emitValue", "emitEOF", "ignore", "error":
							ok = true
						}
					}
				case *ast.ReturnStmt:
					// handing over to another state with text pending is that state's business; nil stops the machine
					if len(x.Results) == 1 {
						if id, isId := unparen(x.Results[0]).(*ast.Ident); isId && id.Name != "rootState" {
							ok = true
						}
					}
				}
				return true
			})
			return ok
		}
		var nexts []*ast.CallExpr
		ast.Inspect(f.Decl.Body, func(m ast.Node) bool {
			if call, ok := m.(*ast.CallExpr); ok {
				if fn := callee(info, call); fn != nil && fn.Name() == "next" {
					nexts = append(nexts, call)
				}
			}
			return true
		})
		if len(nexts) == 0 {
			continue
		}
		n++
		bad := ""
		for _, nx := range nexts {
			if !fc.EveryPathToExitPasses(nx, accounted) {
				bad = c.pos(nx.Pos())
			}
		}
		r.Check(bad == "", clause, "R2 TOKEN-BOUNDARY", f.Name+"/consumed-text-accounted-before-rootState", c.pos(f.Decl.Pos()),
			fmt.Sprintf("every path from each of the %d next() calls back to rootState passes emit/emitValue/ignore (or hands over to another state, or stops with an error)", len(nexts)),
			"a rune consumed by next() at "+bad+" can reach `return rootState` without being emitted or dropped with ignore(): the skipped text (e.g. the end of a /* */ comment) is prepended to the next token, so layout changes token values, identifiers and action bodies")
	}
	if n < 8 {
		r.Undecided(clause, "R2 TOKEN-BOUNDARY", "Parser/lexer-state-functions", "Parser/Lex.go", fmt.Sprintf("only %d state functions with next() calls found (10 confirmed by hand)", n))
	}
	// every alternative starts from a fresh rule record: nothing (a %prec, an action) carries over from the previous one
	if f := c.need(r, clause, "Parser", "parser", "parseRule"); f != nil {
		info := f.Pkg.TypesInfo
		ok, found := false, false
		ast.Inspect(f.Decl.Body, func(n ast.Node) bool {
			cc, isC := n.(*ast.CaseClause)
			if !isC {
				return true
			}
			isOr := false
			for _, e := range cc.List {
				if s, okS := constString(info, e); okS && s == "RuleOR" {
					isOr = true
				}
			}
			if !isOr {
				return true
			}
			found = true
			// the rule variable: the one appended to the result in this clause
			var ruleObj types.Object
			for _, s := range cc.Body {
				if as, isA := s.(*ast.AssignStmt); isA && len(as.Rhs) == 1 {
					if call, isCall := as.Rhs[0].(*ast.CallExpr); isCall && builtinName(info, call) == "append" && len(call.Args) == 2 {
						ruleObj = identObj(info, call.Args[1])
					}
				}
			}
			for _, s := range cc.Body {
				as, isA := s.(*ast.AssignStmt)
				if !isA || len(as.Lhs) != 1 || identObj(info, as.Lhs[0]) != ruleObj || ruleObj == nil {
					continue
				}
				if cl, isCl := unparen(as.Rhs[0]).(*ast.CompositeLit); isCl {
					fresh := true
					for _, el := range cl.Elts {
						if kv, isKV := el.(*ast.KeyValueExpr); isKV {
							if k, isK := kv.Key.(*ast.Ident); isK && k.Name != "LeftPart" && k.Name != "LineNo" {
								fresh = false
							}
						}
					}
					ok = fresh
				}
			}
			return true
		})
		if !found {
			r.Undecided(clause, "R3 FRESH-RECORD", f.Name+"/alternative-starts-fresh", c.pos(f.Decl.Pos()), "no `case RuleOR` clause")
		} else {
			r.Check(ok, clause, "R3 FRESH-RECORD", f.Name+"/alternative-starts-fresh", c.pos(f.Decl.Pos()),
				"at `|` the finished alternative is stored and the next one starts from a new RuleDef carrying only the left-hand side and the line",
				"at `|` the next alternative does not start from a fresh RuleDef{LeftPart, LineNo}: fields of the previous alternative (its %prec symbol) leak into the following ones")
		}
	}
	// literal naming: wherever a token that may be a character literal becomes a symbol NAME, the literal's
	// temporary name (genTempName) is used — at all sites, so the same literal is one symbol everywhere
	for _, fn := range []string{"parseTokendef", "parsePrecList", "parseRule"} {
		f := c.need(r, clause, "Parser", "parser", fn)
		if f == nil {
			continue
		}
		c10LiteralNames(c, r, f, clause)
	}
}

// c10LiteralNames: in f, every store of a name (fields Name, IdName, Element, PrecSym, or a local that flows into
// them) on a path where the current token is a character literal uses genTempName(value); on a path where it is an
// identifier it uses the value itself.
func c10LiteralNames(c *Ctx, r *Report, f *FuncRef, clause string) {
	info := f.Pkg.TypesInfo
	// candidate statement lists: bodies of if/else chains and case clauses that test the token kind
	type site struct {
		stmts []ast.Stmt
		pos   token.Pos
		what  string
	}
	var sites []site
	ast.Inspect(f.Decl.Body, func(n ast.Node) bool {
		switch x := n.(type) {
		case *ast.IfStmt:
			mentions := false
			ast.Inspect(x.Cond, func(m ast.Node) bool {
				if call, ok := m.(*ast.CallExpr); ok && len(call.Args) == 1 {
					if s, ok := constString(info, call.Args[0]); ok && (s == "Charater" || s == "Identifier") {
						mentions = true
					}
				}
				return true
			})
			if mentions {
				sites = append(sites, site{[]ast.Stmt{x}, x.Pos(), "if"})
				return false
			}
		case *ast.CaseClause:
			for _, e := range x.List {
				if s, ok := constString(info, e); ok && s == "Charater" {
					sites = append(sites, site{x.Body, x.Pos(), "case Charater"})
				}
				if s, ok := constString(info, e); ok && s == "PrecDirective" {
					// the %prec operand is read after one more next(): evaluate the clause body under both kinds
					sites = append(sites, site{x.Body, x.Pos(), "case PrecDirective"})
				}
			}
		}
		return true
	})
	nameFields := map[string]bool{"Name": true, "IdName": true, "Element": true, "PrecSym": true}
	checked := 0
	bad := ""
	for _, st := range sites {
		pe := newPathEnum(info)
		paths, err := pe.Enumerate(st.stmts)
		if err != nil {
			continue
		}
		for _, kind := range []string{"Charater", "Identifier"} {
			if st.what == "case Charater" && kind == "Identifier" {
				continue
			}
			val := kindValuation(c, kind, nil)
			for _, p := range selectPaths(paths, val) {
				var names []*Term
				for _, e := range p.Effects {
					if e.Kind == "store" && e.LHS.Op == "field" && nameFields[e.LHS.Name] {
						names = append(names, e.Term)
					}
					// composite literals stored or appended
					collectNameFields(e.Term, nameFields, &names)
				}
				for _, t := range p.Env {
					collectNameFields(t, nameFields, &names)
				}
				for _, t := range names {
					s := t.String()
					if !strings.Contains(s, ".current.Value") {
						continue
					}
					checked++
					wrapped := strings.Contains(s, "genTempName(")
					if kind == "Charater" && !wrapped {
						bad = fmt.Sprintf("at %s a character-literal token's text becomes a symbol name without genTempName (%s): the literal would be looked up under a different name than the one it was declared with, so its %%prec / rule occurrence refers to no symbol", c.pos(st.pos), s)
					}
					if kind == "Identifier" && wrapped {
						bad = fmt.Sprintf("at %s an identifier's name is wrapped in genTempName (%s)", c.pos(st.pos), s)
					}
				}
			}
		}
	}
	r.Check(bad == "" && checked > 0, clause, "R10 SIBLING-SITES", f.Name+"/literal-names-use-genTempName", c.pos(f.Decl.Pos()),
		fmt.Sprintf("%d name stores: a character literal is named genTempName(text) and an identifier by its own text at every site", checked),
		map[bool]string{true: bad, false: "no name store under a token-kind test was found"}[bad != ""])
}

func collectNameFields(t *Term, nameFields map[string]bool, out *[]*Term) {
	if t == nil {
		return
	}
	if t.Op == "composite" {
		for k, v := range t.Fields {
			if nameFields[k] {
				*out = append(*out, v)
			}
		}
	}
	for _, a := range t.Args {
		collectNameFields(a, nameFields, out)
	}
	for _, v := range t.Fields {
		collectNameFields(v, nameFields, out)
	}
}

// c10NothingDropped — "exactly the rules written in the file": the append-only rule (c10c) keeps the ORDER of the
// sequences between the grammar file and the grammar; this rule keeps their ELEMENTS. Downstream of the parser (which
// decides by token kind what an element is) every stage hands each element on: the stores and calls listed here run
// for every element, i.e. they are guarded by nothing but the type assertion of the visitor (`$ok`) and — for the
// right-hand symbols — the element kind. A condition on the element itself (a de-duplication, a filter, an early
// `continue`) makes grammar rule i and the i-th alternative of the file (whose action text, line and precedence are
// looked up by position) different rules.
func c10NothingDropped(c *Ctx, r *Report, clause string) {
	type site struct {
		dir, recv, fn string
		field         string // store `<x>.field = append(<x>.field, …)` …
		call          string // … or a call statement of this function
		minSites      int
		allow         []string // atoms (exact, suffix when starting with "…", substring when starting with "*") that may guard it
		what          string
	}
	sites := []site{
		{"Grammar", "Grammar", "InsertNewRules", "ProductoinRules", "", 1, nil, "every rule handed to the grammar is stored"},
		{"Grammar", "Grammar", "InsertNewSymbol", "Symbols", "", 1, nil, "every symbol handed to the grammar is stored"},
		{"Parser", "Walker", "BuildLALR1", "", "InsertNewRules", 2, []string{"($ok)"}, "rule 0 and every alternative of the file are handed to the grammar"},
		{"Parser", "RuleVistor", "Process", "rules", "", 1, []string{"($ok)"}, "every alternative the parser read becomes a rule"},
		{"Parser", "RuleVistor", "Process", "RighPart", "", 1, []string{"($ok)", "*.ElemType "}, "every symbol element of an alternative becomes a right-hand symbol"},
		{"Parser", "parser", "parseTokendef", "IdentifyList", "", 1, []string{"*.current.Kind "}, "every name and every literal of a %token line is recorded with the line's value tag, declared before or not"},
		{"Parser", "parser", "parseTypeList", "<returned>", "", 1, []string{"*.current.Kind "}, "every name of a %type line is recorded with the line's value tag"},
		{"Parser", "parser", "parsePrecList", "<returned>", "", 1, []string{"*.current.Kind "}, "every symbol of a precedence line is recorded with the line's level"},
	}
	for _, s := range sites {
		f := c.need(r, clause, s.dir, s.recv, s.fn)
		if f == nil {
			continue
		}
		info := f.Pkg.TypesInfo
		name := s.field
		if name == "" {
			name = s.call + "()"
		}
		key := f.Name + "/" + name + "-for-every-element"
		var targets []ast.Node
		// "<returned>": the list is the local the function returns, whatever it is called
		returned := map[types.Object]bool{}
		if s.field == "<returned>" {
			name = "returned-list"
			key = f.Name + "/" + name + "-for-every-element"
			ast.Inspect(f.Decl.Body, func(n ast.Node) bool {
				switch x := n.(type) {
				case *ast.FuncLit:
					return false
				case *ast.ReturnStmt:
					for _, e := range x.Results {
						if o, isVar := identObj(info, e).(*types.Var); isVar && o.Parent() != o.Pkg().Scope() {
							returned[o] = true
						}
					}
				}
				return true
			})
			if f.Decl.Type.Results != nil {
				for _, fl := range f.Decl.Type.Results.List {
					for _, nm := range fl.Names {
						if o := info.Defs[nm]; o != nil {
							returned[o] = true
						}
					}
				}
			}
		}
		ast.Inspect(f.Decl.Body, func(n ast.Node) bool {
			switch x := n.(type) {
			case *ast.AssignStmt:
				if s.field == "" || len(x.Lhs) != 1 || len(x.Rhs) != 1 {
					return true
				}
				if s.field == "<returned>" {
					o := identObj(info, x.Lhs[0])
					if o == nil || !returned[o] {
						return true
					}
					if call, ok := unparen(x.Rhs[0]).(*ast.CallExpr); ok && builtinName(info, call) == "append" && len(call.Args) >= 2 && identObj(info, call.Args[0]) == o {
						targets = append(targets, x)
					}
					return true
				}
				var fv types.Object
				if v := fieldVar(info, x.Lhs[0]); v != nil {
					fv = v
				} else if o, isVar := identObj(info, x.Lhs[0]).(*types.Var); isVar && o.Parent() != o.Pkg().Scope() {
					fv = o // a local list that the function returns
				}
				if fv == nil || fv.Name() != s.field {
					return true
				}
				same := func(e ast.Expr) bool {
					if v := fieldVar(info, e); v != nil {
						return v == fv
					}
					return identObj(info, e) == fv
				}
				if call, ok := unparen(x.Rhs[0]).(*ast.CallExpr); ok && builtinName(info, call) == "append" && len(call.Args) >= 2 && same(call.Args[0]) {
					targets = append(targets, x)
				}
			case *ast.ExprStmt:
				if s.call == "" {
					return true
				}
				if call, ok := unparen(x.X).(*ast.CallExpr); ok {
					if fn := callee(info, call); fn != nil && fn.Name() == s.call {
						targets = append(targets, x)
					}
				}
			}
			return true
		})
		if len(targets) < s.minSites {
			r.Undecided(clause, "R2 COVERAGE", key, c.pos(f.Decl.Pos()), fmt.Sprintf("%d site(s) found, %d confirmed by hand", len(targets), s.minSites))
			continue
		}
		// conditions that only exist because an earlier `if c { panic(…) }` rejects the whole grammar are no filters
		panicGuard := map[string]bool{}
		pc := pathCtxFor(f)
		ast.Inspect(f.Decl.Body, func(n ast.Node) bool {
			is, ok := n.(*ast.IfStmt)
			if !ok || is.Else != nil || len(is.Body.List) == 0 {
				return true
			}
			if es, ok := is.Body.List[len(is.Body.List)-1].(*ast.ExprStmt); ok {
				if call, ok := es.X.(*ast.CallExpr); ok && builtinName(info, call) == "panic" {
					for _, a := range nnfAtoms(pc, is.Cond, true) {
						panicGuard[a] = true
					}
				}
			}
			return true
		})
		var bad []string
		for _, t := range targets {
			for _, a := range guardAtoms(c, f, t) {
				ok := panicGuard[a]
				for _, al := range s.allow {
					if a == al || (strings.HasPrefix(al, "…") && strings.HasSuffix(a, strings.TrimPrefix(al, "…"))) || (strings.HasPrefix(al, "*") && strings.Contains(a, strings.TrimPrefix(al, "*"))) {
						ok = true
					}
				}
				if !ok {
					bad = append(bad, fmt.Sprintf("%s runs only under %s", c.pos(t.Pos()), a))
				}
			}
			// inside a loop: the loop body reaches the site on every iteration — no `continue` / `break` before it
			pm := parentMap(f.Decl.Body)
			for cur := pm[t]; cur != nil; cur = pm[cur] {
				var body *ast.BlockStmt
				switch l := cur.(type) {
				case *ast.RangeStmt:
					body = l.Body
				case *ast.ForStmt:
					body = l.Body
				}
				if body == nil {
					continue
				}
				ast.Inspect(body, func(m ast.Node) bool {
					switch y := m.(type) {
					case *ast.FuncLit:
						return false
					case *ast.BranchStmt:
						if y.Pos() < t.Pos() && (y.Tok == token.CONTINUE || y.Tok == token.BREAK || y.Tok == token.GOTO) {
							bad = append(bad, fmt.Sprintf("a `%s` at %s can skip the site at %s", y.Tok, c.pos(y.Pos()), c.pos(t.Pos())))
						}
					}
					return true
				})
			}
		}
		sortStrings(bad)
		r.Check(len(bad) == 0, clause, "R2 COVERAGE", key, c.pos(targets[0].Pos()),
			fmt.Sprintf("%s: %d site(s), guarded by nothing that depends on the element", s.what, len(targets)),
			"an element of the grammar file can be dropped on its way into the grammar — rule i of the grammar is then no longer the i-th alternative of the file, whose action and precedence are looked up by position: "+strings.Join(dedupStrings(bad), "; "))
	}
}

// dumpPaths: the enumerated paths of a function (conditions, effects, result) — a development aid.
func dumpPaths(c *Ctx, want string) {
	for _, f := range c.AllFuncs() {
		if !strings.HasSuffix(f.Name, want) {
			continue
		}
		paths, err := newPathEnum(f.Pkg.TypesInfo).Enumerate(f.Decl.Body.List)
		fmt.Println("==", f.Name, len(paths), "paths", err)
		for _, p := range paths {
			fmt.Println("  ", p.Kind, "if", p.CondString())
			for _, e := range p.Effects {
				fmt.Println("      ", e.Kind, e.String())
			}
		}
	}
}

// c10InputIsTheFile — the text the generator works on is the grammar file: in the command's genCommonFunc the first
// argument of the generator call is string(b) with b the result of a read-everything call (io.ReadAll, ioutil.ReadAll,
// os.ReadFile, ioutil.ReadFile) — no reader in between that splits, limits or re-joins the bytes (a bufio.Scanner
// stops silently at a line longer than its buffer; a line-wise copy changes the end of the last line).
func c10InputIsTheFile(c *Ctx, r *Report, clause string) {
	f := c.need(r, clause, "yaccgo", "", "genCommonFunc")
	if f == nil {
		return
	}
	info := f.Pkg.TypesInfo
	key := f.Name + "/generator-input-is-the-file's-bytes"
	readAll := map[string]bool{"io.ReadAll": true, "io/ioutil.ReadAll": true, "os.ReadFile": true, "io/ioutil.ReadFile": true}
	// the generator parameter: a parameter of function type
	var gens []types.Object
	for _, fl := range f.Decl.Type.Params.List {
		for _, nm := range fl.Names {
			if o := info.Defs[nm]; o != nil {
				if _, isFn := o.Type().Underlying().(*types.Signature); isFn {
					gens = append(gens, o)
				}
			}
		}
	}
	defs := newDefs(info)
	defs.scan(f.Decl.Body)
	nCalls, why := 0, ""
	ast.Inspect(f.Decl.Body, func(n ast.Node) bool {
		call, ok := n.(*ast.CallExpr)
		if !ok || len(call.Args) == 0 {
			return true
		}
		isGen := false
		for _, g := range gens {
			if identObj(info, call.Fun) == g {
				isGen = true
			}
		}
		if !isGen {
			return true
		}
		nCalls++
		arg := unparen(call.Args[0])
		conv, ok := arg.(*ast.CallExpr)
		if !ok || len(conv.Args) != 1 {
			why = "the generator's input is `" + exprString(arg) + "`, not string(<bytes of the file>)"
			return true
		}
		if tv, ok := info.Types[conv.Fun]; !ok || !tv.IsType() || !isStringType(tv.Type) {
			why = "the generator's input is `" + exprString(arg) + "`, not string(<bytes of the file>)"
			return true
		}
		src := unparen(conv.Args[0])
		o := identObj(info, src)
		if o == nil {
			why = "the converted value `" + exprString(src) + "` is not a variable holding the file's bytes"
			return true
		}
		// its only definition: `b, err := <read-all>(…)`
		found := false
		nDefs := 0
		ast.Inspect(f.Decl.Body, func(m ast.Node) bool {
			as, ok := m.(*ast.AssignStmt)
			if !ok {
				return true
			}
			for _, l := range as.Lhs {
				if identObj(info, l) == o {
					nDefs++
					if len(as.Rhs) == 1 {
						if rc, ok := unparen(as.Rhs[0]).(*ast.CallExpr); ok {
							if fn := callee(info, rc); fn != nil && readAll[fn.FullName()] {
								found = true
							}
						}
					}
				}
			}
			return true
		})
		if !found || nDefs != 1 {
			why = fmt.Sprintf("`%s` is not the result of one read-everything call (io.ReadAll / os.ReadFile): %d assignment(s)", o.Name(), nDefs)
		}
		return true
	})
	if nCalls == 0 {
		r.Undecided(clause, "R1 PROVENANCE", key, c.pos(f.Decl.Pos()), "no call of the generator parameter found")
		return
	}
	r.Check(why == "", clause, "R1 PROVENANCE", key, c.pos(f.Decl.Pos()),
		"the generator receives string(b) with b the result of one read-everything call on the input file",
		"the text handed to the generator is not the file as it is: "+why+" — a reader in between can stop early or change line ends without any error")
}
