package main

// skelutil.go — helpers over skeletons and shapes shared by C01, C07, C08, C15, C17.

import (
	"bytes"
	"fmt"
	"go/ast"
	"go/printer"
	"go/token"
	"go/types"
	"sort"
	"strings"
)

// quickSkeletons returns the four documented Go skeletons (k = 2, action set 0, no http); in the thorough tier
// additionally the k = 1 and k = 3 unrollings with the other action set (the rules must hold for every unrolling).
func quickSkeletons(st *Staged) []*Skeleton {
	var out []*Skeleton
	for _, sc := range st.Configs {
		if sc.V.Http {
			continue
		}
		for _, sk := range sc.Skels {
			if sk.K == 2 && sk.ActSet == 0 {
				out = append(out, sk)
			}
		}
	}
	if st.thorough {
		for _, sc := range st.Configs {
			if sc.V.Http {
				continue
			}
			for _, sk := range sc.Skels {
				if (sk.K == 1 || sk.K == 3) && sk.ActSet == 1 {
					cp := *sk
					cp.V.Name = fmt.Sprintf("%s[k=%d]", sk.V.Name, sk.K)
					out = append(out, &cp)
				}
			}
		}
	}
	return out
}

func configOf(st *Staged, name string) *StagedConfig {
	for _, sc := range st.Configs {
		if sc.V.Name == name {
			return sc
		}
	}
	return nil
}

func fieldShapeOf(ev *ShapeEval, name string) (Shape, token.Pos) {
	if ev == nil {
		return nil, token.NoPos
	}
	for fv, sh := range ev.fields {
		if fv.Name() == name {
			return sh, ev.fieldPos[fv]
		}
	}
	return nil, token.NoPos
}

// holesOf lists the holes of a shape in textual order (replacement shapes after their base).
func holesOf(s Shape) []*SHole {
	var out []*SHole
	walkShape(s, func(x Shape) {
		if h, ok := x.(*SHole); ok {
			out = append(out, h)
		}
	})
	return out
}

// litAndHoles flattens a shape into alternating text / hole markers: useful to ask "which hole follows this text".
type flatPart struct {
	lit  string
	hole *SHole
	loop *SLoop // set on the first part of a loop body
}

func flatten(s Shape) []flatPart {
	var out []flatPart
	var walk func(x Shape)
	walk = func(x Shape) {
		switch v := x.(type) {
		case *SLit:
			out = append(out, flatPart{lit: v.S})
		case *SHole:
			out = append(out, flatPart{hole: v})
		case *SCat:
			for _, p := range v.Parts {
				walk(p)
			}
		case *SLoop:
			n := len(out)
			walk(v.Body)
			if n < len(out) {
				out[n].loop = v
			}
		case *SAlt:
			walk(v.Then)
			walk(v.Else)
		case *SRepl:
			walk(v.Base)
			walk(v.New)
		case *SQuote:
			walk(v.Inner)
		}
	}
	walk(s)
	return out
}

// holeAfter returns the hole that directly follows the first literal ending with suffix.
func holeAfter(parts []flatPart, suffix string) *SHole {
	for i, p := range parts {
		if p.hole == nil && strings.HasSuffix(p.lit, suffix) && i+1 < len(parts) && parts[i+1].hole != nil {
			return parts[i+1].hole
		}
		// the suffix may be in the middle of a literal only when followed by a hole: handled by HasSuffix only
	}
	return nil
}

// loopsIn returns the loops of a shape, outermost first.
func loopsIn(s Shape) []*SLoop {
	var out []*SLoop
	walkShape(s, func(x Shape) {
		if l, ok := x.(*SLoop); ok {
			out = append(out, l)
		}
	})
	return out
}

// ---------------------------------------------------------------------------------------------
// skeleton call graph and stores

type skelFuncs struct {
	sk    *Skeleton
	byObj map[types.Object]*ast.FuncDecl
	names map[*ast.FuncDecl]string
}

func skeletonFuncs(sk *Skeleton) *skelFuncs {
	sf := &skelFuncs{sk: sk, byObj: map[types.Object]*ast.FuncDecl{}, names: map[*ast.FuncDecl]string{}}
	for _, d := range sk.File.Decls {
		if fd, ok := d.(*ast.FuncDecl); ok && fd.Body != nil {
			sf.byObj[sk.Info.Defs[fd.Name]] = fd
			rn, _ := recvTypeName(fd)
			n := fd.Name.Name
			if rn != "" {
				n = rn + "." + n
			}
			sf.names[fd] = n
		}
	}
	return sf
}

func (sf *skelFuncs) reachable(from *ast.FuncDecl) []*ast.FuncDecl {
	seen := map[*ast.FuncDecl]bool{}
	var order []*ast.FuncDecl
	var visit func(fd *ast.FuncDecl)
	visit = func(fd *ast.FuncDecl) {
		if fd == nil || seen[fd] {
			return
		}
		seen[fd] = true
		order = append(order, fd)
		ast.Inspect(fd.Body, func(n ast.Node) bool {
			if call, ok := n.(*ast.CallExpr); ok {
				if f := callee(sf.sk.Info, call); f != nil {
					visit(sf.byObj[f])
				}
			}
			return true
		})
	}
	visit(from)
	return order
}

// rootObject unwinds index/selector/star/paren expressions to the variable at their root.
func rootObject(info *types.Info, e ast.Expr) types.Object {
	for {
		switch x := unparen(e).(type) {
		case *ast.Ident:
			return objOf(info, x)
		case *ast.IndexExpr:
			e = x.X
		case *ast.SelectorExpr:
			if _, ok := info.Selections[x]; ok {
				e = x.X
			} else {
				return info.Uses[x.Sel]
			}
		case *ast.StarExpr:
			e = x.X
		case *ast.SliceExpr:
			e = x.X
		default:
			return nil
		}
	}
}

func isPkgLevelVar(o types.Object) bool {
	v, ok := o.(*types.Var)
	return ok && v.Pkg() != nil && v.Parent() == v.Pkg().Scope()
}

// storesOf lists the roots of all stores in fd: package-level variable names and "recv.<field>" for receiver fields.
func storesOf(info *types.Info, fd *ast.FuncDecl) (pkgVars map[string]token.Pos, recvFields map[string]token.Pos) {
	pkgVars, recvFields = map[string]token.Pos{}, map[string]token.Pos{}
	var recvObj types.Object
	if fd.Recv != nil && len(fd.Recv.List) == 1 && len(fd.Recv.List[0].Names) == 1 {
		recvObj = info.Defs[fd.Recv.List[0].Names[0]]
	}
	// local pointers to receiver fields / package variables: stores through them hit that storage
	alias := map[types.Object]ast.Expr{}
	ast.Inspect(fd.Body, func(n ast.Node) bool {
		as, ok := n.(*ast.AssignStmt)
		if !ok || len(as.Lhs) != len(as.Rhs) {
			return true
		}
		for i, l := range as.Lhs {
			lo := identObj(info, l)
			if lo == nil || isPkgLevelVar(lo) || lo == recvObj {
				continue // only locals can be aliases
			}
			if u, ok := unparen(as.Rhs[i]).(*ast.UnaryExpr); ok && u.Op == token.AND {
				if ro := rootObject(info, u.X); ro != nil && (isPkgLevelVar(ro) || ro == recvObj) {
					alias[lo] = u.X
				}
				continue
			}
			// a slice / pointer / map taken out of package or receiver storage shares that storage
			// (popped := StateSymStack[a:b]; popped[i].f = …)
			rhs := unparen(as.Rhs[i])
			if _, isCall := rhs.(*ast.CallExpr); isCall {
				continue
			}
			if t := info.TypeOf(rhs); t != nil {
				switch t.Underlying().(type) {
				case *types.Slice, *types.Pointer, *types.Map:
					if ro := rootObject(info, rhs); ro != nil && ro != lo && (isPkgLevelVar(ro) || ro == recvObj) {
						alias[lo] = rhs
					}
				}
			}
		}
		return true
	})
	var record func(l ast.Expr)
	record = func(l ast.Expr) {
		root := rootObject(info, l)
		if root == nil {
			return
		}
		if target, ok := alias[root]; ok {
			delete(alias, root) // avoid cycles
			record(target)
			alias[root] = target
			return
		}
		if isPkgLevelVar(root) {
			pkgVars[root.Name()] = l.Pos()
		}
		if root == recvObj && recvObj != nil {
			// first selector after the receiver
			e := unparen(l)
			name := ""
			for {
				switch x := e.(type) {
				case *ast.IndexExpr:
					e = unparen(x.X)
					continue
				case *ast.SelectorExpr:
					if identObj(info, x.X) == recvObj {
						name = x.Sel.Name
					}
					e = unparen(x.X)
					continue
				case *ast.StarExpr:
					e = unparen(x.X)
					continue
				}
				break
			}
			if name != "" {
				recvFields[name] = l.Pos()
			}
		}
	}
	ast.Inspect(fd.Body, func(n ast.Node) bool {
		switch x := n.(type) {
		case *ast.AssignStmt:
			if x.Tok == token.DEFINE {
				return true
			}
			for _, l := range x.Lhs {
				record(l)
			}
		case *ast.IncDecStmt:
			record(x.X)
		case *ast.UnaryExpr:
			// &V of a package-level variable itself (not of an element of it): the pointer escapes to a callee or
			// a local, every store through it hits V
			if x.Op == token.AND {
				if id, ok := unparen(x.X).(*ast.Ident); ok && isPkgLevelVar(info.Uses[id]) {
					pkgVars[id.Name] = x.Pos()
				}
			}
		}
		return true
	})
	return
}

// stackSlotWriters lists the generated functions that store into the parse stack's slots (package-level
// StateSymStack or the receiver's StackSym), directly or through a local slice / pointer taken from it.
func stackSlotWriters(sk *Skeleton) []string {
	sf := skeletonFuncs(sk)
	var writers []string
	for fd, n := range sf.names {
		if n == "GetToken" {
			continue
		}
		pv, rf := storesOf(sk.Info, fd)
		if _, ok := pv["StateSymStack"]; ok {
			writers = append(writers, n)
		}
		if _, ok := rf["StackSym"]; ok {
			writers = append(writers, n)
		}
	}
	sort.Strings(writers)
	return writers
}

// readsOf lists package-level variables read in fd.
func readsOf(info *types.Info, fd *ast.FuncDecl) map[string]bool {
	out := map[string]bool{}
	ast.Inspect(fd.Body, func(n ast.Node) bool {
		if id, ok := n.(*ast.Ident); ok {
			if o := info.Uses[id]; isPkgLevelVar(o) {
				out[o.Name()] = true
			}
		}
		return true
	})
	return out
}

func printNode(fset *token.FileSet, n ast.Node) string {
	var b bytes.Buffer
	printer.Fprint(&b, fset, n)
	return b.String()
}

func sortedMapKeys(m map[string]token.Pos) []string {
	var out []string
	for k := range m {
		out = append(out, k)
	}
	sort.Strings(out)
	return out
}

// stagedErrors records, once per report, every reason why the staged program could not be built completely:
// an unrecognised builder construct means the fragment texts are not bounded, so every obligation that stands on
// the shapes or skeletons is undecided.
func stagedErrors(r *Report, clause string, st *Staged) {
	for _, e := range st.Errs {
		r.Undecided(clause, "R11 STAGED", "staging", "-", e)
	}
	seen := map[string]bool{}
	for _, sc := range st.Configs {
		if sc.V.Http {
			continue
		}
		for _, e := range sc.Errs {
			if seen[e] {
				continue
			}
			seen[e] = true
			r.Undecided(clause, "R11 STAGED", "Builder/shape-extraction", "Builder/GoTemplBuilder.go", "a fragment builder uses a construct outside the recognised subset, so the generated text cannot be bounded: "+e)
		}
		for _, sk := range sc.Skels {
			for _, e := range sk.TypeErs {
				if strings.HasPrefix(e, "render:") && !seen[e] {
					seen[e] = true
					r.Undecided(clause, "R11 STAGED", "skeleton "+sc.V.Name+"/rendering", "Builder", e)
				}
			}
		}
	}
	if st.TS != nil {
		for _, e := range st.TS.Errs {
			if !seen[e] {
				seen[e] = true
				r.Undecided(clause, "R11 STAGED", "Builder/ts-shape-extraction", "Builder/TsGenCode.go", e)
			}
		}
	}
}
