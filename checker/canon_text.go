package main

// canon_text.go — canonical text of a function body, for the comparison of hand-maintained twins (the two Go
// templates, C08.a). Two bodies that differ only in the names of their locals / parameters / receiver, in the
// orientation of a comparison (`a >= len(s)` ↔ `len(s) <= a`) or in `switch { case … }` ↔ `if … else if …` print
// the same canonical text; every other difference survives. All three rewrites preserve behaviour, so the
// comparison loses nothing.

import (
	"fmt"
	"go/ast"
	"go/token"
	"go/types"
	"strings"

	"golang.org/x/tools/go/ast/astutil"
)

// canonBodyText prints fd's body with (1) selectors on the receiver replaced by the bare member, through recvMap
// for the members whose global counterpart has another name, (2) locals and parameters renamed v0, v1, … in order of
// first appearance (parameters first), (3) comparisons oriented, (4) tagless switches written as if-chains.
func canonBodyText(fset *token.FileSet, info *types.Info, fd *ast.FuncDecl, recvMap map[string]string) string {
	var recvObj types.Object
	if fd.Recv != nil && len(fd.Recv.List) == 1 && len(fd.Recv.List[0].Names) == 1 {
		recvObj = info.Defs[fd.Recv.List[0].Names[0]]
	}
	names := map[types.Object]string{}
	nameOf := func(o types.Object) string {
		if n, ok := names[o]; ok {
			return n
		}
		n := fmt.Sprintf("v%d", len(names))
		names[o] = n
		return n
	}
	isLocal := func(o types.Object) bool {
		v, ok := o.(*types.Var)
		if !ok || v.IsField() || v.Pkg() == nil {
			return false
		}
		return v.Parent() != v.Pkg().Scope()
	}
	if fd.Type.Params != nil {
		for _, f := range fd.Type.Params.List {
			for _, n := range f.Names {
				if o := info.Defs[n]; o != nil {
					nameOf(o)
				}
			}
		}
	}
	body := cloneNode(info, fd.Body).(*ast.BlockStmt)
	objOfId := func(id *ast.Ident) types.Object {
		if o := info.Defs[id]; o != nil {
			return o
		}
		return info.Uses[id]
	}
	flip := map[token.Token]token.Token{token.EQL: token.EQL, token.NEQ: token.NEQ, token.LSS: token.GTR, token.GTR: token.LSS, token.LEQ: token.GEQ, token.GEQ: token.LEQ}
	res := astutil.Apply(body, func(cur *astutil.Cursor) bool {
		switch x := cur.Node().(type) {
		case *ast.SelectorExpr:
			if id, ok := x.X.(*ast.Ident); ok && recvObj != nil && objOfId(id) == recvObj {
				n := x.Sel.Name
				if m, ok := recvMap[n]; ok {
					n = m
				}
				cur.Replace(&ast.Ident{NamePos: x.Pos(), Name: n})
				return false
			}
		case *ast.Ident:
			if o := objOfId(x); o != nil && o != recvObj && isLocal(o) && x.Name != "_" {
				cur.Replace(&ast.Ident{NamePos: x.NamePos, Name: nameOf(o)})
			}
		}
		return true
	}, func(cur *astutil.Cursor) bool {
		switch x := cur.Node().(type) {
		case *ast.BinaryExpr:
			if f, ok := flip[x.Op]; ok {
				if nodeText(fset, x.X) > nodeText(fset, x.Y) {
					x.X, x.Y, x.Op = x.Y, x.X, f
				}
			}
		case *ast.SwitchStmt:
			if chain := ifChainOf(x); chain != nil {
				cur.Replace(chain)
			}
		}
		return true
	})
	return printNode(fset, res)
}

func nodeText(fset *token.FileSet, n ast.Node) string {
	return strings.Join(strings.Fields(printNode(fset, n)), " ")
}

// ifChainOf: `switch { case a, b: A; case c: C; default: D }` without init, fallthrough or a break that leaves the
// switch is `if a || b { A } else if c { C } else { D }`. nil when sw is not of that form.
func ifChainOf(sw *ast.SwitchStmt) ast.Stmt {
	if sw.Tag != nil || sw.Init != nil || sw.Body == nil {
		return nil
	}
	var cases []*ast.CaseClause
	var deflt *ast.CaseClause
	for _, s := range sw.Body.List {
		cc, ok := s.(*ast.CaseClause)
		if !ok {
			return nil
		}
		if leavesSwitch(cc.Body) {
			return nil
		}
		if cc.List == nil {
			deflt = cc
		} else {
			cases = append(cases, cc)
		}
	}
	if len(cases) == 0 {
		return nil
	}
	var tail ast.Stmt
	if deflt != nil {
		tail = &ast.BlockStmt{Lbrace: deflt.Colon, List: deflt.Body, Rbrace: sw.Body.Rbrace}
	}
	for i := len(cases) - 1; i >= 0; i-- {
		cc := cases[i]
		cond := cc.List[0]
		for _, e := range cc.List[1:] {
			cond = &ast.BinaryExpr{X: cond, OpPos: e.Pos(), Op: token.LOR, Y: e}
		}
		tail = &ast.IfStmt{If: cc.Case, Cond: cond, Body: &ast.BlockStmt{Lbrace: cc.Colon, List: cc.Body, Rbrace: sw.Body.Rbrace}, Else: tail}
	}
	return tail
}

// leavesSwitch: the statements contain a fallthrough, or an unlabelled break that is not inside a nested loop,
// switch or select (it would leave the switch; in an if-chain it would leave something else).
func leavesSwitch(list []ast.Stmt) bool {
	hit := false
	var walk func(n ast.Node)
	walk = func(n ast.Node) {
		ast.Inspect(n, func(m ast.Node) bool {
			if hit {
				return false
			}
			switch x := m.(type) {
			case *ast.ForStmt, *ast.RangeStmt, *ast.SwitchStmt, *ast.TypeSwitchStmt, *ast.SelectStmt, *ast.FuncLit:
				if m != n {
					// a break below belongs to this statement; a fallthrough cannot cross it either
					return false
				}
			case *ast.BranchStmt:
				if x.Tok == token.FALLTHROUGH || (x.Tok == token.BREAK && x.Label == nil) {
					hit = true
				}
			}
			return true
		})
	}
	for _, s := range list {
		walk(s)
	}
	return hit
}
