package main

// C02 — every sentence of an LALR(1) grammar is accepted (completeness).
// Decided: nothing the automaton offers is lost on the way to the emitted tables: coverage of transitions and
// lookaheads by the table writer, and emitted = computed (array ↔ field pairing, no slicing). The exactness of
// lookaheads (C03) and the losslessness of packing (C05) are prerequisites decided there.

import (
	"fmt"
	"go/ast"
	"go/token"
	"go/types"
	"strings"
)

func init() { register("C02", checkC02) }

func checkC02(c *Ctx, r *Report) {
	r.Explanation = "Coverage rules on the table writer: every transition is grouped under its source state; in CheckAndResolveConflict the reduce arm adds an action for every symbol of the transition's lookahead set (a range over the whole slice, unconditional append) and the shift arm for the transition's symbol; the pairwise fold ends with exactly one action per cell; GenTable stores every resolved key except ERROR; every reduce transition gets a lookahead set. Emitted = computed: the dense table is printed row by row, value by value, without slicing; the five packed arrays are paired with the fields whose role (payload / offsets / check / action defaults / goto defaults) the generated reader gives to each emitted name; the dense reader indexes [state][symbol]. Not decided: membership of any sentence; prerequisites C03 (lookaheads not under-approximated) and C05 (lossless packing) are listed as assumptions and decided by their own checks."
	r.Assumptions = append(r.Assumptions, "lookahead sets are LALR(1) (C03) and packing is lossless (C05): both have their own checks", "the LR(0) collection is canonical (C09)")
	st := c.GetStaged()
	stagedErrors(r, "C02", st)
	c02a(c, r)
	c02b(c, r, st)
	// C02.c prerequisites, evaluated here as well: a sentence is lost as soon as a lookahead is missing (C03),
	// a packed lookup differs from the dense table (C05) or a state/transition is missing (C09)
	includePrereq(c, r, "C02.c", checkC03)
	includePrereq(c, r, "C02.c", checkC05)
	includePrereq(c, r, "C02.c", checkC09)
	// a sentence's token codes must select the columns of their own terminals (C11.c, translate), and the grammar whose
	// sentences are meant is the one written in the file (C10.c rules and order, C10.d tokenisation)
	includeSome(r, "C02.c", func(sub *Report) { c11c(c, sub, st) }, "buildTranslate")
	includeClauses(c, r, "C02.c", checkC10, "C10.c", "C10.d")
	// a shift into the state whose number equals the error code would be read as a syntax error (C06.b)
	includeSome(r, "C02.c", func(sub *Report) { c06b(c, sub) }, "GenAcceptCode", "GenErrorCode")
}

func c02a(c *Ctx, r *Report) {
	const clause = "C02.a"
	f := c.need(r, clause, "LALR", "LALR1", "CheckAndResolveConflict")
	if f == nil {
		return
	}
	info := f.Pkg.TypesInfo
	// the loop over the state's transitions
	var tl *ast.RangeStmt
	ast.Inspect(f.Decl.Body, func(n ast.Node) bool {
		if rs, ok := n.(*ast.RangeStmt); ok && tl == nil {
			if ps := paramObjs(info, f.Decl); len(ps) == 2 && identObj(info, rs.X) == ps[1] {
				tl = rs
			}
		}
		return true
	})
	if tl == nil {
		r.Undecided(clause, "R2 COVERAGE", f.Name+"/transition-loop", c.pos(f.Decl.Pos()), "no loop over the state's transition list")
		return
	}
	// reduce arm: range over LookAheadSet[tr.Index] — whole slice
	var la *ast.RangeStmt
	ast.Inspect(tl.Body, func(n ast.Node) bool {
		if rs, ok := n.(*ast.RangeStmt); ok {
			if ix, ok := unparen(rs.X).(*ast.IndexExpr); ok {
				if fv := fieldVar(info, ix.X); fv != nil && fv.Name() == "LookAheadSet" {
					la = rs
				}
			}
			if _, isSlice := unparen(rs.X).(*ast.SliceExpr); isSlice {
				if strings.Contains(exprString(rs.X), "LookAheadSet") {
					la = nil
					r.Fail(clause, "R2 COVERAGE", f.Name+"/reduce-for-every-lookahead", c.pos(rs.Pos()), "the reduce arm iterates over a sub-slice of the lookahead set ("+exprString(rs.X)+"): a lookahead symbol gets no reduce action and sentences of the grammar are rejected")
				}
			}
		}
		return true
	})
	if la != nil {
		idxOK := strings.HasSuffix(exprString(unparen(la.X).(*ast.IndexExpr).Index), ".Index")
		// body appends unconditionally to action_set[sy]
		el := identObj(info, la.Value)
		uncond := false
		for _, s := range la.Body.List {
			if as, ok := s.(*ast.AssignStmt); ok && len(as.Lhs) == 1 {
				if ix, ok := unparen(as.Lhs[0]).(*ast.IndexExpr); ok && identObj(info, ix.Index) == el && isAppendSelf(info, as.Lhs[0], as.Rhs[0]) {
					uncond = true
				}
			}
		}
		exits := false
		ast.Inspect(la.Body, func(n ast.Node) bool {
			if br, ok := n.(*ast.BranchStmt); ok && (br.Tok == token.BREAK || br.Tok == token.CONTINUE) {
				exits = true
			}
			return true
		})
		r.Check(idxOK && uncond && !exits, clause, "R2 COVERAGE", f.Name+"/reduce-for-every-lookahead", c.pos(la.Pos()),
			"for every symbol of the reduce transition's own lookahead set a reduce action is appended to that symbol's cell, unconditionally",
			fmt.Sprintf("not every lookahead symbol receives its reduce action (set indexed by the transition's Index: %v, unconditional append keyed by the symbol: %v, early exits: %v)", idxOK, uncond, exits))
	} else {
		r.Undecided(clause, "R2 COVERAGE", f.Name+"/reduce-for-every-lookahead", c.pos(tl.Pos()), "no loop over LookAheadSet[tr.Index]")
	}
	// shift arm: keyed by the transition's symbol
	pe := newPathEnum(info)
	paths, err := pe.Enumerate(tl.Body.List)
	if err == nil {
		shiftOK := false
		for _, p := range paths {
			isShift := false
			for _, cd := range p.Conds {
				if strings.Contains(cd.Atom.String(), "sym_or_rule &") && normCondIsZero(cd) {
					isShift = true
				}
			}
			if !isShift {
				continue
			}
			for _, e := range p.Effects {
				if e.Kind == "store" && e.LHS.Op == "index" && strings.HasSuffix(e.LHS.Args[1].String(), ".sym_or_rule") && e.Term.Op == "call" && e.Term.Name == "append" {
					shiftOK = true
				}
			}
		}
		r.Check(shiftOK, clause, "R2 COVERAGE", f.Name+"/shift-for-every-transition", c.pos(tl.Pos()),
			"every shift/goto transition appends its action to the cell of its own symbol", "a shift/goto transition does not always append its action to the cell of its own symbol")
	}
	// fold ends with one action stored back
	var fold *ast.ForStmt
	ast.Inspect(f.Decl.Body, func(n ast.Node) bool {
		if fs, ok := n.(*ast.ForStmt); ok && fs.Cond == nil && fs.Init == nil {
			fold = fs
		}
		return true
	})
	if fold != nil {
		pe := newPathEnum(info)
		fp, err := pe.Enumerate(fold.Body.List)
		ok := err == nil
		stored, shrinks := false, false
		for _, p := range fp {
			one := false
			for _, cd := range p.Conds {
				if cd.Pol && strings.Contains(normCond(cd), "1 == len(") {
					one = true
				}
			}
			if one {
				for _, e := range p.Effects {
					if e.Kind == "store" && e.LHS.Op == "index" {
						stored = true
					}
				}
				if p.Kind != "break" {
					ok = false
				}
			} else if p.Kind == "fall" {
				// res[1] = act; res = res[1:]
				for _, e := range p.Effects {
					if e.Kind == "store" && e.LHS.Op == "index" && e.LHS.Args[1].String() == "1" {
						shrinks = true
					}
				}
			}
		}
		r.Check(ok && stored && shrinks, clause, "R2 COVERAGE", f.Name+"/fold-leaves-one-action", c.pos(fold.Pos()),
			"the pairwise fold replaces the first two candidates by the winner until one is left, and stores it back into the cell", "the conflict fold does not end with exactly one action stored back into the cell")
	}
	// the fold runs for every cell with two or more candidates
	if fl, _ := findFoldLoop(info, f.Decl); fl != nil {
		pm := parentMap(f.Decl.Body)
		why := ""
		for cur := ast.Node(fl); cur != nil && why == ""; cur = pm[cur] {
			is, ok := pm[cur].(*ast.IfStmt)
			if !ok {
				continue
			}
			if cur != ast.Node(is.Body) {
				why = "the fold sits in an else branch"
				break
			}
			// the condition must hold for every length ≥ 2: evaluate `len(x) OP k`
			be, ok := unparen(is.Cond).(*ast.BinaryExpr)
			if !ok {
				why = "the fold is guarded by `" + exprString(is.Cond) + "`, not by a test of the number of candidates"
				break
			}
			call, okc := unparen(be.X).(*ast.CallExpr)
			k, isC := constInt(info, be.Y)
			if !okc || builtinName(info, call) != "len" || !isC {
				why = "the fold is guarded by `" + exprString(is.Cond) + "`, not by a test of the number of candidates"
				break
			}
			for _, n := range []int64{2, 3, 7} {
				v := false
				switch be.Op {
				case token.GTR:
					v = n > k
				case token.GEQ:
					v = n >= k
				case token.NEQ:
					v = n != k
				case token.LSS:
					v = n < k
				case token.LEQ:
					v = n <= k
				case token.EQL:
					v = n == k
				}
				if !v {
					why = fmt.Sprintf("cells with %d candidate actions are not folded (guard `%s`): the first candidate is taken without consulting precedence or the default rules", n, exprString(is.Cond))
				}
			}
		}
		r.Check(why == "", clause, "R2 COVERAGE", f.Name+"/fold-covers-every-conflict", c.pos(fl.Pos()),
			"every cell with two or more candidate actions goes through the fold", why)
	}
	// GenTable: transitions are grouped by their source state, every state gets exactly one row
	if g := c.need(r, clause, "LALR", "LALR1", "GenTable"); g != nil {
		cf := newCoverFn(g)
		ginfo := cf.info
		// grouping
		why := "no loop that groups the transitions by source state"
		for _, rs := range cf.rangesOver(nil, func(e ast.Expr) bool { return fieldNamed(ginfo, e, "trans") }) {
			tr := identObj(ginfo, rs.Value)
			var stateVar types.Object
			if outer, ok := cf.pm[cf.pm[rs]].(*ast.RangeStmt); ok && fieldNamed(ginfo, outer.X, "LR0Closure") && outer.Value == nil {
				stateVar = identObj(ginfo, outer.Key)
				if !cf.unconditional(outer, g.Decl.Body) || !noSkips(outer.Body) {
					continue
				}
			}
			if tr == nil || stateVar == nil || !noSkips(rs.Body) {
				continue
			}
			ast.Inspect(rs.Body, func(n ast.Node) bool {
				as, ok := n.(*ast.AssignStmt)
				if !ok || len(as.Lhs) != 1 || len(as.Rhs) != 1 {
					return true
				}
				ix, ok := unparen(as.Lhs[0]).(*ast.IndexExpr)
				if !ok || identObj(ginfo, ix.Index) != stateVar {
					return true
				}
				call, ok := unparen(as.Rhs[0]).(*ast.CallExpr)
				if !ok || builtinName(ginfo, call) != "append" || len(call.Args) != 2 || exprString(call.Args[0]) != exprString(as.Lhs[0]) || identObj(ginfo, call.Args[1]) != tr {
					return true
				}
				atoms := guardAtoms(c, g, as)
				if len(atoms) == 1 && !strings.HasPrefix(atoms[0], "!") && strings.Contains(atoms[0], ".q") && strings.Contains(atoms[0], " == ") {
					why = ""
				} else {
					why = fmt.Sprintf("a transition joins a state's group under %v, not exactly when its source is that state", atoms)
				}
				return true
			})
		}
		if why != "" && groupsByOwnSource(c, g) {
			why = ""
		}
		r.Check(why == "", clause, "R2 COVERAGE", g.Name+"/transitions-grouped-by-source-state", c.pos(g.Decl.Pos()),
			"for every state, exactly the transitions whose source is that state are handed to CheckAndResolveConflict", why)
		// rows
		why = "no loop over all states that appends one row each"
		for _, st := range g.Decl.Body.List {
			full, body, qv := fullRangeLoop(ginfo, st)
			if full == nil || !fieldNamed(ginfo, full, "LR0Closure") {
				continue
			}
			pe := newPathEnum(ginfo)
			paths, err := pe.Enumerate(body.List)
			if err != nil {
				why = err.Error()
				continue
			}
			why = ""
			usesState := false
			ast.Inspect(body, func(n ast.Node) bool {
				if call, ok := n.(*ast.CallExpr); ok {
					if fn := callee(ginfo, call); fn != nil && fn.Name() == "CheckAndResolveConflict" && len(call.Args) == 2 && identObj(ginfo, call.Args[0]) == qv {
						if ix, ok := unparen(call.Args[1]).(*ast.IndexExpr); ok && identObj(ginfo, ix.Index) == qv {
							usesState = true
						}
					}
				}
				return true
			})
			if !usesState {
				why = "a row is not computed from the loop's own state and its own transition group"
			}
			for _, p := range paths {
				appends := 0
				for _, t := range p.Env {
					if t != nil && t.Op == "call" && t.Name == "append" && len(t.Args) == 2 && strings.HasSuffix(t.Args[0].String(), t.Args[0].String()) {
						if t.Args[0].Op == "leaf" {
							appends++
						}
					}
				}
				resolved := false
				for _, e := range p.Effects {
					if e.Kind == "call" && strings.HasSuffix(e.Term.Name, "CheckAndResolveConflict") {
						resolved = true
					}
				}
				switch p.Kind {
				case "fall", "continue":
					if appends != 1 {
						why = fmt.Sprintf("a state's iteration can end without appending exactly one row (path [%s])", p.CondString())
					} else if !resolved {
						why = fmt.Sprintf("a row is appended on a path that never asks CheckAndResolveConflict for the state's actions (path [%s]): transitions of that state can be left out of the table", p.CondString())
					}
				case "return":
					if len(p.Vals) != 2 || p.Vals[1].String() == "nil" {
						why = "the row loop can return without an error before all states have a row"
					}
				default:
					why = "the row loop can be left by " + p.Kind
				}
			}
		}
		r.Check(why == "", clause, "R2 COVERAGE", g.Name+"/one-row-per-state", c.pos(g.Decl.Pos()),
			"the table gets exactly one row per state, for states 0 … n−1 in order (the loop starts at 0 and covers len(LR0Closure))", why)
	}
	// the table GenTable returned is the one that is split, packed, kept as GTable and emitted
	if cl := c.need(r, clause, "LALR", "", "ComputeLALR"); cl != nil {
		cinfo := cl.Pkg.TypesInfo
		var tabObj types.Object
		var split *ast.CallExpr
		ast.Inspect(cl.Decl.Body, func(n ast.Node) bool {
			switch x := n.(type) {
			case *ast.AssignStmt:
				if len(x.Rhs) == 1 {
					if call, ok := unparen(x.Rhs[0]).(*ast.CallExpr); ok {
						if fn := callee(cinfo, call); fn != nil && fn.Name() == "GenTable" && len(x.Lhs) == 2 {
							tabObj = identObj(cinfo, x.Lhs[0])
						}
					}
				}
			case *ast.CallExpr:
				if fn := callee(cinfo, x); fn != nil && fn.Name() == "TrySplitTable" {
					split = x
				}
			}
			return true
		})
		why := ""
		switch {
		case tabObj == nil || split == nil:
			why = "GenTable's result or the TrySplitTable call was not found"
		case len(split.Args) != 1 || identObj(cinfo, split.Args[0]) != tabObj:
			why = "TrySplitTable is not given the table GenTable returned"
		default:
			// guards of the call: only the error test of GenTable
			for _, a := range guardAtoms(c, cl, split) {
				if !strings.Contains(a, "nil") {
					why = "TrySplitTable(tab) runs only under `" + a + "`"
				}
			}
		}
		if ts := c.need(r, clause, "LALR", "LALR1", "TrySplitTable"); ts != nil && why == "" {
			tinfo := ts.Pkg.TypesInfo
			ps := paramObjs(tinfo, ts.Decl)
			kept := false
			for _, st := range ts.Decl.Body.List {
				if leaves(st) {
					break
				}
				if is, ok := st.(*ast.IfStmt); ok && endsInExit(is.Body) {
					break
				}
				if as, ok := st.(*ast.AssignStmt); ok && len(as.Lhs) == 1 && len(as.Rhs) == 1 && fieldNamed(tinfo, as.Lhs[0], "GTable") && len(ps) == 1 && identObj(tinfo, as.Rhs[0]) == ps[0] {
					kept = true
				}
			}
			if !kept {
				why = "TrySplitTable does not keep its argument as GTable before anything can return: the dense output and the diagram would show another (or no) table"
			}
		}
		r.Check(why == "", clause, "R1 PROVENANCE", cl.Name+"/generated-table-is-the-emitted-table", c.pos(cl.Decl.Pos()),
			"the table returned by GenTable is handed to TrySplitTable on the success path and kept there as GTable (the dense output) before it is split and packed", why)
	}
	// every reduce transition gets a lookahead set
	if g := c.need(r, clause, "LALR", "LALR1", "CalcLookAheadSet"); g != nil {
		ginfo := g.Pkg.TypesInfo
		ok := false
		ast.Inspect(g.Decl.Body, func(n ast.Node) bool {
			rs, isR := n.(*ast.RangeStmt)
			if !isR {
				return true
			}
			// the ranged sequence is fetchReduceTransistor() — called in place or held in a local with a single definition
			if call, isC := newCoverFn(g).resolve(rs.X).(*ast.CallExpr); !isC || callee(ginfo, call) == nil || callee(ginfo, call).Name() != "fetchReduceTransistor" {
				return true
			}
			pe := newPathEnum(ginfo)
			ps, err := pe.Enumerate(rs.Body.List)
			if err != nil {
				return true
			}
			all := len(ps) > 0
			any := false
			for _, p := range ps {
				has := false
				for _, e := range p.Effects {
					if e.Kind == "store" && strings.Contains(e.LHS.String(), "LookAheadSet[") {
						has = true
						any = true
					}
				}
				if !has {
					all = false
				}
			}
			if any {
				ok = all
			}
			return true
		})
		r.Check(ok, clause, "R2 COVERAGE", g.Name+"/every-reduce-transition-gets-a-set", c.pos(g.Decl.Pos()), "every reduce transition is assigned its lookahead set on every path", "some reduce transition is left without a lookahead set: its reduction never enters the table")
	}
	// fetchReduceTransistor returns all transitions with the rule bit
	if g := c.need(r, clause, "LALR", "LALR1", "fetchReduceTransistor"); g != nil {
		ginfo := g.Pkg.TypesInfo
		ok := false
		ast.Inspect(g.Decl.Body, func(n ast.Node) bool {
			if rs, isR := n.(*ast.RangeStmt); isR {
				if fv := fieldVar(ginfo, rs.X); fv != nil && fv.Name() == "trans" {
					pe := newPathEnum(ginfo)
					ps, err := pe.Enumerate(rs.Body.List)
					if err == nil && len(ps) == 2 {
						ok = true
						for _, p := range ps {
							app := false
							for _, t := range p.Env {
								if t != nil && t.Op == "call" && t.Name == "append" {
									app = true
								}
							}
							bit := false
							for _, cd := range p.Conds {
								if strings.Contains(cd.Atom.String(), "sym_or_rule &") && !normCondIsZero(cd) {
									bit = true
								}
							}
							if app != bit {
								ok = false
							}
						}
					}
				}
			}
			return true
		})
		r.Check(ok, clause, "R2 COVERAGE", g.Name, c.pos(g.Decl.Pos()), "returns exactly the transitions that carry the rule bit, in order", "does not return exactly the transitions with the rule bit set")
	}
}

// normCondIsZero: the condition states `(x & mask) == 0` (in whichever polarity / operator it was written).
func normCondIsZero(cd Cond) bool {
	s := normCond(cd)
	if strings.HasPrefix(s, "not(") {
		return false
	}
	return strings.Contains(s, "== ") && (strings.HasPrefix(s, "0 == ") || strings.HasSuffix(s, " == 0"))
}

func c02b(c *Ctx, r *Report, st *Staged) {
	const clause = "C02.b"
	// dense emission
	type be struct {
		name string
		ev   *ShapeEval
	}
	var bes []be
	if sc := configOf(st, "go/global/dense"); sc != nil {
		bes = append(bes, be{"Builder.(*TemplateBuilder).buildAnalyTable[dense]", sc.Eval})
	}
	if st.TS != nil && st.TS.Eval != nil {
		bes = append(bes, be{"Builder.(*TsBuilder).buildAnalyTable", st.TS.Eval})
	}
	for _, b := range bes {
		sh, pos := fieldShapeOf(b.ev, "AnalyTable")
		if sh == nil {
			r.Fail(clause, "R1 PROVENANCE", b.name, "Builder", "the dense table is never emitted")
			continue
		}
		loops := loopsIn(sh)
		var rows, cells *SLoop
		for _, l := range loops {
			if l.Over == "recv.vnode.LALR1.GTable" {
				rows = l
			}
			if l.Over == "elem(recv.vnode.LALR1.GTable)" {
				cells = l
			}
		}
		cellHole := false
		for _, h := range holesOf(sh) {
			if h.Path == "elem(elem(recv.vnode.LALR1.GTable))" {
				cellHole = true
			}
		}
		filtered := false
		if rows != nil {
			walkShape(rows.Body, func(x Shape) {
				if _, ok := x.(*SAlt); ok {
					filtered = true
				}
			})
		}
		r.Check(rows != nil && cells != nil && cellHole && !filtered, clause, "R1 PROVENANCE", b.name+"/every-row-every-value", c.pos(pos),
			"the emitted table is every row of GTable and every value of each row, in order, unconditionally", "the emitted dense table is not the complete GTable (row loop, cell loop, cell value or an added filter)")
	}
	// packed pairing
	if sc := configOf(st, "go/global/packed"); sc != nil {
		sh, pos := fieldShapeOf(sc.Eval, "PackAnalyTable")
		if sh == nil {
			r.Fail(clause, "R1 PROVENANCE", "Builder.(*TemplateBuilder).buildAnalyTable[packed]", "Builder", "the packed arrays are never emitted")
		} else {
			// reader roles by emitted name (as used by the generated Action), writer roles by field
			readerRole := map[string]string{"StatePackAction": "payload", "StatePackOffset": "row offsets", "StackPackCheck": "check vector", "StackPackActDef": "action defaults", "StackPackGotoDef": "goto defaults"}
			writerField := map[string]string{"payload": "ActionTable", "row offsets": "OffsetTable", "check vector": "CheckTable", "action defaults": "ActionDef", "goto defaults": "GoToDef"}
			parts := flatten(sh)
			for name, role := range readerRole {
				got := ""
				for i, p := range parts {
					if p.hole == nil && strings.Contains(p.lit, "var "+name+" = []int {") {
						// the literal may contain several declarations: the one that ends the literal is followed by its loop
						if strings.HasSuffix(strings.TrimRight(p.lit, " \t\n"), "var "+name+" = []int {") && i+1 < len(parts) && parts[i+1].hole != nil {
							got = parts[i+1].hole.Path
						}
					}
				}
				want := "elem(recv.vnode.LALR1." + writerField[role] + ")"
				r.Check(got == want, clause, "R1 PROVENANCE", "Builder.(*TemplateBuilder).buildAnalyTable[packed]/"+name, c.pos(pos),
					fmt.Sprintf("%s (the reader's %s) is emitted from %s", name, role, writerField[role]),
					fmt.Sprintf("%s, which the generated Action uses as %s, is emitted from %q instead of %s", name, role, got, writerField[role]))
			}
		}
	}
	// dense readers
	for _, sk := range quickSkeletons(st) {
		if sk.V.Packed || sk.File == nil || len(sk.TypeErs) > 0 {
			continue
		}
		fd := sk.FuncDecl("StateSym", "Action")
		name := "skeleton " + sk.V.Name + "/(*StateSym).Action"
		if fd == nil {
			r.Fail(clause, "R4 DECISION-TABLE", name, sk.pos(token.NoPos), "no Action reader")
			continue
		}
		src := strings.Join(strings.Fields(printNode(sk.Fset, fd.Body)), " ")
		r.Check(src == "{ return StateActionArray[s.Yystate][a] }", clause, "R4 DECISION-TABLE", name, sk.pos(fd.Pos()),
			"the dense reader is table[state][symbol]", "the dense reader is `"+src+"`, expected StateActionArray[s.Yystate][a]")
	}
	if st.TS != nil && st.TS.Eval != nil {
		sh, _ := fieldShapeOf(st.TS.Eval, "UnionPart")
		txt := ""
		for _, p := range flatten(sh) {
			txt += p.lit
		}
		ok := strings.Contains(strings.Join(strings.Fields(txt), " "), "Action(a :number) :number { return StateActionArray[this.Yystate][a] }")
		r.Check(ok, clause, "R4 DECISION-TABLE", "typescript/StateSym.Action", "Builder/TsGenCode.go (UnionPart literal)", "the TypeScript reader is table[state][symbol]", "the TypeScript reader is not StateActionArray[this.Yystate][a]")
	}
}

// groupsByOwnSource: the one-pass form of the grouping — a single unconditional loop over all transitions that appends
// each transition to the group indexed by its OWN source state (`set[tr.q] = append(set[tr.q], tr)`), guarded at most
// by range checks of that source state against 0 and the number of states (a transition outside that range belongs
// to no row anyway).
func groupsByOwnSource(c *Ctx, g *FuncRef) bool {
	cf := newCoverFn(g)
	info := cf.info
	ok := false
	for _, rs := range cf.rangesOver(nil, func(e ast.Expr) bool { return fieldNamed(info, e, "trans") }) {
		tr := identObj(info, rs.Value)
		if tr == nil || cf.pm[rs] != ast.Node(g.Decl.Body) || !cf.unconditional(rs, g.Decl.Body) || !noSkips(rs.Body) {
			continue
		}
		ast.Inspect(rs.Body, func(n ast.Node) bool {
			as, isA := n.(*ast.AssignStmt)
			if !isA || len(as.Lhs) != 1 || len(as.Rhs) != 1 {
				return true
			}
			ix, isI := unparen(as.Lhs[0]).(*ast.IndexExpr)
			if !isI || !cf.selOn(ix.Index, "q", tr) {
				return true
			}
			call, isC := unparen(as.Rhs[0]).(*ast.CallExpr)
			if !isC || builtinName(info, call) != "append" || len(call.Args) != 2 || exprString(call.Args[0]) != exprString(as.Lhs[0]) || identObj(info, call.Args[1]) != tr {
				return true
			}
			good := true
			for _, a := range guardAtoms(c, g, as) {
				// allowed: `<tr>.q >= 0`, `<tr>.q < len(…LR0Closure)` (also through a local defined as that length)
				if strings.HasPrefix(a, "(elem(") && strings.Contains(a, ").q >= 0)") {
					continue
				}
				if strings.HasPrefix(a, "(elem(") && strings.Contains(a, ").q < len(") && strings.HasSuffix(a, ".LR0Closure))") {
					continue
				}
				good = false
			}
			ok = good
			return true
		})
	}
	return ok
}
