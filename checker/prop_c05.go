package main

// C05 — table compression is lossless.
// Decided: (a) the trim loop cannot skip an occupied slot and moves payload, check vector and offsets in
// lockstep; (b) the readers of the packed representation (debug self-check, UnPackTable, generated Action)
// are the same decision table and invert the writer's column layout; (c) packer pairing obligations;
// (d) gating of the packed output. Not decided: the first-fit invariant itself on run-time matrices.

import (
	"fmt"
	"go/ast"
	"go/constant"
	"go/token"
	"go/types"
	"strconv"
	"strings"
)

func init() { register("C05", checkC05) }

func checkC05(c *Ctx, r *Report) {
	r.Explanation = "R15 DOUBLE-ADVANCE over every loop of the repository (a loop that re-slices s = s[c:] may test s only at constant indices < c); R3 LOCKSTEP of payload/check/offsets in the trim loop; R4 sibling decision tables of the packed-table readers (debug self-check in TrySplitTable, UnPackTable, generated Action in every packed skeleton) normalised to roles ACT/OFF/CHK/ROW/COL; R13 affine agreement between the writer's column layout (NT+1+i) and the reader's default index (a−NT−1); pairing rules of the packer. Not decided: absence of slot collisions of first-fit on run-time matrices; the readers' `off+a<0 ⇒ error` shortcut is recorded as an assumption."
	r.Assumptions = append(r.Assumptions,
		"rows whose default action is not the error code keep an explicit entry in column 0 or have a non-negative offset, so `offset+symbol < 0 ⇒ error` is sound (not decided statically)",
		"first-fit placement never lets two rows share a slot (dynamic invariant of PackTable's scan, only its restart/marking structure is checked)")
	c05a(c, r)
	c05bRepo(c, r)
	c05bWriter(c, r)
	c05VtSet(c, r, "C05.b")
	c05c(c, r)
	c05d(c, r)
	c05Staged(c, r)
}

// ---------------------------------------------------------------------------------------------
// R15 DOUBLE-ADVANCE

type r15Finding struct {
	pos    token.Pos
	slice  string
	detail string
}

// r15Scan inspects every for-loop under root.
func r15Scan(info *types.Info, root ast.Node) (loops int, findings []r15Finding) {
	ast.Inspect(root, func(n ast.Node) bool {
		fs, ok := n.(*ast.ForStmt)
		if !ok {
			return true
		}
		// re-slices directly in this loop (not in nested function literals)
		type reslice struct {
			obj types.Object
			c   int64
		}
		var rs []reslice
		ast.Inspect(fs.Body, func(m ast.Node) bool {
			if _, ok := m.(*ast.FuncLit); ok {
				return false
			}
			as, ok := m.(*ast.AssignStmt)
			if !ok || as.Tok != token.ASSIGN || len(as.Lhs) != len(as.Rhs) {
				return true
			}
			for i, l := range as.Lhs {
				lo := identObj(info, l)
				se, ok := unparen(as.Rhs[i]).(*ast.SliceExpr)
				if lo == nil || !ok || se.High != nil || se.Low == nil || identObj(info, se.X) != lo {
					continue
				}
				if cv, ok := constInt(info, se.Low); ok && cv >= 1 {
					rs = append(rs, reslice{lo, cv})
				}
			}
			return true
		})
		if len(rs) == 0 {
			return true
		}
		loops++
		for _, x := range rs {
			check := func(part ast.Node) {
				if part == nil {
					return
				}
				ast.Inspect(part, func(m ast.Node) bool {
					if _, ok := m.(*ast.FuncLit); ok {
						return false
					}
					ix, ok := m.(*ast.IndexExpr)
					if !ok || identObj(info, ix.X) != x.obj {
						return true
					}
					if _, ok := constInt(info, ix.Index); ok {
						// a constant window over an advancing base (e.g. the fold res[0], res[1]; res = res[1:])
						// still visits every slot: not the bug pattern
						return true
					}
					findings = append(findings, r15Finding{ix.Pos(), x.obj.Name(), fmt.Sprintf("the loop advances the base of %s (%s = %s[%d:]) and also indexes it with the non-constant %s: every second slot is skipped, an occupied slot can be dropped", x.obj.Name(), x.obj.Name(), x.obj.Name(), x.c, exprString(ix.Index))})
					return true
				})
			}
			if fs.Cond != nil {
				check(fs.Cond)
			}
			check(fs.Body)
			if fs.Post != nil {
				check(fs.Post)
			}
		}
		return true
	})
	return
}

func c05a(c *Ctx, r *Report) {
	const clause = "C05.a"
	total := 0
	nF := 0
	for _, f := range c.AllFuncs() {
		loops, fnd := r15Scan(f.Pkg.TypesInfo, f.Decl.Body)
		total += loops
		if loops > 0 && len(fnd) == 0 {
			r.OK(clause, "R15 DOUBLE-ADVANCE", f.Name+"/reslicing-loop", c.pos(f.Decl.Pos()), fmt.Sprintf("%d re-slicing loop(s): the advanced slice is tested only at constant indices below the step", loops))
		}
		for _, x := range fnd {
			nF++
			if f.Name == "Utils.PackTable" || strings.HasPrefix(f.Name, "LALR.(*LALR1).TrySplit") || strings.HasPrefix(f.Name, "LALR.(*LALR1).SplitAction") {
				r.Fail(clause, "R15 DOUBLE-ADVANCE", f.Name+"/reslicing-loop/"+x.slice, c.pos(x.pos), x.detail)
			} else {
				r.Note("R15 pattern outside the packing path (not a C05 obligation): %s at %s: %s", f.Name, c.pos(x.pos), x.detail)
			}
		}
	}
	r.Extra["C05.a_reslicing_loops"] = total
	// lockstep in PackTable
	f := c.need(r, clause, "Utils", "", "PackTable")
	if f == nil {
		return
	}
	info := f.Pkg.TypesInfo
	roles := packTableRoles(info, f.Decl)
	if roles == nil {
		r.Undecided(clause, "R3 LOCKSTEP", f.Name+"/trim", c.pos(f.Decl.Pos()), "PackTable does not end in `return <payload>, <offsets>, <check>` of three local slices")
		return
	}
	// every place that drops leading slots: `ACT = ACT[e:]`, `CHK = CHK[e:]`, `for j … { OFF[j] -= e }` must come as a
	// triple in one block (same guards, same iteration) with the same amount e — whether e is the constant 1 inside
	// a loop or a counted number of leading slots after it
	pm := parentMap(f.Decl.Body)
	type move struct {
		amt map[string]string // role -> canonical amount
		pos token.Pos
	}
	moves := map[*ast.BlockStmt]*move{}
	var order []*ast.BlockStmt
	get := func(n ast.Node) *move {
		blk, _ := pm[n].(*ast.BlockStmt)
		if blk == nil {
			return nil
		}
		if moves[blk] == nil {
			moves[blk] = &move{amt: map[string]string{}, pos: n.Pos()}
			order = append(order, blk)
		}
		return moves[blk]
	}
	amount := func(e ast.Expr) string {
		if cv, ok := constInt(info, e); ok {
			return fmt.Sprint(cv)
		}
		return exprString(e)
	}
	reslice := func(as *ast.AssignStmt, role string) (string, bool) {
		if len(as.Lhs) != 1 || len(as.Rhs) != 1 || as.Tok != token.ASSIGN || identObj(info, as.Lhs[0]) != roles[role] {
			return "", false
		}
		se, ok := unparen(as.Rhs[0]).(*ast.SliceExpr)
		if !ok || identObj(info, se.X) != roles[role] || se.Low == nil {
			return "", false
		}
		if se.High != nil {
			return "?(upper bound)", true
		}
		return amount(se.Low), true
	}
	ast.Inspect(f.Decl.Body, func(n ast.Node) bool {
		switch x := n.(type) {
		case *ast.AssignStmt:
			for _, role := range []string{"ACT", "CHK"} {
				if a, ok := reslice(x, role); ok {
					if m := get(x); m != nil {
						if prev, dup := m.amt[role]; dup {
							a = prev + "+" + a
						}
						m.amt[role] = a
					}
				}
			}
		case *ast.ForStmt, *ast.RangeStmt:
			full, body, idx := fullRangeLoop(info, x.(ast.Stmt))
			if full == nil || identObj(info, full) != roles["OFF"] || len(body.List) != 1 {
				return true
			}
			a := ""
			switch st := body.List[0].(type) {
			case *ast.IncDecStmt:
				if ix, ok := st.X.(*ast.IndexExpr); ok && st.Tok == token.DEC && identObj(info, ix.X) == roles["OFF"] && identObj(info, ix.Index) == idx {
					a = "1"
				}
			case *ast.AssignStmt:
				if len(st.Lhs) == 1 && st.Tok == token.SUB_ASSIGN {
					if ix, ok := st.Lhs[0].(*ast.IndexExpr); ok && identObj(info, ix.X) == roles["OFF"] && identObj(info, ix.Index) == idx {
						a = amount(st.Rhs[0])
					}
				}
			}
			if a != "" {
				if m := get(x); m != nil {
					if prev, dup := m.amt["OFF"]; dup {
						a = prev + "+" + a
					}
					m.amt["OFF"] = a
				}
			}
		}
		return true
	})
	for _, blk := range order {
		m := moves[blk]
		a, ch, off := m.amt["ACT"], m.amt["CHK"], m.amt["OFF"]
		ok := a != "" && a == ch && a == off && !strings.HasPrefix(a, "?")
		// a non-constant amount must not change between the three statements
		if ok {
			if _, err := strconv.Atoi(a); err != nil {
				for _, st := range blk.List {
					ast.Inspect(st, func(n ast.Node) bool {
						switch y := n.(type) {
						case *ast.AssignStmt:
							for _, l := range y.Lhs {
								if exprString(l) == a {
									ok = false
								}
							}
						case *ast.IncDecStmt:
							if exprString(y.X) == a {
								ok = false
							}
						}
						return true
					})
				}
			}
		}
		r.Check(ok, clause, "R3 LOCKSTEP", f.Name+"/trim-moves-payload-check-offsets-together", c.pos(m.pos),
			fmt.Sprintf("dropping %s leading slot(s): payload, check vector and every row offset move by the same amount, under the same guards", a),
			fmt.Sprintf("leading slots are dropped unevenly: payload re-sliced by %q, check vector by %q, row offsets lowered by %q (in one block they must all be the same amount): packed lookups would read shifted slots", a, ch, off))
	}
	// every dropped slot was tested empty: either the drop of c slots sits in a loop whose condition tests
	// ACT[0..c-1] == 0, or the amount is a counter that a preceding loop advances by one per tested slot ACT[n] == 0
	isEmptyTest := func(e ast.Expr, index string) bool {
		be, ok := unparen(e).(*ast.BinaryExpr)
		if !ok || be.Op != token.EQL {
			return false
		}
		for _, pair := range [][2]ast.Expr{{be.X, be.Y}, {be.Y, be.X}} {
			ix, ok := unparen(pair[0]).(*ast.IndexExpr)
			if !ok || identObj(info, ix.X) != roles["ACT"] || amount(ix.Index) != index {
				continue
			}
			if cv, ok := constInt(info, pair[1]); ok && cv == 0 {
				return true
			}
		}
		return false
	}
	for _, blk := range order {
		m := moves[blk]
		a := m.amt["ACT"]
		if a == "" || strings.HasPrefix(a, "?") {
			continue // reported by the lockstep obligation
		}
		why := ""
		if cnt, err := strconv.Atoi(a); err == nil {
			fs, _ := pm[blk].(*ast.ForStmt)
			if fs == nil || fs.Cond == nil {
				why = fmt.Sprintf("%d slot(s) are dropped outside a loop whose condition tests them", cnt)
			} else {
				for k := 0; k < cnt; k++ {
					tested := false
					for _, cj := range flattenAnd(fs.Cond) {
						if isEmptyTest(cj, fmt.Sprint(k)) {
							tested = true
						}
					}
					if !tested {
						why = fmt.Sprintf("slot %d is dropped without the loop condition testing it for 0", k)
					}
				}
			}
		} else {
			// counter form
			defs, incs, others := 0, 0, 0
			var incLoop *ast.ForStmt
			ast.Inspect(f.Decl.Body, func(n ast.Node) bool {
				switch y := n.(type) {
				case *ast.AssignStmt:
					for i, l := range y.Lhs {
						if exprString(l) != a {
							continue
						}
						if len(y.Lhs) == len(y.Rhs) && (y.Tok == token.DEFINE || y.Tok == token.ASSIGN) {
							if cv, ok := constInt(info, y.Rhs[i]); ok && cv == 0 {
								defs++
								continue
							}
						}
						others++
					}
				case *ast.ValueSpec:
					for i, nm := range y.Names {
						if nm.Name == a {
							if i >= len(y.Values) {
								defs++
							} else if cv, ok := constInt(info, y.Values[i]); ok && cv == 0 {
								defs++
							} else {
								others++
							}
						}
					}
				case *ast.IncDecStmt:
					if exprString(y.X) == a {
						if y.Tok == token.INC {
							incs++
							if b, ok := pm[y].(*ast.BlockStmt); ok && len(b.List) == 1 {
								incLoop, _ = pm[b].(*ast.ForStmt)
							}
						} else {
							others++
						}
					}
				}
				return true
			})
			switch {
			case defs != 1 || incs != 1 || others != 0:
				why = fmt.Sprintf("the amount %s is not a counter with one zero definition and one increment (%d definitions, %d increments, %d other writes)", a, defs, incs, others)
			case incLoop == nil || incLoop.Cond == nil || incLoop.Init != nil || incLoop.Post != nil:
				why = "the increment of " + a + " is not the whole body of a plain `for cond { " + a + "++ }` loop"
			case incLoop.End() > blk.Pos():
				why = "the counting loop does not precede the drop"
			default:
				tested := false
				for _, cj := range flattenAnd(incLoop.Cond) {
					if isEmptyTest(cj, a) {
						tested = true
					}
				}
				if !tested {
					why = "the counting loop advances " + a + " without testing slot ACT[" + a + "] for 0"
				}
			}
		}
		r.Check(why == "", clause, "R3 LOCKSTEP", f.Name+"/dropped-slots-were-tested-empty", c.pos(m.pos),
			fmt.Sprintf("each of the %s dropped leading slot(s) was compared with 0 by the guarding loop condition", a),
			"a leading slot can be dropped although it holds an entry: "+why)
	}
	if len(order) == 0 {
		r.OK(clause, "R3 LOCKSTEP", f.Name+"/trim-moves-payload-check-offsets-together", c.pos(f.Decl.Pos()), "nothing re-slices the payload or the check vector and nothing shifts the offsets: nothing to keep in lockstep")
	}
}

// packTableRoles maps roles to the local variables returned by PackTable: return ACT, OFF, CHK.
func packTableRoles(info *types.Info, fd *ast.FuncDecl) map[string]types.Object {
	var ret *ast.ReturnStmt
	for _, s := range fd.Body.List {
		if rs, ok := s.(*ast.ReturnStmt); ok {
			ret = rs
		}
	}
	if ret == nil || len(ret.Results) != 3 {
		return nil
	}
	roles := map[string]types.Object{}
	for i, n := range []string{"ACT", "OFF", "CHK"} {
		o := identObj(info, ret.Results[i])
		if o == nil {
			return nil
		}
		roles[n] = o
	}
	if len(fd.Type.Params.List) > 0 && len(fd.Type.Params.List[0].Names) > 0 {
		roles["TABLE"] = info.Defs[fd.Type.Params.List[0].Names[0]]
	}
	return roles
}

// ---------------------------------------------------------------------------------------------
// R4 sibling readers

// readerTable is the normalised decision table of one packed-table reader.
type readerTable struct {
	name  string
	pos   string
	paths []*PathOut
	// result extraction: returns the value term of the path
	result func(p *PathOut) *Term
}

// normCond renders a condition in canonical form using only "<" and "==".
func normCond(c Cond) string {
	a := c.Atom
	pol := c.Pol
	for a.Op == "not" {
		a = a.Args[0]
		pol = !pol
	}
	s := ""
	if a.Op == "cmp" {
		x, y := normTerm(a.Args[0]), normTerm(a.Args[1])
		switch a.Name {
		case "<":
			s = x + " < " + y
		case ">":
			s = y + " < " + x
		case ">=":
			s = x + " < " + y
			pol = !pol
		case "<=":
			s = y + " < " + x
			pol = !pol
		case "==", "!=":
			if x > y {
				x, y = y, x
			}
			s = x + " == " + y
			if a.Name == "!=" {
				pol = !pol
			}
		}
	} else {
		s = normTerm(a)
	}
	if !pol {
		return "not(" + s + ")"
	}
	return s
}

// normTerm prints a term with commutative operands sorted.
func normTerm(t *Term) string {
	if t == nil {
		return ""
	}
	switch t.Op {
	case "arith":
		if t.Name == "+" {
			ops := flattenAdd(t)
			var ss []string
			for _, o := range ops {
				ss = append(ss, normTerm(o))
			}
			sortStrings(ss)
			return "(" + strings.Join(ss, " + ") + ")"
		}
		return "(" + normTerm(t.Args[0]) + " " + t.Name + " " + normTerm(t.Args[1]) + ")"
	case "index":
		return normTerm(t.Args[0]) + "[" + normTerm(t.Args[1]) + "]"
	case "len":
		return "len(" + normTerm(t.Args[0]) + ")"
	case "field":
		return normTerm(t.Args[0]) + "." + t.Name
	case "call":
		var a []string
		for _, x := range t.Args {
			a = append(a, normTerm(x))
		}
		return t.Name + "(" + strings.Join(a, ", ") + ")"
	}
	return t.String()
}

func flattenAdd(t *Term) []*Term {
	if t.Op == "arith" && t.Name == "+" {
		return append(flattenAdd(t.Args[0]), flattenAdd(t.Args[1])...)
	}
	return []*Term{t}
}

func sortStrings(s []string) {
	for i := 1; i < len(s); i++ {
		for j := i; j > 0 && s[j] < s[j-1]; j-- {
			s[j], s[j-1] = s[j-1], s[j]
		}
	}
}

// checkReader verifies one reader against the reference table. kind: "unpack" (default 0, no split
// defaults) or "full" (error shortcut + act/goto defaults).
func checkReader(r *Report, clause string, rt readerTable, kind string) {
	idx := "(COL + OFF[ROW])"
	cNeg := idx + " < 0"
	cHigh := "not(" + idx + " < len(CHK))"
	cOwn := "CHK[" + idx + "] == ROW"
	cGoto := "NT < COL"
	nPayload := 0
	bad := []string{}
	for _, p := range rt.paths {
		conds := map[string]bool{}
		var order []string
		for _, c := range p.Conds {
			n := normCond(c)
			conds[n] = true
			order = append(order, n)
		}
		res := rt.result(p)
		if res == nil {
			continue // path does not produce a value (e.g. loop exits)
		}
		rs := normTerm(res)
		// guard order: any condition or result that indexes CHK/ACT at idx needs both bounds established before
		for i, n := range order {
			if strings.Contains(n, "CHK["+idx+"]") {
				pre := map[string]bool{}
				for _, m := range order[:i] {
					pre[m] = true
				}
				if !pre["not("+cNeg+")"] || !pre["not("+cHigh+")"] && !pre[idx+" < len(CHK)"] {
					bad = append(bad, fmt.Sprintf("path [%s] reads CHK[%s] before both bounds tests (%s, %s) have passed", strings.Join(order, " && "), idx, cNeg, cHigh))
				}
			}
		}
		inRange := conds["not("+cNeg+")"] && (conds[idx+" < len(CHK)"])
		owned := conds[cOwn]
		switch {
		case rs == "ACT["+idx+"]":
			nPayload++
			if !(inRange && owned) {
				bad = append(bad, fmt.Sprintf("path [%s] returns the payload slot without having established 0 <= idx < len(check) and check[idx] == row", strings.Join(order, " && ")))
			}
		case strings.Contains(rs, "ACT["):
			bad = append(bad, fmt.Sprintf("path [%s] reads the payload at %s, expected ACT[%s]", strings.Join(order, " && "), rs, idx))
		default:
			if inRange && owned {
				bad = append(bad, fmt.Sprintf("path [%s] owns the slot but returns %s instead of the payload", strings.Join(order, " && "), rs))
				break
			}
			if kind == "unpack" {
				if rs != "0" {
					bad = append(bad, fmt.Sprintf("path [%s] yields %s for a slot the row does not own, expected the blank value 0", strings.Join(order, " && "), rs))
				}
				break
			}
			// full reader
			switch {
			case conds[cNeg]:
				if !strings.Contains(rs, "ERROR") {
					bad = append(bad, fmt.Sprintf("path [%s] (negative slot) yields %s, expected the error code", strings.Join(order, " && "), rs))
				}
			case conds[cGoto]:
				if rs != "GOTODEF[((COL - NT) - 1)]" {
					bad = append(bad, fmt.Sprintf("path [%s] (nonterminal column, slot not owned) yields %s, expected GOTODEF[COL-NT-1]", strings.Join(order, " && "), rs))
				}
			case conds["not("+cGoto+")"]:
				if rs != "ACTDEF[ROW]" {
					bad = append(bad, fmt.Sprintf("path [%s] (action column, slot not owned) yields %s, expected ACTDEF[ROW]", strings.Join(order, " && "), rs))
				}
			default:
				bad = append(bad, fmt.Sprintf("path [%s] yields %s without choosing between the action default and the goto default on COL > NT", strings.Join(order, " && "), rs))
			}
		}
	}
	if nPayload == 0 {
		bad = append(bad, "no path returns the payload slot ACT["+idx+"]")
	}
	r.Check(len(bad) == 0, clause, "R4 SIBLING-READERS", rt.name, rt.pos,
		fmt.Sprintf("%d paths: bounds guards precede every check/payload read; payload iff 0<=off+a<len(check) && check[off+a]==row; otherwise the reference default", len(rt.paths)),
		fmt.Sprintf("reader deviates from the reference decision table (%d finding(s)); first: %s", len(bad), firstOf(bad)))
}

func firstOf(s []string) string {
	if len(s) == 0 {
		return ""
	}
	return s[0]
}

func c05bRepo(c *Ctx, r *Report) {
	const clause = "C05.b"
	// UnPackTable(rows, cols, T, D, C)
	if f := c.need(r, clause, "Utils", "", "UnPackTable"); f != nil {
		info := f.Pkg.TypesInfo
		ps := paramObjs(info, f.Decl)
		if len(ps) != 5 {
			r.Undecided(clause, "R4 SIBLING-READERS", f.Name, c.pos(f.Decl.Pos()), "expected parameters (rows, cols, T, D, C)")
		} else {
			// innermost if that indexes C
			var reader *ast.IfStmt
			ast.Inspect(f.Decl.Body, func(n ast.Node) bool {
				if is, ok := n.(*ast.IfStmt); ok && reader == nil {
					uses := false
					ast.Inspect(is.Cond, func(m ast.Node) bool {
						if ix, ok := m.(*ast.IndexExpr); ok && identObj(info, ix.X) == ps[4] {
							uses = true
						}
						return true
					})
					if uses {
						reader = is
					}
				}
				return true
			})
			if reader == nil {
				r.Undecided(clause, "R4 SIBLING-READERS", f.Name, c.pos(f.Decl.Pos()), "no conditional reading the check vector")
			} else {
				pe := newPathEnum(info)
				pe.rename[ps[2]] = "ACT"
				pe.rename[ps[3]] = "OFF"
				pe.rename[ps[4]] = "CHK"
				row, col := readerRowCol(info, reader, ps[3])
				if row == nil || col == nil {
					r.Undecided(clause, "R4 SIBLING-READERS", f.Name, c.pos(reader.Pos()), "cannot identify row/column variables (offset vector must be indexed by the row)")
				} else {
					pe.rename[row] = "ROW"
					pe.rename[col] = "COL"
					paths, err := pe.Enumerate([]ast.Stmt{reader})
					if err != nil {
						r.Undecided(clause, "R4 SIBLING-READERS", f.Name, c.pos(reader.Pos()), err.Error())
					} else {
						checkReader(r, clause, readerTable{name: f.Name, pos: c.pos(reader.Pos()), paths: paths, result: func(p *PathOut) *Term {
							for _, e := range p.Effects {
								if e.Kind == "store" && e.LHS.Op == "index" {
									return e.Term
								}
							}
							return nil
						}}, "unpack")
					}
				}
			}
		}
	}
	// debug self-check in TrySplitTable
	if f := c.need(r, clause, "LALR", "LALR1", "TrySplitTable"); f != nil {
		info := f.Pkg.TypesInfo
		roles := splitTableRoles(c, f)
		if roles.err != "" {
			r.Undecided(clause, "R4 SIBLING-READERS", f.Name+"/debug-self-check", c.pos(f.Decl.Pos()), roles.err)
			return
		}
		var reader *ast.IfStmt
		ast.Inspect(f.Decl.Body, func(n ast.Node) bool {
			if is, ok := n.(*ast.IfStmt); ok && reader == nil {
				uses := false
				// search the whole else-if chain conditions
				ast.Inspect(is, func(m ast.Node) bool {
					if ix, ok := m.(*ast.IndexExpr); ok && identObj(info, ix.X) == roles.obj["CHK"] {
						uses = true
					}
					return true
				})
				// the reader is the innermost statement list: require the if itself to test OFF
				usesOff := false
				ast.Inspect(is.Cond, func(m ast.Node) bool {
					if ix, ok := m.(*ast.IndexExpr); ok && identObj(info, ix.X) == roles.obj["OFF"] {
						usesOff = true
					}
					return true
				})
				if uses && usesOff {
					reader = is
				}
			}
			return true
		})
		if reader == nil {
			r.Note("TrySplitTable has no debug self-check reader (nothing to compare)")
			return
		}
		pe := newPathEnum(info)
		for role, o := range roles.obj {
			pe.rename[o] = role
		}
		row, col := readerRowCol(info, reader, roles.obj["OFF"])
		if row == nil || col == nil {
			r.Undecided(clause, "R4 SIBLING-READERS", f.Name+"/debug-self-check", c.pos(reader.Pos()), "cannot identify row/column variables")
			return
		}
		pe.rename[row] = "ROW"
		pe.rename[col] = "COL"
		paths, err := pe.Enumerate([]ast.Stmt{reader})
		if err != nil {
			r.Undecided(clause, "R4 SIBLING-READERS", f.Name+"/debug-self-check", c.pos(reader.Pos()), err.Error())
			return
		}
		// result variable: the local assigned in every arm
		var resObj types.Object
		ast.Inspect(reader, func(n ast.Node) bool {
			if as, ok := n.(*ast.AssignStmt); ok && len(as.Lhs) == 1 && resObj == nil {
				resObj = identObj(info, as.Lhs[0])
			}
			return true
		})
		checkReader(r, clause, readerTable{name: f.Name + "/debug-self-check", pos: c.pos(reader.Pos()), paths: paths, result: func(p *PathOut) *Term {
			if p.Env != nil && resObj != nil {
				if t, ok := p.Env[resObj]; ok {
					return renameErrorCall(t)
				}
			}
			return nil
		}}, "full")
	}
}

func renameErrorCall(t *Term) *Term {
	if t.Op == "call" && strings.HasSuffix(t.Name, "GenErrorCode") {
		return &Term{Op: "leaf", Name: "ERROR"}
	}
	return t
}

// readerRowCol: ROW is the variable indexing the offset vector; COL the variable added to it.
func readerRowCol(info *types.Info, root ast.Node, off types.Object) (row, col types.Object) {
	ast.Inspect(root, func(n ast.Node) bool {
		be, ok := n.(*ast.BinaryExpr)
		if !ok || be.Op != token.ADD {
			return true
		}
		try := func(a, b ast.Expr) {
			if ix, ok := unparen(a).(*ast.IndexExpr); ok && identObj(info, ix.X) == off {
				if ro := identObj(info, ix.Index); ro != nil {
					if co := identObj(info, b); co != nil {
						row, col = ro, co
					}
				}
			}
		}
		try(be.X, be.Y)
		try(be.Y, be.X)
		return true
	})
	return
}

type splitRoles struct {
	obj map[string]types.Object
	err string
	// the assignment statement of the packed arrays to the LALR1 fields
	fieldAssign  ast.Stmt
	packCall     *ast.CallExpr
	fieldOfRole  map[string]string
	needPackedAt ast.Stmt
}

// splitTableRoles identifies ACT/OFF/CHK (results of utils.PackTable), ACTDEF/GOTODEF (locals stored into
// the ActionDef/GoToDef fields) and NT (local defined as len(G.VtSet)) in TrySplitTable.
func splitTableRoles(c *Ctx, f *FuncRef) splitRoles {
	info := f.Pkg.TypesInfo
	res := splitRoles{obj: map[string]types.Object{}, fieldOfRole: map[string]string{}}
	ast.Inspect(f.Decl.Body, func(n ast.Node) bool {
		as, ok := n.(*ast.AssignStmt)
		if !ok {
			return true
		}
		if len(as.Rhs) == 1 && len(as.Lhs) == 3 {
			if call, ok := as.Rhs[0].(*ast.CallExpr); ok && isCallTo(info, call, "Utils.PackTable") {
				for i, role := range []string{"ACT", "OFF", "CHK"} {
					if o := identObj(info, as.Lhs[i]); o != nil {
						res.obj[role] = o
					}
				}
				res.packCall = call
			}
		}
		if len(as.Lhs) == len(as.Rhs) {
			for i, l := range as.Lhs {
				fv := fieldVar(info, l)
				if fv == nil {
					continue
				}
				o := identObj(info, as.Rhs[i])
				switch fv.Name() {
				case "ActionDef":
					if o != nil {
						res.obj["ACTDEF"] = o
					}
				case "GoToDef":
					if o != nil {
						res.obj["GOTODEF"] = o
					}
				case "ActionTable", "OffsetTable", "CheckTable":
					res.fieldAssign = as
					if o != nil {
						for role, ro := range res.obj {
							if ro == o {
								res.fieldOfRole[role] = fv.Name()
							}
						}
					}
				case "NeedPacked":
					if v := constOf(info, as.Rhs[i]); v != nil && v.ExactString() == "true" {
						res.needPackedAt = as
					}
				}
			}
		}
		if len(as.Lhs) == 1 && len(as.Rhs) == 1 && as.Tok == token.DEFINE {
			pc := &pathCtx{info: info}
			if p := pc.path(as.Rhs[0]); strings.HasPrefix(p, "len(") && strings.HasSuffix(p, ".G.VtSet)") {
				if o := identObj(info, as.Lhs[0]); o != nil {
					res.obj["NT"] = o
				}
			}
		}
		return true
	})
	for _, role := range []string{"ACT", "OFF", "CHK", "ACTDEF", "GOTODEF"} {
		if res.obj[role] == nil {
			res.err = "cannot identify the local holding " + role + " in TrySplitTable"
			return res
		}
	}
	return res
}

// ---------------------------------------------------------------------------------------------
// writer side: column layout (R13)

func c05bWriter(c *Ctx, r *Report) {
	const clause = "C05.b"
	f := c.need(r, clause, "LALR", "LALR1", "SplitActionAndGotoTable")
	g := c.need(r, clause, "LALR", "LALR1", "TrySplitTable")
	if f == nil || g == nil {
		return
	}
	info := f.Pkg.TypesInfo
	defs := newDefs(info)
	defs.scan(f.Decl.Body)
	var ntObj types.Object
	ast.Inspect(f.Decl.Body, func(n ast.Node) bool {
		if as, ok := n.(*ast.AssignStmt); ok && len(as.Lhs) == 1 && len(as.Rhs) == 1 && as.Tok == token.DEFINE {
			pc := &pathCtx{info: info}
			if p := pc.path(as.Rhs[0]); strings.HasPrefix(p, "len(") && strings.HasSuffix(p, ".G.VtSet)") {
				ntObj = identObj(info, as.Lhs[0])
			}
		}
		return true
	})
	if ntObj == nil {
		r.Undecided(clause, "R13 AFFINE", f.Name, c.pos(f.Decl.Pos()), "no local defined as len(G.VtSet)")
		return
	}
	pc := &pathCtx{info: info, defs: defs, root: f.Decl.Body, subst: map[types.Object]string{ntObj: "NT"}}
	actionWidthOK, gotoColOK := false, false
	var gotoIdx string
	ast.Inspect(f.Decl.Body, func(n ast.Node) bool {
		switch x := n.(type) {
		case *ast.CallExpr:
			if builtinName(info, x) == "copy" && len(x.Args) == 2 {
				if se, ok := x.Args[1].(*ast.SliceExpr); ok && se.Low == nil && se.High != nil {
					if pc.path(se.High) == "(NT + 1)" || pc.path(se.High) == "(1 + NT)" {
						// the destination must have exactly that many cells: make([]int, NT+1) — a local defined that
						// way, or a slot (A[i]) assigned that way by the statement just before the copy
						if d := identObj(info, x.Args[0]); d != nil && defs.count[d] == 1 {
							if mk, ok := unparen(defs.single[d]).(*ast.CallExpr); ok && builtinName(info, mk) == "make" && len(mk.Args) >= 2 {
								if normAffine(pc.path(mk.Args[1])) == normAffine(pc.path(se.High)) {
									actionWidthOK = true
								}
							}
						} else if prev := stmtBefore(f.Decl.Body, x); prev != nil {
							if as, ok := prev.(*ast.AssignStmt); ok && as.Tok == token.ASSIGN && len(as.Lhs) == 1 && len(as.Rhs) == 1 && exprString(unparen(as.Lhs[0])) == exprString(unparen(x.Args[0])) {
								if mk, ok := unparen(as.Rhs[0]).(*ast.CallExpr); ok && builtinName(info, mk) == "make" && len(mk.Args) >= 2 {
									if normAffine(pc.path(mk.Args[1])) == normAffine(pc.path(se.High)) {
										actionWidthOK = true
									}
								}
							}
						}
					}
				}
			}
		case *ast.IndexExpr:
			p := pc.path(x.Index)
			if strings.Contains(p, "NT") {
				gotoIdx = p
			}
		}
		return true
	})
	// goto row i reads dense column NT+i+1 for i from 0
	var iObj types.Object
	ast.Inspect(f.Decl.Body, func(n ast.Node) bool {
		if fs, ok := n.(*ast.ForStmt); ok {
			uses := false
			ast.Inspect(fs.Body, func(m ast.Node) bool {
				if ix, ok := m.(*ast.IndexExpr); ok && strings.Contains(pc.path(ix.Index), "NT") {
					uses = true
				}
				return true
			})
			if uses {
				if init, ok := fs.Init.(*ast.AssignStmt); ok && len(init.Lhs) == 1 {
					if v, ok := constInt(info, init.Rhs[0]); ok && v == 0 {
						if iObj == nil {
							iObj = identObj(info, init.Lhs[0])
						}
					}
				}
			}
		}
		return true
	})
	if iObj != nil {
		pc.subst[iObj] = "I"
		ast.Inspect(f.Decl.Body, func(n ast.Node) bool {
			if ix, ok := n.(*ast.IndexExpr); ok {
				p := normAffine(pc.path(ix.Index))
				if p == "I+NT+1" {
					gotoColOK = true
				}
			}
			return true
		})
	}
	r.Check(actionWidthOK && gotoColOK, clause, "R13 AFFINE", f.Name+"/column-layout", c.pos(f.Decl.Pos()),
		"action rows keep dense columns [0, NT+1); goto row i (i from 0) is dense column NT+1+i — the reader's default index a−NT−1 inverts it",
		fmt.Sprintf("writer column layout is not (action part = columns [0,NT+1), goto row i = column NT+1+i): action width ok=%v, goto column ok=%v (index %s)", actionWidthOK, gotoColOK, gotoIdx))

	// coverage of the split: every state gets an action row; every nonterminal column but the start symbol's gets a goto
	// row; a goto row has one cell per state and every cell is copied
	{
		cf := newCoverFn(f)
		ps := paramObjs(info, f.Decl)
		why := ""
		if len(ps) != 1 {
			why = "expected one parameter (the dense table)"
		}
		isTab := func(e ast.Expr) bool { return len(ps) == 1 && identObj(info, cf.resolve(e)) == ps[0] }
		// (1) action rows
		if why == "" {
			why = "no loop over all rows of the dense table that appends an action row"
			for _, s := range f.Decl.Body.List {
				full, body, iv := fullRangeLoop(info, s)
				if full == nil || !isTab(full) || !noSkips(body) {
					continue
				}
				for _, bs := range body.List {
					if as, ok := bs.(*ast.AssignStmt); ok && len(as.Lhs) == 1 && len(as.Rhs) == 1 {
						if call, ok := as.Rhs[0].(*ast.CallExpr); ok && builtinName(info, call) == "append" && len(call.Args) == 2 && exprString(call.Args[0]) == exprString(as.Lhs[0]) {
							why = ""
						}
						// or: A[i] = <row> with A := make([][]int, len(tab)) and i the loop's index
						if ix, ok := unparen(as.Lhs[0]).(*ast.IndexExpr); ok && as.Tok == token.ASSIGN && iv != nil && identObj(info, ix.Index) == iv {
							if a := identObj(info, ix.X); a != nil && cf.defs.count[a] == 1 {
								if mk, ok := unparen(cf.defs.single[a]).(*ast.CallExpr); ok && builtinName(info, mk) == "make" && len(mk.Args) == 2 {
									if lc, ok := unparen(mk.Args[1]).(*ast.CallExpr); ok && builtinName(info, lc) == "len" && len(lc.Args) == 1 && isTab(lc.Args[0]) {
										why = ""
									}
								}
							}
						}
					}
				}
			}
		}
		// (2)–(4) goto rows
		if why == "" {
			why = "no loop `for i := 0; i < <number of nonterminals without the start symbol>; i++` building the goto rows"
			for _, s := range f.Decl.Body.List {
				fs, ok := s.(*ast.ForStmt)
				if !ok || iObj == nil {
					continue
				}
				init, ok := fs.Init.(*ast.AssignStmt)
				if !ok || len(init.Lhs) != 1 || identObj(info, init.Lhs[0]) != iObj {
					continue
				}
				// bound: len(VnSet) - 1
				boundOK := false
				if be, ok := fs.Cond.(*ast.BinaryExpr); ok && be.Op == token.LSS && identObj(info, be.X) == iObj {
					if sub, ok := cf.resolve(be.Y).(*ast.BinaryExpr); ok && sub.Op == token.SUB {
						if call, ok := unparen(sub.X).(*ast.CallExpr); ok && builtinName(info, call) == "len" && len(call.Args) == 1 && fieldNamed(info, call.Args[0], "VnSet") {
							if v, isC := constInt(info, sub.Y); isC && v == 1 {
								boundOK = true
							}
						}
					}
				}
				post, okp := fs.Post.(*ast.IncDecStmt)
				if !boundOK || !okp || post.Tok != token.INC || identObj(info, post.X) != iObj {
					why = "the goto-row loop does not run i over 0 … len(VnSet)−2 in steps of one"
					continue
				}
				if !noSkips(fs.Body) {
					why = "the goto-row loop can skip a nonterminal"
					continue
				}
				// row := make([]int, len(tab)); inner full loop over row (or tab) storing row[j] = tab[j][…]; append
				var rowObj types.Object
				appended, copied := false, false
				for _, bs := range fs.Body.List {
					switch x := bs.(type) {
					case *ast.AssignStmt:
						if len(x.Lhs) == 1 && len(x.Rhs) == 1 {
							if call, ok := x.Rhs[0].(*ast.CallExpr); ok {
								switch builtinName(info, call) {
								case "make":
									if len(call.Args) >= 2 {
										if lc, ok := unparen(call.Args[1]).(*ast.CallExpr); ok && builtinName(info, lc) == "len" && len(lc.Args) == 1 && isTab(lc.Args[0]) {
											rowObj = identObj(info, x.Lhs[0])
										}
									}
								case "append":
									if len(call.Args) == 2 && exprString(call.Args[0]) == exprString(x.Lhs[0]) && rowObj != nil && identObj(info, call.Args[1]) == rowObj {
										appended = true
									}
								}
							}
						}
					case *ast.ForStmt, *ast.RangeStmt:
						full, body, jv := fullRangeLoop(info, bs)
						if full == nil || rowObj == nil || !(identObj(info, full) == rowObj || isTab(full)) || !noSkips(body) {
							continue
						}
						for _, is := range body.List {
							as, ok := is.(*ast.AssignStmt)
							if !ok || len(as.Lhs) != 1 || len(as.Rhs) != 1 || as.Tok != token.ASSIGN {
								continue
							}
							l, ok1 := unparen(as.Lhs[0]).(*ast.IndexExpr)
							rr, ok2 := unparen(as.Rhs[0]).(*ast.IndexExpr)
							if !ok1 || !ok2 || identObj(info, l.X) != rowObj || identObj(info, l.Index) != jv {
								continue
							}
							if in, ok := unparen(rr.X).(*ast.IndexExpr); ok && isTab(in.X) && identObj(info, in.Index) == jv {
								copied = true
							}
						}
					}
				}
				switch {
				case rowObj == nil:
					why = "a goto row is not allocated with one cell per state (make([]int, len(table)))"
				case !copied:
					why = "not every cell of a goto row is copied from the dense table (the loop over the states is not `0 … len(row)−1` or can skip a state)"
				case !appended:
					why = "the goto row is not appended unconditionally"
				default:
					why = ""
				}
				if why == "" {
					break
				}
			}
		}
		r.Check(why == "", clause, "R2 COVERAGE", f.Name+"/split-covers-every-state-and-column", c.pos(f.Decl.Pos()),
			"every state gets an action row; every nonterminal but the start symbol gets a goto row with one cell per state, each copied from the dense table",
			"the split loses cells of the dense table: "+why)
	}

	// TrySplitTable appends goto row i to every action row in order i = 0,1,…: position NT+1+i
	ginfo := g.Pkg.TypesInfo
	appendOK := false
	ast.Inspect(g.Decl.Body, func(n ast.Node) bool {
		outer, ok := n.(*ast.RangeStmt)
		if !ok || outer.Value == nil {
			return true
		}
		// for _, r := range goTab { for j, v := range r { actTab[j] = append(actTab[j], v) } }
		if len(outer.Body.List) != 1 {
			return true
		}
		inner, ok := outer.Body.List[0].(*ast.RangeStmt)
		if !ok || identObj(ginfo, inner.X) != identObj(ginfo, outer.Value) || inner.Key == nil || inner.Value == nil || len(inner.Body.List) != 1 {
			return true
		}
		as, ok := inner.Body.List[0].(*ast.AssignStmt)
		if !ok || len(as.Lhs) != 1 || len(as.Rhs) != 1 {
			return true
		}
		lix, ok := as.Lhs[0].(*ast.IndexExpr)
		call, ok2 := as.Rhs[0].(*ast.CallExpr)
		if !ok || !ok2 || builtinName(ginfo, call) != "append" || len(call.Args) != 2 {
			return true
		}
		aix, ok := call.Args[0].(*ast.IndexExpr)
		if !ok {
			return true
		}
		if identObj(ginfo, lix.Index) == identObj(ginfo, inner.Key) && identObj(ginfo, aix.Index) == identObj(ginfo, inner.Key) &&
			identObj(ginfo, lix.X) == identObj(ginfo, aix.X) && identObj(ginfo, call.Args[1]) == identObj(ginfo, inner.Value) {
			appendOK = true
		}
		return true
	})
	r.Check(appendOK, clause, "R13 AFFINE", g.Name+"/goto-rows-appended-in-order", c.pos(g.Decl.Pos()),
		"goto row i is appended, element j to action row j, in increasing i: combined column = dense column",
		"TrySplitTable does not append goto row i element-wise (element j to action row j) in row order; the combined row's columns no longer equal the dense columns")
}

// c05VtSet — the column layout counts terminals with len(G.VtSet) (writer, reader constant NTERMINALS, packer):
// VtSet must be exactly the set of symbols that are not nonterminals, computed after every left-hand side has been
// marked as a nonterminal and before the tables are built.
func c05VtSet(c *Ctx, r *Report, clause string) {
	f := c.need(r, clause, "Grammar", "Grammar", "ResolveSymbols")
	if f == nil {
		return
	}
	cf := newCoverFn(f)
	info := cf.info
	why := "no loop over the grammar's Symbols"
	for _, rs := range cf.rangesOver(nil, func(e ast.Expr) bool { return fieldNamed(info, e, "Symbols") }) {
		elem := identObj(info, rs.Value)
		if elem == nil || !cf.unconditional(rs, f.Decl.Body) || !noSkips(rs.Body) {
			why = "the loop over the symbols is conditional or can skip a symbol"
			continue
		}
		why = "no store VtSet[<symbol>] = true guarded by exactly `!<symbol>.IsNonTerminator`"
		ast.Inspect(rs.Body, func(n ast.Node) bool {
			as, ok := n.(*ast.AssignStmt)
			if !ok || len(as.Lhs) != 1 || len(as.Rhs) != 1 {
				return true
			}
			ix, ok := unparen(as.Lhs[0]).(*ast.IndexExpr)
			if !ok || !fieldNamed(info, ix.X, "VtSet") || identObj(info, ix.Index) != elem {
				return true
			}
			if cv := constOf(info, as.Rhs[0]); cv == nil || cv.Kind() != constant.Bool || !constant.BoolVal(cv) {
				why = "VtSet[<symbol>] is not set to true"
				return true
			}
			// guards between the loop body and the store
			var conds []string
			exact := false
			for cur := ast.Node(as); cur != nil && cur != ast.Node(rs.Body); cur = cf.pm[cur] {
				if par, ok := cf.pm[cur].(*ast.IfStmt); ok {
					if cur == ast.Node(par.Body) {
						conds = append(conds, exprString(par.Cond))
						if un, ok := unparen(par.Cond).(*ast.UnaryExpr); ok && un.Op == token.NOT {
							if se, ok := unparen(un.X).(*ast.SelectorExpr); ok && fieldNamed(info, se, "IsNonTerminator") && identObj(info, se.X) == elem {
								exact = true
							}
						}
					} else {
						conds = append(conds, "else of "+exprString(par.Cond))
					}
				}
			}
			if exact && len(conds) == 1 {
				why = ""
			} else {
				why = fmt.Sprintf("a symbol enters VtSet under %v, not exactly when it is not a nonterminal", conds)
			}
			return true
		})
		if why == "" {
			break
		}
	}
	r.Check(why == "", clause, "R2 COVERAGE", f.Name+"/VtSet-is-the-set-of-terminals", c.pos(f.Decl.Pos()),
		"every symbol of the grammar that is not a nonterminal — and no other — is put into VtSet: len(VtSet) is the number of terminal columns",
		"len(VtSet) is not the number of terminals: "+why)
	// who writes VtSet
	if fv := lookupField(c, "Grammar", "Grammar", "VtSet"); fv != nil {
		bad := ""
		for _, w := range fieldWrites(c, fv) {
			if w.fn != f.Name && !strings.HasSuffix(w.fn, "NewGrammar") {
				bad = w.fn + " at " + c.pos(w.pos)
			}
		}
		r.Check(bad == "", clause, "WHO-WRITES", "Grammar.Grammar.VtSet", c.pos(fv.Pos()), "VtSet is written by ResolveSymbols (and initialised by NewGrammar) only", "VtSet is also written by "+bad)
	}
	// order in BuildLALR1: after the loop that inserts the rules (SetNT of every left-hand side), before the automaton
	if b := c.need(r, clause, "Parser", "Walker", "BuildLALR1"); b != nil {
		binfo := b.Pkg.TypesInfo
		var resolve, lastInsert, firstUse ast.Node
		ast.Inspect(b.Decl.Body, func(n ast.Node) bool {
			call, ok := n.(*ast.CallExpr)
			if !ok {
				return true
			}
			if fn := callee(binfo, call); fn != nil {
				switch fn.Name() {
				case "ResolveSymbols":
					resolve = call
				case "InsertNewRules":
					lastInsert = call
				case "ComputeAllGoto", "ComputeLALR":
					if firstUse == nil {
						firstUse = call
					}
				}
			}
			return true
		})
		ok := resolve != nil && lastInsert != nil && firstUse != nil && lastInsert.End() < resolve.Pos() && resolve.End() < firstUse.Pos()
		if ok {
			fc := buildCFG(binfo, b.Decl.Body)
			ok = fc.Dominates(resolve, firstUse)
		}
		r.Check(ok, clause, "R2 ORDER", b.Name+"/ResolveSymbols-after-rules-before-tables", c.pos(b.Decl.Pos()),
			"ResolveSymbols runs after all rules were inserted (every left-hand side is marked as nonterminal) and dominates the construction of automaton and tables",
			"ResolveSymbols does not run between the insertion of the rules and the construction of the automaton on every path: terminals would be counted with stale nonterminal marks")
	}
}

// normAffine sorts the summands of a parenthesised sum like "((NT + I) + 1)".
func normAffine(s string) string {
	s = strings.NewReplacer("(", "", ")", "", " ", "").Replace(s)
	parts := strings.Split(s, "+")
	sortStrings(parts)
	// put numbers last
	var syms, nums []string
	for _, p := range parts {
		if p != "" && p[0] >= '0' && p[0] <= '9' {
			nums = append(nums, p)
		} else {
			syms = append(syms, p)
		}
	}
	return strings.Join(append(syms, nums...), "+")
}

// ---------------------------------------------------------------------------------------------
// C05.c packer pairing

func c05c(c *Ctx, r *Report) {
	const clause = "C05.c"
	f := c.need(r, clause, "Utils", "", "PackTable")
	if f == nil {
		return
	}
	info := f.Pkg.TypesInfo
	roles := packTableRoles(info, f.Decl)
	if roles == nil {
		r.Undecided(clause, "R2 ORDER", f.Name, c.pos(f.Decl.Pos()), "cannot identify payload/offset/check locals")
		return
	}
	// entry: the []bool local
	var entry types.Object
	ast.Inspect(f.Decl.Body, func(n ast.Node) bool {
		if as, ok := n.(*ast.AssignStmt); ok && as.Tok == token.DEFINE && len(as.Lhs) == 1 {
			if o := identObj(info, as.Lhs[0]); o != nil {
				if sl, ok := o.Type().Underlying().(*types.Slice); ok {
					if b, ok := sl.Elem().Underlying().(*types.Basic); ok && b.Kind() == types.Bool {
						entry = o
					}
				}
			}
		}
		return true
	})
	if entry == nil {
		r.Undecided(clause, "R2 ORDER", f.Name+"/occupancy-vector", c.pos(f.Decl.Pos()), "no []bool occupancy vector")
		return
	}
	// (1) overlap scan restarts after every bump
	restartOK, scanFound := false, false
	var scanPos token.Pos
	ast.Inspect(f.Decl.Body, func(n ast.Node) bool {
		ls, ok := n.(*ast.LabeledStmt)
		if !ok {
			return true
		}
		loop, ok := ls.Stmt.(*ast.RangeStmt)
		if !ok {
			return true
		}
		ast.Inspect(loop.Body, func(m ast.Node) bool {
			is, ok := m.(*ast.IfStmt)
			if !ok {
				return true
			}
			ix, ok := unparen(is.Cond).(*ast.IndexExpr)
			if !ok || identObj(info, ix.X) != entry {
				return true
			}
			scanFound = true
			scanPos = is.Pos()
			bump, restart := false, false
			for _, s := range is.Body.List {
				if id, ok := s.(*ast.IncDecStmt); ok && id.Tok == token.INC {
					if bx, ok := id.X.(*ast.IndexExpr); ok && identObj(info, bx.X) == roles["OFF"] {
						bump = true
					}
				}
				if br, ok := s.(*ast.BranchStmt); ok && br.Tok == token.GOTO && br.Label != nil && br.Label.Name == ls.Label.Name {
					restart = true
				}
			}
			restartOK = bump && restart
			return true
		})
		return true
	})
	if !scanFound {
		// flag form: `for fits := false; !fits; { fits = true; for _, j := range cols { if entry[off+j] { off++; fits = false; break } } }`
		ast.Inspect(f.Decl.Body, func(n ast.Node) bool {
			outer, ok := n.(*ast.ForStmt)
			if !ok || outer.Cond == nil || outer.Post != nil || len(outer.Body.List) != 2 {
				return true
			}
			un, ok := unparen(outer.Cond).(*ast.UnaryExpr)
			if !ok || un.Op != token.NOT {
				return true
			}
			flag := identObj(info, un.X)
			set, ok := outer.Body.List[0].(*ast.AssignStmt)
			if !ok || flag == nil || len(set.Lhs) != 1 || identObj(info, set.Lhs[0]) != flag {
				return true
			}
			if cv := constOf(info, set.Rhs[0]); cv == nil || cv.Kind() != constant.Bool || !constant.BoolVal(cv) {
				return true
			}
			inner, ok := outer.Body.List[1].(*ast.RangeStmt)
			if !ok {
				return true
			}
			for _, s := range inner.Body.List {
				is, ok := s.(*ast.IfStmt)
				if !ok {
					continue
				}
				ix, ok := unparen(is.Cond).(*ast.IndexExpr)
				if !ok || identObj(info, ix.X) != entry {
					continue
				}
				scanFound = true
				scanPos = is.Pos()
				bump, clear, leave := false, false, false
				for k, bs := range is.Body.List {
					switch x := bs.(type) {
					case *ast.IncDecStmt:
						if bx, ok := x.X.(*ast.IndexExpr); ok && x.Tok == token.INC && identObj(info, bx.X) == roles["OFF"] {
							bump = true
						}
					case *ast.AssignStmt:
						if len(x.Lhs) == 1 && identObj(info, x.Lhs[0]) == flag {
							if cv := constOf(info, x.Rhs[0]); cv != nil && cv.Kind() == constant.Bool && !constant.BoolVal(cv) {
								clear = true
							}
						}
					case *ast.BranchStmt:
						if x.Tok == token.BREAK && x.Label == nil && k == len(is.Body.List)-1 {
							leave = true
						}
					}
				}
				restartOK = bump && clear && leave
			}
			return true
		})
	}
	if !scanFound {
		// alternative shape: a scan that does not use goto is outside the pinned implementation
		r.Undecided(clause, "R2 ORDER", f.Name+"/overlap-scan-restarts", c.pos(f.Decl.Pos()), "no labelled overlap scan testing the occupancy vector (rule is pinned to the goto-restart implementation)")
	} else {
		r.Check(restartOK, clause, "R2 ORDER", f.Name+"/overlap-scan-restarts", c.pos(scanPos),
			"after every bump of the row offset the overlap scan restarts from the row's first occupied column",
			"the overlap scan bumps the offset without restarting from the first occupied column: earlier columns are not re-tested at the new offset, two rows can share a slot")
	}
	// (2) marking and (3) output pairing via stores
	pe := newPathEnum(info)
	for role, o := range roles {
		pe.rename[o] = role
	}
	pe.rename[entry] = "ENTRY"
	markOK := false
	var outRet, outChk *Effect
	var outLoopPos token.Pos
	ast.Inspect(f.Decl.Body, func(n ast.Node) bool {
		rs, ok := n.(*ast.RangeStmt)
		if !ok || rs.Value == nil {
			return true
		}
		paths, err := pe.Enumerate(rs.Body.List)
		if err != nil {
			return true
		}
		vname := ""
		if o := identObj(info, rs.Value); o != nil {
			vname = o.Name()
		}
		for _, p := range paths {
			for i := range p.Effects {
				e := p.Effects[i]
				if e.Kind != "store" || e.LHS.Op != "index" {
					continue
				}
				switch e.LHS.Args[0].String() {
				case "ENTRY":
					// unconditional (first statement level), value true, index OFF[i]+k with k the range value
					if len(p.Conds) == 0 || !condMentions(p.Conds, "ENTRY") {
						if e.Term.Op == "const" && e.Term.Val.ExactString() == "true" && strings.Contains(normTerm(e.LHS.Args[1]), "OFF[") && strings.Contains(normTerm(e.LHS.Args[1]), vname) {
							// must not be under a condition at all
							uncond := true
							for _, q := range paths {
								has := false
								for _, qe := range q.Effects {
									if qe.Kind == "store" && qe.LHS.Op == "index" && qe.LHS.Args[0].String() == "ENTRY" {
										has = true
									}
								}
								if !has {
									uncond = false
								}
							}
							if uncond {
								markOK = true
							}
						}
					}
				case "ACT":
					ee := e
					outRet = &ee
					outLoopPos = rs.Pos()
				case "CHK":
					ee := e
					outChk = &ee
				}
			}
		}
		return true
	})
	r.Check(markOK, clause, "R3 LOCKSTEP", f.Name+"/placed-row-marks-every-slot", c.pos(f.Decl.Pos()),
		"after placement every occupied column of the row is marked in the occupancy vector at offset+column, unconditionally",
		"not every occupied column of a placed row is marked in the occupancy vector (store entry[offset+column] = true missing or conditional): later rows can be placed on top of it")
	if outRet == nil || outChk == nil {
		r.Undecided(clause, "R3 LOCKSTEP", f.Name+"/payload-and-check-paired", c.pos(f.Decl.Pos()), "no loop storing both the payload and the check vector")
	} else {
		li, ci := normTerm(outRet.LHS.Args[1]), normTerm(outChk.LHS.Args[1])
		// payload value TABLE[r][k] with index OFF[r]+k ; check value r
		ok := li == ci
		detail := ""
		val := outRet.Term
		if val.Op == "index" && val.Args[0].Op == "index" && val.Args[0].Args[0].String() == "TABLE" {
			rr, kk := normTerm(val.Args[0].Args[1]), normTerm(val.Args[1])
			want := normTerm(&Term{Op: "arith", Name: "+", Args: []*Term{{Op: "index", Args: []*Term{{Op: "leaf", Name: "OFF"}, val.Args[0].Args[1]}}, val.Args[1]}})
			if li != want {
				ok = false
				detail = fmt.Sprintf("payload TABLE[%s][%s] is stored at %s, expected %s", rr, kk, li, want)
			}
			if normTerm(outChk.Term) != rr {
				ok = false
				detail += fmt.Sprintf(" check value is %s, expected the row %s", normTerm(outChk.Term), rr)
			}
		} else {
			ok = false
			detail = "payload value is " + val.String() + ", expected TABLE[row][col]"
		}
		r.Check(ok, clause, "R3 LOCKSTEP", f.Name+"/payload-and-check-paired", c.pos(outLoopPos),
			"payload[offset[row]+col] = table[row][col] and check[offset[row]+col] = row are stored at the same slot",
			"payload and check vector are not written as the pair (table[row][col], row) at slot offset[row]+col: "+detail+fmt.Sprintf(" (payload slot %s, check slot %s)", li, ci))
	}
	// (4) check pre-filled with -1 over its whole length
	prefill := false
	// form `for i := range check { check[i] = -1 }` / `for i := 0; i < len(check); i++ { … }`
	ast.Inspect(f.Decl.Body, func(n ast.Node) bool {
		st, ok := n.(ast.Stmt)
		if !ok {
			return true
		}
		full, body, idx := fullRangeLoop(info, st)
		if full == nil || identObj(info, full) != roles["CHK"] || len(body.List) != 1 || !noSkips(body) {
			return true
		}
		if as, ok := body.List[0].(*ast.AssignStmt); ok && len(as.Lhs) == 1 && len(as.Rhs) == 1 {
			if ix, ok := as.Lhs[0].(*ast.IndexExpr); ok && identObj(info, ix.X) == roles["CHK"] && identObj(info, ix.Index) == idx {
				if cv := constOf(info, as.Rhs[0]); cv != nil {
					if v, exact := constant.Int64Val(constant.ToInt(cv)); exact && v < 0 {
						prefill = true
					}
				}
			}
		}
		return true
	})
	ast.Inspect(f.Decl.Body, func(n ast.Node) bool {
		fs, ok := n.(*ast.ForStmt)
		if !ok || len(fs.Body.List) != 1 {
			return true
		}
		as, ok := fs.Body.List[0].(*ast.AssignStmt)
		if !ok || len(as.Lhs) != 1 {
			return true
		}
		ix, ok := as.Lhs[0].(*ast.IndexExpr)
		if !ok || identObj(info, ix.X) != roles["CHK"] {
			return true
		}
		v, isC := constInt(info, as.Rhs[0])
		if !isC || v >= 0 {
			return true
		}
		// bound equals the make length of CHK
		init, ok1 := fs.Init.(*ast.AssignStmt)
		cond, ok2 := fs.Cond.(*ast.BinaryExpr)
		post, ok3 := fs.Post.(*ast.IncDecStmt)
		if !ok1 || !ok2 || !ok3 || cond.Op != token.LSS || post.Tok != token.INC {
			return true
		}
		if z, ok := constInt(info, init.Rhs[0]); !ok || z != 0 {
			return true
		}
		bound := exprString(cond.Y)
		lenOK := bound == "len("+roles["CHK"].Name()+")"
		ast.Inspect(f.Decl.Body, func(m ast.Node) bool {
			if vs, ok := m.(*ast.ValueSpec); ok && len(vs.Names) == 1 && info.Defs[vs.Names[0]] == roles["CHK"] && len(vs.Values) == 1 {
				if call, ok := vs.Values[0].(*ast.CallExpr); ok && builtinName(info, call) == "make" && len(call.Args) == 2 && exprString(call.Args[1]) == bound {
					lenOK = true
				}
			}
			if as, ok := m.(*ast.AssignStmt); ok && len(as.Lhs) == 1 && identObj(info, as.Lhs[0]) == roles["CHK"] && len(as.Rhs) == 1 {
				if call, ok := as.Rhs[0].(*ast.CallExpr); ok && builtinName(info, call) == "make" && len(call.Args) == 2 && exprString(call.Args[1]) == bound {
					lenOK = true
				}
			}
			return true
		})
		if lenOK && identObj(info, ix.Index) == identObj(info, init.Lhs[0]) {
			prefill = true
		}
		return true
	})
	r.Check(prefill, clause, "R3 LOCKSTEP", f.Name+"/check-prefilled-with-no-owner", c.pos(f.Decl.Pos()),
		"the check vector is pre-filled with −1 (no row) over its whole length before the owners are stored",
		"the check vector is not pre-filled with −1 over its whole length: unowned slots would read as owned by row 0")

	// (5) blanking predicate in TrySplitTable: same row's default
	if g := c.need(r, clause, "LALR", "LALR1", "TrySplitTable"); g != nil {
		ginfo := g.Pkg.TypesInfo
		n := 0
		bad := ""
		ast.Inspect(g.Decl.Body, func(nd ast.Node) bool {
			outer, ok := nd.(*ast.RangeStmt)
			if !ok || outer.Key == nil {
				return true
			}
			iObj := identObj(ginfo, outer.Key)
			var defObj, tabObj types.Object
			var defCall *ast.CallExpr
			gcf := newCoverFn(g)
			for _, s := range outer.Body.List {
				if as, ok := s.(*ast.AssignStmt); ok && len(as.Lhs) == 1 && len(as.Rhs) == 1 {
					lix, ok := as.Lhs[0].(*ast.IndexExpr)
					if !ok || identObj(ginfo, lix.Index) != iObj {
						continue
					}
					// the value stored is the call itself or a local bound once to it (a helper's result after inlining)
					if call, ok := gcf.resolve(as.Rhs[0]).(*ast.CallExpr); ok && strings.HasSuffix(shortFuncName(callee(ginfo, call)), "findMaxOccurence") && len(call.Args) == 1 {
						defObj = identObj(ginfo, lix.X)
						defCall = call
						if aix, ok := gcf.resolve(call.Args[0]).(*ast.IndexExpr); ok && identObj(ginfo, aix.Index) == iObj {
							tabObj = identObj(ginfo, aix.X)
						}
					}
				}
			}
			if defObj == nil {
				return true
			}
			n++
			if tabObj == nil {
				bad = "default of row i is not computed from row i of the same table"
				return true
			}
			// the blanking: inline in the loop, or in a helper called with (row i of the table, default i)
			isRow := func(info *types.Info, e ast.Expr) bool {
				if info == ginfo {
					e = gcf.resolve(e) // a local bound once to the row (e.g. a helper's parameter after inlining)
				}
				ix, ok := unparen(e).(*ast.IndexExpr)
				return ok && identObj(info, ix.X) == tabObj && identObj(info, ix.Index) == iObj
			}
			isDef := func(info *types.Info, e ast.Expr) bool {
				if info == ginfo {
					e = gcf.resolve(e)
					if call, isC := e.(*ast.CallExpr); isC && call == defCall {
						return true // the local that holds this row's default before it is stored into the vector
					}
				}
				ix, ok := unparen(e).(*ast.IndexExpr)
				return ok && identObj(info, ix.X) == defObj && identObj(info, ix.Index) == iObj
			}
			okBlank := blanksExactlyDefault(ginfo, outer.Body, func(e ast.Expr) bool { return isRow(ginfo, e) }, func(e ast.Expr) bool { return isDef(ginfo, e) })
			if !okBlank {
				ast.Inspect(outer.Body, func(m ast.Node) bool {
					call, ok := m.(*ast.CallExpr)
					if !ok || len(call.Args) != 2 || !isRow(ginfo, call.Args[0]) || !isDef(ginfo, call.Args[1]) {
						return true
					}
					ref := c.FuncOf(callee(ginfo, call))
					if ref == nil {
						return true
					}
					hp := paramObjs(ref.Pkg.TypesInfo, ref.Decl)
					if len(hp) != 2 {
						return true
					}
					hinfo := ref.Pkg.TypesInfo
					if blanksExactlyDefault(hinfo, ref.Decl.Body, func(e ast.Expr) bool { return identObj(hinfo, e) == hp[0] }, func(e ast.Expr) bool { return identObj(hinfo, e) == hp[1] }) {
						okBlank = true
					}
					return true
				})
			}
			if !okBlank {
				bad = fmt.Sprintf("cells of %s[i] are not blanked exactly when they equal %s[i]", tabObj.Name(), defObj.Name())
			}
			return true
		})
		r.Check(n >= 2 && bad == "", clause, "R3 LOCKSTEP", g.Name+"/blank-equals-own-default", c.pos(g.Decl.Pos()),
			fmt.Sprintf("%d default vectors: row i's default is the most frequent value of row i and exactly the cells equal to it are blanked", n),
			fmt.Sprintf("default/blanking pairing broken (default vectors found: %d): %s", n, bad))
	}
}

// blanksExactlyDefault: within body, the cells ROW[j] of a full loop over ROW are set to 0 exactly under
// `ROW[j] == DEF` (either operand order) and no other statement stores into ROW.
func blanksExactlyDefault(info *types.Info, body *ast.BlockStmt, isRow, isDef func(e ast.Expr) bool) bool {
	found := false
	otherStore := false
	cellOf := func(e ast.Expr, j types.Object) bool {
		ix, ok := unparen(e).(*ast.IndexExpr)
		return ok && isRow(ix.X) && identObj(info, ix.Index) == j && j != nil
	}
	ast.Inspect(body, func(n ast.Node) bool {
		st, ok := n.(ast.Stmt)
		if !ok {
			return true
		}
		full, lb, jv := fullRangeLoop(info, st)
		if full == nil || !isRow(full) {
			return true
		}
		for _, s := range lb.List {
			is, ok := s.(*ast.IfStmt)
			if !ok || is.Else != nil || is.Init != nil || len(is.Body.List) != 1 {
				otherStore = true
				continue
			}
			be, ok := unparen(is.Cond).(*ast.BinaryExpr)
			if !ok || be.Op != token.EQL {
				otherStore = true
				continue
			}
			okCond := (cellOf(be.X, jv) && isDef(be.Y)) || (cellOf(be.Y, jv) && isDef(be.X))
			as, ok := is.Body.List[0].(*ast.AssignStmt)
			if !okCond || !ok || len(as.Lhs) != 1 || len(as.Rhs) != 1 || !cellOf(as.Lhs[0], jv) {
				otherStore = true
				continue
			}
			if v, isC := constInt(info, as.Rhs[0]); isC && v == 0 {
				found = true
			} else {
				otherStore = true
			}
		}
		return false
	})
	return found && !otherStore
}

func condMentions(conds []Cond, s string) bool {
	for _, c := range conds {
		if strings.Contains(c.Atom.String(), s) {
			return true
		}
	}
	return false
}

// ---------------------------------------------------------------------------------------------
// C05.d gating

func c05d(c *Ctx, r *Report) {
	const clause = "C05.d"
	f := c.need(r, clause, "LALR", "LALR1", "TrySplitTable")
	if f == nil {
		return
	}
	roles := splitTableRoles(c, f)
	if roles.err != "" {
		r.Undecided(clause, "R2 ORDER", f.Name, c.pos(f.Decl.Pos()), roles.err)
		return
	}
	info := f.Pkg.TypesInfo
	fc := buildCFG(info, f.Decl.Body)
	// the size test: an if whose body returns an error, after the PackTable call
	var sizeTest *ast.IfStmt
	for _, s := range f.Decl.Body.List {
		if is, ok := s.(*ast.IfStmt); ok && roles.packCall != nil && is.Pos() > roles.packCall.Pos() {
			returnsErr := false
			for _, bs := range is.Body.List {
				if rs, ok := bs.(*ast.ReturnStmt); ok && len(rs.Results) == 1 {
					if id, ok := rs.Results[0].(*ast.Ident); !ok || id.Name != "nil" {
						returnsErr = true
					}
				}
			}
			if returnsErr && sizeTest == nil {
				sizeTest = is
			}
		}
	}
	if sizeTest == nil || roles.needPackedAt == nil || roles.fieldAssign == nil {
		r.Undecided(clause, "R2 ORDER", f.Name+"/packed-output-gated-by-size-test", c.pos(f.Decl.Pos()), "size test, NeedPacked = true or the assignment of the packed arrays not found")
	} else {
		ok := sizeTest.End() < roles.needPackedAt.Pos() && sizeTest.End() < roles.fieldAssign.Pos() &&
			fc.Dominates(sizeTest.Cond, roles.needPackedAt) && fc.Dominates(sizeTest.Cond, roles.fieldAssign)
		// no other store of NeedPacked=true / arrays before
		r.Check(ok, clause, "R2 ORDER", f.Name+"/packed-output-gated-by-size-test", c.pos(sizeTest.Pos()),
			"NeedPacked = true and the five packed arrays are assigned only after the size test has passed",
			"NeedPacked/packed arrays are assigned on a path that has not passed the size test")
		// pairing of roles to fields
		want := map[string]string{"ACT": "ActionTable", "OFF": "OffsetTable", "CHK": "CheckTable"}
		bad := ""
		for role, fld := range want {
			if roles.fieldOfRole[role] != fld {
				bad += fmt.Sprintf("%s → %s (expected %s); ", role, roles.fieldOfRole[role], fld)
			}
		}
		r.Check(bad == "", clause, "R1 PROVENANCE", f.Name+"/PackTable-results-to-fields", c.pos(roles.fieldAssign.Pos()),
			"PackTable's (payload, offsets, check) results are stored into (ActionTable, OffsetTable, CheckTable) respectively",
			"PackTable's results are stored into the wrong fields: "+bad)
	}
	// the builder uses packed output iff NeedPacked && PackFlags
	if b := c.need(r, clause, "Builder", "TemplateBuilder", "buildConstPart"); b != nil {
		binfo := b.Pkg.TypesInfo
		ok := false
		ast.Inspect(b.Decl.Body, func(n ast.Node) bool {
			as, ok2 := n.(*ast.AssignStmt)
			if !ok2 || len(as.Lhs) != 1 {
				return true
			}
			if fv := fieldVar(binfo, as.Lhs[0]); fv != nil && fv.Name() == "NeedPacked" {
				pc := pathCtxFor(b)
				p := pc.path(as.Rhs[0])
				if strings.Contains(p, ".NeedPacked") && strings.Contains(p, "Utils.PackFlags") && strings.Contains(p, "&&") {
					ok = true
				}
			}
			return true
		})
		r.Check(ok, clause, "R1 PROVENANCE", b.Name+"/template-flag", c.pos(b.Decl.Pos()),
			"the template's NeedPacked flag is (table was packed) && (packing requested)",
			"the template's NeedPacked flag is not `lalr.NeedPacked && utils.PackFlags`: the packed reader could be emitted without packed arrays")
	}
}

// c05Staged: the generated Action reader of every packed skeleton is a sibling of the two in-repo readers.
func c05Staged(c *Ctx, r *Report) {
	const clause = "C05.b"
	st := c.GetStaged()
	stagedErrors(r, "C05", st)
	n := 0
	for _, sc := range st.Configs {
		if !sc.V.Packed || sc.V.Http {
			continue
		}
		for _, sk := range sc.Skels {
			if sk.K != 2 || sk.ActSet != 0 {
				continue
			}
			n++
			rt, err := analysePackedAction(sk)
			if err != "" {
				r.Undecided(clause, "R4 SIBLING-READERS", "skeleton "+sk.V.Name+"/(*StateSym).Action", sk.pos(token.NoPos), err)
				continue
			}
			checkReader(r, clause, rt, "full")
		}
		// NTERMINALS hole provenance: the same expression the writer uses
		ntFilled := false
		for fv := range sc.Eval.fieldsP {
			if fv.Name() == "NTerminals" {
				ntFilled = true
			}
		}
		if !ntFilled {
			r.Fail(clause, "R1 PROVENANCE", "Builder.(*TemplateBuilder).NTerminals/"+sc.V.Name, "Builder/GoTemplBuilder.go",
				"NTERMINALS is never filled (it renders as 0): the reader's `a > NTERMINALS` then takes the goto default for every terminal column")
		}
		for fv, p := range sc.Eval.fieldsP {
			if fv.Name() == "NTerminals" {
				r.Check(strings.HasPrefix(p, "len(") && strings.HasSuffix(p, ".G.VtSet)"), clause, "R1 PROVENANCE", "Builder.(*TemplateBuilder).NTerminals/"+sc.V.Name, c.pos(sc.Eval.fieldPos[fv]),
					"NTERMINALS is emitted from len(G.VtSet), the expression the writer's column layout uses",
					"NTERMINALS is emitted from "+p+", the writer lays columns out with len(G.VtSet)")
			}
		}
	}
	if n < 2 {
		r.Undecided(clause, "R4 SIBLING-READERS", "packed skeletons", "-", fmt.Sprintf("only %d of 2 packed skeletons could be staged: %v", n, st.Errs))
	}
}

// stmtBefore: the statement that directly precedes the statement containing n in its block (nil if none).
func stmtBefore(root *ast.BlockStmt, n ast.Node) ast.Stmt {
	pm := parentMap(root)
	for cur := n; cur != nil; cur = pm[cur] {
		st, ok := cur.(ast.Stmt)
		if !ok {
			continue
		}
		var list []ast.Stmt
		switch p := pm[cur].(type) {
		case *ast.BlockStmt:
			list = p.List
		case *ast.CaseClause:
			list = p.Body
		default:
			continue
		}
		for i, s := range list {
			if s == st {
				if i == 0 {
					return nil
				}
				return list[i-1]
			}
		}
	}
	return nil
}
