package main

// prop_c18_cover.go — C18.b / C18.c enumeration rules, decided structurally (cover.go): one node per state with one
// line per item, the listing prints every state / item / goto entry / lookahead set. They replace earlier rules
// that compared printed source text (brittle under renames and blind to a loop that no longer prints).

import (
	"fmt"
	"go/ast"
	"go/constant"
	"go/token"
	"go/types"
	"strings"
)

// c18NodePerState: DrawGrammar creates a node for every state: an unconditional, unskipping loop over LR0Closure
// whose body unconditionally calls GenDotGraph on the result of StateGraphNode(<the element>).
func c18NodePerState(c *Ctx, r *Report, f *FuncRef) {
	cf := newCoverFn(f)
	why := "no loop over the LR(0) collection (LR0Closure)"
	for _, rs := range cf.rangesOver(nil, func(e ast.Expr) bool { return fieldNamed(cf.info, e, "LR0Closure") }) {
		elem := identObj(cf.info, rs.Value)
		switch {
		case elem == nil:
			why = "the loop over the collection does not use the state"
		case !cf.unconditional(rs, f.Decl.Body):
			why = "the loop over the collection is not executed unconditionally"
		case !noSkips(rs.Body):
			why = "the loop over the collection can skip a state or stop early (continue / break / return in its body)"
		default:
			why = "no node is generated from StateGraphNode(<state>) in every iteration"
			for _, gen := range cf.callsIn(rs.Body, func(fn *types.Func, _ *ast.CallExpr) bool { return fn.Name() == "GenDotGraph" }) {
				sel, ok := unparen(gen.Fun).(*ast.SelectorExpr)
				if !ok || !cf.unconditional(cf.stmtOfNode(gen), rs.Body) {
					continue
				}
				// receiver: StateGraphNode(elem), possibly through a local
				recv := ast.Expr(sel.X)
				if o := identObj(cf.info, recv); o != nil && cf.defs.count[o] == 1 && cf.defs.single[o] != nil {
					recv = cf.defs.single[o]
				}
				if call, ok := unparen(recv).(*ast.CallExpr); ok {
					if fn := callee(cf.info, call); fn != nil && fn.Name() == "StateGraphNode" && len(call.Args) == 1 && identObj(cf.info, call.Args[0]) == elem {
						why = ""
					}
				}
			}
		}
		if why == "" {
			break
		}
	}
	r.Check(why == "", "C18.b", "R2 COVERAGE", f.Name+"/node-per-state", c.pos(f.Decl.Pos()),
		"every state of the LR(0) collection gets a node: an unconditional loop over LR0Closure without early exits generates the node built by StateGraphNode from the loop's own element",
		"not every state of the collection gets a node: "+why)
}

// c18StateGraphNode: the node carries the state's own index and one child line per item.
func c18StateGraphNode(c *Ctx, r *Report, f *FuncRef) {
	cf := newCoverFn(f)
	ps := paramObjs(cf.info, f.Decl)
	why := ""
	if len(ps) != 1 {
		why = "expected one parameter (the state)"
	}
	var nodeObj types.Object
	if why == "" {
		// Node := &GraghNode{StateNumber: IC.Index}
		okIdx := false
		ast.Inspect(f.Decl.Body, func(n ast.Node) bool {
			if kv, ok := n.(*ast.KeyValueExpr); ok {
				if id, ok := kv.Key.(*ast.Ident); ok && id.Name == "StateNumber" && cf.selOn(kv.Value, "Index", ps[0]) {
					okIdx = true
				}
			}
			if as, ok := n.(*ast.AssignStmt); ok && len(as.Lhs) == 1 && len(as.Rhs) == 1 {
				if fieldNamed(cf.info, as.Lhs[0], "StateNumber") && cf.selOn(as.Rhs[0], "Index", ps[0]) {
					okIdx = true
				}
			}
			return true
		})
		if !okIdx {
			why = "StateNumber is not the state's own Index"
		}
	}
	if why == "" {
		why = "no loop over the state's Items"
		for _, rs := range cf.rangesOver(nil, func(e ast.Expr) bool { return cf.selOn(e, "Items", ps[0]) }) {
			elem := identObj(cf.info, rs.Value)
			if elem == nil || !cf.unconditional(rs, f.Decl.Body) || !noSkips(rs.Body) {
				why = "the loop over the items is conditional or can skip an item"
				continue
			}
			why = "an iteration does not append ItemToStr(<item>) to the node's children"
			for _, s := range rs.Body.List {
				as, ok := s.(*ast.AssignStmt)
				if !ok || len(as.Lhs) != 1 || len(as.Rhs) != 1 || !fieldNamed(cf.info, as.Lhs[0], "Children") {
					continue
				}
				call, ok := unparen(as.Rhs[0]).(*ast.CallExpr)
				if !ok || builtinName(cf.info, call) != "append" || len(call.Args) != 2 || exprString(call.Args[0]) != exprString(as.Lhs[0]) {
					continue
				}
				if ic, ok := unparen(call.Args[1]).(*ast.CallExpr); ok {
					if fn := callee(cf.info, ic); fn != nil && fn.Name() == "ItemToStr" && len(ic.Args) == 1 && identObj(cf.info, ic.Args[0]) == elem {
						why = ""
						if se, ok := unparen(as.Lhs[0]).(*ast.SelectorExpr); ok {
							nodeObj = identObj(cf.info, se.X)
						}
					}
				}
			}
			if why == "" {
				break
			}
		}
	}
	if why == "" {
		// the node that collected the children is the one returned
		ret := false
		ast.Inspect(f.Decl.Body, func(n ast.Node) bool {
			if rt, ok := n.(*ast.ReturnStmt); ok && len(rt.Results) == 1 && identObj(cf.info, rt.Results[0]) == nodeObj && nodeObj != nil {
				ret = true
			}
			return true
		})
		if !ret {
			why = "the node that collected the item lines is not the one returned"
		}
	}
	r.Check(why == "", "C18.b", "R2 COVERAGE", f.Name, c.pos(f.Decl.Pos()), "the node carries the state's own index and one line per item of the state (ItemToStr of each item, no item skipped)", "the node is not (state index, every item of the state): "+why)
}

// c18ItemToStr: an item is rendered from its own rule; the dot marker is emitted before right-hand symbol number
// Dot inside the loop (before that symbol's text) or after the loop when Dot equals the length.
func c18ItemToStr(c *Ctx, r *Report, f *FuncRef) {
	cf := newCoverFn(f)
	ps := paramObjs(cf.info, f.Decl)
	why := ""
	if len(ps) != 1 {
		r.Undecided("C18.c", "R1 PROVENANCE", f.Name, c.pos(f.Decl.Pos()), "expected one parameter (the item)")
		return
	}
	it := ps[0]
	// the rule: ProductoinRules[It.RuleIndex]
	isOwnRule := func(e ast.Expr) bool {
		ix, ok := cf.resolve(e).(*ast.IndexExpr)
		return ok && fieldNamed(cf.info, ix.X, "ProductoinRules") && cf.selOn(ix.Index, "RuleIndex", it)
	}
	isRhs := func(e ast.Expr) bool {
		se, ok := cf.resolve(e).(*ast.SelectorExpr)
		return ok && fieldNamed(cf.info, se, "RighPart") && isOwnRule(se.X)
	}
	isDotTest := func(cond ast.Expr, other func(e ast.Expr) bool) bool {
		be, ok := unparen(cond).(*ast.BinaryExpr)
		if !ok || be.Op != token.EQL {
			return false
		}
		return (other(be.X) && cf.selOn(be.Y, "Dot", it)) || (other(be.Y) && cf.selOn(be.X, "Dot", it))
	}
	markerOf := func(is *ast.IfStmt) (string, types.Object) {
		if is.Else != nil || len(is.Body.List) != 1 {
			return "", nil
		}
		b, v, ok := textAppend(cf.info, is.Body.List[0])
		if !ok {
			return "", nil
		}
		s, ok := constString(cf.info, v)
		if !ok {
			return "", nil
		}
		return s, b
	}
	// the left-hand side of the item's own rule is part of the text, unconditionally
	lhsOK := false
	for _, st := range f.Decl.Body.List {
		var val ast.Expr
		if as, ok := st.(*ast.AssignStmt); ok && len(as.Rhs) == 1 {
			val = as.Rhs[0]
		} else if _, v, ok := textAppend(cf.info, st); ok {
			val = v
		} else {
			continue
		}
		ast.Inspect(val, func(n ast.Node) bool {
			if se, ok := n.(*ast.SelectorExpr); ok && fieldNamed(cf.info, se, "Name") {
				if in, ok := cf.resolve(se.X).(*ast.SelectorExpr); ok && fieldNamed(cf.info, in, "LeftPart") && isOwnRule(in.X) {
					lhsOK = true
				}
			}
			return true
		})
	}
	// "unconditionally": a return that leaves before the left-hand side has been written must carry it itself
	mentionsLHS := func(root ast.Node) bool {
		found := false
		ast.Inspect(root, func(n ast.Node) bool {
			if se, ok := n.(*ast.SelectorExpr); ok && fieldNamed(cf.info, se, "Name") {
				if in, ok := cf.resolve(se.X).(*ast.SelectorExpr); ok && fieldNamed(cf.info, in, "LeftPart") && isOwnRule(in.X) {
					found = true
				}
			}
			return true
		})
		return found
	}
	lhsWritten := false
	for _, st := range f.Decl.Body.List {
		if is, ok := st.(*ast.IfStmt); ok && endsInExit(is.Body) && !lhsWritten {
			if rt, isR := is.Body.List[len(is.Body.List)-1].(*ast.ReturnStmt); isR {
				carries := false
				for _, e := range rt.Results {
					if mentionsLHS(e) {
						carries = true
					}
				}
				if !carries {
					lhsOK = false
				}
			}
			continue
		}
		var val ast.Expr
		if as, ok := st.(*ast.AssignStmt); ok && len(as.Rhs) == 1 {
			val = as.Rhs[0]
		} else if _, v, ok := textAppend(cf.info, st); ok {
			val = v
		}
		if val != nil && mentionsLHS(val) {
			lhsWritten = true
		}
	}
	// early returns before the loop: only for the empty right-hand side
	earlyWhy := ""
	for _, st := range f.Decl.Body.List {
		is, ok := st.(*ast.IfStmt)
		if !ok || !endsInExit(is.Body) {
			continue
		}
		okCond := false
		if be, ok := unparen(is.Cond).(*ast.BinaryExpr); ok && be.Op == token.EQL {
			for _, pr := range [][2]ast.Expr{{be.X, be.Y}, {be.Y, be.X}} {
				if call, ok := unparen(pr[0]).(*ast.CallExpr); ok && builtinName(cf.info, call) == "len" && len(call.Args) == 1 && isRhs(call.Args[0]) {
					if v, isC := constInt(cf.info, pr[1]); isC && v == 0 {
						okCond = true
					}
				}
			}
		}
		if !okCond {
			earlyWhy = "the function returns early under `" + exprString(is.Cond) + "`, which is not `the right-hand side is empty`: items of other rules lose their symbols"
		}
	}
	loops := cf.rangesOver(nil, isRhs)
	var inMarker, afterMarker string
	var buf types.Object
	switch {
	case len(loops) != 1:
		why = "no single loop over the right-hand side of the item's own rule (ProductoinRules[It.RuleIndex].RighPart)"
	case !cf.unconditional(loops[0], f.Decl.Body) && !onlyGuardedByEarlyReturn(cf, loops[0], f.Decl.Body):
		why = "the loop over the right-hand side is conditional"
	case !noSkips(loops[0].Body):
		why = "the loop over the right-hand side can skip a symbol"
	default:
		rs := loops[0]
		idx, sym := identObj(cf.info, rs.Key), identObj(cf.info, rs.Value)
		symAt, dotAt := -1, -1
		for i, s := range rs.Body.List {
			switch x := s.(type) {
			case *ast.IfStmt:
				if isDotTest(x.Cond, func(e ast.Expr) bool { return idx != nil && identObj(cf.info, e) == idx }) {
					inMarker, buf = markerOf(x)
					dotAt = i
				}
			case *ast.AssignStmt, *ast.ExprStmt:
				if b, v, ok := textAppend(cf.info, s); ok && cf.mentionsSel(v, "Name", sym) && sym != nil {
					if symAt < 0 {
						symAt = i
					}
					if buf == nil {
						buf = b
					} else if b != buf {
						why = "marker and symbol text go to different buffers"
					}
				}
			}
		}
		switch {
		case symAt < 0:
			why = "an iteration does not append the symbol's name"
		case dotAt < 0 || inMarker == "":
			why = "no marker is emitted when the loop index equals the item's Dot"
		case dotAt > symAt:
			why = "the marker is emitted after the symbol it should precede"
		}
		if why == "" {
			// after the loop: if len(rhs) == It.Dot { buf += marker }
			for _, s := range f.Decl.Body.List {
				is, ok := s.(*ast.IfStmt)
				if !ok || is.Pos() < rs.End() {
					continue
				}
				if isDotTest(is.Cond, func(e ast.Expr) bool {
					call, ok := unparen(e).(*ast.CallExpr)
					return ok && builtinName(cf.info, call) == "len" && len(call.Args) == 1 && isRhs(call.Args[0])
				}) {
					m, b := markerOf(is)
					if b == buf {
						afterMarker = m
					}
				}
			}
			if afterMarker == "" {
				why = "no marker is emitted for a completed item (Dot equal to the length of the right-hand side)"
			} else if afterMarker != inMarker {
				why = "the completed item uses a different marker"
			}
		}
		if why == "" {
			ret := false
			ast.Inspect(f.Decl.Body, func(n ast.Node) bool {
				if rt, ok := n.(*ast.ReturnStmt); ok && rt.Pos() > rs.End() && len(rt.Results) == 1 {
					if identObj(cf.info, rt.Results[0]) == buf {
						ret = true
					}
					// a strings.Builder buffer is returned as buf.String()
					if call, ok := unparen(rt.Results[0]).(*ast.CallExpr); ok && len(call.Args) == 0 {
						if se, ok := unparen(call.Fun).(*ast.SelectorExpr); ok && se.Sel.Name == "String" && builderObj(cf.info, se.X) == buf && buf != nil {
							ret = true
						}
					}
				}
				return true
			})
			if !ret {
				why = "the assembled text is not what the function returns"
			}
		}
	}
	if why == "" && !lhsOK {
		why = "the left-hand side of the item's own rule is not part of the text"
	}
	if why == "" && earlyWhy != "" {
		why = earlyWhy
	}
	r.Check(why == "", "C18.c", "R1 PROVENANCE", f.Name, c.pos(f.Decl.Pos()),
		"an item is rendered from its own rule: its left-hand side, every right-hand symbol in order, the marker before symbol number Dot, or at the end when Dot equals the length; the only early exit is the empty right-hand side",
		"an item's text is not its own rule with the marker at position Dot: "+why)
}

// onlyGuardedByEarlyReturn: n follows, at function level, only `if … { …; return }` statements (an early exit for
// the empty rule) — it is then executed whenever the function did not return before.
func onlyGuardedByEarlyReturn(cf *coverFn, n ast.Node, body *ast.BlockStmt) bool {
	if cf.pm[n] != ast.Node(body) {
		return false
	}
	for _, s := range body.List {
		if ast.Node(s) == n {
			return true
		}
		if leaves(s) {
			return false
		}
	}
	return false
}

// c18ShowCloure: the text listing of one state prints its index, every item split at its dot and every goto entry.
func c18ShowCloure(c *Ctx, r *Report, f *FuncRef) {
	cf := newCoverFn(f)
	ps := paramObjs(cf.info, f.Decl)
	if len(ps) != 1 {
		r.Undecided("C18.c", "R2 COVERAGE", f.Name, c.pos(f.Decl.Pos()), "expected one parameter (the state)")
		return
	}
	st := ps[0]
	why := ""
	// index
	okIdx := false
	for _, call := range cf.callsIn(f.Decl.Body, isFmtPrint) {
		if cf.unconditional(cf.stmtOfNode(call), f.Decl.Body) {
			for _, a := range call.Args {
				if cf.selOn(a, "Index", st) {
					okIdx = true
				}
			}
		}
	}
	if !okIdx {
		why = "the state's index is not printed unconditionally"
	}
	printsName := func(body *ast.BlockStmt, elem types.Object) bool {
		for _, call := range cf.callsIn(body, isFmtPrint) {
			if !cf.unconditional(cf.stmtOfNode(call), body) {
				continue
			}
			for _, a := range call.Args {
				if cf.mentionsSel(a, "Name", elem) {
					return true
				}
			}
		}
		return false
	}
	// items
	if why == "" {
		why = "no loop over the state's Items"
		for _, rs := range cf.rangesOver(nil, func(e ast.Expr) bool { return cf.selOn(e, "Items", st) }) {
			it := identObj(cf.info, rs.Value)
			if it == nil || !cf.unconditional(rs, f.Decl.Body) || !noSkips(rs.Body) {
				why = "the loop over the items is conditional or can skip an item"
				continue
			}
			isOwnRule := func(e ast.Expr) bool {
				ix, ok := cf.resolve(e).(*ast.IndexExpr)
				return ok && fieldNamed(cf.info, ix.X, "ProductoinRules") && cf.selOn(ix.Index, "RuleIndex", it)
			}
			var before, after *ast.RangeStmt
			for _, in := range cf.rangesOver(rs.Body, func(e ast.Expr) bool {
				se, ok := e.(*ast.SliceExpr)
				if !ok {
					return false
				}
				sel, ok := cf.resolve(se.X).(*ast.SelectorExpr)
				return ok && fieldNamed(cf.info, sel, "RighPart") && isOwnRule(sel.X)
			}) {
				se := unparen(in.X).(*ast.SliceExpr)
				elem := identObj(cf.info, in.Value)
				if elem == nil || !cf.unconditional(in, rs.Body) || !noSkips(in.Body) || !printsName(in.Body, elem) {
					continue
				}
				if se.Low == nil && se.High != nil && cf.selOn(se.High, "Dot", it) {
					before = in
				}
				if se.High == nil && se.Low != nil && cf.selOn(se.Low, "Dot", it) {
					after = in
				}
			}
			// left-hand side
			lhs := false
			for _, call := range cf.callsIn(rs.Body, isFmtPrint) {
				if cf.unconditional(cf.stmtOfNode(call), rs.Body) {
					for _, a := range call.Args {
						if se, ok := cf.resolve(a).(*ast.SelectorExpr); ok && fieldNamed(cf.info, se, "Name") {
							if in, ok := cf.resolve(se.X).(*ast.SelectorExpr); ok && fieldNamed(cf.info, in, "LeftPart") && isOwnRule(in.X) {
								lhs = true
							}
						}
					}
				}
			}
			switch {
			case !lhs:
				why = "the left-hand side of the item's own rule is not printed"
			case before == nil || after == nil:
				why = "the right-hand side is not printed as RighPart[:Dot] followed by RighPart[Dot:] of the item's own rule"
			case before.Pos() > after.Pos():
				why = "the part after the dot is printed before the part in front of it"
			default:
				// a marker between the two halves
				marker := false
				for _, call := range cf.callsIn(rs.Body, isFmtPrint) {
					if call.Pos() > before.End() && call.End() < after.Pos() && cf.unconditional(cf.stmtOfNode(call), rs.Body) {
						marker = true
					}
				}
				if marker {
					why = ""
				} else {
					why = "nothing marks the dot between the two halves"
				}
			}
			if why == "" {
				break
			}
		}
	}
	// goto entries
	if why == "" {
		why = "no loop over the state's GoTo entries"
		for _, rs := range cf.rangesOver(nil, func(e ast.Expr) bool { return cf.selOn(e, "GoTo", st) }) {
			g := identObj(cf.info, rs.Value)
			if g == nil || !cf.unconditional(rs, f.Decl.Body) || !noSkips(rs.Body) {
				why = "the loop over the goto entries is conditional or can skip an entry"
				continue
			}
			why = "a goto entry is not printed with its symbol's name and its target state"
			for _, call := range cf.callsIn(rs.Body, isFmtPrint) {
				if !cf.unconditional(cf.stmtOfNode(call), rs.Body) {
					continue
				}
				name, target := false, false
				for _, a := range call.Args {
					if se, ok := unparen(a).(*ast.SelectorExpr); ok && fieldNamed(cf.info, se, "Name") && cf.selOn(se.X, "Sym", g) {
						name = true
					}
					if cf.selOn(a, "ItemCl", g) {
						target = true
					}
				}
				if name && target {
					why = ""
				}
			}
			if why == "" {
				break
			}
		}
	}
	r.Check(why == "", "C18.c", "R2 COVERAGE", f.Name, c.pos(f.Decl.Pos()),
		"the listing of a state prints its index, every item (left-hand side, RighPart[:Dot], a marker, RighPart[Dot:] of the item's own rule) and every goto entry with symbol name and target",
		"the listing does not print index, all items split at the dot and all goto entries: "+why)
}

// c18Show: every state of the collection is listed.
func c18Show(c *Ctx, r *Report, f *FuncRef) {
	cf := newCoverFn(f)
	why := "no loop over LR0Closure"
	for _, rs := range cf.rangesOver(nil, func(e ast.Expr) bool { return fieldNamed(cf.info, e, "LR0Closure") }) {
		elem := identObj(cf.info, rs.Value)
		if elem == nil || !cf.unconditional(rs, f.Decl.Body) || !noSkips(rs.Body) {
			why = "the loop over the states is conditional or can skip a state"
			continue
		}
		why = "an iteration does not list the loop's own state (ShowCloure(<state>))"
		for _, call := range cf.callsIn(rs.Body, func(fn *types.Func, _ *ast.CallExpr) bool { return fn.Name() == "ShowCloure" }) {
			if len(call.Args) == 1 && identObj(cf.info, call.Args[0]) == elem && cf.unconditional(cf.stmtOfNode(call), rs.Body) {
				why = ""
			}
		}
		if why == "" {
			break
		}
	}
	r.Check(why == "", "C18.c", "R2 COVERAGE", f.Name, c.pos(f.Decl.Pos()), "every state of the collection is listed (unconditional loop, no state skipped, ShowCloure of the loop's own element)", "not every state is listed: "+why)
}

// c18ShowLookAheadSet: one line per reduce transition of LookAheadSet: the transition's text (showTrans of the key)
// and the names of all symbols of its set.
func c18ShowLookAheadSet(c *Ctx, r *Report, f *FuncRef) {
	cf := newCoverFn(f)
	why := "no loop over LookAheadSet"
	for _, rs := range cf.rangesOver(nil, func(e ast.Expr) bool { return fieldNamed(cf.info, e, "LookAheadSet") }) {
		key, val := identObj(cf.info, rs.Key), identObj(cf.info, rs.Value)
		if key == nil || !cf.unconditional(rs, f.Decl.Body) || !noSkips(rs.Body) {
			why = "the loop over the lookahead sets is conditional, ignores the transition or can skip a set"
			continue
		}
		// the set of this transition: the value variable or LookAheadSet[key]
		isSet := func(e ast.Expr) bool {
			if val != nil && identObj(cf.info, e) == val {
				return true
			}
			ix, ok := unparen(e).(*ast.IndexExpr)
			return ok && fieldNamed(cf.info, ix.X, "LookAheadSet") && identObj(cf.info, ix.Index) == key
		}
		// the line: a print in the body, unconditional, with showTrans(key) among its arguments
		var line *ast.CallExpr
		for _, call := range cf.callsIn(rs.Body, isFmtPrint) {
			if !cf.unconditional(cf.stmtOfNode(call), rs.Body) {
				continue
			}
			for _, a := range call.Args {
				if sc, ok := unparen(a).(*ast.CallExpr); ok {
					if fn := callee(cf.info, sc); fn != nil && fn.Name() == "showTrans" && len(sc.Args) == 1 && identObj(cf.info, sc.Args[0]) == key {
						line = call
					}
				}
			}
		}
		if line == nil {
			why = "an iteration does not print the transition it belongs to (showTrans(<key>)): sets of some reductions are missing from the listing"
			continue
		}
		// the symbols: an inner loop over the set, unskipping, that appends / prints the name of each symbol
		why = "the symbols of the set are not all printed by name"
		for _, in := range cf.rangesOver(rs.Body, isSet) {
			elem := identObj(cf.info, in.Value)
			if elem == nil || !cf.unconditional(in, rs.Body) || !noSkips(in.Body) {
				continue
			}
			named := false
			var buf types.Object
			for _, s := range in.Body.List {
				switch x := s.(type) {
				case *ast.AssignStmt:
					if x.Tok == token.ADD_ASSIGN && len(x.Lhs) == 1 && symbolNameOf(cf, x.Rhs[0], elem) {
						named, buf = true, identObj(cf.info, x.Lhs[0])
					}
				case *ast.ExprStmt:
					if call, ok := x.X.(*ast.CallExpr); ok {
						if fn := callee(cf.info, call); fn != nil && isFmtPrint(fn, call) {
							for _, a := range call.Args {
								if symbolNameOf(cf, a, elem) {
									named = true
								}
							}
						}
					}
				}
			}
			if !named {
				continue
			}
			if buf != nil {
				// the buffer must reach the line and must be reset in every iteration of the outer loop
				reaches := false
				for _, a := range line.Args {
					if identObj(cf.info, a) == buf {
						reaches = true
					}
				}
				reset := false
				for _, s := range rs.Body.List {
					if s.Pos() > in.Pos() {
						break
					}
					if as, ok := s.(*ast.AssignStmt); ok && len(as.Lhs) == 1 && identObj(cf.info, as.Lhs[0]) == buf && as.Tok != token.ADD_ASSIGN {
						if sv, ok := constString(cf.info, as.Rhs[0]); ok && sv == "" {
							reset = true
						}
					}
				}
				if !reaches || !reset || in.End() > line.Pos() {
					why = "the collected symbol names do not reach the printed line of their own transition"
					continue
				}
			}
			why = ""
		}
		if why == "" {
			break
		}
	}
	r.Check(why == "", "C18.c", "R2 COVERAGE", f.Name, c.pos(f.Decl.Pos()),
		"every entry of LookAheadSet gets its own line: the transition's text (showTrans of the key) and the name of every symbol of its set",
		"the lookahead listing does not print every set with its symbols' names: "+why)
}

// symbolNameOf: e is <symbol of elem>.Name where the symbol is fetchSymbol(elem) or G.Symbols[elem].
func symbolNameOf(cf *coverFn, e ast.Expr, elem types.Object) bool {
	hit := false
	ast.Inspect(cf.resolve(e), func(n ast.Node) bool {
		se, ok := n.(*ast.SelectorExpr)
		if hit || !ok || !fieldNamed(cf.info, se, "Name") {
			return !hit
		}
		switch x := cf.resolve(se.X).(type) {
		case *ast.CallExpr:
			fn := callee(cf.info, x)
			if fn != nil && fn.Name() == "fetchSymbol" && len(x.Args) == 1 && identObj(cf.info, x.Args[0]) == elem {
				hit = true
			}
		case *ast.IndexExpr:
			if fieldNamed(cf.info, x.X, "Symbols") && identObj(cf.info, x.Index) == elem {
				hit = true
			}
		}
		return !hit
	})
	return hit
}

// c18AnnotationsAttached: inside the loop over the table's rows, after the loop over the cells, the collected
// annotations (the slice the reduce class appends to) are written into the label of the row's own node: a store
// <node>.Attrs["label"] = … whose value depends on the collected slice, where <node> is looked up under the row's
// own state name, guarded by nothing but "there are annotations".
func c18AnnotationsAttached(c *Ctx, r *Report, f *FuncRef, rows, cells *ast.RangeStmt) {
	key := f.Name + "/annotations-reach-the-label"
	if rows == nil || cells == nil {
		return
	}
	cf := newCoverFn(f)
	info := cf.info
	// the collector: a slice local appended to inside the cell loop
	var look types.Object
	ast.Inspect(cells.Body, func(n ast.Node) bool {
		if as, ok := n.(*ast.AssignStmt); ok && len(as.Lhs) == 1 && len(as.Rhs) == 1 {
			if call, ok := unparen(as.Rhs[0]).(*ast.CallExpr); ok && builtinName(info, call) == "append" && len(call.Args) >= 2 && identObj(info, call.Args[0]) != nil && identObj(info, call.Args[0]) == identObj(info, as.Lhs[0]) {
				if _, isSlice := info.TypeOf(as.Lhs[0]).Underlying().(*types.Slice); isSlice {
					look = identObj(info, as.Lhs[0])
				}
			}
		}
		return true
	})
	if look == nil {
		r.Undecided("C18.a", "R2 COVERAGE", key, c.pos(cells.Pos()), "no annotation collector in the cell loop")
		return
	}
	why := "after the cell loop nothing stores the collected annotations into a node's label"
	stateVar := identObj(info, rows.Key)
	ast.Inspect(rows.Body, func(n ast.Node) bool {
		as, ok := n.(*ast.AssignStmt)
		if !ok || as.Pos() < cells.End() || len(as.Lhs) != 1 || len(as.Rhs) != 1 {
			return true
		}
		ix, ok := unparen(as.Lhs[0]).(*ast.IndexExpr)
		if !ok || !fieldNamed(info, ix.X, "Attrs") {
			return true
		}
		if sv, ok := constString(info, ix.Index); !ok || sv != "label" {
			return true
		}
		// value depends on the collector
		if !cf.dependsOnMulti(as.Rhs[0], look) {
			why = "the label is rewritten without the collected annotations"
			return true
		}
		// the node is the one looked up under the row's own state
		nodeOK := false
		if se, ok := unparen(ix.X).(*ast.SelectorExpr); ok {
			nodeOK = cf.dependsOn(se.X, stateVar)
		}
		if !nodeOK {
			why = "the annotations are written to a node that is not looked up from the row's own state number"
			return true
		}
		// guards inside the row loop: only tests of len(look)
		guardsOK := true
		for cur := ast.Node(as); cur != nil && cur != ast.Node(rows.Body); cur = cf.pm[cur] {
			par, ok := cf.pm[cur].(*ast.IfStmt)
			if !ok {
				continue
			}
			if cur != ast.Node(par.Body) {
				guardsOK = false
				continue
			}
			be, ok := unparen(par.Cond).(*ast.BinaryExpr)
			if !ok {
				guardsOK = false
				continue
			}
			call, okc := unparen(be.X).(*ast.CallExpr)
			k, isC := constInt(info, be.Y)
			if !okc || builtinName(info, call) != "len" || len(call.Args) != 1 || identObj(info, call.Args[0]) != look || !isC {
				guardsOK = false
				continue
			}
			// must hold for every non-empty collection
			for _, nn := range []int64{1, 2, 5} {
				v := false
				switch be.Op {
				case token.NEQ:
					v = nn != k
				case token.GTR:
					v = nn > k
				case token.GEQ:
					v = nn >= k
				}
				if !v {
					guardsOK = false
				}
			}
		}
		if guardsOK {
			why = ""
		} else {
			why = "the annotations are attached only under a condition that fails for some non-empty collection"
		}
		return true
	})
	r.Check(why == "", "C18.a", "R2 COVERAGE", key, c.pos(rows.Pos()),
		"whenever a state has reduce annotations they are appended to the label of that state's own node", why)
}

// dependsOnMulti: like dependsOn but follows locals with several definitions too (any definition counts).
func (cf *coverFn) dependsOnMulti(e ast.Node, obj types.Object) bool {
	seen := map[types.Object]bool{}
	var visit func(n ast.Node) bool
	visit = func(n ast.Node) bool {
		hit := false
		ast.Inspect(n, func(m ast.Node) bool {
			if hit {
				return false
			}
			id, ok := m.(*ast.Ident)
			if !ok {
				return true
			}
			o := objOf(cf.info, id)
			if o == nil {
				return true
			}
			if o == obj {
				hit = true
				return false
			}
			if !seen[o] {
				seen[o] = true
				ast.Inspect(cf.fd.Body, func(k ast.Node) bool {
					if as, ok := k.(*ast.AssignStmt); ok && len(as.Lhs) == len(as.Rhs) {
						for i, l := range as.Lhs {
							if identObj(cf.info, l) == o && visit(as.Rhs[i]) {
								hit = true
							}
						}
					}
					return !hit
				})
			}
			return true
		})
		return hit
	}
	return visit(e)
}

// c18ShowTrans: the text of a transition (used by every set listing) names its source state and, for a reduce
// transition, the rule's left-hand side and every right-hand symbol; for a symbol transition, that symbol.
func c18ShowTrans(c *Ctx, r *Report, f *FuncRef) {
	cf := newCoverFn(f)
	info := cf.info
	ps := paramObjs(info, f.Decl)
	if len(ps) != 1 {
		r.Undecided("C18.c", "R2 COVERAGE", f.Name, c.pos(f.Decl.Pos()), "expected one parameter (the transition index)")
		return
	}
	// the transition: lalr.trans[param]
	isTrans := func(e ast.Expr) bool {
		ix, ok := cf.resolve(e).(*ast.IndexExpr)
		return ok && fieldNamed(info, ix.X, "trans") && identObj(info, ix.Index) == ps[0]
	}
	var buf types.Object
	if rt, ok := f.Decl.Body.List[len(f.Decl.Body.List)-1].(*ast.ReturnStmt); ok && len(rt.Results) == 1 {
		buf = identObj(info, rt.Results[0])
		if call, ok := unparen(rt.Results[0]).(*ast.CallExpr); ok && len(call.Args) == 0 && buf == nil {
			if se, ok := unparen(call.Fun).(*ast.SelectorExpr); ok && se.Sel.Name == "String" {
				buf = builderObj(info, se.X) // a strings.Builder buffer is returned as buf.String()
			}
		}
	}
	why := ""
	if buf == nil {
		why = "the function does not end by returning the assembled text"
	}
	adds := func(n ast.Node, pred func(e ast.Expr) bool) bool {
		hit := false
		ast.Inspect(n, func(m ast.Node) bool {
			// writes to a strings.Builder buffer: buf.WriteString(v), fmt.Fprintf(&buf, f, v…)
			if es, ok := m.(*ast.ExprStmt); ok {
				if b, vals, ok := builderAppends(info, es); ok && b == buf {
					for _, v := range vals {
						ast.Inspect(v, func(k ast.Node) bool {
							if e, ok := k.(ast.Expr); ok && pred(e) {
								hit = true
							}
							return !hit
						})
					}
				}
				return true
			}
			as, ok := m.(*ast.AssignStmt)
			if !ok || len(as.Lhs) != 1 || identObj(info, as.Lhs[0]) != buf {
				return true
			}
			ast.Inspect(as.Rhs[0], func(k ast.Node) bool {
				if e, ok := k.(ast.Expr); ok && pred(e) {
					hit = true
				}
				return !hit
			})
			return true
		})
		ast.Inspect(n, func(m ast.Node) bool {
			if vs, ok := m.(*ast.ValueSpec); ok {
				for i, nm := range vs.Names {
					if info.Defs[nm] == buf && i < len(vs.Values) {
						ast.Inspect(vs.Values[i], func(k ast.Node) bool {
							if e, ok := k.(ast.Expr); ok && pred(e) {
								hit = true
							}
							return !hit
						})
					}
				}
			}
			return true
		})
		return hit
	}
	if why == "" {
		// source state
		if !adds(f.Decl.Body, func(e ast.Expr) bool {
			se, ok := unparen(e).(*ast.SelectorExpr)
			return ok && fieldNamed(info, se, "q") && isTrans(se.X)
		}) {
			why = "the source state of the transition is not part of the text"
		}
	}
	var ruleIf *ast.IfStmt
	for _, st := range f.Decl.Body.List {
		if is, ok := st.(*ast.IfStmt); ok && mentionsConst(c, info, is.Cond, "CheckMask") {
			ruleIf = is
		}
	}
	if why == "" && (ruleIf == nil || ruleIf.Else == nil) {
		why = "no `if <rule bit> { … } else { … }` distinguishing reduce and symbol transitions"
	}
	if why == "" {
		// reduce branch: lhs name + every rhs name
		lhs := adds(ruleIf.Body, func(e ast.Expr) bool {
			se, ok := unparen(e).(*ast.SelectorExpr)
			if !ok || !fieldNamed(info, se, "Name") {
				return false
			}
			in, ok := cf.resolve(se.X).(*ast.SelectorExpr)
			return ok && fieldNamed(info, in, "LeftPart")
		})
		rhs := false
		for _, rs := range cf.rangesOver(ruleIf.Body, func(e ast.Expr) bool { return fieldNamed(info, cf.resolve(e), "RighPart") }) {
			elem := identObj(info, rs.Value)
			if elem != nil && noSkips(rs.Body) && cf.unconditional(rs, ruleIf.Body) && adds(rs.Body, func(e ast.Expr) bool {
				se, ok := unparen(e).(*ast.SelectorExpr)
				return ok && fieldNamed(info, se, "Name") && identObj(info, se.X) == elem
			}) {
				rhs = true
			}
		}
		sym := adds(ruleIf.Else, func(e ast.Expr) bool {
			se, ok := unparen(e).(*ast.SelectorExpr)
			if !ok || !fieldNamed(info, se, "Name") {
				return false
			}
			call, ok := unparen(se.X).(*ast.CallExpr)
			if !ok {
				return false
			}
			fn := callee(info, call)
			return fn != nil && fn.Name() == "fetchSymbol"
		})
		switch {
		case !lhs:
			why = "a reduce transition's text lacks the rule's left-hand side"
		case !rhs:
			why = "a reduce transition's text lacks the rule's right-hand symbols (all of them, unconditionally)"
		case !sym:
			why = "a symbol transition's text lacks the symbol's name"
		}
	}
	r.Check(why == "", "C18.c", "R2 COVERAGE", f.Name, c.pos(f.Decl.Pos()),
		"a transition is shown as its source state plus the rule (left-hand side and every right-hand symbol) or the symbol it is labelled with", why)
}

// mentionsConst: the expression contains a constant operand whose value equals the named LALR constant.
func mentionsConst(c *Ctx, info *types.Info, e ast.Expr, name string) bool {
	want, ok := pkgConst(c.Pkg("LALR"), name)
	if !ok {
		return false
	}
	hit := false
	ast.Inspect(e, func(n ast.Node) bool {
		if x, ok := n.(ast.Expr); ok {
			if cv := constOf(info, x); cv != nil && cv.Kind() == constant.Int && constant.Compare(constant.ToInt(cv), token.EQL, constant.ToInt(want)) {
				hit = true
			}
		}
		return !hit
	})
	return hit
}

// textAppend: the statement appends text to a buffer — `buf += v` on a string variable or `buf.WriteString(v)` on a
// local strings.Builder.
func textAppend(info *types.Info, st ast.Stmt) (types.Object, ast.Expr, bool) {
	switch x := st.(type) {
	case *ast.AssignStmt:
		if x.Tok == token.ADD_ASSIGN && len(x.Lhs) == 1 && len(x.Rhs) == 1 {
			if o := identObj(info, x.Lhs[0]); o != nil {
				return o, x.Rhs[0], true
			}
		}
	case *ast.ExprStmt:
		if call, ok := unparen(x.X).(*ast.CallExpr); ok && len(call.Args) == 1 {
			if fn := callee(info, call); fn != nil && fn.FullName() == "(*strings.Builder).WriteString" {
				if se, ok := unparen(call.Fun).(*ast.SelectorExpr); ok {
					if o := builderObj(info, se.X); o != nil {
						return o, call.Args[0], true
					}
				}
			}
		}
	}
	return nil, nil, false
}

// builderAppends: the statement writes to a local strings.Builder — buf.WriteString(v) or fmt.Fprintf/Fprint/Fprintln(&buf, …);
// returns the buffer and the written operands.
func builderAppends(info *types.Info, es *ast.ExprStmt) (types.Object, []ast.Expr, bool) {
	call, ok := unparen(es.X).(*ast.CallExpr)
	if !ok {
		return nil, nil, false
	}
	fn := callee(info, call)
	if fn == nil {
		return nil, nil, false
	}
	switch fn.FullName() {
	case "(*strings.Builder).WriteString":
		if se, ok := unparen(call.Fun).(*ast.SelectorExpr); ok && len(call.Args) == 1 {
			if o := builderObj(info, se.X); o != nil {
				return o, call.Args, true
			}
		}
	case "fmt.Fprintf", "fmt.Fprint", "fmt.Fprintln":
		if len(call.Args) >= 1 {
			if o := builderObj(info, call.Args[0]); o != nil {
				return o, call.Args[1:], true
			}
		}
	}
	return nil, nil, false
}

// c18EscapeChain — symbol names go into DOT record labels, where `<` opens a port name and `>` closes one: both must
// arrive escaped, or Graphviz drops the node's label (items and reductions disappear from the picture).
// EscapeDotGraph must therefore return its argument with BOTH replacements applied, each to the result of the other:
// a chain ReplaceAll(ReplaceAll(in, a, \a), b, \b) in either order, or one strings.NewReplacer over both pairs.
func c18EscapeChain(c *Ctx, r *Report, clause string) {
	f := c.need(r, clause, "Utils", "", "EscapeDotGraph")
	if f == nil {
		return
	}
	info := f.Pkg.TypesInfo
	key := f.Name + "/both-angle-brackets-escaped"
	ps := paramObjs(info, f.Decl)
	if len(ps) != 1 {
		r.Undecided(clause, "R1 PROVENANCE", key, c.pos(f.Decl.Pos()), "expected one parameter (the text)")
		return
	}
	pe := newPathEnum(info)
	pe.rename[ps[0]] = "IN"
	paths, err := pe.Enumerate(f.Decl.Body.List)
	if err != nil || len(paths) == 0 {
		r.Undecided(clause, "R1 PROVENANCE", key, c.pos(f.Decl.Pos()), "function body cannot be enumerated")
		return
	}
	strOf := func(t *Term) (string, bool) {
		if t != nil && t.Val != nil && t.Val.Kind() == constant.String {
			return constant.StringVal(t.Val), true
		}
		return "", false
	}
	why := ""
	var missingSep []string
	for _, p := range paths {
		if p.Kind != "return" || len(p.Vals) != 1 {
			continue
		}
		pairs := map[string]string{}
		t := p.Vals[0]
		reachedIn := false
		for k := 0; k < 12 && t != nil; k++ {
			if t.String() == "IN" {
				reachedIn = true
				break
			}
			if t.Op != "call" {
				break
			}
			switch {
			case strings.HasSuffix(t.Name, "strings.ReplaceAll") && len(t.Args) == 3:
				o, ok1 := strOf(t.Args[1])
				n, ok2 := strOf(t.Args[2])
				if ok1 && ok2 {
					pairs[o] = n
				}
				t = t.Args[0]
			case strings.HasSuffix(t.Name, "Replacer).Replace") && len(t.Args) == 2:
				// (*strings.Replacer).Replace(strings.NewReplacer(o1, n1, o2, n2 …), IN)
				nr := t.Args[0]
				if nr.Op != "call" {
					// a package-level replacer that nothing reassigns: its initialiser
					if id, ok := nr.Node.(*ast.Ident); ok {
						if v, ok := info.Uses[id].(*types.Var); ok && v.Pkg() != nil && v.Parent() == v.Pkg().Scope() {
							if init, assigned := pkgVarInitOf(f, v); init != nil && !assigned {
								if call, ok := unparen(init).(*ast.CallExpr); ok {
									if fn := callee(info, call); fn != nil && fn.FullName() == "strings.NewReplacer" {
										for i := 0; i+1 < len(call.Args); i += 2 {
											o, ok1 := constString(info, call.Args[i])
											n, ok2 := constString(info, call.Args[i+1])
											if ok1 && ok2 {
												pairs[o] = n
											}
										}
									}
								}
							}
						}
					}
				}
				if nr.Op == "call" && strings.HasSuffix(nr.Name, "strings.NewReplacer") {
					for i := 0; i+1 < len(nr.Args); i += 2 {
						o, ok1 := strOf(nr.Args[i])
						n, ok2 := strOf(nr.Args[i+1])
						if ok1 && ok2 {
							pairs[o] = n
						}
					}
				}
				t = t.Args[1]
			default:
				t = nil
			}
		}
		for _, ch := range []string{"|", "{", "}"} {
			if pairs[ch] != "\\"+ch {
				missingSep = append(missingSep, ch)
			}
		}
		switch {
		case !reachedIn:
			why = "the returned text is not the argument passed through a chain of replacements (" + p.Vals[0].String() + ")"
		case pairs["<"] != "\\<" || pairs[">"] != "\\>":
			why = fmt.Sprintf("the returned text has only the replacements %v applied to the argument — `<` → `\\<` and `>` → `\\>` must both be, each on the result of the other", pairs)
		}
	}
	r.Check(why == "", clause, "R1 PROVENANCE", key, c.pos(f.Decl.Pos()),
		"the text is returned with `<` and `>` both escaped (the second replacement works on the result of the first)",
		"a symbol name reaches a DOT record label with an unescaped angle bracket: "+why+" — Graphviz then rejects the label and draws the state without its items and reductions")
	// the other metacharacters of a record label: `|` separates fields, `{` `}` nest them (clause C18.e: a known finding)
	m := dedupStrings(missingSep)
	sortStrings(m)
	r.Check(len(m) == 0, "C18.e", "R1 PROVENANCE", f.Name+"/record-separators-escaped", c.pos(f.Decl.Pos()),
		"`|`, `{` and `}` are escaped too: a literal token with one of them stays inside its field of the record label",
		fmt.Sprintf("the characters %v reach a DOT record label unescaped: a grammar with the literal token '|' (or '{', '}') splits or nests a field of its state node, so the node no longer shows exactly the items of the state", m))
}
