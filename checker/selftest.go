package main

// selftest.go — positive fixtures for zero-expected-count rules: each must be flagged on every run,
// otherwise the run exits 2 ("checker broken") without a verdict on /repo.

import (
	"fmt"
	"go/ast"
	"go/parser"
	"go/token"
	"go/types"
)

type selfTest struct {
	name string
	run  func() error
}

var selfTests []selfTest

func runSelfTests(verbose bool) int {
	rc := 0
	for _, t := range selfTests {
		if err := t.run(); err != nil {
			fmt.Printf("selftest %s: FAILED: %v\n", t.name, err)
			rc = 2
		} else if verbose {
			fmt.Printf("selftest %s: ok\n", t.name)
		}
	}
	return rc
}

// typecheckFixture parses and type-checks a self-contained Go source (no imports).
func typecheckFixture(src string) (*types.Info, *ast.File, error) {
	fset := token.NewFileSet()
	f, err := parser.ParseFile(fset, "fixture.go", src, 0)
	if err != nil {
		return nil, nil, err
	}
	info := &types.Info{Types: map[ast.Expr]types.TypeAndValue{}, Defs: map[*ast.Ident]types.Object{}, Uses: map[*ast.Ident]types.Object{},
		Selections: map[*ast.SelectorExpr]*types.Selection{}, Implicits: map[ast.Node]types.Object{}, Scopes: map[ast.Node]*types.Scope{}}
	conf := types.Config{}
	if _, err := conf.Check("fixture", fset, []*ast.File{f}, info); err != nil {
		return nil, nil, err
	}
	return info, f, nil
}

func init() {
	selfTests = append(selfTests, selfTest{"R15-double-advance", func() error {
		info, f, err := typecheckFixture(`package fixture
func trimBad(ret []int) []int {
	for i := 0; i < len(ret); i++ {
		if ret[i] != 0 {
			break
		}
		ret = ret[1:]
	}
	return ret
}
func trimGood(ret []int) []int {
	for len(ret) > 0 && ret[0] == 0 {
		ret = ret[1:]
	}
	return ret
}`)
		if err != nil {
			return err
		}
		loops, fnd := r15Scan(info, f)
		if loops != 2 || len(fnd) != 1 {
			return fmt.Errorf("expected 2 re-slicing loops and exactly 1 finding, got %d / %d", loops, len(fnd))
		}
		return nil
	}})
}
