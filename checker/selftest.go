package main

// selftest.go — positive fixtures for zero-expected-count rules: each must be flagged on every run,
// otherwise the run exits 2 ("checker broken") without a verdict on /repo.

import "fmt"

type selfTest struct {
	name string
	run  func() error
}

var selfTests []selfTest

func runSelfTests(verbose bool) int {
	rc := 0
	for _, t := range selfTests {
		if err := t.run(); err != nil {
			fmt.Printf("selftest %s: FAILED: %v\n", t.name, err)
			rc = 2
		} else if verbose {
			fmt.Printf("selftest %s: ok\n", t.name)
		}
	}
	return rc
}
