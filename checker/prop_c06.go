package main

// C06 — syntax errors are reported through the documented channel.

import (
	"fmt"
	"go/ast"
	"go/constant"
	"go/token"
	"go/types"
	"regexp"
	"strings"
)

func init() { register("C06", checkC06) }

func checkC06(c *Ctx, r *Report) {
	r.Explanation = "R1 PROVENANCE on the emitted constants (ERROR_ACTION/ACCEPT_ACTION holes must be filled by the producers that also fill the table cells, in every backend); R4 on the two producers (len(states)+positive distinct constants); R4/R2 on every Go skeleton's driver loop (error class → panic whose text starts with `Grammar error`, no push / token fetch / reduce on that path; accept returns without pushing; both codes are tested before the sign test); bounds-guard dominance in the packed Action reader; TypeScript driver by token-tree rules. Not decided: that the first bad token is detected on particular inputs (needs exact tables: C03, C05) and termination of reduce sequences."
	r.Assumptions = append(r.Assumptions, "user-supplied GetToken and semantic actions do not panic", "generated tables are exact before compression (C03); the compression itself is a prerequisite here (C05)")
	st := c.GetStaged()
	stagedErrors(r, "C06", st)
	c06a(c, r, st)
	c06b(c, r)
	c06c(c, r, st)
	c06d(c, r, st)
	// default reductions may replace error cells only through the row default itself: a cell is blanked exactly when
	// it equals its own row's default, otherwise an error cell (e.g. the %nonassoc one) silently becomes a reduce
	// — and more generally an error cell must read back as the error code from the packed and the split tables: an
	// unowned slot that reads as owned by some row turns the error into a shift/reduce by garbage (C05 as a whole)
	includePrereq(c, r, "C06.d", checkC05)
	// the cell of an unresolvable (%nonassoc) conflict must hold the error code: GenTable leaves the prefill alone for
	// an ERROR action (C04.d)
	includeSome(r, "C06.d", func(sub *Report) { c04d(c, sub) }, "ERROR-keeps-prefill", "cell-writer")
	// the error is reported for the configuration of THIS parse: the stack the lookup is made on belongs to one parse
	// only if ParserInit gives it storage nothing else still refers to (C15.c) — a nested parse that writes into the
	// suspended outer one makes the outer parse accept a non-sentence or fault on a garbage state
	c15FreshStackAll(r, "C06.d←C15.c", st)
	// a token code must reach a terminal's column only: translate's cases are exactly the terminals (C11.c)
	sub := &Report{Prop: "C06", Extra: map[string]interface{}{}}
	c11c(c, sub, st)
	for _, o := range sub.Obls {
		if strings.Contains(o.Construct, "buildTranslate") {
			n := r.add("C06.d←"+o.Clause, o.Rule, o.Construct, o.Pos, o.Verdict, o.Detail)
			n.Nontriv = true
		}
	}
}

var reConstAssign = regexp.MustCompile(`const (ERROR_ACTION|ACCEPT_ACTION) =([^\n]*)`)

// constHoles returns, for a ConstPart shape, how ERROR_ACTION and ACCEPT_ACTION are filled:
// "hole:<path>" or "literal:<text>" or "" (absent).
func constHoles(sh Shape) map[string]string {
	res := map[string]string{}
	parts := partsOf(sh)
	for i, p := range parts {
		lit, ok := p.(*SLit)
		if !ok {
			continue
		}
		for _, m := range reConstAssign.FindAllStringSubmatchIndex(lit.S, -1) {
			name := lit.S[m[2]:m[3]]
			rest := lit.S[m[4]:m[5]]
			endsLiteral := m[5] == len(lit.S)
			if strings.TrimSpace(rest) == "" && endsLiteral && i+1 < len(parts) {
				if h, ok := parts[i+1].(*SHole); ok {
					res[name] = "hole:" + h.Path
					continue
				}
				res[name] = "other:" + shapeString(parts[i+1])
				continue
			}
			res[name] = "literal:" + strings.TrimSpace(rest)
		}
	}
	return res
}

func c06a(c *Ctx, r *Report, st *Staged) {
	const clause = "C06.a"
	type backend struct {
		name string
		ev   *ShapeEval
		fn   string
	}
	var bs []backend
	for _, sc := range st.Configs {
		if !sc.V.Http {
			bs = append(bs, backend{sc.V.Name, sc.Eval, "Builder.(*TemplateBuilder).buildConstPart"})
		}
	}
	if st.TS != nil && st.TS.Eval != nil {
		bs = append(bs, backend{"typescript", st.TS.Eval, "Builder.(*TsBuilder).buildConstPart"})
	}
	if len(bs) < 5 {
		r.Undecided(clause, "R1 PROVENANCE", "backends", "-", fmt.Sprintf("expected 4 Go configurations and the TypeScript backend, found %d (%v)", len(bs), st.Errs))
	}
	seen := map[string]bool{}
	for _, b := range bs {
		var sh Shape
		var pos token.Pos
		for fv, s := range b.ev.fields {
			if fv.Name() == "ConstPart" {
				sh = s
				pos = b.ev.fieldPos[fv]
			}
		}
		key := b.fn
		if seen[key] && !strings.Contains(b.name, "typescript") {
			// the Go builder is the same function in all four configurations: one obligation per function and constant
			continue
		}
		seen[key] = true
		if sh == nil {
			r.Undecided(clause, "R1 PROVENANCE", b.fn+"/ConstPart", "-", "the builder never assigns ConstPart ("+strings.Join(b.ev.errs, "; ")+")")
			continue
		}
		holes := constHoles(sh)
		for name, producer := range map[string]string{"ERROR_ACTION": "GenErrorCode()", "ACCEPT_ACTION": "GenAcceptCode()"} {
			h := holes[name]
			construct := b.fn + "/const " + name
			switch {
			case h == "":
				r.Fail(clause, "R1 PROVENANCE", construct, c.pos(pos), "the constant block does not define "+name)
			case strings.HasPrefix(h, "hole:") && strings.HasSuffix(h, "."+producer):
				r.OK(clause, "R1 PROVENANCE", construct, c.pos(pos), name+" is emitted from "+strings.TrimPrefix(h, "hole:")+", the producer of the table cells")
			case strings.HasPrefix(h, "literal:"):
				r.Fail(clause, "R1 PROVENANCE", construct, c.pos(pos), fmt.Sprintf("%s is emitted as the fixed text %q while the table cells hold %s (= number of states + constant): the driver's comparison with %s never matches an error/accept cell", name, strings.TrimPrefix(h, "literal:"), producer, name))
			default:
				r.Fail(clause, "R1 PROVENANCE", construct, c.pos(pos), fmt.Sprintf("%s is filled from %s, expected the cell producer %s", name, h, producer))
			}
		}
	}
}

func c06b(c *Ctx, r *Report) {
	const clause = "C06.b"
	vals := map[string]int64{}
	for _, name := range []string{"GenErrorCode", "GenAcceptCode"} {
		f := c.need(r, clause, "LALR", "LALR1", name)
		if f == nil {
			continue
		}
		pe := newPathEnum(f.Pkg.TypesInfo)
		paths, err := pe.Enumerate(f.Decl.Body.List)
		if err != nil || len(paths) != 1 || paths[0].Kind != "return" || len(paths[0].Vals) != 1 {
			r.Undecided(clause, "R4 DECISION-TABLE", f.Name, c.pos(f.Decl.Pos()), "not a single `return len(states) + constant`")
			continue
		}
		t := paths[0].Vals[0]
		ok := false
		if t.Op == "arith" && t.Name == "+" {
			a, b := t.Args[0], t.Args[1]
			if b.Op != "const" {
				a, b = b, a
			}
			if b.Op == "const" && a.Op == "len" && strings.HasSuffix(a.Args[0].String(), ".G.LR0.LR0Closure") {
				if v, isInt := constant.Int64Val(b.Val); isInt && v > 0 {
					vals[name] = v
					ok = true
				}
			}
		}
		r.Check(ok, clause, "R4 DECISION-TABLE", f.Name, c.pos(f.Decl.Pos()),
			fmt.Sprintf("returns number of states + %d: above every shift target, never negative", vals[name]),
			"does not return `number of states + positive constant` ("+t.String()+"): the code can collide with a shift target or a reduce entry")
	}
	if len(vals) == 2 {
		r.Check(vals["GenErrorCode"] != vals["GenAcceptCode"], clause, "R4 DECISION-TABLE", "LALR.GenErrorCode≠GenAcceptCode", "LALR/Utils.go",
			"error and accept codes differ", "error and accept codes are equal")
	}
}

func c06c(c *Ctx, r *Report, st *Staged) {
	const clause = "C06.c"
	n := 0
	for _, sc := range st.Configs {
		for _, sk := range sc.Skels {
			if sk.K != 2 || sk.ActSet != 0 || sk.V.Http {
				continue
			}
			n++
			d := analyseDriver(sk)
			name := "skeleton " + sk.V.Name + "/Parser"
			if d.err != "" {
				r.Undecided(clause, "R4 DRIVER", name, sk.pos(token.NoPos), d.err)
				continue
			}
			// error class
			eps := d.classPaths(d.errConst)
			bad := ""
			if len(eps) == 0 {
				bad = "no path handles a == ERROR_ACTION"
			}
			for _, p := range eps {
				if p.Kind != "panic" || len(p.Vals) != 1 {
					bad = fmt.Sprintf("on a == ERROR_ACTION the driver does not panic (outcome %s at %s)", p.Kind, sk.pos(nodePos(p)))
					break
				}
				lm := leftmostAdd(p.Vals[0])
				txt := ""
				if s, ok := termConstString(lm); ok {
					txt = s
				} else if lm.Op == "call" && lm.Name == "fmt.Sprintf" && len(lm.Args) > 0 {
					txt, _ = termConstString(lm.Args[0])
				}
				if !strings.HasPrefix(txt, "Grammar error") {
					bad = fmt.Sprintf("the panic text on a syntax error starts with %q, the documented channel is a panic starting with `Grammar error`", txt)
					break
				}
				if cl := hasCall(p, "PushStateSym", "fetchLookAhead", "GetToken", "ReduceFunc"); cl != "" {
					bad = "the error path calls " + cl + " before reporting the error (the bad token must not be shifted, no further token requested)"
					break
				}
			}
			r.Check(bad == "", clause, "R4 DRIVER", name+"/error-class", sk.pos(d.loop.Pos()),
				"a == ERROR_ACTION → panic(\"Grammar error…\") with no push, reduce or token fetch on the way", bad)
			// the report itself must not be able to fault: building the message in the error branch (and in the skeleton
			// functions it calls) performs no indexing, slicing, dereference, unchecked assertion or division — an error
			// met before anything was consumed (position 0, empty stack of values) would otherwise surface as a runtime
			// error instead of the documented panic
			{
				var faults []string
				pm := parentMap(d.fn.Body)
				seenFn := map[*ast.FuncDecl]bool{}
				var scan func(n ast.Node, where string, depth int)
				scan = func(n ast.Node, where string, depth int) {
					ast.Inspect(n, func(m ast.Node) bool {
						switch x := m.(type) {
						case *ast.FuncLit:
							return false
						case *ast.IndexExpr:
							if tv, ok := sk.Info.Types[x.X]; ok {
								if _, isMap := tv.Type.Underlying().(*types.Map); isMap {
									return true
								}
								if tv.IsType() { // generic instantiation
									return true
								}
							}
							faults = append(faults, where+" indexes `"+oneLine(printNode(sk.Fset, x))+"`")
						case *ast.SliceExpr:
							faults = append(faults, where+" slices `"+oneLine(printNode(sk.Fset, x))+"`")
						case *ast.StarExpr:
							if tv, ok := sk.Info.Types[x]; ok && !tv.IsType() {
								faults = append(faults, where+" dereferences `"+oneLine(printNode(sk.Fset, x))+"`")
							}
						case *ast.TypeAssertExpr:
							if _, commaOk := pm[x].(*ast.AssignStmt); !commaOk && x.Type != nil {
								faults = append(faults, where+" asserts `"+oneLine(printNode(sk.Fset, x))+"`")
							}
						case *ast.BinaryExpr:
							if x.Op == token.QUO || x.Op == token.REM {
								if tv, ok := sk.Info.Types[x.Y]; !ok || tv.Value == nil {
									faults = append(faults, where+" divides by `"+oneLine(printNode(sk.Fset, x.Y))+"`")
								}
							}
						case *ast.CallExpr:
							if depth < 2 {
								if fn := callee(sk.Info, x); fn != nil && fn.Pkg() == sk.Pkg {
									for _, dd := range sk.File.Decls {
										if fd, ok := dd.(*ast.FuncDecl); ok && fd.Body != nil && sk.Info.Defs[fd.Name] == types.Object(fn) && !seenFn[fd] && fd.Name.Name != "GetToken" {
											seenFn[fd] = true
											scan(fd.Body, fd.Name.Name, depth+1)
										}
									}
								}
							}
						}
						return true
					})
				}
				nErr := 0
				for _, p := range eps {
					if p.Kind != "panic" || p.Node == nil {
						continue
					}
					// the branch taken on the error code: the innermost block around the panic that hangs off an if / case
					var branch ast.Node
					for cur := ast.Node(p.Node); cur != nil; cur = pm[cur] {
						if blk, ok := cur.(*ast.BlockStmt); ok {
							if _, isIf := pm[blk].(*ast.IfStmt); isIf {
								branch = blk
								break
							}
						}
						if cc, ok := cur.(*ast.CaseClause); ok {
							branch = cc
							break
						}
					}
					if branch == nil {
						branch = p.Node
					}
					nErr++
					scan(branch, "the error branch", 0)
				}
				sortStrings(faults)
				r.Check(len(faults) == 0 && nErr > 0, clause, "R4 DRIVER", name+"/error-report-cannot-fault", sk.pos(d.loop.Pos()),
					"the error branch and the skeleton functions it calls build the message without indexing, slicing, dereferencing, asserting or dividing",
					"reporting a syntax error can itself fail with a runtime error (not the documented `Grammar error` panic) — "+strings.Join(dedupStrings(faults), "; "))
			}
			// accept class
			aps := d.classPaths(d.accConst)
			bad = ""
			if len(aps) == 0 {
				bad = "no path handles a == ACCEPT_ACTION"
			}
			for _, p := range aps {
				if p.Kind != "return" {
					bad = "on a == ACCEPT_ACTION the driver does not return (outcome " + p.Kind + ")"
					break
				}
				if cl := hasCall(p, "PushStateSym", "fetchLookAhead", "ReduceFunc"); cl != "" {
					bad = "the accept path calls " + cl
					break
				}
			}
			r.Check(bad == "", clause, "R4 DRIVER", name+"/accept-class", sk.pos(d.loop.Pos()),
				"a == ACCEPT_ACTION → return, nothing pushed", bad)
			// shift and reduce classes must have passed both code tests
			for _, cls := range []struct {
				n string
				v int64
			}{{"shift", 5}, {"reduce", -3}} {
				ps := d.classPaths(constant.MakeInt64(cls.v))
				bad = ""
				for _, p := range ps {
					e, a := false, false
					for _, cd := range p.Conds {
						s := cd.Atom.String()
						if !cd.Pol && strings.Contains(s, d.aStr+" == "+d.errConst.ExactString()) {
							e = true
						}
						if !cd.Pol && strings.Contains(s, d.aStr+" == "+d.accConst.ExactString()) {
							a = true
						}
					}
					if p.Kind == "panic" {
						bad = "a " + cls.n + " action ends in a panic"
					}
					if !(e && a) && hasCall(p, "PushStateSym", "ReduceFunc") != "" {
						bad = fmt.Sprintf("a path that pushes or reduces has not first excluded ERROR_ACTION (%v) and ACCEPT_ACTION (%v): both codes are positive and would be taken for shift targets", e, a)
					}
				}
				if len(ps) == 0 {
					bad = "no path for a " + cls.n + " action"
				}
				r.Check(bad == "", clause, "R4 DRIVER", name+"/"+cls.n+"-after-code-tests", sk.pos(d.loop.Pos()),
					"the "+cls.n+" arm is reached only after a != ERROR_ACTION and a != ACCEPT_ACTION", bad)
			}
		}
	}
	if n < 4 {
		r.Undecided(clause, "R4 DRIVER", "skeletons", "-", fmt.Sprintf("only %d of 4 Go skeletons available", n))
	}
	c06cTS(c, r, st)
}

func nodePos(p *PathOut) token.Pos {
	if p.Node != nil {
		return p.Node.Pos()
	}
	return token.NoPos
}

func c06d(c *Ctx, r *Report, st *Staged) {
	const clause = "C06.d"
	n := 0
	for _, sc := range st.Configs {
		if !sc.V.Packed || sc.V.Http {
			continue
		}
		for _, sk := range sc.Skels {
			if sk.K != 2 || sk.ActSet != 0 {
				continue
			}
			n++
			rt, err := analysePackedAction(sk)
			if err != "" {
				r.Undecided(clause, "R4 SIBLING-READERS", "skeleton "+sk.V.Name+"/(*StateSym).Action", sk.pos(token.NoPos), err)
				continue
			}
			checkReader(r, clause, rt, "full")
		}
	}
	if n < 2 {
		r.Undecided(clause, "R4 SIBLING-READERS", "packed skeletons", "-", fmt.Sprintf("only %d of 2 packed skeletons available", n))
	}
	// translate's default column 0 is a valid column of every row
	if f := c.need(r, clause, "LALR", "LALR1", "GenTable"); f != nil {
		res := analyseGenTableCells(c, f)
		if res.err != "" {
			r.Undecided(clause, "R13 AFFINE", f.Name+"/row-length", c.pos(f.Decl.Pos()), res.err)
		} else {
			r.Check(res.rowLenIsSymbols, clause, "R13 AFFINE", f.Name+"/row-length", c.pos(res.pos),
				"every dense row has len(G.Symbols) columns, so every symbol id produced by translate (default 0 included) is a valid column",
				"dense rows are not allocated with len(G.Symbols) columns: a symbol id produced by translate can be out of range")
		}
	}
	for _, sc := range st.Configs {
		for _, sk := range sc.Skels {
			if sk.K != 2 || sk.ActSet != 0 || sk.V.Http {
				continue
			}
			fd := sk.FuncDecl("", "translate")
			name := "skeleton " + sk.V.Name + "/translate"
			if fd == nil || sk.Info == nil {
				r.Undecided(clause, "R4 DECISION-TABLE", name, sk.pos(token.NoPos), "no translate function")
				continue
			}
			pe := newPathEnum(sk.Info)
			paths, err := pe.Enumerate(fd.Body.List)
			if err != nil {
				r.Undecided(clause, "R4 DECISION-TABLE", name, sk.pos(fd.Pos()), err.Error())
				continue
			}
			okDefault := false
			for _, p := range paths {
				if p.Kind == "return" && len(p.Vals) == 1 && p.Vals[0].Op == "const" && p.Vals[0].Val.ExactString() == "0" {
					// the path on which no case matched
					all := true
					for _, cd := range p.Conds {
						if cd.Pol {
							all = false
						}
					}
					if all {
						okDefault = true
					}
				}
			}
			r.Check(okDefault, clause, "R4 DECISION-TABLE", name+"/unknown-token-maps-to-column-0", sk.pos(fd.Pos()),
				"a token code with no case maps to column 0 (`start`), which holds the error code in every state",
				"a token code with no case does not map to column 0: an unknown token may index outside the table or hit a non-error cell")
			// … and translate is the ONLY mapping between the lexer's code and the column: every code GetToken returns
			// goes through it unchanged (a shortcut such as "codes ≤ 0 are the end marker" turns an unknown token into
			// end of input and a non-sentence whose prefix is a sentence is accepted)
			lname := "skeleton " + sk.V.Name + "/lookahead-is-translate-of-the-lexer-code"
			var srcs []string
			nFetch := 0
			for _, fdl := range sk.File.Decls {
				gd, isF := fdl.(*ast.FuncDecl)
				if !isF || gd.Body == nil {
					continue
				}
				ast.Inspect(gd.Body, func(n ast.Node) bool {
					call, isC := n.(*ast.CallExpr)
					if !isC {
						return true
					}
					if id, isI := call.Fun.(*ast.Ident); isI && id.Name == "GetToken" {
						nFetch++
						// the statement form: translate(GetToken(…)) directly, or token := GetToken(…); return translate(token)
						srcs = append(srcs, gd.Name.Name)
					}
					return true
				})
			}
			why := ""
			if nFetch == 0 {
				why = "the generated parser never calls GetToken"
			}
			for _, fname := range srcs {
				gd := sk.FuncDecl("", fname)
				if gd == nil {
					gd = sk.FuncDecl("Context", fname)
				}
				if gd == nil {
					continue
				}
				pe2 := newPathEnum(sk.Info)
				ps2, err2 := pe2.Enumerate(gd.Body.List)
				if err2 != nil {
					continue // a driver function: judged below by its own uses
				}
				// in a function whose result is the lookahead (an int function calling GetToken): every path returns translate(GetToken(…))
				if gd.Type.Results == nil || len(gd.Type.Results.List) != 1 || fname == "Parser" {
					continue
				}
				for _, p := range ps2 {
					if p.Kind != "return" || len(p.Vals) != 1 {
						why = "a path of " + fname + " does not return a lookahead"
						continue
					}
					v := p.Vals[0].String()
					if !strings.HasPrefix(v, "main.translate(main.GetToken(") {
						why = fname + " returns " + v + " on the path [" + p.CondString() + "], not translate(GetToken(…))"
					}
				}
			}
			r.Check(why == "", clause, "R4 DECISION-TABLE", lname, sk.pos(fd.Pos()),
				"every lexer code becomes a column through translate and nothing else", why)
		}
	}
}

// c06cTS: TypeScript driver, token-level.
func c06cTS(c *Ctx, r *Report, st *Staged) {
	const clause = "C06.c"
	ts := st.TS
	name := "typescript/Parser"
	if ts == nil || ts.Eval == nil || ts.LexEr != "" || len(ts.Errs) > 0 {
		why := "TypeScript backend could not be staged"
		if ts != nil {
			why += ": " + ts.LexEr + " " + strings.Join(ts.Errs, "; ")
		}
		r.Undecided(clause, "TS DRIVER", name, "Builder/TsGenCode.go", why)
		return
	}
	loop, _, after, err := ts.tsDriver()
	if err != "" {
		r.Undecided(clause, "TS DRIVER", name, "Builder/TsGenCode.go", err)
		return
	}
	paths := tsEnumerate(loop.Then)
	var errPaths, accPaths []*tsPath
	for _, p := range paths {
		for _, cd := range p.Conds {
			if cd.Pol && strings.HasSuffix(cd.Text, "==ERROR_ACTION") {
				errPaths = append(errPaths, p)
			}
			if cd.Pol && strings.HasSuffix(cd.Text, "==ACCEPT_ACTION") {
				accPaths = append(accPaths, p)
			}
		}
	}
	bad := ""
	if len(errPaths) == 0 {
		bad = "no branch tests `action == ERROR_ACTION`"
	}
	for _, p := range errPaths {
		logs := false
		for _, e := range p.Effects {
			if e == "call console.error" {
				logs = true
			}
			for _, f := range []string{"call PushStateSym", "call fetchLookAhead", "call ReduceFunc", "call GetToken"} {
				if e == f {
					bad = "the error branch performs `" + f + "` before leaving the loop"
				}
			}
		}
		if !logs {
			bad = "the error branch does not log the grammar error with console.error"
		}
		if p.Kind != "break" && !(p.Kind == "return" && p.Val == "null") {
			bad = "the error branch neither leaves the loop nor returns null (outcome " + p.Kind + " " + p.Val + ")"
		}
	}
	// after the loop: return null
	retNull := false
	for _, s := range after {
		if s.Kind == "return" && tsJoin(s.Expr) == "null" {
			retNull = true
		}
	}
	if !retNull && bad == "" {
		bad = "the statement after the driver loop is not `return null`"
	}
	r.Check(bad == "", clause, "TS DRIVER", name+"/error-class", "Builder/TsGenCode.go (StateFunc literal)",
		"action == ERROR_ACTION → console.error + leave the loop → return null; nothing pushed, no token fetched (token-level rule)", bad)
	bad = ""
	if len(accPaths) == 0 {
		bad = "no branch tests `action == ACCEPT_ACTION`"
	}
	for _, p := range accPaths {
		if p.Kind != "return" || p.Val == "null" || p.Val == "" {
			bad = "the accept branch does not return a value"
		}
		for _, e := range p.Effects {
			if e == "call PushStateSym" || e == "call ReduceFunc" {
				bad = "the accept branch performs `" + e + "`"
			}
		}
	}
	r.Check(bad == "", clause, "TS DRIVER", name+"/accept-class", "Builder/TsGenCode.go (StateFunc literal)",
		"action == ACCEPT_ACTION → return the state's value, nothing pushed (token-level rule)", bad)
	// shift / reduce only after both tests failed
	bad = ""
	n := 0
	for _, p := range paths {
		acts := false
		for _, e := range p.Effects {
			if e == "call PushStateSym" || e == "call ReduceFunc" {
				acts = true
			}
		}
		if !acts {
			continue
		}
		n++
		e, a := false, false
		for _, cd := range p.Conds {
			if !cd.Pol && strings.HasSuffix(cd.Text, "==ERROR_ACTION") {
				e = true
			}
			if !cd.Pol && strings.HasSuffix(cd.Text, "==ACCEPT_ACTION") {
				a = true
			}
		}
		if !e || !a {
			bad = "a branch that pushes or reduces has not excluded ERROR_ACTION and ACCEPT_ACTION first: " + p.String()
		}
	}
	if n == 0 {
		bad = "no shift/reduce branch found"
	}
	r.Check(bad == "", clause, "TS DRIVER", name+"/shift-reduce-after-code-tests", "Builder/TsGenCode.go (StateFunc literal)",
		fmt.Sprintf("%d shift/reduce branches are reached only after both code tests failed", n), bad)
}
