package main

// controls.go — thorough tier, live-rule controls (DESIGN.md §3 "Quick vs thorough", item c).
// For every property a table of small edits of /repo's CURRENT sources is applied, one at a time, to a scratch copy
// of the tree (outside /repo and /verif, removed immediately afterwards); the property's rules are evaluated on the
// copy. A "breaking" control must make the named obligation fail (the rule is alive and names the instance); a
// "benign" control (rename a local, hoist an expression, reorder independent statements) must leave the verdict
// unchanged (the rule does not fire on behaviour-preserving edits). Outcomes are recorded in the evidence; they do
// not change the verdict on /repo. A control whose target text no longer exists is reported as unavailable.

import (
	"encoding/json"
	"fmt"
	"io"
	"os"
	"os/exec"
	"path/filepath"
	"regexp"
	"sort"
	"strings"
)

type control struct {
	Prop   string
	Name   string
	File   string
	Old    string
	New    string
	Expect string // substring of the obligation key expected to fail; "" = benign
}

type controlOutcome struct {
	Name       string `json:"name"`
	Kind       string `json:"kind"`
	Outcome    string `json:"outcome"`
	Obligation string `json:"obligation,omitempty"`
	Detail     string `json:"detail,omitempty"`
}

func copyTree(src, dst string) error {
	return filepath.Walk(src, func(p string, info os.FileInfo, err error) error {
		if err != nil {
			return err
		}
		rel, _ := filepath.Rel(src, p)
		if rel == ".git" || strings.HasPrefix(rel, ".git"+string(filepath.Separator)) {
			if info.IsDir() {
				return filepath.SkipDir
			}
			return nil
		}
		target := filepath.Join(dst, rel)
		if info.IsDir() {
			return os.MkdirAll(target, 0o755)
		}
		if !info.Mode().IsRegular() {
			return nil
		}
		in, err := os.Open(p)
		if err != nil {
			return err
		}
		defer in.Close()
		out, err := os.Create(target)
		if err != nil {
			return err
		}
		defer out.Close()
		_, err = io.Copy(out, in)
		return err
	})
}

// runControls evaluates the controls of one property; base holds the non-ok obligation keys of the real tree.
func runControls(repo, tier, prop string, base map[string]bool) []controlOutcome {
	var out []controlOutcome
	for _, ct := range controls {
		if ct.Prop != prop {
			continue
		}
		kind := "breaking"
		if ct.Expect == "" {
			kind = "benign"
		}
		oc := controlOutcome{Name: ct.Name, Kind: kind}
		src, err := os.ReadFile(filepath.Join(repo, ct.File))
		if err != nil || strings.Count(string(src), ct.Old) < 1 {
			oc.Outcome = "unavailable"
			oc.Detail = "the construct this control edits is no longer present in " + ct.File
			out = append(out, oc)
			continue
		}
		tmp, err := os.MkdirTemp("", "yaccverif-ctl-")
		if err != nil {
			oc.Outcome = "unavailable"
			oc.Detail = err.Error()
			out = append(out, oc)
			continue
		}
		func() {
			defer os.RemoveAll(tmp)
			if err := copyTree(repo, tmp); err != nil {
				oc.Outcome = "unavailable"
				oc.Detail = err.Error()
				return
			}
			edited := strings.Replace(string(src), ct.Old, ct.New, 1)
			if controlsAll[ct.Name] {
				edited = regexp.MustCompile(`\b`+regexp.QuoteMeta(ct.Old)+`\b`).ReplaceAllString(string(src), ct.New)
			}
			os.WriteFile(filepath.Join(tmp, ct.File), []byte(edited), 0o644)
			newBad, oc2, det := evalScratch(tmp, prop, base)
			if oc2 != "" {
				oc.Outcome, oc.Detail = oc2, det
				return
			}
			if kind == "benign" {
				if len(newBad) == 0 {
					oc.Outcome = "silent"
				} else {
					oc.Outcome = "FALSE-ALARM"
					oc.Obligation = newBad[0]
				}
				return
			}
			for _, k := range newBad {
				if strings.Contains(k, ct.Expect) {
					oc.Outcome = "fired"
					oc.Obligation = k
					return
				}
			}
			oc.Outcome = "MISSED"
			if len(newBad) > 0 {
				oc.Detail = "other obligations fired: " + newBad[0]
			}
		}()
		out = append(out, oc)
	}
	return out
}

// evalScratch builds the scratch tree, loads it and evaluates the property's rules on it; it returns the keys of
// the obligations that are not ok and were ok on the real tree.
func evalScratch(tmp, prop string, base map[string]bool) (newBad []string, outcome, detail string) {
	cmd := exec.Command("go", "build", "./...")
	cmd.Dir = tmp
	cmd.Env = append(os.Environ(), "GOFLAGS=-mod=mod", "GOPROXY=off", "GOSUMDB=off", "GOWORK=off", "GOTOOLCHAIN=local")
	if b, err := cmd.CombinedOutput(); err != nil {
		return nil, "does-not-build", firstLine(string(b))
	}
	c, err := loadRepo(tmp)
	if err != nil {
		return nil, "does-not-build", err.Error()
	}
	c.Tier = "quick"
	r := &Report{Prop: prop, Extra: map[string]interface{}{}}
	func() {
		defer func() {
			if p := recover(); p != nil {
				r.Undecided(prop, "PANIC", "analyser", "-", fmt.Sprint(p))
			}
		}()
		props[prop](c, r)
	}()
	for _, o := range r.Obls {
		if o.Verdict != "ok" && !base[o.Key] {
			newBad = append(newBad, o.Key)
		}
	}
	return newBad, "", ""
}

// runSeedReplays: every stored seeded change of this property (/verif/seeded/<id>/patch.diff, produced by an agent
// that saw only the property text) is applied to a scratch copy of the CURRENT tree; the property's own check must
// report at least one new failing obligation. A patch that no longer applies is reported as unavailable.
func runSeedReplays(repo, verif, prop string, base map[string]bool) []controlOutcome {
	var out []controlOutcome
	dirs, _ := filepath.Glob(filepath.Join(verif, "seeded", prop+"-*"))
	sort.Strings(dirs)
	for _, d := range dirs {
		patch := filepath.Join(d, "patch.diff")
		if _, err := os.Stat(patch); err != nil {
			continue
		}
		oc := controlOutcome{Name: "seed " + filepath.Base(d), Kind: "seed"}
		tmp, err := os.MkdirTemp("", "yaccverif-seed-")
		if err != nil {
			oc.Outcome, oc.Detail = "unavailable", err.Error()
			out = append(out, oc)
			continue
		}
		func() {
			defer os.RemoveAll(tmp)
			if err := copyTree(repo, tmp); err != nil {
				oc.Outcome, oc.Detail = "unavailable", err.Error()
				return
			}
			cmd := exec.Command("git", "apply", "--whitespace=nowarn", patch)
			cmd.Dir = tmp
			cmd.Env = append(os.Environ(), "GIT_DIR=/nonexistent", "GIT_CEILING_DIRECTORIES="+filepath.Dir(tmp))
			if b, err := cmd.CombinedOutput(); err != nil {
				oc.Outcome, oc.Detail = "unavailable", "patch does not apply to the current tree: "+firstLine(string(b))
				return
			}
			newBad, oc2, det := evalScratch(tmp, prop, base)
			if oc2 != "" {
				oc.Outcome, oc.Detail = oc2, det
				return
			}
			if len(newBad) == 0 {
				oc.Outcome = "MISSED"
				return
			}
			oc.Outcome = "fired"
			oc.Obligation = newBad[0]
			if len(newBad) > 1 {
				oc.Detail = fmt.Sprintf("+%d more", len(newBad)-1)
			}
		}()
		out = append(out, oc)
	}
	return out
}

// runBenignReplays: the library of behaviour-preserving rewrites (/verif/tools/benign/index.json: renames, hoists,
// equivalent loop forms — each once false-alarmed or is the correct twin of a seeded bug) is applied to a scratch
// copy of the CURRENT tree; the property's rules must stay silent.
func runBenignReplays(repo, verif, prop string, base map[string]bool) []controlOutcome {
	var out []controlOutcome
	raw, err := os.ReadFile(filepath.Join(verif, "tools", "benign", "index.json"))
	if err != nil {
		return nil
	}
	var idx []struct {
		Name  string   `json:"name"`
		Patch string   `json:"patch"`
		Props []string `json:"props"`
	}
	if err := json.Unmarshal(raw, &idx); err != nil {
		return []controlOutcome{{Name: "benign library", Kind: "benign-patch", Outcome: "unavailable", Detail: err.Error()}}
	}
	for _, e := range idx {
		use := false
		for _, p := range e.Props {
			if p == prop {
				use = true
			}
		}
		if !use {
			continue
		}
		oc := controlOutcome{Name: "benign " + e.Name, Kind: "benign-patch"}
		tmp, err := os.MkdirTemp("", "yaccverif-benign-")
		if err != nil {
			oc.Outcome, oc.Detail = "unavailable", err.Error()
			out = append(out, oc)
			continue
		}
		func() {
			defer os.RemoveAll(tmp)
			if err := copyTree(repo, tmp); err != nil {
				oc.Outcome, oc.Detail = "unavailable", err.Error()
				return
			}
			cmd := exec.Command("git", "apply", "--whitespace=nowarn", filepath.Join(verif, "tools", "benign", e.Patch))
			cmd.Dir = tmp
			cmd.Env = append(os.Environ(), "GIT_DIR=/nonexistent", "GIT_CEILING_DIRECTORIES="+filepath.Dir(tmp))
			if b, err := cmd.CombinedOutput(); err != nil {
				oc.Outcome, oc.Detail = "unavailable", "patch does not apply to the current tree: "+firstLine(string(b))
				return
			}
			newBad, oc2, det := evalScratch(tmp, prop, base)
			if oc2 != "" {
				oc.Outcome, oc.Detail = oc2, det
				return
			}
			if len(newBad) == 0 {
				oc.Outcome = "silent"
			} else {
				oc.Outcome = "FALSE-ALARM"
				oc.Obligation = newBad[0]
			}
		}()
		out = append(out, oc)
	}
	return out
}

func firstLine(s string) string {
	s = strings.TrimSpace(s)
	if i := strings.IndexByte(s, '\n'); i >= 0 {
		s = s[:i]
	}
	return s
}
