package main

// rename.go — NORMALISATION OF RENAMED DECLARATIONS. The rules name what they read: packages, types, fields,
// functions (`LALR.(*LALR1).GenTable`, `.RighPart`, `findMaxOccurence`). A maintainer who fixes the spelling of
// `ProductoinRule`, `RighPart`, `Vistor` or `CaclIncludes` changes no behaviour but removes every anchor. Before any
// rule runs (and before the inlining normaliser), the declarations of the loaded tree are therefore compared with
// the symbol table of the tree the rules were confirmed on (baseline_syms.go, generated with `-dump syms`):
//
//	pass 1  named types:   a baseline type that is gone ↔ a new type of the same shape
//	pass 2  struct fields, functions / methods, package-level variables and constants:
//	        a baseline name that is gone ↔ a new name with the identical type / signature in the same owner
//
// (ambiguities are resolved by the smallest edit distance, which must be unique; anything left over stays as it is).
// Each matched declaration is RENAMED BACK in the syntax trees — every identifier that resolves to it, in every
// package — and all packages of the module are type-checked again, so that the rules see a consistent resolved
// program under the names they know. Positions do not move (only Ident.Name changes), reports still point at the
// real file and line. Builder field names also occur in the embedded templates (`{{.ReduceFunc}}`): the template
// text constants are patched the same way.
//
// Nothing is assumed about a matched pair beyond its declaration: the rules read the renamed function's body, the
// renamed field's writers and readers, exactly as they would have under the old name. A pairing that is wrong (two
// unrelated functions that happen to share a signature) can only make rules fail, never pass, because they would
// then read a body that is not the one they expect.
//
// What it does not do: renamed packages / directories, names swapped between two declarations, declarations whose
// type changed together with their name, identifiers inside the generated parser's template text.

import (
	"fmt"
	"go/ast"
	"go/token"
	"go/types"
	"os"
	"regexp"
	"sort"
	"strconv"
	"strings"

	"golang.org/x/tools/go/packages"
)

type pkgSyms struct {
	Funcs  map[string]string   // "F" / "T.M" → signature
	Types  map[string][]string // named type → struct: "field\x00type"… ; otherwise: "=underlying"
	Vars   map[string]string   // package-level variables and constants → "var T" / "const T = value"
	Params map[string][]string // "F" / "T.M" → parameters in order, "name\x00type"
	Locals map[string][]string // generated parser only: "F" → its parameters and locals, "name\x00type"
	Bodies map[string]string   // "F" / "T.M" → what the body mentions (bodyPrints)
}

func qualifierFor(p *types.Package) types.Qualifier {
	return func(q *types.Package) string {
		if q == p {
			return ""
		}
		return q.Name()
	}
}

// sigString: parameter and result types only (parameter names are not part of a declaration's identity).
func sigString(sig *types.Signature, q types.Qualifier) string {
	part := func(t *types.Tuple) string {
		var out []string
		for i := 0; i < t.Len(); i++ {
			out = append(out, types.TypeString(t.At(i).Type(), q))
		}
		return "(" + strings.Join(out, ", ") + ")"
	}
	s := "func" + part(sig.Params())
	if sig.Variadic() {
		s += "..."
	}
	return s + " " + part(sig.Results())
}

// symsOf builds the symbol table of one type-checked package.
func symsOf(p *types.Package) *pkgSyms {
	s := &pkgSyms{Funcs: map[string]string{}, Types: map[string][]string{}, Vars: map[string]string{}, Params: map[string][]string{}}
	q := qualifierFor(p)
	params := func(key string, sig *types.Signature) {
		var l []string
		for i := 0; i < sig.Params().Len(); i++ {
			v := sig.Params().At(i)
			l = append(l, v.Name()+"\x00"+types.TypeString(v.Type(), q))
		}
		s.Params[key] = l
	}
	for _, name := range p.Scope().Names() {
		switch o := p.Scope().Lookup(name).(type) {
		case *types.Func:
			s.Funcs[name] = sigString(o.Type().(*types.Signature), q)
			params(name, o.Type().(*types.Signature))
		case *types.Var:
			s.Vars[name] = "var " + types.TypeString(o.Type(), q)
		case *types.Const:
			// the value is part of a constant's identity: two gone constants of one type are told apart by it
			s.Vars[name] = "const " + types.TypeString(o.Type(), q) + " = " + o.Val().ExactString()
		case *types.TypeName:
			if o.IsAlias() {
				s.Types[name] = []string{"=alias " + types.TypeString(o.Type(), q)}
				continue
			}
			named, ok := o.Type().(*types.Named)
			if !ok {
				continue
			}
			switch u := named.Underlying().(type) {
			case *types.Struct:
				fl := []string{}
				for i := 0; i < u.NumFields(); i++ {
					fl = append(fl, u.Field(i).Name()+"\x00"+types.TypeString(u.Field(i).Type(), q))
				}
				s.Types[name] = fl
			case *types.Interface:
				s.Types[name] = []string{"=interface"}
				for i := 0; i < u.NumExplicitMethods(); i++ {
					m := u.ExplicitMethod(i)
					s.Funcs[name+"."+m.Name()] = "I " + sigString(m.Type().(*types.Signature), q)
				}
			case *types.Signature:
				s.Types[name] = []string{"=" + sigString(u, q)} // parameter names are not part of the type's identity
			default:
				s.Types[name] = []string{"=" + types.TypeString(u, q)}
			}
			for i := 0; i < named.NumMethods(); i++ {
				m := named.Method(i)
				sig := m.Type().(*types.Signature)
				ptr := ""
				if sig.Recv() != nil {
					if _, isP := sig.Recv().Type().(*types.Pointer); isP {
						ptr = "*"
					}
				}
				s.Funcs[name+"."+m.Name()] = ptr + " " + sigString(sig, q)
				params(name+"."+m.Name(), sig)
			}
		}
	}
	return s
}

func dumpSyms(c *Ctx) {
	fmt.Println("package main")
	fmt.Println()
	fmt.Println("// Code generated by `YACCVERIF_NORENAME=1 yaccverif -dump syms`; the declarations of the tree the rules were confirmed on (rename.go).")
	fmt.Println()
	fmt.Println("var baselineSyms = map[string]*pkgSyms{")
	for _, p := range c.All {
		s := symsOf(p.Types)
		fmt.Printf("\t%q: {\n", strings.TrimPrefix(p.PkgPath, modPath+"/"))
		fmt.Println("\t\tFuncs: map[string]string{")
		for _, k := range sortedStrKeys(s.Funcs) {
			fmt.Printf("\t\t\t%q: %q,\n", k, s.Funcs[k])
		}
		fmt.Println("\t\t},")
		fmt.Println("\t\tTypes: map[string][]string{")
		var tn []string
		for k := range s.Types {
			tn = append(tn, k)
		}
		sort.Strings(tn)
		for _, k := range tn {
			var qs []string
			for _, f := range s.Types[k] {
				qs = append(qs, strconv.Quote(f))
			}
			fmt.Printf("\t\t\t%q: {%s},\n", k, strings.Join(qs, ", "))
		}
		fmt.Println("\t\t},")
		fmt.Println("\t\tVars: map[string]string{")
		for _, k := range sortedStrKeys(s.Vars) {
			fmt.Printf("\t\t\t%q: %q,\n", k, s.Vars[k])
		}
		fmt.Println("\t\t},")
		fmt.Println("\t\tParams: map[string][]string{")
		var pk []string
		for k := range s.Params {
			pk = append(pk, k)
		}
		sort.Strings(pk)
		for _, k := range pk {
			var qs []string
			for _, f := range s.Params[k] {
				qs = append(qs, strconv.Quote(f))
			}
			fmt.Printf("\t\t\t%q: {%s},\n", k, strings.Join(qs, ", "))
		}
		fmt.Println("\t\t},")
		fmt.Println("\t\tBodies: map[string]string{")
		bp := bodyPrints(p)
		for _, k := range sortedStrKeys(bp) {
			fmt.Printf("\t\t\t%q: %q,\n", k, bp[k])
		}
		fmt.Println("\t\t},")
		fmt.Println("\t},")
	}
	fmt.Println("}")
}

func sortedStrKeys(m map[string]string) []string {
	var out []string
	for k := range m {
		out = append(out, k)
	}
	sort.Strings(out)
	return out
}

func editDistance(a, b string) int {
	ra, rb := []rune(a), []rune(b)
	prev := make([]int, len(rb)+1)
	for j := range prev {
		prev[j] = j
	}
	for i := 1; i <= len(ra); i++ {
		cur := make([]int, len(rb)+1)
		cur[0] = i
		for j := 1; j <= len(rb); j++ {
			cost := 1
			if ra[i-1] == rb[j-1] {
				cost = 0
			}
			cur[j] = minInt(minInt(prev[j]+1, cur[j-1]+1), prev[j-1]+cost)
		}
		prev = cur
	}
	return prev[len(rb)]
}

func minInt(a, b int) int {
	if a < b {
		return a
	}
	return b
}

// matchNames pairs gone names with new names. compatible(gone, new) says whether the declarations agree (same type /
// signature, same owner); dissim(gone, new) ∈ [0,1] is how different they look otherwise (names, and for functions
// their bodies). Pairing is greedy on the smallest dissimilarity, takes a pair only when it is the strict best for
// both of its members among what is still open, and is repeated until nothing changes — so that two leftovers that
// are each other's only candidate are paired whatever they look like, while a new helper that merely shares a dead
// function's signature (choice, no resemblance) is not taken for its successor.
func matchNames(gone, fresh []string, compatible func(g, n string) bool, dissim func(g, n string) float64) map[string]string {
	out := map[string]string{} // new → old
	type cand struct {
		g, n string
		d    float64
	}
	var cs []cand
	for _, g := range gone {
		for _, n := range fresh {
			if compatible(g, n) {
				cs = append(cs, cand{g, n, dissim(g, n)})
			}
		}
	}
	sort.Slice(cs, func(i, j int) bool {
		if cs[i].d != cs[j].d {
			return cs[i].d < cs[j].d
		}
		if cs[i].g != cs[j].g {
			return cs[i].g < cs[j].g
		}
		return cs[i].n < cs[j].n
	})
	usedG, usedN := map[string]bool{}, map[string]bool{}
	for changed := true; changed; {
		changed = false
		openG, openN := map[string]int{}, map[string]int{}
		for _, x := range cs {
			if !usedG[x.g] && !usedN[x.n] {
				openG[x.g]++
				openN[x.n]++
			}
		}
		for i, x := range cs {
			if usedG[x.g] || usedN[x.n] {
				continue
			}
			only := openG[x.g] == 1 && openN[x.n] == 1
			if !only {
				if x.d > 0.6 {
					continue // a choice, and no resemblance
				}
				tie := false
				for j, y := range cs {
					if i == j || usedG[y.g] || usedN[y.n] || (y.g != x.g && y.n != x.n) {
						continue
					}
					if y.d-x.d < 0.05 {
						tie = true
					}
				}
				if tie {
					continue
				}
			}
			usedG[x.g], usedN[x.n] = true, true
			out[x.n] = x.g
			changed = true
			break
		}
	}
	return out
}

// nameDissim: edit distance of the lower-cased names relative to the longer one.
func nameDissim(g, n string) float64 {
	longer := len(g)
	if len(n) > longer {
		longer = len(n)
	}
	if longer == 0 {
		return 0
	}
	return float64(editDistance(strings.ToLower(g), strings.ToLower(n))) / float64(longer)
}

// jaccardDissim of two space-separated token sets.
func jaccardDissim(a, b string) float64 {
	sa, sb := map[string]bool{}, map[string]bool{}
	for _, t := range strings.Fields(a) {
		sa[t] = true
	}
	for _, t := range strings.Fields(b) {
		sb[t] = true
	}
	if len(sa) == 0 && len(sb) == 0 {
		return 0
	}
	inter := 0
	for t := range sa {
		if sb[t] {
			inter++
		}
	}
	union := len(sa) + len(sb) - inter
	return 1 - float64(inter)/float64(union)
}

// bodyPrints: for every function / method with a body, the set of things its body mentions that are not its own
// locals — fields, functions, types, package-level names, imported names — and the beginnings of its string
// literals. Two functions of one signature are told apart by it (`SetNT` writes IsNonTerminator and CanTerminate,
// `SetEpsilon` writes IsEpsilonClosure).
func bodyPrints(p *packages.Package) map[string]string {
	out := map[string]string{}
	info := p.TypesInfo
	for _, f := range p.Syntax {
		for _, d := range f.Decls {
			fd, ok := d.(*ast.FuncDecl)
			if !ok || fd.Body == nil {
				continue
			}
			key := fd.Name.Name
			if rn, _ := recvTypeName(fd); rn != "" {
				key = rn + "." + key
			}
			set := map[string]bool{}
			ast.Inspect(fd.Body, func(n ast.Node) bool {
				switch x := n.(type) {
				case *ast.Ident:
					o := info.Uses[x]
					if o == nil {
						return true
					}
					if v, isV := o.(*types.Var); isV && !v.IsField() && (v.Pkg() == nil || v.Parent() != v.Pkg().Scope()) {
						return true // a local
					}
					if o.Pkg() == nil {
						return true // universe
					}
					set[x.Name] = true
				case *ast.BasicLit:
					if x.Kind == token.STRING {
						v := strings.Join(strings.Fields(x.Value), "_")
						if len(v) > 24 {
							v = v[:24]
						}
						set["lit:"+v] = true
					}
				}
				return true
			})
			var toks []string
			for t := range set {
				toks = append(toks, t)
			}
			sort.Strings(toks)
			if len(toks) > 60 {
				toks = toks[:60]
			}
			out[key] = strings.Join(toks, " ")
		}
	}
	return out
}

type renameLog struct {
	pairs []string
	err   string
}

// normaliseRenames is called once after loading, before the inlining normaliser.
func normaliseRenames(c *Ctx) {
	if os.Getenv("YACCVERIF_NORENAME") != "" {
		return
	}
	log := &renameLog{}
	c.renames = log
	for pass := 1; pass <= 4; pass++ {
		ren := map[types.Object]string{}
		tmplFields := map[string]string{} // Builder field renames, new → old (for the template text)
		for _, p := range c.All {
			dir := strings.TrimPrefix(p.PkgPath, modPath+"/")
			base := baselineSyms[dir]
			if base == nil {
				continue
			}
			cur := symsOf(p.Types)
			switch pass {
			case 1:
				detectTypeRenames(p, dir, base, cur, ren, log)
			case 2:
				detectMemberRenames(p, dir, base, cur, ren, tmplFields, log, false)
			case 3:
				detectMemberRenames(p, dir, base, cur, ren, tmplFields, log, true)
			case 4:
				cur.Bodies = nil
				detectRehomed(p, dir, base, cur, ren, log)
			}
		}
		if len(ren) == 0 {
			continue
		}
		saved := applyRenames(c, ren, tmplFields)
		if err := recheckAll(c); err != nil {
			// the old name collides with something in scope: undo, the rules will report what they cannot find
			for id, n := range saved.idents {
				id.Name = n
			}
			for lit, v := range saved.lits {
				lit.Value = v
			}
			log.err = err.Error()
			if err2 := recheckAll(c); err2 != nil {
				log.err += "; and the original tree no longer type-checks: " + err2.Error()
			}
			return
		}
	}
	// pass 5: parameters in another order
	var units []*permUnit
	for _, p := range c.All {
		dir := strings.TrimPrefix(p.PkgPath, modPath+"/")
		if base := baselineSyms[dir]; base != nil {
			units = append(units, &permUnit{dir: dir, base: base, pkg: p.Types, info: p.TypesInfo, files: p.Syntax})
		}
	}
	var allInfos []*types.Info
	for _, p := range c.All {
		allInfos = append(allInfos, p.TypesInfo)
	}
	var allFiles []*ast.File
	for _, p := range c.All {
		allFiles = append(allFiles, p.Syntax...)
	}
	if undo := permuteParams(units, allFiles, allInfos, log); undo != nil {
		if err := recheckAll(c); err != nil {
			undo()
			log.err = "parameter order: " + err.Error()
			_ = recheckAll(c)
		}
	}
}

type permUnit struct {
	dir   string
	base  *pkgSyms
	pkg   *types.Package
	info  *types.Info
	files []*ast.File
}

// permuteParams: a function that both trees have, whose parameters are the baseline's in another order (same types,
// matched by name, else by a type that occurs once), gets its declaration and every call of it rewritten to the
// baseline order — rules address parameters and arguments by position. Returns nil when nothing was rewritten,
// otherwise the function that undoes the rewriting (used when the rewritten tree does not type-check, e.g. because
// the function is also used as a value of a function type).
func permuteParams(units []*permUnit, files []*ast.File, infos []*types.Info, log *renameLog) func() {
	type job struct {
		obj  types.Object
		perm []int // baseline position → current position
	}
	var jobs []job
	var undos []func()
	for _, u := range units {
		cur := symsOf(u.pkg)
		for key, bp := range u.base.Params {
			cp, ok := cur.Params[key]
			if !ok || len(cp) != len(bp) || len(bp) < 2 || u.base.Funcs[key] == cur.Funcs[key] {
				continue
			}
			typ := func(s string) string { return s[strings.IndexByte(s, 0)+1:] }
			name := func(s string) string { return s[:strings.IndexByte(s, 0)] }
			perm := make([]int, len(bp))
			used := make([]bool, len(cp))
			okPerm := true
			for i := range bp {
				perm[i] = -1
				for j := range cp {
					if !used[j] && name(cp[j]) == name(bp[i]) && typ(cp[j]) == typ(bp[i]) {
						perm[i] = j
						break
					}
				}
				if perm[i] >= 0 {
					used[perm[i]] = true
				}
			}
			for i := range bp {
				if perm[i] >= 0 {
					continue
				}
				cand := -1
				for j := range cp {
					if !used[j] && typ(cp[j]) == typ(bp[i]) {
						if cand >= 0 {
							cand = -2
							break
						}
						cand = j
					}
				}
				if cand < 0 {
					okPerm = false
					break
				}
				perm[i] = cand
				used[cand] = true
			}
			identity := true
			for i := range perm {
				if perm[i] != i {
					identity = false
				}
			}
			if !okPerm || identity {
				continue
			}
			// the object
			var obj types.Object
			if i := strings.IndexByte(key, '.'); i < 0 {
				obj = u.pkg.Scope().Lookup(key)
			} else if tn, _ := u.pkg.Scope().Lookup(key[:i]).(*types.TypeName); tn != nil {
				if named, ok := tn.Type().(*types.Named); ok {
					for k := 0; k < named.NumMethods(); k++ {
						if named.Method(k).Name() == key[i+1:] {
							obj = named.Method(k)
						}
					}
				}
			}
			if obj == nil {
				continue
			}
			jobs = append(jobs, job{obj, perm})
			log.pairs = append(log.pairs, u.dir+"."+key+" parameter order")
		}
	}
	if len(jobs) == 0 {
		return nil
	}
	objOf := func(id *ast.Ident) types.Object {
		for _, info := range infos {
			if o := info.Defs[id]; o != nil {
				return o
			}
			if o := info.Uses[id]; o != nil {
				return o
			}
		}
		return nil
	}
	for _, j := range jobs {
		j := j
		for _, f := range files {
			ast.Inspect(f, func(n ast.Node) bool {
				switch x := n.(type) {
				case *ast.FuncDecl:
					if objOf(x.Name) != j.obj || x.Type.Params == nil {
						return true
					}
					var flat []*ast.Field
					for _, fl := range x.Type.Params.List {
						if len(fl.Names) == 0 {
							flat = append(flat, fl)
							continue
						}
						for _, nm := range fl.Names {
							flat = append(flat, &ast.Field{Names: []*ast.Ident{nm}, Type: fl.Type})
						}
					}
					if len(flat) != len(j.perm) {
						return true
					}
					old := x.Type.Params.List
					nl := make([]*ast.Field, len(flat))
					for i, k := range j.perm {
						nl[i] = flat[k]
					}
					x.Type.Params.List = nl
					pl := x.Type.Params
					undos = append(undos, func() { pl.List = old })
				case *ast.CallExpr:
					var id *ast.Ident
					switch fn := unparen(x.Fun).(type) {
					case *ast.Ident:
						id = fn
					case *ast.SelectorExpr:
						id = fn.Sel
					}
					if id == nil || objOf(id) != j.obj || len(x.Args) != len(j.perm) {
						return true
					}
					old := x.Args
					na := make([]ast.Expr, len(old))
					for i, k := range j.perm {
						na[i] = old[k]
					}
					x.Args = na
					call := x
					undos = append(undos, func() { call.Args = old })
				}
				return true
			})
		}
	}
	return func() {
		for i := len(undos) - 1; i >= 0; i-- {
			undos[i]()
		}
	}
}

func (l *renameLog) summary() string {
	if l == nil || (len(l.pairs) == 0 && l.err == "") {
		return ""
	}
	s := fmt.Sprintf("%d renamed declaration(s) read under their baseline names: %s", len(l.pairs), strings.Join(l.pairs, ", "))
	if l.err != "" {
		s += " — ABANDONED (" + l.err + ")"
	}
	return s
}

var reIdentWord = regexp.MustCompile(`[A-Za-z_][A-Za-z0-9_]*`)

// shapeModulo blanks the given type names inside type strings, so that shapes can be compared while those names
// are still unsettled.
func shapeModulo(parts []string, unsettled map[string]bool, keepFieldNames bool) string {
	var out []string
	for _, f := range parts {
		name, typ := "", f
		if i := strings.IndexByte(f, 0); i >= 0 {
			name, typ = f[:i], f[i+1:]
		}
		typ = reIdentWord.ReplaceAllStringFunc(typ, func(w string) string {
			if unsettled[w] {
				return "§"
			}
			return w
		})
		if keepFieldNames {
			out = append(out, name+" "+typ)
		} else {
			out = append(out, typ)
		}
	}
	return strings.Join(out, ";")
}

func detectTypeRenames(p *packages.Package, dir string, base, cur *pkgSyms, ren map[types.Object]string, log *renameLog) {
	var gone, fresh []string
	for n := range base.Types {
		if _, ok := cur.Types[n]; !ok {
			gone = append(gone, n)
		}
	}
	for n := range cur.Types {
		if _, ok := base.Types[n]; !ok {
			fresh = append(fresh, n)
		}
	}
	if len(gone) == 0 || len(fresh) == 0 {
		return
	}
	sort.Strings(gone)
	sort.Strings(fresh)
	unsettled := map[string]bool{}
	for _, n := range gone {
		unsettled[n] = true
	}
	for _, n := range fresh {
		unsettled[n] = true
	}
	m := matchNames(gone, fresh, func(g, n string) bool {
		return shapeModulo(base.Types[g], unsettled, false) == shapeModulo(cur.Types[n], unsettled, false)
	}, nameDissim)
	for n, g := range m {
		if o := p.Types.Scope().Lookup(n); o != nil {
			ren[o] = g
			log.pairs = append(log.pairs, dir+"."+n+"→"+g)
		}
	}
}

func detectMemberRenames(p *packages.Package, dir string, base, cur *pkgSyms, ren map[types.Object]string, tmplFields map[string]string, log *renameLog, funcsPass bool) {
	scope := p.Types.Scope()
	// struct fields, per type present in both tables
	for tn, bf := range base.Types {
		if funcsPass {
			break // fields, variables and constants were settled in the pass before
		}
		cf, ok := cur.Types[tn]
		if !ok || len(bf) == 0 || strings.HasPrefix(bf[0], "=") || (len(cf) > 0 && strings.HasPrefix(cf[0], "=")) {
			continue
		}
		bType, cType := map[string]string{}, map[string]string{}
		bIdx, cIdx := map[string]int{}, map[string]int{}
		for i, f := range bf {
			k := strings.IndexByte(f, 0)
			bType[f[:k]], bIdx[f[:k]] = f[k+1:], i
		}
		for i, f := range cf {
			k := strings.IndexByte(f, 0)
			cType[f[:k]], cIdx[f[:k]] = f[k+1:], i
		}
		var gone, fresh []string
		for n := range bType {
			if _, ok := cType[n]; !ok {
				gone = append(gone, n)
			}
		}
		for n := range cType {
			if _, ok := bType[n]; !ok {
				fresh = append(fresh, n)
			}
		}
		if len(gone) == 0 || len(fresh) == 0 {
			continue
		}
		sort.Strings(gone)
		sort.Strings(fresh)
		m := matchNames(gone, fresh, func(g, n string) bool { return bType[g] == cType[n] }, nameDissim)
		tobj, _ := scope.Lookup(tn).(*types.TypeName)
		if tobj == nil {
			continue
		}
		st, _ := tobj.Type().Underlying().(*types.Struct)
		if st == nil {
			continue
		}
		for n, g := range m {
			for i := 0; i < st.NumFields(); i++ {
				if st.Field(i).Name() == n {
					ren[st.Field(i)] = g
					log.pairs = append(log.pairs, dir+"."+tn+"."+n+"→"+g)
					if dir == "Builder" {
						tmplFields[n] = g
					}
				}
			}
		}
	}
	// functions and methods: same owner, identical signature
	owner := func(k string) string {
		if i := strings.IndexByte(k, '.'); i >= 0 {
			return k[:i]
		}
		return ""
	}
	var gone, fresh []string
	if funcsPass {
		for n := range base.Funcs {
			if _, ok := cur.Funcs[n]; !ok {
				gone = append(gone, n)
			}
		}
		for n := range cur.Funcs {
			if _, ok := base.Funcs[n]; !ok {
				fresh = append(fresh, n)
			}
		}
	}
	sort.Strings(gone)
	sort.Strings(fresh)
	curBodies := map[string]string{}
	if len(gone) > 0 && len(fresh) > 0 {
		curBodies = bodyPrints(p)
	}
	m := matchNames(gone, fresh, func(g, n string) bool {
		return owner(g) == owner(n) && base.Funcs[g] == cur.Funcs[n]
	}, func(g, n string) float64 {
		// what the bodies mention (read under the already restored names of types, fields and variables) counts
		// twice as much as the resemblance of the names
		bg, okG := base.Bodies[g]
		bn, okN := curBodies[n]
		nd := nameDissim(g, n)
		if !okG || !okN || nd <= 0.2 {
			return nd // no body to compare — or a spelling so close that it decides (a helper split off the same body can resemble the baseline's body more than what is left of it)
		}
		return (2*jaccardDissim(bg, bn) + nd) / 3
	})
	for n, g := range m {
		var o types.Object
		if ow := owner(n); ow == "" {
			o = scope.Lookup(n)
		} else if tobj, _ := scope.Lookup(ow).(*types.TypeName); tobj != nil {
			mn := n[len(ow)+1:]
			if named, ok := tobj.Type().(*types.Named); ok {
				for i := 0; i < named.NumMethods(); i++ {
					if named.Method(i).Name() == mn {
						o = named.Method(i)
					}
				}
				if it, ok := named.Underlying().(*types.Interface); ok {
					for i := 0; i < it.NumExplicitMethods(); i++ {
						if it.ExplicitMethod(i).Name() == mn {
							o = it.ExplicitMethod(i)
						}
					}
				}
			}
		}
		if o != nil {
			old := g
			if i := strings.IndexByte(g, '.'); i >= 0 {
				old = g[i+1:]
			}
			ren[o] = old
			log.pairs = append(log.pairs, dir+"."+n+"→"+old)
		}
	}
	// package-level variables and constants
	gone, fresh = nil, nil
	if !funcsPass {
		for n := range base.Vars {
			if _, ok := cur.Vars[n]; !ok {
				gone = append(gone, n)
			}
		}
		for n := range cur.Vars {
			if _, ok := base.Vars[n]; !ok {
				fresh = append(fresh, n)
			}
		}
	}
	sort.Strings(gone)
	sort.Strings(fresh)
	mv := matchNames(gone, fresh, func(g, n string) bool { return base.Vars[g] == cur.Vars[n] }, nameDissim)
	for n, g := range mv {
		if o := scope.Lookup(n); o != nil {
			ren[o] = g
			log.pairs = append(log.pairs, dir+"."+n+"→"+g)
		}
	}
}

type savedNames struct {
	idents map[*ast.Ident]string
	lits   map[*ast.BasicLit]string
}

// applyRenames writes the baseline name into every identifier that resolves to a renamed declaration.
func applyRenames(c *Ctx, ren map[types.Object]string, tmplFields map[string]string) *savedNames {
	saved := &savedNames{idents: map[*ast.Ident]string{}, lits: map[*ast.BasicLit]string{}}
	set := func(id *ast.Ident, o types.Object) {
		old, ok := ren[o]
		if !ok {
			// an embedded field is named after its type: it follows the type's renaming (`T{Embedded: …}`, `x.Embedded`)
			if v, isV := o.(*types.Var); isV && v.IsField() && v.Embedded() {
				t := v.Type()
				if p, isP := t.(*types.Pointer); isP {
					t = p.Elem()
				}
				if n, isN := t.(*types.Named); isN {
					old, ok = ren[n.Obj()]
				}
			}
		}
		if ok && id.Name != old && id.Name != "_" {
			saved.idents[id] = id.Name
			id.Name = old
		}
	}
	for _, p := range c.All {
		for id, o := range p.TypesInfo.Defs {
			if o != nil {
				set(id, o)
			}
		}
		for id, o := range p.TypesInfo.Uses {
			set(id, o)
		}
		// a method of a renamed interface method set is reached through Selections only when it is promoted; explicit
		// selector identifiers are in Uses. Embedded fields: the field is named by its type identifier (already set).
		if len(tmplFields) > 0 && strings.HasSuffix(p.PkgPath, "/Builder") {
			for _, f := range p.Syntax {
				ast.Inspect(f, func(n ast.Node) bool {
					lit, ok := n.(*ast.BasicLit)
					if !ok || lit.Kind != token.STRING {
						return true
					}
					v := lit.Value
					for nw, old := range tmplFields {
						re := regexp.MustCompile(`\{\{(-?\s*)\.` + regexp.QuoteMeta(nw) + `(\s*-?)\}\}`)
						v = re.ReplaceAllString(v, "{{${1}."+old+"${2}}}")
					}
					if v != lit.Value {
						saved.lits[lit] = lit.Value
						lit.Value = v
					}
					return true
				})
			}
		}
	}
	return saved
}

type importerFunc func(path string) (*types.Package, error)

func (f importerFunc) Import(path string) (*types.Package, error) { return f(path) }

// recheckAll type-checks every package of the module again, in dependency order, on the (edited) syntax trees.
func recheckAll(c *Ctx) error {
	deps := map[string]*packages.Package{}
	var walk func(p *packages.Package)
	walk = func(p *packages.Package) {
		if deps[p.PkgPath] != nil {
			return
		}
		deps[p.PkgPath] = p
		for _, q := range p.Imports {
			walk(q)
		}
	}
	for _, p := range c.All {
		walk(p)
	}
	inModule := map[string]bool{}
	for _, p := range c.All {
		inModule[p.PkgPath] = true
	}
	done := map[string]*types.Package{}
	var firstErr error
	var check func(p *packages.Package) *types.Package
	check = func(p *packages.Package) *types.Package {
		if np, ok := done[p.PkgPath]; ok {
			return np
		}
		done[p.PkgPath] = nil // cycle guard
		for _, q := range p.Imports {
			if inModule[q.PkgPath] {
				check(q)
			}
		}
		info := &types.Info{
			Types:      map[ast.Expr]types.TypeAndValue{},
			Defs:       map[*ast.Ident]types.Object{},
			Uses:       map[*ast.Ident]types.Object{},
			Implicits:  map[ast.Node]types.Object{},
			Selections: map[*ast.SelectorExpr]*types.Selection{},
			Scopes:     map[ast.Node]*types.Scope{},
			Instances:  map[*ast.Ident]types.Instance{},
		}
		conf := types.Config{
			Importer: importerFunc(func(path string) (*types.Package, error) {
				if inModule[path] {
					if np := done[path]; np != nil {
						return np, nil
					}
					return nil, fmt.Errorf("import cycle or unchecked package %s", path)
				}
				if d := deps[path]; d != nil && d.Types != nil {
					return d.Types, nil
				}
				return nil, fmt.Errorf("package %s not loaded", path)
			}),
			Sizes: p.TypesSizes,
			Error: func(err error) {
				if firstErr == nil {
					firstErr = err
				}
			},
		}
		if p.Module != nil && p.Module.GoVersion != "" {
			conf.GoVersion = "go" + p.Module.GoVersion
		}
		np, _ := conf.Check(p.PkgPath, c.Fset, p.Syntax, info)
		done[p.PkgPath] = np
		p.Types = np
		p.TypesInfo = info
		return np
	}
	for _, p := range c.All {
		check(p)
	}
	return firstErr
}

// ---------------------------------------------------------------------------------------------
// The same for the GENERATED parser. Its source lives in string constants of package Builder (the two templates and
// the fragments the builders emit), so a renamed helper, table, struct field or local of the generated parser is
// invisible to the pass above — and the skeleton rules name what they read (`PushStateSym`, `StackPackCheck`,
// `Yystate`, `dollarDolar`). normaliseSkeletonNames renders the skeletons once, compares each variant's declarations
// (and the locals of its functions) with baseline_skelsyms.go, and writes the baseline names back INTO THE STRING
// LITERALS of package Builder (whole words only), then type-checks the module again and lets the staged program be
// rebuilt from the edited literals: shapes, hole contexts and skeletons all see the names the rules know. Types are
// settled first, then fields / variables / constants, then functions and locals (one rebuild each, only when
// something was renamed). A skeleton that does not type-check is left alone — the rules report it.

func skelSymsOf(sk *Skeleton) *pkgSyms {
	s := symsOf(sk.Pkg)
	tmp := &packages.Package{Types: sk.Pkg, TypesInfo: sk.Info, Syntax: []*ast.File{sk.File}}
	s.Bodies = bodyPrints(tmp)
	s.Locals = map[string][]string{}
	q := qualifierFor(sk.Pkg)
	for _, d := range sk.File.Decls {
		fd, ok := d.(*ast.FuncDecl)
		if !ok || fd.Body == nil {
			continue
		}
		key := fd.Name.Name
		if rn, _ := recvTypeName(fd); rn != "" {
			key = rn + "." + key
		}
		seen := map[string]bool{}
		var list []string
		ast.Inspect(fd, func(n ast.Node) bool {
			id, ok := n.(*ast.Ident)
			if !ok || id.Name == "_" {
				return true
			}
			if v, isV := sk.Info.Defs[id].(*types.Var); isV && !v.IsField() && !seen[id.Name] {
				seen[id.Name] = true
				list = append(list, id.Name+"\x00"+types.TypeString(v.Type(), q))
			}
			return true
		})
		s.Locals[key] = list
	}
	return s
}

func dumpSkelSyms(c *Ctx) {
	st := c.GetStaged()
	fmt.Println("package main")
	fmt.Println()
	fmt.Println("// Code generated by `YACCVERIF_NORENAME=1 yaccverif -dump skelsyms`; the declarations of the generated parser (per variant) on the tree the rules were confirmed on (rename.go).")
	fmt.Println()
	fmt.Println("var baselineSkelSyms = map[string]*pkgSyms{")
	for _, sc := range st.Configs {
		var sk *Skeleton
		for _, k := range sc.Skels {
			if k.K == 2 && k.ActSet == 0 {
				sk = k
			}
		}
		if sk == nil || sk.Pkg == nil || len(sk.TypeErs) > 0 {
			continue
		}
		s := skelSymsOf(sk)
		fmt.Printf("\t%q: {\n", sc.V.Name)
		pm := func(name string, m map[string]string) {
			fmt.Printf("\t\t%s: map[string]string{\n", name)
			for _, k := range sortedStrKeys(m) {
				fmt.Printf("\t\t\t%q: %q,\n", k, m[k])
			}
			fmt.Println("\t\t},")
		}
		pl := func(name string, m map[string][]string) {
			fmt.Printf("\t\t%s: map[string][]string{\n", name)
			var ks []string
			for k := range m {
				ks = append(ks, k)
			}
			sort.Strings(ks)
			for _, k := range ks {
				var qs []string
				for _, f := range m[k] {
					qs = append(qs, strconv.Quote(f))
				}
				fmt.Printf("\t\t\t%q: {%s},\n", k, strings.Join(qs, ", "))
			}
			fmt.Println("\t\t},")
		}
		pm("Funcs", s.Funcs)
		pl("Types", s.Types)
		pm("Vars", s.Vars)
		pm("Bodies", s.Bodies)
		pl("Params", s.Params)
		pl("Locals", s.Locals)
		fmt.Println("\t},")
	}
	fmt.Println("}")
}

// skeletonRenames: new → old for one phase (1 types, 2 fields / variables / constants, 3 functions and locals).
func skeletonRenames(st *Staged, phase int, log *renameLog) map[string]string {
	out := map[string]string{}
	for _, sc := range st.Configs {
		base := baselineSkelSyms[sc.V.Name]
		var sk *Skeleton
		for _, k := range sc.Skels {
			if k.K == 2 && k.ActSet == 0 {
				sk = k
			}
		}
		if base == nil || sk == nil || sk.Pkg == nil || sk.File == nil || len(sk.TypeErs) > 0 {
			continue
		}
		cur := skelSymsOf(sk)
		tmp := &packages.Package{Types: sk.Pkg, TypesInfo: sk.Info, Syntax: []*ast.File{sk.File}}
		ren := map[types.Object]string{}
		sub := &renameLog{}
		switch phase {
		case 1:
			detectTypeRenames(tmp, "generated parser", base, cur, ren, sub)
		case 2:
			detectMemberRenames(tmp, "generated parser", base, cur, ren, map[string]string{}, sub, false)
		case 3:
			detectMemberRenames(tmp, "generated parser", base, cur, ren, map[string]string{}, sub, true)
		}
		for o, old := range ren {
			if o.Name() != old {
				out[o.Name()] = old
			}
		}
		if phase == 3 {
			// locals of the functions both trees have
			for fn, bl := range base.Locals {
				cl, ok := cur.Locals[fn]
				if !ok {
					continue
				}
				bT, cT := map[string]string{}, map[string]string{}
				for _, f := range bl {
					k := strings.IndexByte(f, 0)
					bT[f[:k]] = f[k+1:]
				}
				for _, f := range cl {
					k := strings.IndexByte(f, 0)
					cT[f[:k]] = f[k+1:]
				}
				var gone, fresh []string
				for n := range bT {
					if _, ok := cT[n]; !ok {
						gone = append(gone, n)
					}
				}
				for n := range cT {
					if _, ok := bT[n]; !ok {
						fresh = append(fresh, n)
					}
				}
				sort.Strings(gone)
				sort.Strings(fresh)
				for n, g := range matchNames(gone, fresh, func(g, n string) bool { return bT[g] == cT[n] }, nameDissim) {
					out[n] = g
				}
			}
		}
	}
	var pairs []string
	for n, g := range out {
		pairs = append(pairs, "generated parser "+n+"→"+g)
	}
	sort.Strings(pairs)
	log.pairs = append(log.pairs, pairs...)
	return out
}

func normaliseSkeletonNames(c *Ctx) {
	if os.Getenv("YACCVERIF_NORENAME") != "" || c.Pkg("Builder") == nil {
		return
	}
	if c.renames == nil {
		c.renames = &renameLog{}
	}
	defer func() {
		c.stage = nil // the rules build the staged program themselves (after the inlining normaliser)
		stdImporter = nil
	}()
	c.stage = nil
	for phase := 1; phase <= 3; phase++ {
		st := c.GetStaged() // rebuilt only after a phase that renamed something
		ren := skeletonRenames(st, phase, c.renames)
		if len(ren) == 0 {
			continue
		}
		c.stage = nil
		saved := map[*ast.BasicLit]string{}
		for _, f := range c.Pkg("Builder").Syntax {
			// the TypeScript generator's text is another program with identifiers of its own (`state`, `action`, …):
			// literals inside TsBuilder's methods / functions named …Ts…, and literals that are TypeScript by their
			// looks, are left alone
			tsDecl := map[ast.Node]bool{}
			for _, d := range f.Decls {
				switch x := d.(type) {
				case *ast.FuncDecl:
					rn, _ := recvTypeName(x)
					if strings.HasPrefix(rn, "Ts") || strings.Contains(x.Name.Name, "Ts") {
						tsDecl[x] = true
					}
				case *ast.GenDecl:
					for _, sp := range x.Specs {
						if vs, ok := sp.(*ast.ValueSpec); ok {
							for _, nm := range vs.Names {
								if strings.HasPrefix(strings.ToLower(nm.Name), "ts") {
									tsDecl[x] = true
								}
							}
						}
					}
				}
			}
			for _, d := range f.Decls {
				if tsDecl[d] {
					continue
				}
				ast.Inspect(d, func(n ast.Node) bool {
					lit, ok := n.(*ast.BasicLit)
					if !ok || lit.Kind != token.STRING {
						return true
					}
					if v := lit.Value; strings.Contains(v, ":number") || strings.Contains(v, ": number") || strings.Contains(v, ":string") || strings.Contains(v, "console.") || strings.Contains(v, "let ") {
						return true
					}
					// on the string's value, not on its source form (`"\tname"` would hide the word boundary)
					raw := strings.HasPrefix(lit.Value, "`")
					val, err := strconv.Unquote(lit.Value)
					if err != nil {
						return true
					}
					nv := val
					for nw, old := range ren {
						nv = regexp.MustCompile(`\b`+regexp.QuoteMeta(nw)+`\b`).ReplaceAllString(nv, old)
					}
					if nv != val {
						saved[lit] = lit.Value
						if raw && !strings.Contains(nv, "`") {
							lit.Value = "`" + nv + "`"
						} else {
							lit.Value = strconv.Quote(nv)
						}
					}
					return true
				})
			}
		}
		if err := recheckAll(c); err != nil {
			for lit, v := range saved {
				lit.Value = v
			}
			c.renames.err = "generated parser: " + err.Error()
			_ = recheckAll(c)
			return
		}
	}
}

// ---------------------------------------------------------------------------------------------
// Pass 4: functions that changed sides. A free function turned into a method (or a method that never used its
// receiver turned into a function, or a method moved to another receiver) keeps its body and its callers but gets
// another qualified name. What is left over after pass 3 is paired across owners — same short name, or bodies that
// mention the same things — the short name is restored if it changed, and the function is entered in rehomedName:
// rules find it under the name it had, and the inlining normaliser does not take it for a new helper.
func detectRehomed(p *packages.Package, dir string, base, cur *pkgSyms, ren map[types.Object]string, log *renameLog) {
	var gone, fresh []string
	for n := range base.Funcs {
		if _, ok := cur.Funcs[n]; !ok && !strings.HasPrefix(base.Funcs[n], "I ") {
			gone = append(gone, n)
		}
	}
	for n := range cur.Funcs {
		if _, ok := base.Funcs[n]; !ok && !strings.HasPrefix(cur.Funcs[n], "I ") {
			fresh = append(fresh, n)
		}
	}
	if len(gone) == 0 || len(fresh) == 0 {
		return
	}
	sort.Strings(gone)
	sort.Strings(fresh)
	split := func(k string) (owner, short string) {
		if i := strings.IndexByte(k, '.'); i >= 0 {
			return k[:i], k[i+1:]
		}
		return "", k
	}
	curBodies := bodyPrints(p)
	bodyD := func(g, n string) float64 {
		bg, okG := base.Bodies[g]
		bn, okN := curBodies[n]
		if !okG || !okN {
			return 1
		}
		return jaccardDissim(bg, bn)
	}
	m := matchNames(gone, fresh, func(g, n string) bool {
		og, sg := split(g)
		on, sn := split(n)
		if og == on {
			return false // same owner: pass 3's business
		}
		return sg == sn || bodyD(g, n) <= 0.5
	}, func(g, n string) float64 {
		_, sg := split(g)
		_, sn := split(n)
		return (2*bodyD(g, n) + nameDissim(sg, sn)) / 3
	})
	display := func(key, sig string) string {
		o, s := split(key)
		switch {
		case o == "":
			return dir + "." + s
		case strings.HasPrefix(sig, "* "):
			return fmt.Sprintf("%s.(*%s).%s", dir, o, s)
		default:
			return fmt.Sprintf("%s.(%s).%s", dir, o, s)
		}
	}
	scope := p.Types.Scope()
	for n, g := range m {
		on, sn := split(n)
		_, sg := split(g)
		if sn != sg {
			// restore the short name as well
			var o types.Object
			if on == "" {
				o = scope.Lookup(sn)
			} else if tobj, _ := scope.Lookup(on).(*types.TypeName); tobj != nil {
				if named, ok := tobj.Type().(*types.Named); ok {
					for i := 0; i < named.NumMethods(); i++ {
						if named.Method(i).Name() == sn {
							o = named.Method(i)
						}
					}
				}
			}
			if o == nil {
				continue
			}
			ren[o] = sg
		}
		curKey := sg
		if on != "" {
			curKey = on + "." + sg
		}
		rehomedName[display(curKey, cur.Funcs[n])] = display(g, base.Funcs[g])
		log.pairs = append(log.pairs, dir+"."+n+"⇒"+g)
	}
}

// ---------------------------------------------------------------------------------------------
// changeSides: in ONE type-checked package (used for the generated parser's skeletons), a function of the baseline
// that is now a method whose receiver is the baseline's first parameter — or the other way round — is rewritten to
// the baseline's form, declaration and calls (`x.F(a…)` ↔ `F(x, a…)`, with `&` / `*` where the receiver's
// pointer-ness asks for it). Returns whether anything was rewritten; the caller type-checks again.
func changeSides(base *pkgSyms, pkg *types.Package, info *types.Info, file *ast.File, log *renameLog) bool {
	cur := symsOf(pkg)
	split := func(k string) (string, string) {
		if i := strings.IndexByte(k, '.'); i >= 0 {
			return k[:i], k[i+1:]
		}
		return "", k
	}
	type job struct {
		toFunc bool // current is a method, baseline a function
		owner  string
		name   string
		ptr    bool
	}
	var jobs []job
	for bk, bsig := range base.Funcs {
		if _, ok := cur.Funcs[bk]; ok {
			continue
		}
		bo, bn := split(bk)
		for ck, csig := range cur.Funcs {
			if _, ok := base.Funcs[ck]; ok {
				continue
			}
			co, cn := split(ck)
			if cn != bn || (bo == "") == (co == "") {
				continue
			}
			if bo == "" {
				// baseline function F(T|*T, rest…), current method (T|*T).F(rest…)
				ptr := strings.HasPrefix(csig, "* ")
				recvT := co
				if ptr {
					recvT = "*" + co
				}
				rest := strings.TrimPrefix(strings.TrimPrefix(csig, "* "), " ")
				want := strings.Replace(rest, "func(", "func("+recvT+", ", 1)
				want = strings.Replace(want, ", )", ")", 1)
				if want == bsig {
					jobs = append(jobs, job{true, co, cn, ptr})
				}
			} else {
				ptr := strings.HasPrefix(bsig, "* ")
				recvT := bo
				if ptr {
					recvT = "*" + bo
				}
				rest := strings.TrimPrefix(strings.TrimPrefix(bsig, "* "), " ")
				want := strings.Replace(rest, "func(", "func("+recvT+", ", 1)
				want = strings.Replace(want, ", )", ")", 1)
				if want == csig {
					jobs = append(jobs, job{false, bo, bn, ptr})
				}
			}
		}
	}
	if len(jobs) == 0 {
		return false
	}
	changed := false
	for _, j := range jobs {
		var obj types.Object
		var decl *ast.FuncDecl
		for _, d := range file.Decls {
			fd, ok := d.(*ast.FuncDecl)
			if !ok || fd.Name.Name != j.name {
				continue
			}
			rn, _ := recvTypeName(fd)
			if (j.toFunc && rn == j.owner) || (!j.toFunc && rn == "") {
				decl, obj = fd, info.Defs[fd.Name]
			}
		}
		if decl == nil || obj == nil {
			continue
		}
		if j.toFunc {
			if decl.Recv == nil || len(decl.Recv.List) != 1 {
				continue
			}
			decl.Type.Params.List = append([]*ast.Field{decl.Recv.List[0]}, decl.Type.Params.List...)
			decl.Recv = nil
			ast.Inspect(file, func(n ast.Node) bool {
				call, ok := n.(*ast.CallExpr)
				if !ok {
					return true
				}
				se, ok := unparen(call.Fun).(*ast.SelectorExpr)
				if !ok || info.Uses[se.Sel] != obj {
					return true
				}
				x := se.X
				if tv, ok := info.Types[x]; ok {
					_, isPtr := tv.Type.Underlying().(*types.Pointer)
					if j.ptr && !isPtr {
						x = &ast.UnaryExpr{OpPos: x.Pos(), Op: token.AND, X: x}
					} else if !j.ptr && isPtr {
						x = &ast.StarExpr{Star: x.Pos(), X: x}
					}
				}
				call.Fun = &ast.Ident{NamePos: se.Sel.NamePos, Name: j.name}
				call.Args = append([]ast.Expr{x}, call.Args...)
				return true
			})
		} else {
			if decl.Type.Params == nil || len(decl.Type.Params.List) == 0 || len(decl.Type.Params.List[0].Names) != 1 {
				continue
			}
			first := decl.Type.Params.List[0]
			decl.Recv = &ast.FieldList{Opening: decl.Name.Pos(), List: []*ast.Field{first}, Closing: decl.Name.Pos()}
			decl.Type.Params.List = decl.Type.Params.List[1:]
			ast.Inspect(file, func(n ast.Node) bool {
				call, ok := n.(*ast.CallExpr)
				if !ok || len(call.Args) == 0 {
					return true
				}
				id, ok := unparen(call.Fun).(*ast.Ident)
				if !ok || info.Uses[id] != obj {
					return true
				}
				x := call.Args[0]
				if u, isU := unparen(x).(*ast.UnaryExpr); isU && u.Op == token.AND {
					x = u.X // the method call takes the address itself
				}
				call.Fun = &ast.SelectorExpr{X: &ast.ParenExpr{Lparen: x.Pos(), X: x, Rparen: x.End()}, Sel: &ast.Ident{NamePos: id.NamePos, Name: j.name}}
				call.Args = call.Args[1:]
				return true
			})
		}
		changed = true
		log.pairs = append(log.pairs, "generated parser "+j.name+" function ↔ method")
	}
	return changed
}
