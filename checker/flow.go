package main

// flow.go — MUST-FLOW links. The who-writes rules say that a field has no writers other than the tabled ones; they
// are silent when a writer disappears (a deleted copy, a setter with an empty body, a guard turned round). A
// must-flow link states the other half: in function F there is a write of record field D whose value's canonical
// path ends with S (a field of the source record, a parameter, a constant), executed under exactly the guard G.
// Links are confirmed by reading the code and frozen here, one line of reason each; a refactoring that moves a
// copy into another function shows up as a missing link and has to be re-tabled.

import (
	"fmt"
	"go/ast"
	"go/token"
	"go/types"
	"regexp"
	"sort"
	"strings"
)

type flowLink struct {
	clause   string
	reason   string   // what the link carries
	dir, typ string   // destination record
	field    string   // destination field
	fn       string   // suffix of the function that must contain the write
	src      []string // the value's path must end with one of these (after $param normalisation); "=CONST" matches a constant value
	guard    []string // substrings that must each occur in some guard atom; "¬x" = a negated atom containing x; "?x" = may occur (a harmless extra test)
	noOther  bool     // no guard atom besides the listed ones (loop domains are not atoms)
}

var reParam = regexp.MustCompile(`\$[A-Za-z_][A-Za-z_0-9]*`)

func normParams(s string) string { return reParam.ReplaceAllString(s, "$") }

// checkFlowLinks evaluates the links and records one obligation per link.
func checkFlowLinks(c *Ctx, r *Report, links []flowLink) {
	for _, l := range links {
		fv := lookupField(c, l.dir, l.typ, l.field)
		key := fmt.Sprintf("%s.%s.%s←%s", l.dir, l.typ, l.field, l.fn)
		if fv == nil {
			r.Undecided(l.clause, "R1 MUST-FLOW", key, "-", "destination field not found")
			continue
		}
		var cand []writeSite
		for _, w := range fieldWrites(c, fv) {
			if !strings.HasSuffix(w.fn, l.fn) {
				continue
			}
			p := normParams(w.path)
			for _, s := range l.src {
				if strings.HasPrefix(s, "=") {
					if p == s[1:] {
						cand = append(cand, w)
					}
				} else if strings.HasSuffix(p, s) || (strings.HasPrefix(s, "~") && strings.Contains(p, s[1:])) {
					cand = append(cand, w)
				}
			}
		}
		if len(cand) == 0 {
			r.Fail(l.clause, "R1 MUST-FLOW", key, c.pos(fv.Pos()), fmt.Sprintf("%s: no write of %s.%s in %s takes its value from %v — the value no longer travels this way", l.reason, l.typ, l.field, l.fn, l.src))
			continue
		}
		// guards of (one of) the matching write(s)
		bad := ""
		okOne := false
		for _, w := range cand {
			f := funcByName(c, w.fn)
			if f == nil {
				continue
			}
			target := nodeAt(f.Decl.Body, w.pos)
			if target == nil {
				continue
			}
			atoms := guardAtoms(c, f, target)
			why := guardMismatch(atoms, l.guard, l.noOther)
			if why == "" {
				okOne = true
				break
			}
			bad = why
		}
		r.Check(okOne, l.clause, "R1 MUST-FLOW", key, c.pos(cand[0].pos),
			fmt.Sprintf("%s: %s.%s ← %v in %s, under %v", l.reason, l.typ, l.field, l.src, l.fn, guardText(l.guard)),
			fmt.Sprintf("%s: the copy exists but not under the expected condition — %s", l.reason, bad))
	}
}

func guardText(g []string) string {
	if len(g) == 0 {
		return "no condition"
	}
	return strings.Join(g, " ∧ ")
}

// guardMismatch compares the atoms guarding a statement with the expected ones.
var reCmpAtom = regexp.MustCompile(`^\((.*) (==|!=) ([^ ()]+)\)$`)

// dropImplied removes atoms `(E != k)` that follow from another atom `(E == k′)` with k′ ≠ k (the else-branch of an
// if / else-if chain over one expression).
func dropImplied(atoms []string) []string {
	eq := map[string]string{}
	for _, a := range atoms {
		if m := reCmpAtom.FindStringSubmatch(a); m != nil && m[2] == "==" {
			eq[m[1]] = m[3]
		}
	}
	var out []string
	for _, a := range atoms {
		if m := reCmpAtom.FindStringSubmatch(a); m != nil && m[2] == "!=" {
			if k, ok := eq[m[1]]; ok && k != m[3] {
				continue
			}
		}
		out = append(out, a)
	}
	return out
}

func guardMismatch(atoms, want []string, noOther bool) string {
	atoms = dropImplied(atoms)
	used := make([]bool, len(atoms))
	for _, w := range want {
		optional := strings.HasPrefix(w, "?")
		w = strings.TrimPrefix(w, "?")
		neg := strings.HasPrefix(w, "¬")
		sub := strings.TrimPrefix(w, "¬")
		hit := false
		for i, a := range atoms {
			if used[i] || strings.HasPrefix(a, "no-earlier-element-with(") {
				continue
			}
			all := strings.HasPrefix(a, "!") == neg
			for _, part := range strings.Split(sub, "…") {
				if !strings.Contains(a, part) {
					all = false
				}
			}
			if all {
				used[i], hit = true, true
				break
			}
		}
		if !hit && !optional {
			return fmt.Sprintf("guard %v lacks `%s`", atoms, w)
		}
	}
	if noOther {
		var extra []string
		for i, a := range atoms {
			if !used[i] {
				extra = append(extra, a)
			}
		}
		if len(extra) > 0 {
			sort.Strings(extra)
			return fmt.Sprintf("additional condition(s) %v", extra)
		}
	}
	return ""
}

func funcByName(c *Ctx, name string) *FuncRef {
	for _, f := range c.AllFuncs() {
		if f.Name == name {
			return f
		}
	}
	return nil
}

// nodeAt returns the innermost node of root that starts at pos.
func nodeAt(root ast.Node, pos token.Pos) ast.Node {
	var out ast.Node
	ast.Inspect(root, func(n ast.Node) bool {
		if n == nil {
			return true
		}
		if n.Pos() <= pos && pos < n.End() {
			if n.Pos() == pos {
				out = n
			}
			return true
		}
		return false
	})
	return out
}

// requiredCall: in function fn there is a call of `callee` whose i-th argument's path ends with argSuffix, under the guard.
type requiredCall struct {
	clause, reason string
	fn             string // suffix of the calling function
	callee         string // name of the called function / method
	arg            int    // argument index (-1: none)
	argSuffix      string
	guard          []string
	noOther        bool
	only           bool // no other call of the callee in fn takes a value of different provenance (it would overwrite this one)
}

func checkRequiredCalls(c *Ctx, r *Report, calls []requiredCall) {
	for _, rc := range calls {
		key := fmt.Sprintf("%s/calls-%s", rc.fn, rc.callee)
		var f *FuncRef
		for _, g := range c.AllFuncs() {
			if strings.HasSuffix(g.Name, rc.fn) {
				f = g
			}
		}
		if f == nil {
			r.Undecided(rc.clause, "R1 MUST-FLOW", key, "-", "calling function not found")
			continue
		}
		info := f.Pkg.TypesInfo
		defs := newDefs(info)
		defs.scan(f.Decl.Body)
		pc := &pathCtx{info: info, defs: defs, root: f.Decl.Body}
		var sites []*ast.CallExpr
		var others []string
		ast.Inspect(f.Decl.Body, func(n ast.Node) bool {
			call, ok := n.(*ast.CallExpr)
			if !ok {
				return true
			}
			fn := callee(info, call)
			if fn == nil || fn.Name() != rc.callee {
				return true
			}
			if rc.arg >= 0 {
				if rc.arg >= len(call.Args) || !strings.HasSuffix(normParams(pc.path(call.Args[rc.arg])), rc.argSuffix) {
					if rc.arg < len(call.Args) {
						others = append(others, fmt.Sprintf("%s(%s) at %s", rc.callee, pc.path(call.Args[rc.arg]), c.pos(call.Pos())))
					}
					return true
				}
			}
			sites = append(sites, call)
			return true
		})
		if len(sites) == 0 {
			r.Fail(rc.clause, "R1 MUST-FLOW", key, c.pos(f.Decl.Pos()), fmt.Sprintf("%s: %s no longer calls %s(%s)", rc.reason, rc.fn, rc.callee, rc.argSuffix))
			continue
		}
		if rc.only && len(others) > 0 {
			r.Fail(rc.clause, "R1 MUST-FLOW", key, c.pos(f.Decl.Pos()), fmt.Sprintf("%s: %s also calls %s — the value of the required call can be replaced by one of another origin", rc.reason, rc.fn, strings.Join(others, ", ")))
			continue
		}
		bad, okOne := "", false
		for _, call := range sites {
			why := guardMismatch(guardAtoms(c, f, call), rc.guard, rc.noOther)
			if why == "" {
				okOne = true
				break
			}
			bad = why
		}
		r.Check(okOne, rc.clause, "R1 MUST-FLOW", key, c.pos(sites[0].Pos()),
			fmt.Sprintf("%s: %s(%s) is called in %s under %s", rc.reason, rc.callee, rc.argSuffix, rc.fn, guardText(rc.guard)),
			fmt.Sprintf("%s: the call exists but not under the expected condition — %s", rc.reason, bad))
	}
}

var _ = types.Typ
