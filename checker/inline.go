package main

// inline.go — NORMALISATION BY INLINING. Most rules are anchored on a named function and read its body: a maintainer
// who extracts a few lines into a helper (or splits a function in two) leaves the behaviour alone but moves the
// constructs the rules look for. Before any rule runs, every *private-use helper* is therefore inlined back into its
// callers, on the type-checked AST:
//
//	helper H   a function or method of a repository package that is only ever CALLED (never used as a value), not
//	           recursive, without defer / go / labels / goto / named results, called from at most 4 sites, all of
//	           them in its own package and all in statement position:  H(a…)   x… := H(a…)   x… = H(a…)   return H(a…)
//	           and whose `return`s are in tail position: the last statement of the body, or the last statement of a
//	           top-level `if` without else (guard clause), recursively.
//
// The caller's body is CLONED (the original syntax trees stay untouched), the clone of H's body is spliced in place of
// the call statement with `param := arg` bindings in front (so that the canonical-path machinery substitutes the
// arguments for the parameters), `return e…` becomes the assignment the call statement made, guard clauses become
// if/else. Type information for every cloned node is copied (types.Info maps are keyed by node identity), so the
// rules see a fully resolved program. The normalised function gets fresh, internally consistent positions in a
// virtual range beyond all files; `(*Ctx).pos` maps them back to the original file:line for reports. A helper all of
// whose call sites were inlined is dropped from the package's declaration list (it is dead in the normalised
// program), so who-writes inventories do not see it twice.
//
// What it cannot do: helpers used in conditionally evaluated expression position (`if a && H(x) {`, loop conditions),
// recursion. Such extractions remain "undecided" for the rules that cannot find their construct.

import (
	"fmt"
	"go/ast"
	"go/constant"
	"go/token"
	"go/types"
	"golang.org/x/tools/go/ast/astutil"
	"os"
	"reflect"
	"sort"
	"strings"
)

const virtualBase = token.Pos(1 << 40)

type normaliser struct {
	c       *Ctx
	next    token.Pos
	origPos map[token.Pos]token.Pos // virtual position -> original position
	keys    []token.Pos             // sorted keys of origPos (built lazily)
	tmpN    int
	log     []string
}

var astNodeType = reflect.TypeOf((*ast.Node)(nil)).Elem()

// cloneNode deep-copies a syntax tree and copies the type information of every node to its copy.
func cloneNode(info *types.Info, n ast.Node) ast.Node {
	if n == nil || reflect.ValueOf(n).IsNil() {
		return n
	}
	v := reflect.ValueOf(n)
	if v.Kind() != reflect.Ptr || v.Elem().Kind() != reflect.Struct {
		return n
	}
	switch n.(type) {
	case *ast.CommentGroup, *ast.Comment:
		return nil
	}
	nv := reflect.New(v.Elem().Type())
	for i := 0; i < v.Elem().NumField(); i++ {
		f := v.Elem().Field(i)
		nf := nv.Elem().Field(i)
		if !nf.CanSet() {
			continue
		}
		nf.Set(cloneValue(info, f))
	}
	out := nv.Interface().(ast.Node)
	copyInfo(info, n, out)
	return out
}

func cloneValue(info *types.Info, f reflect.Value) reflect.Value {
	switch f.Kind() {
	case reflect.Interface:
		if f.IsNil() {
			return f
		}
		if node, ok := f.Interface().(ast.Node); ok {
			c := cloneNode(info, node)
			if c == nil || reflect.ValueOf(c).IsNil() {
				return reflect.Zero(f.Type())
			}
			return reflect.ValueOf(c).Convert(reflect.TypeOf(c))
		}
		return f
	case reflect.Ptr:
		if f.IsNil() {
			return f
		}
		if _, isObj := f.Interface().(*ast.Object); isObj {
			return reflect.Zero(f.Type())
		}
		if _, isScope := f.Interface().(*ast.Scope); isScope {
			return reflect.Zero(f.Type())
		}
		if node, ok := f.Interface().(ast.Node); ok {
			c := cloneNode(info, node)
			if c == nil || reflect.ValueOf(c).IsNil() {
				return reflect.Zero(f.Type())
			}
			return reflect.ValueOf(c)
		}
		return f
	case reflect.Slice:
		if f.IsNil() {
			return f
		}
		ns := reflect.MakeSlice(f.Type(), f.Len(), f.Len())
		for i := 0; i < f.Len(); i++ {
			ns.Index(i).Set(cloneValue(info, f.Index(i)))
		}
		return ns
	}
	return f
}

func copyInfo(info *types.Info, from, to ast.Node) {
	if fe, ok := from.(ast.Expr); ok {
		te := to.(ast.Expr)
		if tv, ok := info.Types[fe]; ok {
			info.Types[te] = tv
		}
	}
	switch x := from.(type) {
	case *ast.Ident:
		y := to.(*ast.Ident)
		if o, ok := info.Defs[x]; ok {
			info.Defs[y] = o
		}
		if o, ok := info.Uses[x]; ok {
			info.Uses[y] = o
		}
		if inst, ok := info.Instances[x]; ok {
			info.Instances[y] = inst
		}
	case *ast.SelectorExpr:
		if s, ok := info.Selections[x]; ok {
			info.Selections[to.(*ast.SelectorExpr)] = s
		}
	}
	if o, ok := info.Implicits[from]; ok {
		info.Implicits[to] = o
	}
	if s, ok := info.Scopes[from]; ok {
		info.Scopes[to] = s
	}
}

// renumber gives every position field of the tree a fresh position, in source (field) order, and records where it
// came from.
func (nz *normaliser) renumber(n ast.Node) {
	if n == nil || reflect.ValueOf(n).IsNil() {
		return
	}
	v := reflect.ValueOf(n)
	if v.Kind() != reflect.Ptr || v.Elem().Kind() != reflect.Struct {
		return
	}
	posT := reflect.TypeOf(token.Pos(0))
	var lastPosField reflect.Value
	for i := 0; i < v.Elem().NumField(); i++ {
		f := v.Elem().Field(i)
		switch {
		case f.Type() == posT:
			if token.Pos(f.Int()).IsValid() && f.CanSet() {
				old := token.Pos(f.Int())
				nz.next += 2
				nz.origPos[nz.next] = old
				f.SetInt(int64(nz.next))
				lastPosField = f
			}
		case f.Kind() == reflect.Interface || f.Kind() == reflect.Ptr:
			if f.IsNil() {
				continue
			}
			if node, ok := f.Interface().(ast.Node); ok {
				nz.renumber(node)
			}
		case f.Kind() == reflect.Slice:
			for j := 0; j < f.Len(); j++ {
				e := f.Index(j)
				if (e.Kind() == reflect.Interface || e.Kind() == reflect.Ptr) && !e.IsNil() {
					if node, ok := e.Interface().(ast.Node); ok {
						nz.renumber(node)
					}
				}
			}
		}
	}
	_ = lastPosField
	// leave room for End() = Pos + len(text)
	if e := n.End(); e.IsValid() && e > nz.next {
		nz.next = e + 1
	}
}

// virtualToOrig maps a virtual position back to the original one (exact, or the nearest recorded position below).
func (nz *normaliser) virtualToOrig(p token.Pos) token.Pos {
	if o, ok := nz.origPos[p]; ok {
		return o
	}
	if nz.keys == nil {
		for k := range nz.origPos {
			nz.keys = append(nz.keys, k)
		}
		sort.Slice(nz.keys, func(i, j int) bool { return nz.keys[i] < nz.keys[j] })
	}
	i := sort.Search(len(nz.keys), func(i int) bool { return nz.keys[i] > p })
	if i == 0 {
		return token.NoPos
	}
	return nz.origPos[nz.keys[i-1]]
}

// ---------------------------------------------------------------------------------------------

type helperInfo struct {
	fn    *types.Func
	decl  *ast.FuncDecl
	pkg   *normUnit
	file  *ast.File
	sites int
}

// normUnit is one type-checked package to normalise: a repository package or a rendered parser skeleton.
type normUnit struct {
	Syntax     []*ast.File
	TypesInfo  *types.Info
	Types      *types.Package
	isBaseline func(fd *ast.FuncDecl) bool
}

// tailReturns: every return of the statement list is in tail position (see the header).
func tailReturns(list []ast.Stmt) bool {
	for i, s := range list {
		last := i == len(list)-1
		switch x := s.(type) {
		case *ast.ReturnStmt:
			if !last {
				return false
			}
		case *ast.IfStmt:
			if containsReturn(x) {
				// a guard clause: `if c { …; return … }` without else, body itself tail-structured, anywhere in the list;
				// or, as the last statement, an if/else whose arms are both tail-structured
				if x.Else == nil {
					if len(x.Body.List) == 0 || !tailReturns(x.Body.List) {
						return false
					}
					if _, isRet := x.Body.List[len(x.Body.List)-1].(*ast.ReturnStmt); !isRet {
						return false
					}
					continue
				}
				eb, ok := x.Else.(*ast.BlockStmt)
				if !ok || !last || !tailReturns(x.Body.List) || !tailReturns(eb.List) {
					return false
				}
			}
		case *ast.ForStmt:
			if containsReturn(x) {
				if !last || !returnsBreakable(x.Body.List) {
					return false
				}
			}
		case *ast.RangeStmt:
			if containsReturn(x) {
				// after a range loop that ends normally the function would fall off its end: only for result-less helpers,
				// which lowerReturns handles (the `return` becomes `break`)
				if !last || !returnsBreakable(x.Body.List) {
					return false
				}
			}
		default:
			if containsReturn(s) {
				return false
			}
		}
	}
	return true
}

// returnsBreakable: every return below the loop body is reachable through ifs / blocks only (no inner loop, switch or
// select in between), so replacing it by `break` leaves exactly the enclosing loop.
func returnsBreakable(list []ast.Stmt) bool {
	for _, s := range list {
		switch x := s.(type) {
		case *ast.ReturnStmt:
		case *ast.IfStmt:
			if !returnsBreakable(x.Body.List) {
				return false
			}
			switch e := x.Else.(type) {
			case *ast.BlockStmt:
				if !returnsBreakable(e.List) {
					return false
				}
			case *ast.IfStmt:
				if !returnsBreakable([]ast.Stmt{e}) {
					return false
				}
			}
		case *ast.BlockStmt:
			if !returnsBreakable(x.List) {
				return false
			}
		default:
			if containsReturn(s) {
				return false
			}
		}
	}
	return true
}

func containsReturn(n ast.Node) bool {
	found := false
	ast.Inspect(n, func(m ast.Node) bool {
		switch m.(type) {
		case *ast.FuncLit:
			return false
		case *ast.ReturnStmt:
			found = true
		}
		return !found
	})
	return found
}

func unsupportedInHelper(body *ast.BlockStmt) string {
	why := ""
	ast.Inspect(body, func(m ast.Node) bool {
		switch x := m.(type) {
		case *ast.FuncLit:
			return false
		case *ast.DeferStmt:
			why = "defer"
		case *ast.GoStmt:
			why = "go"
		case *ast.LabeledStmt:
			why = "label"
		case *ast.BranchStmt:
			if x.Tok == token.GOTO || x.Label != nil {
				why = "goto / labelled branch"
			}
		}
		return why == ""
	})
	return why
}

// normaliseHelpers is called once after loading.
func normaliseHelpers(c *Ctx) {
	if os.Getenv("YACCVERIF_NOINLINE") != "" {
		return
	}
	nz := &normaliser{c: c, next: virtualBase, origPos: map[token.Pos]token.Pos{}}
	c.norm = nz
	var units []*normUnit
	for _, p := range c.All {
		pp := p
		dir := strings.TrimPrefix(pp.PkgPath, modPath+"/")
		units = append(units, &normUnit{Syntax: pp.Syntax, TypesInfo: pp.TypesInfo, Types: pp.Types,
			isBaseline: func(fd *ast.FuncDecl) bool { return baselineFuncs[funcDisplayName(dir, fd)] }})
	}
	nz.log = append(nz.log, nz.normaliseUnits(units)...)
	// the packages keep their (possibly shortened / replaced) declaration lists: Syntax holds the same *ast.File values
}

// skeletonBaseline: the functions of the generated parser as the templates of the confirmed tree declare them.
var skeletonBaseline = map[string]bool{"GetToken": true, "Parser": true, "ParserInit": true, "PopContex": true, "PopStateSym": true,
	"PushContex": true, "PushStateSym": true, "ReduceFunc": true, "TraceReduce": true, "TraceShift": true, "TraceTranslate": true,
	"fetchLookAhead": true, "init": true, "translate": true, "MakeParserContext": true, "Action": true, "ParserFun": true,
	"TracePingFun": true, "handlerPing": true, "main": true}

// normaliseSkeleton inlines helpers the templates may have gained back into the generated parser's functions.
var skelNorm *normaliser // the normaliser whose position map skeleton positions go through (set with the Ctx's)

func normaliseSkeleton(c *Ctx, sk *Skeleton) {
	skelNorm = c.norm
	if c.norm == nil || sk.File == nil || sk.Info == nil || sk.Pkg == nil || len(sk.TypeErs) > 0 {
		return
	}
	u := &normUnit{Syntax: []*ast.File{sk.File}, TypesInfo: sk.Info, Types: sk.Pkg,
		isBaseline: func(fd *ast.FuncDecl) bool { return skeletonBaseline[fd.Name.Name] }}
	c.norm.normaliseUnits([]*normUnit{u})
}

func (nz *normaliser) normaliseUnits(all []*normUnit) []string {
	// 1. candidate helpers and their uses
	helpers := map[*types.Func]*helperInfo{}
	for _, p := range all {
		for _, file := range p.Syntax {
			for _, d := range file.Decls {
				fd, ok := d.(*ast.FuncDecl)
				if !ok || fd.Body == nil {
					continue
				}
				fn, _ := p.TypesInfo.Defs[fd.Name].(*types.Func)
				if fn == nil || fn.Name() == "main" || fn.Name() == "init" {
					continue
				}
				// only functions that are NEW relative to the tree the rules were confirmed on are helpers: every
				// function of that tree may be a rule's anchor and stays a function (baseline_funcs.go)
				if p.isBaseline(fd) {
					continue
				}
				sig := fn.Type().(*types.Signature)
				named := false
				for i := 0; i < sig.Results().Len(); i++ {
					if sig.Results().At(i).Name() != "" {
						named = true
					}
				}
				if named || sig.Variadic() || sig.TypeParams() != nil || unsupportedInHelper(fd.Body) != "" || !tailReturns(fd.Body.List) {
					continue
				}
				helpers[fn] = &helperInfo{fn: fn, decl: fd, pkg: p, file: file}
			}
		}
	}
	// uses: every identifier resolving to the function must be the callee of a call in statement position, in its own package
	type site struct {
		caller *ast.FuncDecl
		pkg    *normUnit
	}
	callers := map[*types.Func]map[*ast.FuncDecl]bool{}
	bad := map[*types.Func]bool{}
	for _, p := range all {
		info := p.TypesInfo
		for _, file := range p.Syntax {
			for _, d := range file.Decls {
				fd, ok := d.(*ast.FuncDecl)
				if !ok || fd.Body == nil {
					// package-level initialisers may reference functions as values
					ast.Inspect(d, func(m ast.Node) bool {
						if id, ok := m.(*ast.Ident); ok {
							if fn, ok := info.Uses[id].(*types.Func); ok && helpers[fn] != nil {
								bad[fn] = true
							}
						}
						return true
					})
					continue
				}
				self, _ := info.Defs[fd.Name].(*types.Func)
				okCalls := map[*ast.Ident]bool{}
				markCall := func(call *ast.CallExpr) {
					switch f := unparen(call.Fun).(type) {
					case *ast.Ident:
						okCalls[f] = true
					case *ast.SelectorExpr:
						okCalls[f.Sel] = true
					}
				}
				var walkStmts func(list []ast.Stmt)
				walkStmts = func(list []ast.Stmt) {
					for _, s := range list {
						if call := stmtCall(s); call != nil {
							markCall(call)
						}
					}
				}
				_ = walkStmts
				// a use is acceptable when the identifier is the callee of a call (never a function value); sites that
				// cannot be inlined simply stay calls and keep the helper alive
				ast.Inspect(fd.Body, func(m ast.Node) bool {
					if call, ok := m.(*ast.CallExpr); ok {
						markCall(call)
					}
					return true
				})
				ast.Inspect(fd.Body, func(m ast.Node) bool {
					id, ok := m.(*ast.Ident)
					if !ok {
						return true
					}
					fn, ok := info.Uses[id].(*types.Func)
					if !ok || helpers[fn] == nil {
						return true
					}
					if !okCalls[id] || helpers[fn].pkg != p || fn == self {
						bad[fn] = true
						return true
					}
					helpers[fn].sites++
					if callers[fn] == nil {
						callers[fn] = map[*ast.FuncDecl]bool{}
					}
					callers[fn][fd] = true
					return true
				})
			}
		}
	}
	plan := map[*types.Func]*helperInfo{}
	for fn, h := range helpers {
		if bad[fn] || h.sites == 0 || h.sites > 4 {
			continue
		}
		plan[fn] = h
	}
	// a helper that calls another planned helper is fine (inlined first, bottom-up); mutual recursion is excluded:
	// drop helpers that (transitively) reach themselves through planned helpers
	reach := func(start *types.Func) bool {
		seen := map[*types.Func]bool{}
		var dfs func(fn *types.Func) bool
		dfs = func(fn *types.Func) bool {
			h := plan[fn]
			if h == nil || seen[fn] {
				return false
			}
			seen[fn] = true
			hit := false
			ast.Inspect(h.decl.Body, func(m ast.Node) bool {
				if id, ok := m.(*ast.Ident); ok {
					if g, ok := h.pkg.TypesInfo.Uses[id].(*types.Func); ok {
						if g == start || dfs(g) {
							hit = true
						}
					}
				}
				return !hit
			})
			return hit
		}
		return dfs(start)
	}
	for fn := range plan {
		if reach(fn) {
			delete(plan, fn)
		}
	}
	// 2. rewrite callers (fixpoint: a caller may itself be a helper of another function)
	done := map[*ast.FuncDecl]*ast.FuncDecl{}
	var normalise func(p *normUnit, fd *ast.FuncDecl, depth int) *ast.FuncDecl
	normalise = func(p *normUnit, fd *ast.FuncDecl, depth int) *ast.FuncDecl {
		if nd, ok := done[fd]; ok {
			return nd
		}
		done[fd] = fd // guard against cycles
		info := p.TypesInfo
		needs := false
		ast.Inspect(fd.Body, func(m ast.Node) bool {
			if id, ok := m.(*ast.Ident); ok {
				if fn, ok := info.Uses[id].(*types.Func); ok && plan[fn] != nil {
					needs = true
				}
			}
			return !needs
		})
		loops := hasIndexedRange(info, fd.Body)
		if (!needs && !loops) || depth > 4 {
			return fd
		}
		clone := cloneNode(info, fd).(*ast.FuncDecl)
		changed := false
		// helpers that are one expression (`func isBlank(r rune) bool { return r == ' ' || r == '\t' }`, a method
		// `isReduce()` on a small struct) are substituted where they are called — also inside && / ||, loop
		// conditions and arguments, where a statement-level inlining cannot go
		if nz.inlineExprHelpers(info, clone, plan) {
			changed = true
		}
		if loops {
			// `for i := 0; i < len(S); i++ { x := S[i]; … }` is written as `for i, x := range S { … }`
			var canon func(list []ast.Stmt) []ast.Stmt
			canon = func(list []ast.Stmt) []ast.Stmt {
				var out []ast.Stmt
				for _, s := range list {
					if fs, ok := s.(*ast.ForStmt); ok {
						if rs := indexedRangeOf(info, fs); rs != nil {
							changed = true
							s = rs
						} else if rot := rotatedLoopOf(info, fs); rot != nil {
							changed = true
							s = rot
						} else if init, dw := doWhileOf(info, fs); dw != nil {
							changed = true
							out = append(out, init)
							s = dw
						}
					}
					nz.rewriteNested(s, canon)
					out = append(out, s)
				}
				return out
			}
			clone.Body.List = canon(clone.Body.List)
		}
		var rewrite func(list []ast.Stmt) []ast.Stmt
		rewrite = func(list []ast.Stmt) []ast.Stmt {
			var out []ast.Stmt
			for _, s := range list {
				// `for H(a) ⋈ v { body }` (no init, no post, no && / ||): the helper runs before every test —
				// `for { if !(H(a) ⋈ v) { break }; body }`, where the if-condition form is inlined below
				if fs, ok := s.(*ast.ForStmt); ok && fs.Init == nil && fs.Post == nil && fs.Cond != nil {
					hasHelper, shortCircuit := false, false
					ast.Inspect(fs.Cond, func(m ast.Node) bool {
						switch x := m.(type) {
						case *ast.CallExpr:
							if fn := callee(info, x); fn != nil && plan[fn] != nil {
								hasHelper = true
							}
						case *ast.BinaryExpr:
							if x.Op == token.LAND || x.Op == token.LOR {
								shortCircuit = true
							}
						}
						return true
					})
					if hasHelper && !shortCircuit {
						neg := &ast.UnaryExpr{OpPos: fs.Cond.Pos(), Op: token.NOT, X: &ast.ParenExpr{Lparen: fs.Cond.Pos(), X: fs.Cond, Rparen: fs.Cond.End()}}
						info.Types[neg] = types.TypeAndValue{Type: types.Typ[types.Bool]}
						info.Types[neg.X] = types.TypeAndValue{Type: types.Typ[types.Bool]}
						guard := &ast.IfStmt{If: fs.Cond.Pos(), Cond: neg, Body: &ast.BlockStmt{Lbrace: fs.Cond.Pos(), List: []ast.Stmt{&ast.BranchStmt{TokPos: fs.Cond.Pos(), Tok: token.BREAK}}, Rbrace: fs.Cond.End()}}
						fs.Body.List = append([]ast.Stmt{guard}, fs.Body.List...)
						fs.Cond = nil
						changed = true
					}
				}
				call := stmtCall(s)
				var h *helperInfo
				if call != nil {
					if fn := callee(info, call); fn != nil {
						h = plan[fn]
					}
				}
				if h == nil {
					// `x = append(x, H(a…)...)` with H a collector (declares an empty slice, only appends to it, returns
					// it): the helper's appends go straight into x
					if fused, ok := nz.fuseCollector(p, info, s, plan, normalise, depth); ok {
						changed = true
						out = append(out, fused...)
						continue
					}
					// a helper call used as an operand of the statement (`x = append(x, H(a))`, `return f(H(a))` is not
					// touched): hoist it into a temporary first, when nothing else in the statement has side effects
					if tmpAssign, ok := nz.hoistNestedCall(p, info, s, plan); ok {
						sub := rewrite([]ast.Stmt{tmpAssign})
						if len(sub) != 1 || sub[0] != ast.Stmt(tmpAssign) {
							changed = true
							out = append(out, sub...)
							out = append(out, s)
							continue
						}
					}
					nz.rewriteNested(s, rewrite)
					out = append(out, s)
					continue
				}
				hd := normalise(h.pkg, h.decl, depth+1) // the helper's own helpers first
				spliced, ok := nz.splice(info, s, call, h, hd)
				if !ok {
					nz.rewriteNested(s, rewrite)
					out = append(out, s)
					continue
				}
				changed = true
				out = append(out, spliced...)
			}
			return out
		}
		clone.Body.List = rewrite(clone.Body.List)
		if !changed {
			return fd
		}
		nz.renumber(clone)
		done[fd] = clone
		return clone
	}
	replaced := map[*ast.FuncDecl]*ast.FuncDecl{}
	for _, p := range all {
		for _, file := range p.Syntax {
			for i, d := range file.Decls {
				fd, ok := d.(*ast.FuncDecl)
				if !ok || fd.Body == nil {
					continue
				}
				if nd := normalise(p, fd, 0); nd != fd {
					file.Decls[i] = nd
					replaced[fd] = nd
				}
			}
		}
	}
	// 3. helpers whose every call site was inlined are dead: drop them (unless something still refers to them)
	still := map[*types.Func]bool{}
	for _, p := range all {
		for _, file := range p.Syntax {
			for _, d := range file.Decls {
				ast.Inspect(d, func(m ast.Node) bool {
					if id, ok := m.(*ast.Ident); ok {
						if fn, ok := p.TypesInfo.Uses[id].(*types.Func); ok && plan[fn] != nil {
							still[fn] = true
						}
					}
					return true
				})
			}
		}
	}
	var names []string
	for fn, h := range plan {
		if still[fn] {
			continue
		}
		var keep []ast.Decl
		for _, d := range h.file.Decls {
			if fd, ok := d.(*ast.FuncDecl); ok && (fd == h.decl || fd == replaced[h.decl]) {
				continue
			}
			keep = append(keep, d)
		}
		h.file.Decls = keep
		names = append(names, fn.FullName())
	}
	sort.Strings(names)
	return names
}

// stmtCall: the call of a statement of the form  f(a…)  |  x… := f(a…)  |  x… = f(a…)  |  var x = f(a…)  |  return f(a…)
func stmtCall(s ast.Stmt) *ast.CallExpr {
	switch x := s.(type) {
	case *ast.ExprStmt:
		if call, ok := unparen(x.X).(*ast.CallExpr); ok {
			return call
		}
	case *ast.AssignStmt:
		if len(x.Rhs) == 1 && (x.Tok == token.ASSIGN || x.Tok == token.DEFINE) {
			if call, ok := unparen(x.Rhs[0]).(*ast.CallExpr); ok {
				return call
			}
		}
	case *ast.ReturnStmt:
		if len(x.Results) == 1 {
			if call, ok := unparen(x.Results[0]).(*ast.CallExpr); ok {
				return call
			}
		}
	}
	return nil
}

// rewriteNested applies the statement-list rewrite to every nested statement list of s.
func (nz *normaliser) rewriteNested(s ast.Stmt, rewrite func([]ast.Stmt) []ast.Stmt) {
	switch x := s.(type) {
	case *ast.BlockStmt:
		x.List = rewrite(x.List)
	case *ast.IfStmt:
		x.Body.List = rewrite(x.Body.List)
		if x.Else != nil {
			nz.rewriteNested(x.Else, rewrite)
		}
	case *ast.ForStmt:
		x.Body.List = rewrite(x.Body.List)
	case *ast.RangeStmt:
		x.Body.List = rewrite(x.Body.List)
	case *ast.SwitchStmt:
		for _, cc := range x.Body.List {
			if cl, ok := cc.(*ast.CaseClause); ok {
				cl.Body = rewrite(cl.Body)
			}
		}
	case *ast.TypeSwitchStmt:
		for _, cc := range x.Body.List {
			if cl, ok := cc.(*ast.CaseClause); ok {
				cl.Body = rewrite(cl.Body)
			}
		}
	case *ast.SelectStmt:
		for _, cc := range x.Body.List {
			if cl, ok := cc.(*ast.CommClause); ok {
				cl.Body = rewrite(cl.Body)
			}
		}
	case *ast.LabeledStmt:
		nz.rewriteNested(x.Stmt, rewrite)
	case *ast.ExprStmt, *ast.AssignStmt, *ast.ReturnStmt, *ast.DeclStmt, *ast.GoStmt, *ast.DeferStmt:
		// function literals among the operands (a comparator handed to sort.Slice, a callback): their bodies are
		// statement lists like any other
		ast.Inspect(s, func(m ast.Node) bool {
			if fl, ok := m.(*ast.FuncLit); ok {
				fl.Body.List = rewrite(fl.Body.List)
				return false
			}
			return true
		})
	}
}

// splice produces the statements that replace the call statement s.
func (nz *normaliser) splice(info *types.Info, s ast.Stmt, call *ast.CallExpr, h *helperInfo, hd *ast.FuncDecl) ([]ast.Stmt, bool) {
	hinfo := h.pkg.TypesInfo
	body := cloneNode(hinfo, hd.Body).(*ast.BlockStmt)
	// parameter objects, through the declaration actually cloned (its identifiers carry the Defs)
	var params []*ast.Ident
	for _, f := range hd.Type.Params.List {
		if len(f.Names) == 0 {
			return nil, false
		}
		params = append(params, f.Names...)
	}
	if len(params) != len(call.Args) {
		return nil, false
	}
	var out []ast.Stmt
	// a parameter the helper never assigns, bound to a plain variable of the caller, IS that variable: its uses in
	// the cloned body are redirected to the caller's object (rules compare objects, not names)
	written := map[types.Object]bool{}
	ast.Inspect(hd.Body, func(m ast.Node) bool {
		switch x := m.(type) {
		case *ast.AssignStmt:
			for _, l := range x.Lhs {
				if o := identObj(hinfo, l); o != nil {
					written[o] = true
				}
			}
		case *ast.IncDecStmt:
			if o := identObj(hinfo, x.X); o != nil {
				written[o] = true
			}
		case *ast.UnaryExpr:
			if x.Op == token.AND {
				if o := identObj(hinfo, x.X); o != nil {
					written[o] = true
				}
			}
		case *ast.RangeStmt:
			if o := identObj(hinfo, x.Key); o != nil && x.Tok == token.ASSIGN {
				written[o] = true
			}
			if o := identObj(hinfo, x.Value); o != nil && x.Tok == token.ASSIGN {
				written[o] = true
			}
		}
		return true
	})
	bind := func(name *ast.Ident, val ast.Expr) {
		o := hinfo.Defs[name]
		if o == nil || name.Name == "_" {
			return
		}
		if aid, ok := unparen(val).(*ast.Ident); ok && !written[o] {
			if ao, isVar := info.Uses[aid].(*types.Var); isVar && !callerWrites(info, body, ao) {
				ast.Inspect(body, func(m ast.Node) bool {
					if id, ok := m.(*ast.Ident); ok && info.Uses[id] == o {
						info.Uses[id] = ao
						id.Name = aid.Name
					}
					return true
				})
				return
			}
		}
		// a fresh object per inlined instance: two instances in one caller must not look like two definitions of
		// one variable
		if v, isVar := o.(*types.Var); isVar {
			nobj := types.NewVar(v.Pos(), v.Pkg(), v.Name(), v.Type())
			ast.Inspect(body, func(m ast.Node) bool {
				if id, ok := m.(*ast.Ident); ok && info.Uses[id] == o {
					info.Uses[id] = nobj
				}
				return true
			})
			o = nobj
		}
		id := &ast.Ident{NamePos: s.Pos(), Name: name.Name}
		info.Defs[id] = o
		if tv, ok := info.Types[val]; ok {
			info.Types[id] = types.TypeAndValue{Type: tv.Type}
		}
		out = append(out, &ast.AssignStmt{Lhs: []ast.Expr{id}, TokPos: s.Pos(), Tok: token.DEFINE, Rhs: []ast.Expr{val}})
	}
	if hd.Recv != nil && len(hd.Recv.List) == 1 && len(hd.Recv.List[0].Names) == 1 {
		se, ok := unparen(call.Fun).(*ast.SelectorExpr)
		if !ok {
			return nil, false
		}
		bind(hd.Recv.List[0].Names[0], se.X)
	}
	for i, p := range params {
		bind(p, call.Args[i])
	}
	// the helper's own locals: fresh objects per instance as well
	fresh := map[types.Object]types.Object{}
	ast.Inspect(body, func(m ast.Node) bool {
		if id, ok := m.(*ast.Ident); ok {
			if o, isDef := info.Defs[id]; isDef && o != nil {
				if v, isVar := o.(*types.Var); isVar && !v.IsField() {
					if fresh[o] == nil {
						fresh[o] = types.NewVar(v.Pos(), v.Pkg(), v.Name(), v.Type())
					}
					info.Defs[id] = fresh[o]
				}
			}
		}
		return true
	})
	if len(fresh) > 0 {
		ast.Inspect(body, func(m ast.Node) bool {
			if id, ok := m.(*ast.Ident); ok {
				if n := fresh[info.Uses[id]]; n != nil {
					info.Uses[id] = n
				}
			}
			return true
		})
	}
	// what a `return e…` of the helper becomes
	var onReturn func(rt *ast.ReturnStmt) []ast.Stmt
	switch x := s.(type) {
	case *ast.ExprStmt:
		onReturn = func(rt *ast.ReturnStmt) []ast.Stmt { return nil }
	case *ast.ReturnStmt:
		onReturn = func(rt *ast.ReturnStmt) []ast.Stmt { return []ast.Stmt{rt} }
	case *ast.AssignStmt:
		first := true
		onReturn = func(rt *ast.ReturnStmt) []ast.Stmt {
			if len(rt.Results) != len(x.Lhs) {
				return nil
			}
			tok := x.Tok
			lhs := x.Lhs
			if !first {
				// a second assignment of the same targets (guard clause turned into if/else): plain assignment to
				// fresh identifier nodes resolving to the same objects
				lhs = nil
				for _, l := range x.Lhs {
					lhs = append(lhs, cloneNode(info, l).(ast.Expr))
				}
			}
			first = false
			return []ast.Stmt{&ast.AssignStmt{Lhs: lhs, TokPos: x.TokPos, Tok: tok, Rhs: rt.Results}}
		}
	default:
		return nil, false
	}
	// `x := H(…)` where H ends in its only `return v`, v a local of H: v IS x — the helper's local takes the
	// caller's object and the final copy disappears (the caller's variable then shows the helper's assignments)
	if as, ok := s.(*ast.AssignStmt); ok && len(as.Lhs) == 1 && countReturns(body.List) == 1 && len(body.List) > 0 {
		if rt, ok := body.List[len(body.List)-1].(*ast.ReturnStmt); ok && len(rt.Results) == 1 {
			if rid, ok := unparen(rt.Results[0]).(*ast.Ident); ok {
				vobj := info.Uses[rid]
				isHelperLocal := false
				for _, f := range fresh {
					if f == vobj {
						isHelperLocal = true
					}
				}
				if xobj := identObj(info, as.Lhs[0]); xobj != nil && vobj != nil && isHelperLocal {
					if xid, ok := unparen(as.Lhs[0]).(*ast.Ident); ok {
						ast.Inspect(body, func(m ast.Node) bool {
							if id, ok := m.(*ast.Ident); ok {
								if info.Defs[id] == vobj {
									if as.Tok == token.DEFINE {
										info.Defs[id] = xobj
									} else {
										delete(info.Defs, id)
										info.Uses[id] = xobj
									}
									id.Name = xid.Name
								} else if info.Uses[id] == vobj {
									info.Uses[id] = xobj
									id.Name = xid.Name
								}
							}
							return true
						})
						if as.Tok == token.ASSIGN {
							// the helper's `v := e` defined a new variable; for `x = H()` it becomes an assignment
							ast.Inspect(body, func(m ast.Node) bool {
								if a2, ok := m.(*ast.AssignStmt); ok && a2.Tok == token.DEFINE {
									all := true
									for _, l := range a2.Lhs {
										if identObj(info, l) != xobj {
											all = false
										}
									}
									if all {
										a2.Tok = token.ASSIGN
									}
								}
								return true
							})
						}
						body.List = body.List[:len(body.List)-1]
						onReturn = func(rt *ast.ReturnStmt) []ast.Stmt { return nil }
					}
				}
			}
		}
	}
	lowered, ok := lowerReturns(body.List, onReturn)
	if !ok {
		return nil, false
	}
	out = append(out, lowered...)
	return out, true
}

func countReturns(list []ast.Stmt) int {
	n := 0
	for _, s := range list {
		ast.Inspect(s, func(m ast.Node) bool {
			switch m.(type) {
			case *ast.FuncLit:
				return false
			case *ast.ReturnStmt:
				n++
			}
			return true
		})
	}
	return n
}

// lowerReturns rewrites a tail-structured statement list: a final `return e…` becomes onReturn(e…); a guard clause
// `if c { …; return a… }` followed by the rest becomes `if c { …; onReturn(a…) } else { rest }`.
func lowerReturns(list []ast.Stmt, onReturn func(*ast.ReturnStmt) []ast.Stmt) ([]ast.Stmt, bool) {
	var out []ast.Stmt
	for i, s := range list {
		switch x := s.(type) {
		case *ast.ReturnStmt:
			if i != len(list)-1 {
				return nil, false
			}
			out = append(out, onReturn(x)...)
			return out, true
		case *ast.IfStmt:
			if !containsReturn(x) {
				out = append(out, s)
				continue
			}
			thenL, ok := lowerReturns(x.Body.List, onReturn)
			if !ok {
				return nil, false
			}
			if x.Else == nil {
				rest, ok := lowerReturns(list[i+1:], onReturn)
				if !ok {
					return nil, false
				}
				ni := &ast.IfStmt{If: x.If, Init: x.Init, Cond: x.Cond, Body: &ast.BlockStmt{Lbrace: x.Body.Lbrace, List: thenL, Rbrace: x.Body.Rbrace}}
				if len(rest) > 0 {
					ni.Else = &ast.BlockStmt{Lbrace: x.Body.Rbrace, List: rest, Rbrace: x.Body.Rbrace}
				}
				out = append(out, ni)
				return out, true
			}
			eb := x.Else.(*ast.BlockStmt)
			elseL, ok := lowerReturns(eb.List, onReturn)
			if !ok {
				return nil, false
			}
			out = append(out, &ast.IfStmt{If: x.If, Init: x.Init, Cond: x.Cond, Body: &ast.BlockStmt{Lbrace: x.Body.Lbrace, List: thenL, Rbrace: x.Body.Rbrace},
				Else: &ast.BlockStmt{Lbrace: eb.Lbrace, List: elseL, Rbrace: eb.Rbrace}})
			return out, true
		case *ast.ForStmt:
			if containsReturn(x) {
				if i != len(list)-1 {
					return nil, false
				}
				x.Body.List = breakReturns(x.Body.List, onReturn)
			}
			out = append(out, s)
		case *ast.RangeStmt:
			if containsReturn(x) {
				if i != len(list)-1 {
					return nil, false
				}
				x.Body.List = breakReturns(x.Body.List, onReturn)
			}
			out = append(out, s)
		default:
			out = append(out, s)
		}
	}
	return out, true
}

// breakReturns replaces `return e…` by `onReturn(e…); break` in a loop body (see returnsBreakable).
func breakReturns(list []ast.Stmt, onReturn func(*ast.ReturnStmt) []ast.Stmt) []ast.Stmt {
	var out []ast.Stmt
	for _, s := range list {
		switch x := s.(type) {
		case *ast.ReturnStmt:
			repl := onReturn(x)
			// a `return f(…)` context keeps the return itself; otherwise leave the loop
			if len(repl) == 1 && repl[0] == ast.Stmt(x) {
				out = append(out, x)
				continue
			}
			out = append(out, repl...)
			out = append(out, &ast.BranchStmt{TokPos: x.Return, Tok: token.BREAK})
		case *ast.IfStmt:
			x.Body.List = breakReturns(x.Body.List, onReturn)
			switch e := x.Else.(type) {
			case *ast.BlockStmt:
				e.List = breakReturns(e.List, onReturn)
			case *ast.IfStmt:
				breakReturns([]ast.Stmt{e}, onReturn)
			}
			out = append(out, s)
		case *ast.BlockStmt:
			x.List = breakReturns(x.List, onReturn)
			out = append(out, s)
		default:
			out = append(out, s)
		}
	}
	return out
}

func (nz *normaliser) summary() string {
	if nz == nil || len(nz.log) == 0 {
		return ""
	}
	return fmt.Sprintf("%d helper(s) inlined into their callers before analysis: %s", len(nz.log), strings.Join(nz.log, ", "))
}

// callerWrites: the (cloned helper) body assigns the variable — it cannot, a helper does not see its caller's locals,
// except package-level variables; kept as a guard for that case.
func callerWrites(info *types.Info, body ast.Node, v *types.Var) bool {
	hit := false
	ast.Inspect(body, func(m ast.Node) bool {
		switch x := m.(type) {
		case *ast.AssignStmt:
			for _, l := range x.Lhs {
				if identObj(info, l) == types.Object(v) {
					hit = true
				}
			}
		case *ast.IncDecStmt:
			if identObj(info, x.X) == types.Object(v) {
				hit = true
			}
		}
		return !hit
	})
	return hit
}

// hoistNestedCall: s is an expression / assignment statement one of whose operands (not the whole right-hand side) is
// a call of a planned helper, and every other call in s is a builtin or a conversion. The operand is replaced by a
// fresh temporary and `tmp := H(a…)` is returned, to be placed (and inlined) before s.
func (nz *normaliser) hoistNestedCall(p *normUnit, info *types.Info, s ast.Stmt, plan map[*types.Func]*helperInfo) (*ast.AssignStmt, bool) {
	var scope ast.Node = s
	switch x := s.(type) {
	case *ast.ExprStmt, *ast.AssignStmt:
	case *ast.IfStmt:
		// `if H(a) {` / `if !H(a) {` / `if H(a) == v {`: the condition is evaluated exactly once before the branches,
		// so the call may move in front of the statement — unless && / || make its evaluation conditional
		if x.Init != nil || x.Cond == nil {
			return nil, false
		}
		shortCircuit := false
		ast.Inspect(x.Cond, func(m ast.Node) bool {
			if be, ok := m.(*ast.BinaryExpr); ok && (be.Op == token.LAND || be.Op == token.LOR) {
				shortCircuit = true
			}
			return true
		})
		if shortCircuit {
			return nil, false
		}
		scope = x.Cond
	default:
		return nil, false
	}
	var target *ast.CallExpr
	others := false
	// the statement's own call (`f(a, H(x))`, `v := f(a, H(x))`) runs after all its arguments: when the helper call is
	// one of its direct arguments, hoisting it keeps the order as long as the other arguments call nothing
	top := stmtCall(s)
	if _, isIf := s.(*ast.IfStmt); isIf {
		top = nil
	}
	ast.Inspect(scope, func(m ast.Node) bool {
		if m == ast.Node(top) && top != nil {
			direct := false
			for _, a := range top.Args {
				if c, ok := unparen(a).(*ast.CallExpr); ok {
					if fn := callee(info, c); fn != nil && plan[fn] != nil {
						direct = true
					}
				}
			}
			if direct {
				if fn := callee(info, top); fn == nil || plan[fn] == nil {
					// inspect the arguments only
					for _, a := range top.Args {
						ast.Inspect(a, func(k ast.Node) bool {
							switch y := k.(type) {
							case *ast.FuncLit:
								others = true
								return false
							case *ast.CallExpr:
								if fn := callee(info, y); fn != nil && plan[fn] != nil {
									if target != nil {
										others = true
									}
									target = y
									return true
								}
								if builtinName(info, y) != "" {
									return true
								}
								if tv, ok := info.Types[y.Fun]; ok && tv.IsType() {
									return true
								}
								others = true
							}
							return true
						})
					}
					return false
				}
			}
		}
		switch x := m.(type) {
		case *ast.FuncLit:
			others = true
			return false
		case *ast.CallExpr:
			if fn := callee(info, x); fn != nil && plan[fn] != nil {
				if target != nil {
					others = true
				}
				target = x
				return false // its arguments are judged separately (argCalls below)
			}
			if builtinName(info, x) != "" {
				return true
			}
			if tv, ok := info.Types[x.Fun]; ok && tv.IsType() {
				return true
			}
			others = true
		}
		return true
	})
	if target == nil || others {
		return nil, false
	}
	tv, ok := info.Types[target]
	if !ok || tv.Type == nil {
		return nil, false
	}
	if _, isTuple := tv.Type.(*types.Tuple); isTuple {
		return nil, false
	}
	// the helper's arguments must themselves be free of calls (they would move before the other operands)
	argCalls := false
	for _, a := range target.Args {
		ast.Inspect(a, func(m ast.Node) bool {
			if c, ok := m.(*ast.CallExpr); ok && builtinName(info, c) == "" {
				if tv, isT := info.Types[c.Fun]; isT && tv.IsType() {
					return true // a conversion
				}
				argCalls = true
			}
			return true
		})
	}
	if argCalls {
		// allowed when the helper call is the whole condition of an `if` (modulo ! and parentheses): nothing else is
		// evaluated in that statement, so binding the arguments first keeps the order
		whole := false
		if ifs, ok := s.(*ast.IfStmt); ok {
			e := unparen(ifs.Cond)
			for {
				if u, ok := e.(*ast.UnaryExpr); ok && u.Op == token.NOT {
					e = unparen(u.X)
					continue
				}
				break
			}
			whole = e == ast.Expr(target)
		}
		if !whole {
			return nil, false
		}
	}
	nz.tmpN++
	name := fmt.Sprintf("inl%d", nz.tmpN)
	obj := types.NewVar(target.Pos(), p.Types, name, tv.Type)
	def := &ast.Ident{NamePos: s.Pos(), Name: name}
	use := &ast.Ident{NamePos: target.Pos(), Name: name}
	info.Defs[def] = obj
	info.Uses[use] = obj
	info.Types[use] = types.TypeAndValue{Type: tv.Type}
	if ifs, isIf := s.(*ast.IfStmt); isIf && unparen(ifs.Cond) == ast.Expr(target) {
		ifs.Cond = use
	} else if !replaceExpr(scope, target, use) {
		return nil, false
	}
	return &ast.AssignStmt{Lhs: []ast.Expr{def}, TokPos: s.Pos(), Tok: token.DEFINE, Rhs: []ast.Expr{target}}, true
}

// replaceExpr replaces the operand `old` somewhere below root by `new` (pointer identity).
func replaceExpr(root ast.Node, old, new ast.Expr) bool {
	done := false
	var walk func(v reflect.Value)
	walk = func(v reflect.Value) {
		if done {
			return
		}
		switch v.Kind() {
		case reflect.Ptr:
			if v.IsNil() {
				return
			}
			if _, ok := v.Interface().(*ast.FuncLit); ok {
				return
			}
			if v.Elem().Kind() == reflect.Struct {
				for i := 0; i < v.Elem().NumField(); i++ {
					walk(v.Elem().Field(i))
				}
			}
		case reflect.Interface:
			if v.IsNil() {
				return
			}
			if e, ok := v.Interface().(ast.Expr); ok && e == old && v.CanSet() {
				v.Set(reflect.ValueOf(new))
				done = true
				return
			}
			walk(v.Elem())
		case reflect.Slice:
			for i := 0; i < v.Len(); i++ {
				walk(v.Index(i))
			}
		}
	}
	walk(reflect.ValueOf(root))
	return done
}

// indexedRangeOf: fs is `for i := 0; i < len(S); i++ { x := S[i]; rest }` (or `len(S) > i`) where S is a plain
// variable / field path, and neither i nor S's root variable is assigned in the body: the equivalent
// `for i, x := range S { rest }` (built from the loop's own nodes). nil otherwise.
func indexedRangeOf(info *types.Info, fs *ast.ForStmt) *ast.RangeStmt {
	init, ok := fs.Init.(*ast.AssignStmt)
	if !ok || init.Tok != token.DEFINE || len(init.Lhs) != 1 || len(init.Rhs) != 1 || fs.Cond == nil {
		return nil
	}
	if v, isC := constInt(info, init.Rhs[0]); !isC || v != 0 {
		return nil
	}
	iv := identObj(info, init.Lhs[0])
	post, ok := fs.Post.(*ast.IncDecStmt)
	if !ok || post.Tok != token.INC || identObj(info, post.X) != iv || iv == nil {
		return nil
	}
	bound, ok := upperBound(info, fs.Cond, iv)
	if !ok {
		return nil
	}
	call, ok := unparen(bound).(*ast.CallExpr)
	if !ok || builtinName(info, call) != "len" || len(call.Args) != 1 || len(fs.Body.List) == 0 {
		return nil
	}
	S := call.Args[0]
	if _, isSlice := info.TypeOf(S).Underlying().(*types.Slice); !isSlice {
		return nil
	}
	// S: identifier or selector chain (no calls, no indexing)
	root := unparen(S)
	for {
		if se, ok := root.(*ast.SelectorExpr); ok {
			root = unparen(se.X)
			continue
		}
		break
	}
	rootObj := identObj(info, root)
	if rootObj == nil {
		return nil
	}
	first, ok := fs.Body.List[0].(*ast.AssignStmt)
	if !ok || first.Tok != token.DEFINE || len(first.Lhs) != 1 || len(first.Rhs) != 1 {
		return nil
	}
	ix, ok := unparen(first.Rhs[0]).(*ast.IndexExpr)
	if !ok || identObj(info, ix.Index) != iv || exprString(unparen(ix.X)) != exprString(unparen(S)) {
		return nil
	}
	xv := identObj(info, first.Lhs[0])
	if xv == nil {
		return nil
	}
	// neither the counter, nor the element variable's definition, nor S is written in the rest of the body
	bad := false
	for _, st := range fs.Body.List[1:] {
		ast.Inspect(st, func(m ast.Node) bool {
			switch x := m.(type) {
			case *ast.AssignStmt:
				for _, l := range x.Lhs {
					o := identObj(info, l)
					if o != nil && (o == iv || o == rootObj) {
						bad = true
					}
					if exprString(unparen(l)) == exprString(unparen(S)) {
						bad = true
					}
				}
			case *ast.IncDecStmt:
				if identObj(info, x.X) == iv {
					bad = true
				}
			case *ast.UnaryExpr:
				if x.Op == token.AND && (identObj(info, x.X) == iv || identObj(info, x.X) == rootObj) {
					bad = true
				}
			}
			return !bad
		})
	}
	if bad {
		return nil
	}
	return &ast.RangeStmt{For: fs.For, Key: init.Lhs[0], Value: first.Lhs[0], TokPos: init.TokPos, Tok: token.DEFINE, X: S,
		Body: &ast.BlockStmt{Lbrace: fs.Body.Lbrace, List: fs.Body.List[1:], Rbrace: fs.Body.Rbrace}}
}

func hasIndexedRange(info *types.Info, body *ast.BlockStmt) bool {
	found := false
	ast.Inspect(body, func(m ast.Node) bool {
		if fs, ok := m.(*ast.ForStmt); ok && (indexedRangeOf(info, fs) != nil || rotatedLoopOf(info, fs) != nil) {
			found = true
		}
		if fs, ok := m.(*ast.ForStmt); ok && !found {
			if _, dw := doWhileOf(info, fs); dw != nil {
				found = true
			}
		}
		return !found
	})
	return found
}

// rotatedLoopOf: `for v := E; cond; v = E { body }` (the same expression E fetched before every test) is written
// `for { v := E; if !(cond) { break }; body }`. nil when fs is not of that form.
func rotatedLoopOf(info *types.Info, fs *ast.ForStmt) *ast.ForStmt {
	init, ok := fs.Init.(*ast.AssignStmt)
	if !ok || init.Tok != token.DEFINE || len(init.Lhs) != 1 || len(init.Rhs) != 1 || fs.Cond == nil {
		return nil
	}
	post, ok := fs.Post.(*ast.AssignStmt)
	if !ok || post.Tok != token.ASSIGN || len(post.Lhs) != 1 || len(post.Rhs) != 1 {
		return nil
	}
	v := identObj(info, init.Lhs[0])
	if v == nil || identObj(info, post.Lhs[0]) != v || exprString(init.Rhs[0]) != exprString(post.Rhs[0]) {
		return nil
	}
	if _, isCall := unparen(init.Rhs[0]).(*ast.CallExpr); !isCall {
		return nil
	}
	// the body must not assign v itself
	bad := false
	ast.Inspect(fs.Body, func(m ast.Node) bool {
		if as, ok := m.(*ast.AssignStmt); ok {
			for _, l := range as.Lhs {
				if identObj(info, l) == v {
					bad = true
				}
			}
		}
		return !bad
	})
	if bad {
		return nil
	}
	guard := &ast.IfStmt{If: fs.Cond.Pos(), Cond: &ast.UnaryExpr{OpPos: fs.Cond.Pos(), Op: token.NOT, X: &ast.ParenExpr{Lparen: fs.Cond.Pos(), X: fs.Cond, Rparen: fs.Cond.End()}},
		Body: &ast.BlockStmt{Lbrace: fs.Cond.End(), List: []ast.Stmt{&ast.BranchStmt{TokPos: fs.Cond.End(), Tok: token.BREAK}}, Rbrace: fs.Cond.End()}}
	list := append([]ast.Stmt{init, guard}, fs.Body.List...)
	return &ast.ForStmt{For: fs.For, Body: &ast.BlockStmt{Lbrace: fs.Body.Lbrace, List: list, Rbrace: fs.Body.Rbrace}}
}

// fuseCollector: s is `x = append(x, H(a…)...)` where x is a plain variable and H is a planned helper of the shape
//
//	var v []T  |  v := []T{}  |  v := make([]T, 0)
//	… (v occurs only as `v = append(v, …)`) …
//	return v
//
// The helper's body is spliced in with v redirected to x and its empty initialisation dropped.
func (nz *normaliser) fuseCollector(p *normUnit, info *types.Info, s ast.Stmt, plan map[*types.Func]*helperInfo,
	normalise func(p *normUnit, fd *ast.FuncDecl, depth int) *ast.FuncDecl, depth int) ([]ast.Stmt, bool) {
	as, ok := s.(*ast.AssignStmt)
	if !ok || as.Tok != token.ASSIGN || len(as.Lhs) != 1 || len(as.Rhs) != 1 {
		return nil, false
	}
	xid, ok := unparen(as.Lhs[0]).(*ast.Ident)
	if !ok {
		return nil, false
	}
	app, ok := unparen(as.Rhs[0]).(*ast.CallExpr)
	if !ok || builtinName(info, app) != "append" || len(app.Args) != 2 || !app.Ellipsis.IsValid() || identObj(info, app.Args[0]) == nil || identObj(info, app.Args[0]) != identObj(info, xid) {
		return nil, false
	}
	call, ok := unparen(app.Args[1]).(*ast.CallExpr)
	if !ok {
		return nil, false
	}
	fn := callee(info, call)
	if fn == nil || plan[fn] == nil {
		return nil, false
	}
	h := plan[fn]
	hd := normalise(h.pkg, h.decl, depth+1)
	hinfo := h.pkg.TypesInfo
	if len(hd.Body.List) < 2 {
		return nil, false
	}
	// the collector variable
	var vobj types.Object
	switch first := hd.Body.List[0].(type) {
	case *ast.DeclStmt:
		if gd, ok := first.Decl.(*ast.GenDecl); ok && len(gd.Specs) == 1 {
			if vs, ok := gd.Specs[0].(*ast.ValueSpec); ok && len(vs.Names) == 1 && len(vs.Values) == 0 {
				vobj = hinfo.Defs[vs.Names[0]]
			}
		}
	case *ast.AssignStmt:
		if first.Tok == token.DEFINE && len(first.Lhs) == 1 && len(first.Rhs) == 1 {
			empty := false
			switch e := unparen(first.Rhs[0]).(type) {
			case *ast.CompositeLit:
				empty = len(e.Elts) == 0
			case *ast.CallExpr:
				if builtinName(hinfo, e) == "make" && len(e.Args) == 2 {
					if v, isC := constInt(hinfo, e.Args[1]); isC && v == 0 {
						empty = true
					}
				}
			}
			if empty {
				vobj = identObj(hinfo, first.Lhs[0])
			}
		}
	}
	if vobj == nil {
		return nil, false
	}
	if _, isSlice := vobj.Type().Underlying().(*types.Slice); !isSlice {
		return nil, false
	}
	last, ok := hd.Body.List[len(hd.Body.List)-1].(*ast.ReturnStmt)
	if !ok || len(last.Results) != 1 || identObj(hinfo, last.Results[0]) != vobj || countReturns(hd.Body.List) != 1 {
		return nil, false
	}
	// every other mention of v: `v = append(v, …)`
	okUse := true
	allowed := map[*ast.Ident]bool{}
	for _, st := range hd.Body.List[1 : len(hd.Body.List)-1] {
		ast.Inspect(st, func(m ast.Node) bool {
			if a2, ok := m.(*ast.AssignStmt); ok && a2.Tok == token.ASSIGN && len(a2.Lhs) == 1 && len(a2.Rhs) == 1 && identObj(hinfo, a2.Lhs[0]) == vobj {
				if c2, ok := unparen(a2.Rhs[0]).(*ast.CallExpr); ok && builtinName(hinfo, c2) == "append" && len(c2.Args) >= 2 && identObj(hinfo, c2.Args[0]) == vobj {
					if l, ok := unparen(a2.Lhs[0]).(*ast.Ident); ok {
						allowed[l] = true
					}
					if a, ok := unparen(c2.Args[0]).(*ast.Ident); ok {
						allowed[a] = true
					}
				}
			}
			return true
		})
		ast.Inspect(st, func(m ast.Node) bool {
			if id, ok := m.(*ast.Ident); ok && hinfo.Uses[id] == vobj && !allowed[id] {
				okUse = false
			}
			return true
		})
	}
	if !okUse {
		return nil, false
	}
	// splice `x = H(a…)` (the result-variable unification makes v be x), then drop v's empty initialisation
	lhs := cloneNode(info, xid).(ast.Expr)
	synth := &ast.AssignStmt{Lhs: []ast.Expr{lhs}, TokPos: as.TokPos, Tok: token.ASSIGN, Rhs: []ast.Expr{call}}
	spliced, ok := nz.splice(info, synth, call, h, hd)
	if !ok {
		return nil, false
	}
	xobj := identObj(info, xid)
	var out []ast.Stmt
	dropped := false
	for _, st := range spliced {
		if !dropped {
			switch d := st.(type) {
			case *ast.DeclStmt:
				if gd, ok := d.Decl.(*ast.GenDecl); ok && len(gd.Specs) == 1 {
					if vs, ok := gd.Specs[0].(*ast.ValueSpec); ok && len(vs.Names) == 1 && (info.Defs[vs.Names[0]] == xobj || info.Uses[vs.Names[0]] == xobj) {
						dropped = true
						continue
					}
				}
			case *ast.AssignStmt:
				if len(d.Lhs) == 1 && len(d.Rhs) == 1 && identObj(info, d.Lhs[0]) == xobj {
					c2, isCall := unparen(d.Rhs[0]).(*ast.CallExpr)
					if !isCall || builtinName(info, c2) == "make" {
						dropped = true
						continue
					}
				}
			}
		}
		out = append(out, st)
	}
	if !dropped {
		return nil, false
	}
	return out, true
}

// doWhileOf: `for v := c; cond(v); { body }` (no post statement) where the constant c satisfies cond and no
// `continue` of the body targets the loop is `v := c; for { body; if !cond(v) { break } }` — the first test is known
// to succeed and every later test at the head is the test at the end of the iteration before.
func doWhileOf(info *types.Info, fs *ast.ForStmt) (ast.Stmt, *ast.ForStmt) {
	if fs.Post != nil || fs.Cond == nil || fs.Init == nil {
		return nil, nil
	}
	init, ok := fs.Init.(*ast.AssignStmt)
	if !ok || init.Tok != token.DEFINE || len(init.Lhs) != 1 || len(init.Rhs) != 1 {
		return nil, nil
	}
	v := identObj(info, init.Lhs[0])
	c0 := constOf(info, init.Rhs[0])
	if v == nil || c0 == nil {
		return nil, nil
	}
	// cond(c0)
	holds := false
	switch cnd := unparen(fs.Cond).(type) {
	case *ast.Ident:
		holds = identObj(info, cnd) == v && c0.Kind() == constant.Bool && constant.BoolVal(c0)
	case *ast.BinaryExpr:
		x, y := cnd.X, cnd.Y
		op := cnd.Op
		if identObj(info, y) == v {
			x, y = y, x
			switch op {
			case token.LSS:
				op = token.GTR
			case token.GTR:
				op = token.LSS
			case token.LEQ:
				op = token.GEQ
			case token.GEQ:
				op = token.LEQ
			}
		}
		c1 := constOf(info, y)
		if identObj(info, x) == v && c1 != nil && (c0.Kind() == constant.Int || c0.Kind() == constant.Bool) && c1.Kind() == c0.Kind() {
			switch op {
			case token.EQL, token.NEQ, token.LSS, token.GTR, token.LEQ, token.GEQ:
				if c0.Kind() == constant.Bool && op != token.EQL && op != token.NEQ {
					return nil, nil
				}
				holds = constant.Compare(c0, op, c1)
			}
		}
	}
	if !holds {
		return nil, nil
	}
	// no continue that belongs to this loop
	bad := false
	var walk func(n ast.Node, depth int)
	walk = func(n ast.Node, depth int) {
		ast.Inspect(n, func(m ast.Node) bool {
			if bad || m == nil {
				return false
			}
			switch x := m.(type) {
			case *ast.FuncLit:
				return false
			case *ast.ForStmt:
				if m != n {
					walk(x.Body, depth+1)
					return false
				}
			case *ast.RangeStmt:
				if m != n {
					walk(x.Body, depth+1)
					return false
				}
			case *ast.BranchStmt:
				if x.Tok == token.CONTINUE && (depth == 0 || x.Label != nil) {
					bad = true
				}
				if x.Tok == token.GOTO {
					bad = true
				}
			}
			return true
		})
	}
	walk(fs.Body, 0)
	if bad {
		return nil, nil
	}
	neg := &ast.UnaryExpr{OpPos: fs.Cond.Pos(), Op: token.NOT, X: &ast.ParenExpr{Lparen: fs.Cond.Pos(), X: fs.Cond, Rparen: fs.Cond.End()}}
	info.Types[neg] = types.TypeAndValue{Type: types.Typ[types.Bool]}
	info.Types[neg.X] = types.TypeAndValue{Type: types.Typ[types.Bool]}
	guard := &ast.IfStmt{If: fs.Cond.Pos(), Cond: neg, Body: &ast.BlockStmt{Lbrace: fs.Cond.Pos(), List: []ast.Stmt{&ast.BranchStmt{TokPos: fs.Cond.Pos(), Tok: token.BREAK}}, Rbrace: fs.Cond.End()}}
	body := &ast.BlockStmt{Lbrace: fs.Body.Lbrace, List: append(append([]ast.Stmt{}, fs.Body.List...), guard), Rbrace: fs.Body.Rbrace}
	return init, &ast.ForStmt{For: fs.For, Body: body}
}

// exprHelperBody: the helper is `return <one expression>`; that expression, else nil.
func exprHelperBody(hd *ast.FuncDecl) ast.Expr {
	if hd.Body == nil || len(hd.Body.List) != 1 {
		return nil
	}
	rt, ok := hd.Body.List[0].(*ast.ReturnStmt)
	if !ok || len(rt.Results) != 1 {
		return nil
	}
	return rt.Results[0]
}

// inlineExprHelpers replaces calls of planned one-expression helpers inside fd by the helper's expression with the
// arguments (and the receiver) substituted for the parameters. An argument that calls something is substituted only
// for a parameter the expression mentions at most once (it is then still evaluated once). Returns whether anything
// was replaced.
func (nz *normaliser) inlineExprHelpers(info *types.Info, fd *ast.FuncDecl, plan map[*types.Func]*helperInfo) bool {
	any := false
	for round := 0; round < 4; round++ {
		changed := false
		astutil.Apply(fd.Body, func(cur *astutil.Cursor) bool {
			call, ok := cur.Node().(*ast.CallExpr)
			if !ok {
				return true
			}
			fn := callee(info, call)
			if fn == nil || plan[fn] == nil {
				return true
			}
			h := plan[fn]
			body := exprHelperBody(h.decl)
			if body == nil {
				return true
			}
			hinfo := h.pkg.TypesInfo
			// parameters (and receiver) → arguments
			var pnames []*ast.Ident
			var args []ast.Expr
			if h.decl.Recv != nil && len(h.decl.Recv.List) == 1 && len(h.decl.Recv.List[0].Names) == 1 {
				se, ok := unparen(call.Fun).(*ast.SelectorExpr)
				if !ok {
					return true
				}
				pnames = append(pnames, h.decl.Recv.List[0].Names[0])
				args = append(args, se.X)
			}
			for _, f := range h.decl.Type.Params.List {
				if len(f.Names) == 0 {
					return true
				}
				pnames = append(pnames, f.Names...)
			}
			args = append(args, call.Args...)
			if len(pnames) != len(args) {
				return true
			}
			bind := map[types.Object]ast.Expr{}
			for i, pn := range pnames {
				o := hinfo.Defs[pn]
				if o == nil {
					continue
				}
				uses := 0
				ast.Inspect(body, func(m ast.Node) bool {
					if id, ok := m.(*ast.Ident); ok && hinfo.Uses[id] == o {
						uses++
					}
					return true
				})
				impure := false
				ast.Inspect(args[i], func(m ast.Node) bool {
					if c2, ok := m.(*ast.CallExpr); ok && builtinName(info, c2) == "" {
						if tv, isT := info.Types[c2.Fun]; !isT || !tv.IsType() {
							impure = true
						}
					}
					return true
				})
				if impure && uses > 1 {
					return true // the argument would be evaluated more than once
				}
				bind[o] = args[i]
			}
			// the helper's expression must not assign or take addresses of its parameters (it is an expression: it cannot)
			expr := cloneNode(hinfo, body).(ast.Expr)
			res := astutil.Apply(expr, func(c2 *astutil.Cursor) bool {
				if id, ok := c2.Node().(*ast.Ident); ok {
					if a, ok := bind[info.Uses[id]]; ok {
						ac := cloneNode(info, a).(ast.Expr)
						pe := &ast.ParenExpr{Lparen: id.Pos(), X: ac, Rparen: id.End()}
						if tv, ok := info.Types[a]; ok {
							info.Types[pe] = tv
						}
						c2.Replace(pe)
						return false
					}
				}
				return true
			}, nil)
			out := &ast.ParenExpr{Lparen: call.Pos(), X: res.(ast.Expr), Rparen: call.End()}
			if tv, ok := info.Types[call]; ok {
				info.Types[out] = tv
			}
			cur.Replace(out)
			changed = true
			return false
		}, nil)
		if !changed {
			break
		}
		any = true
	}
	return any
}
