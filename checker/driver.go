package main

// driver.go — facts about the LR driver loop of a Go skeleton, shared by C01, C06, C07, C08, C15, C17.

import (
	"fmt"
	"go/ast"
	"go/constant"
	"go/token"
	"go/types"
	"strings"
)

type DriverFacts struct {
	sk       *Skeleton
	fn       *ast.FuncDecl
	loop     *ast.ForStmt
	paths    []*PathOut
	pre      []*PathOut // statements before the loop
	aTerm    *Term
	aStr     string
	errConst constant.Value
	accConst constant.Value
	err      string
	recv     string // "" or "Context"
}

func skelConst(sk *Skeleton, name string) constant.Value {
	if sk.Pkg == nil {
		return nil
	}
	if c, ok := sk.Pkg.Scope().Lookup(name).(*types.Const); ok {
		return c.Val()
	}
	return nil
}

func analyseDriver(sk *Skeleton) *DriverFacts {
	d := &DriverFacts{sk: sk}
	if sk.File == nil || sk.Pkg == nil || len(sk.TypeErs) > 0 {
		d.err = "skeleton does not parse / type-check (see C16)"
		return d
	}
	if sk.V.Object {
		d.recv = "Context"
	}
	d.fn = sk.FuncDecl(d.recv, "Parser")
	if d.fn == nil {
		d.err = "no Parser function in the skeleton"
		return d
	}
	d.errConst, d.accConst = skelConst(sk, "ERROR_ACTION"), skelConst(sk, "ACCEPT_ACTION")
	if d.errConst == nil || d.accConst == nil {
		d.err = "ERROR_ACTION / ACCEPT_ACTION are not constants of the skeleton"
		return d
	}
	var preStmts []ast.Stmt
	for _, s := range d.fn.Body.List {
		if fs, ok := s.(*ast.ForStmt); ok && d.loop == nil {
			d.loop = fs
			break
		}
		preStmts = append(preStmts, s)
	}
	if d.loop == nil {
		d.err = "Parser has no driver loop"
		return d
	}
	pe := newPathEnum(sk.Info)
	var err error
	body := d.loop.Body.List
	if d.loop.Cond != nil && d.loop.Init == nil && d.loop.Post == nil {
		// `for c { … }` is `for { if !c { break }; … }`
		guard := &ast.IfStmt{If: d.loop.Cond.Pos(), Cond: &ast.UnaryExpr{OpPos: d.loop.Cond.Pos(), Op: token.NOT, X: &ast.ParenExpr{Lparen: d.loop.Cond.Pos(), X: d.loop.Cond, Rparen: d.loop.Cond.End()}},
			Body: &ast.BlockStmt{Lbrace: d.loop.Cond.End(), List: []ast.Stmt{&ast.BranchStmt{TokPos: d.loop.Cond.End(), Tok: token.BREAK}}, Rbrace: d.loop.Cond.End()}}
		body = append([]ast.Stmt{guard}, body...)
	}
	d.paths, err = pe.Enumerate(body)
	if err != nil {
		d.err = "cannot enumerate the driver loop: " + err.Error()
		return d
	}
	pe2 := newPathEnum(sk.Info)
	d.pre, _ = pe2.Enumerate(preStmts)
	// the action lookup: first call to (*StateSym).Action on any path
	for _, p := range d.paths {
		for _, e := range p.Effects {
			if e.Kind == "call" && strings.HasSuffix(e.Term.Name, "StateSym).Action") {
				if d.aTerm == nil {
					d.aTerm = e.Term
					d.aStr = e.Term.String()
				}
				break
			}
		}
	}
	if d.aTerm == nil {
		d.err = "the driver loop never calls Action"
		return d
	}
	return d
}

// classPaths returns the paths that evaluate the looked-up action and are consistent with a == v.
func (d *DriverFacts) classPaths(v constant.Value) []*PathOut {
	val := func(t *Term) (constant.Value, bool) {
		if t.Op == "call" && t.String() == d.aStr {
			return v, true
		}
		return nil, false
	}
	var out []*PathOut
	for _, p := range selectPaths(d.paths, val) {
		mentions := false
		for _, c := range p.Conds {
			if strings.Contains(c.Atom.String(), d.aStr) {
				mentions = true
			}
		}
		if mentions {
			out = append(out, p)
		}
	}
	return out
}

func effectCalls(p *PathOut) []string {
	var out []string
	for _, e := range p.Effects {
		if e.Kind == "call" {
			n := e.Term.Name
			if i := strings.LastIndex(n, "."); i >= 0 {
				n = n[i+1:]
			}
			out = append(out, n)
		}
	}
	return out
}

func hasCall(p *PathOut, names ...string) string {
	for _, c := range effectCalls(p) {
		for _, n := range names {
			if c == n {
				return c
			}
		}
	}
	return ""
}

// leftmostAdd returns the leftmost operand of a chain of "+".
func leftmostAdd(t *Term) *Term {
	for t.Op == "arith" && t.Name == "+" {
		t = t.Args[0]
	}
	return t
}

// termConstString: constant string value of a term.
func termConstString(t *Term) (string, bool) {
	if t.Op == "const" && t.Val.Kind() == constant.String {
		return constant.StringVal(t.Val), true
	}
	return "", false
}

// ---------------------------------------------------------------------------------------------
// packed Action reader of a skeleton

func analysePackedAction(sk *Skeleton) (readerTable, string) {
	var rt readerTable
	if sk.File == nil || sk.Pkg == nil || len(sk.TypeErs) > 0 {
		return rt, "skeleton does not parse / type-check (see C16)"
	}
	fd := sk.FuncDecl("StateSym", "Action")
	if fd == nil {
		return rt, "no (*StateSym).Action in the skeleton"
	}
	info := sk.Info
	pe := newPathEnum(info)
	// roles by the emitted array each name is declared as (pairing is checked in C02.b)
	roleOf := map[string]string{"StatePackAction": "ACT", "StatePackOffset": "OFF", "StackPackCheck": "CHK", "StackPackActDef": "ACTDEF", "StackPackGotoDef": "GOTODEF", "NTERMINALS": "NT"}
	for name, role := range roleOf {
		if o := sk.Pkg.Scope().Lookup(name); o != nil {
			pe.rename[o] = role
		} else {
			return rt, "packed skeleton does not declare " + name
		}
	}
	ps := paramObjs(info, fd)
	if len(ps) != 1 {
		return rt, "Action does not take exactly one parameter"
	}
	pe.rename[ps[0]] = "COL"
	paths, err := pe.Enumerate(fd.Body.List)
	if err != nil {
		return rt, err.Error()
	}
	// ROW is receiver.Yystate; NTERMINALS is a constant: print it as NT
	fix := func(t *Term) *Term { return rewriteTerm(t, info, sk) }
	for _, p := range paths {
		for i := range p.Conds {
			p.Conds[i].Atom = fix(p.Conds[i].Atom)
		}
		for i := range p.Vals {
			p.Vals[i] = fix(p.Vals[i])
		}
	}
	rt = readerTable{name: "skeleton " + sk.V.Name + "/(*StateSym).Action", pos: sk.pos(fd.Pos()), paths: paths, result: func(p *PathOut) *Term {
		if p.Kind == "return" && len(p.Vals) == 1 {
			return p.Vals[0]
		}
		return nil
	}}
	return rt, ""
}

// rewriteTerm maps `<recv>.Yystate` to ROW, the NTERMINALS constant to NT and ERROR_ACTION to ERROR.
func rewriteTerm(t *Term, info *types.Info, sk *Skeleton) *Term {
	if t == nil {
		return nil
	}
	if t.Op == "field" && t.Name == "Yystate" {
		return &Term{Op: "leaf", Name: "ROW"}
	}
	if t.Op == "const" && t.Node != nil {
		if id, ok := t.Node.(*ast.Ident); ok {
			switch id.Name {
			case "NTERMINALS":
				return &Term{Op: "leaf", Name: "NT"}
			case "ERROR_ACTION":
				return &Term{Op: "leaf", Name: "ERROR"}
			}
		}
	}
	n := *t
	n.Args = nil
	for _, a := range t.Args {
		n.Args = append(n.Args, rewriteTerm(a, info, sk))
	}
	return &n
}

var _ = token.ADD
var _ = fmt.Sprintf

func constantInt(v int64) constant.Value { return constant.MakeInt64(v) }
