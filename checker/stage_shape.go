package main

// stage_shape.go — static string-shape extraction for the code-fragment builders (DESIGN.md §2.2).
// The builders assemble the generated parser's text with a handful of idioms (string literals, `+=`,
// fmt.Sprintf with literal formats, for/range loops, if, one level of helper calls, ReplaceAll /
// ReplaceAllStringFunc). The evaluator walks their ASTs and produces, for every string-typed builder
// field, a regular tree  Lit | Hole(provenance) | Cat | Loop | Alt | Repl  that over-approximates the
// strings the builder can produce. Nothing of yaccgo is executed. A construct outside the recognised
// subset is recorded in errs and makes every obligation standing on the shape "undecided".

import (
	"fmt"
	"go/ast"
	"go/constant"
	"go/token"
	"go/types"
	"regexp"
	"strings"
	"unicode/utf8"
)

type Shape interface{ shape() }

type SLit struct{ S string }
type SHole struct {
	Verb string
	Expr ast.Expr
	Path string // canonical provenance
	Typ  types.Type
	Fn   string
	Pos  token.Pos
	Itoa bool // the expression is strconv.Itoa(x) / fmt.Sprint(x) with x an integer
}
type SCat struct{ Parts []Shape }
type SLoop struct {
	Body   Shape
	Stmt   ast.Stmt
	Fn     string
	Var    string // path name of the counter / element variable(s)
	Lo     int64  // first counter value for counted loops (−1: range loop)
	Over   string // canonical path of the ranged expression or of the loop bound
	KeyVar string // for range loops: name of the key variable ("" if unused)
}
type SAlt struct {
	Cond     ast.Expr
	CondPath string
	CondNNF  []string // conjuncts of the condition, negation pushed inward, positive-form atoms
	Then     Shape
	Else     Shape
	Pred     *textPred // set when the condition is a recognised predicate of a string whose shape is known
}

// textPred: a condition of the form [!] pattern.MatchString(s) | strings.Contains/HasPrefix/HasSuffix(s, const) |
// s == const | s != const | len(s) ⋈ 0. When the subject's text is known at render time (a placeholder for user
// text), the renderer evaluates the predicate and takes the arm the generator would take for that text.
type textPred struct {
	Neg     bool
	Kind    string // regex contains hasprefix hassuffix equals nonempty
	Arg     string
	Subject Shape
}

func (p *textPred) eval(subject string) (bool, error) {
	v := false
	switch p.Kind {
	case "regex":
		re, err := regexp.Compile(p.Arg)
		if err != nil {
			return false, err
		}
		v = re.MatchString(subject)
	case "contains":
		v = strings.Contains(subject, p.Arg)
	case "hasprefix":
		v = strings.HasPrefix(subject, p.Arg)
	case "hassuffix":
		v = strings.HasSuffix(subject, p.Arg)
	case "equals":
		v = subject == p.Arg
	case "nonempty":
		v = len(subject) > 0
	default:
		return false, fmt.Errorf("unknown predicate kind %q", p.Kind)
	}
	return v != p.Neg, nil
}

// userTextPath: provenance of text the grammar author wrote (an arbitrary string as far as the generator knows).
func userTextPath(p string) bool {
	return strings.Contains(p, ".ActionCode") || strings.Contains(p, ".GetCode()") || strings.Contains(p, ".GetCodeCopy()") || strings.Contains(p, ".GetUion()")
}

func shapeHasUserText(s Shape) bool {
	hit := false
	walkShape(s, func(x Shape) {
		if h, ok := x.(*SHole); ok && userTextPath(h.Path) {
			hit = true
		}
	})
	return hit
}

// regexPatternOf: the constant pattern of a *regexp.Regexp expression — a local with the single definition
// regexp.MustCompile(const) or a package-level variable so initialised and never assigned again.
func (se *ShapeEval) regexPatternOf(fr *shapeFrame, e ast.Expr) string {
	info := fr.info
	o := identObj(info, e)
	if o == nil {
		return ""
	}
	if d, ok := fr.pc.defs.single[o]; ok {
		if dc, ok := unparen(d).(*ast.CallExpr); ok && len(dc.Args) == 1 {
			if f := callee(info, dc); f != nil && f.FullName() == "regexp.MustCompile" {
				pat, _ := constString(info, dc.Args[0])
				return pat
			}
		}
	}
	if v, ok := o.(*types.Var); ok && v.Pkg() != nil && v.Parent() == v.Pkg().Scope() {
		if init, assigned := pkgVarInit(se.c, v); init != nil && !assigned {
			if dc, ok := unparen(init).(*ast.CallExpr); ok && len(dc.Args) == 1 {
				pinfo := se.c.Pkgs[v.Pkg().Path()].TypesInfo
				if f := callee(pinfo, dc); f != nil && f.FullName() == "regexp.MustCompile" {
					pat, _ := constString(pinfo, dc.Args[0])
					return pat
				}
			}
		}
	}
	return ""
}

func (se *ShapeEval) textPredOf(fr *shapeFrame, cond ast.Expr) *textPred {
	info := fr.info
	neg := false
	e := unparen(cond)
	for {
		u, ok := e.(*ast.UnaryExpr)
		if !ok || u.Op != token.NOT {
			break
		}
		neg = !neg
		e = unparen(u.X)
	}
	switch x := e.(type) {
	case *ast.CallExpr:
		f := callee(info, x)
		if f == nil {
			return nil
		}
		switch f.FullName() {
		case "(*regexp.Regexp).MatchString":
			sel, ok := unparen(x.Fun).(*ast.SelectorExpr)
			if !ok || len(x.Args) != 1 {
				return nil
			}
			if pat := se.regexPatternOf(fr, sel.X); pat != "" {
				return &textPred{Neg: neg, Kind: "regex", Arg: pat, Subject: se.expr(fr, x.Args[0])}
			}
		case "strings.Contains", "strings.HasPrefix", "strings.HasSuffix":
			if len(x.Args) == 2 {
				if arg, ok := constString(info, x.Args[1]); ok {
					kind := strings.ToLower(strings.TrimPrefix(f.FullName(), "strings."))
					return &textPred{Neg: neg, Kind: kind, Arg: arg, Subject: se.expr(fr, x.Args[0])}
				}
			}
		}
	case *ast.BinaryExpr:
		if x.Op == token.EQL || x.Op == token.NEQ {
			for _, pr := range [][2]ast.Expr{{x.X, x.Y}, {x.Y, x.X}} {
				if arg, ok := constString(info, pr[1]); ok && isStringType(info.TypeOf(pr[0])) {
					return &textPred{Neg: neg != (x.Op == token.NEQ), Kind: "equals", Arg: arg, Subject: se.expr(fr, pr[0])}
				}
			}
		}
		// len(s) ⋈ 0
		if call, ok := unparen(x.X).(*ast.CallExpr); ok && builtinName(info, call) == "len" && len(call.Args) == 1 && isStringType(info.TypeOf(call.Args[0])) {
			if v, isC := constInt(info, x.Y); isC && v == 0 {
				switch x.Op {
				case token.GTR, token.NEQ:
					return &textPred{Neg: neg, Kind: "nonempty", Subject: se.expr(fr, call.Args[0])}
				case token.EQL, token.LEQ:
					return &textPred{Neg: !neg, Kind: "nonempty", Subject: se.expr(fr, call.Args[0])}
				}
			}
		}
	}
	return nil
}

type SRepl struct {
	Base    Shape
	Old     string
	IsRegex bool
	New     Shape
	Param   string // for regex function replacements: path name of the match parameter
	Pos     token.Pos
}
type SQuote struct{ Inner Shape } // %q of a string: a Go-syntax quoted literal of the inner text
type sVar struct{ id int }        // value of a variable at loop/branch entry (internal marker)

func (*SLit) shape()   {}
func (*SHole) shape()  {}
func (*SCat) shape()   {}
func (*SLoop) shape()  {}
func (*SAlt) shape()   {}
func (*SRepl) shape()  {}
func (*SQuote) shape() {}
func (*sVar) shape()   {}

func cat(parts ...Shape) Shape {
	var out []Shape
	for _, p := range parts {
		if p == nil {
			continue
		}
		if c, ok := p.(*SCat); ok {
			out = append(out, c.Parts...)
			continue
		}
		if l, ok := p.(*SLit); ok && l.S == "" {
			continue
		}
		out = append(out, p)
	}
	// merge adjacent literals
	var merged []Shape
	for _, p := range out {
		if l, ok := p.(*SLit); ok && len(merged) > 0 {
			if pl, ok := merged[len(merged)-1].(*SLit); ok {
				merged[len(merged)-1] = &SLit{pl.S + l.S}
				continue
			}
		}
		merged = append(merged, p)
	}
	if len(merged) == 1 {
		return merged[0]
	}
	return &SCat{merged}
}

func partsOf(s Shape) []Shape {
	if s == nil {
		return nil
	}
	if c, ok := s.(*SCat); ok {
		return c.Parts
	}
	if l, ok := s.(*SLit); ok && l.S == "" {
		return nil
	}
	return []Shape{s}
}

// shapeString prints a shape for reports.
func shapeString(s Shape) string {
	switch x := s.(type) {
	case nil:
		return ""
	case *SLit:
		return fmt.Sprintf("%q", x.S)
	case *SHole:
		return "‹%" + x.Verb + "←" + x.Path + "›"
	case *SCat:
		var a []string
		for _, p := range x.Parts {
			a = append(a, shapeString(p))
		}
		return strings.Join(a, " ")
	case *SLoop:
		return "(" + shapeString(x.Body) + ")*[" + x.Var + " over " + x.Over + "]"
	case *SAlt:
		return "(" + x.CondPath + " ? " + shapeString(x.Then) + " : " + shapeString(x.Else) + ")"
	case *SQuote:
		return "quote(" + shapeString(x.Inner) + ")"
	case *SRepl:
		return "repl(" + shapeString(x.Base) + ", " + fmt.Sprintf("%q", x.Old) + " → " + shapeString(x.New) + ")"
	case *sVar:
		return fmt.Sprintf("<entry%d>", x.id)
	}
	return "?"
}

// walkShape visits every node.
func walkShape(s Shape, f func(Shape)) {
	if s == nil {
		return
	}
	f(s)
	switch x := s.(type) {
	case *SCat:
		for _, p := range x.Parts {
			walkShape(p, f)
		}
	case *SLoop:
		walkShape(x.Body, f)
	case *SAlt:
		walkShape(x.Then, f)
		walkShape(x.Else, f)
	case *SRepl:
		walkShape(x.Base, f)
		walkShape(x.New, f)
	case *SQuote:
		walkShape(x.Inner, f)
	}
}

// ---------------------------------------------------------------------------------------------

type shapeFrame struct {
	inLoop int
	fn     *FuncRef
	info   *types.Info
	pc     *pathCtx
	env    map[types.Object]Shape
	ret    Shape
	hasRet bool
}

type ShapeEval struct {
	c        *Ctx
	config   map[string]bool       // path → value for mode conditions
	fields   map[*types.Var]Shape  // string builder fields
	fieldsP  map[*types.Var]string // non-string builder fields: provenance path
	fieldPos map[*types.Var]token.Pos
	errs     []string
	nextVar  int
	depth    int
	writes   []*types.Var // TS: order of f.WriteString(b.Field)
	calls    []string     // builder methods evaluated, in order
	counters int          // counted loops being evaluated (for the canonical counter name)
}

// counterName: the canonical name of the counter of a counted loop — `$i` for an outermost one, `$i1`, `$i2` … inside
// another counted loop — whatever the source calls it: provenance strings must not change under a renaming.
func (se *ShapeEval) counterName() string {
	if se.counters == 0 {
		return "$i"
	}
	return fmt.Sprintf("$i%d", se.counters)
}

func newShapeEval(c *Ctx, config map[string]bool) *ShapeEval {
	return &ShapeEval{c: c, config: config, fields: map[*types.Var]Shape{}, fieldsP: map[*types.Var]string{}, fieldPos: map[*types.Var]token.Pos{}}
}

func (se *ShapeEval) errf(pos token.Pos, format string, a ...interface{}) {
	se.errs = append(se.errs, se.c.pos(pos)+": "+fmt.Sprintf(format, a...))
}

func isStringType(t types.Type) bool {
	if t == nil {
		return false
	}
	b, ok := t.Underlying().(*types.Basic)
	return ok && b.Info()&types.IsString != 0
}

func (se *ShapeEval) newFrame(fn *FuncRef) *shapeFrame {
	info := fn.Pkg.TypesInfo
	defs := newDefs(info)
	defs.scan(fn.Decl.Body)
	// `x, _ := f(...)`: treat x as a single definition of the call
	ast.Inspect(fn.Decl.Body, func(n ast.Node) bool {
		if as, ok := n.(*ast.AssignStmt); ok && len(as.Lhs) == 2 && len(as.Rhs) == 1 && as.Tok == token.DEFINE {
			if id, ok := as.Lhs[1].(*ast.Ident); ok && id.Name == "_" {
				if o := identObj(info, as.Lhs[0]); o != nil {
					defs.single[o] = as.Rhs[0]
					defs.count[o] = 1
				}
			}
		}
		return true
	})
	fr := &shapeFrame{fn: fn, info: info, env: map[types.Object]Shape{}}
	fr.pc = &pathCtx{info: info, defs: defs, root: fn.Decl.Body, subst: map[types.Object]string{}}
	if fn.Decl.Recv != nil && len(fn.Decl.Recv.List) == 1 && len(fn.Decl.Recv.List[0].Names) == 1 {
		if o := info.Defs[fn.Decl.Recv.List[0].Names[0]]; o != nil {
			fr.pc.subst[o] = "recv"
		}
	}
	return fr
}

// EvalEntry evaluates a generator entry point (TemplateGenFromString / TsGenFromString): the builder
// methods it calls on its local builder, in order.
func (se *ShapeEval) EvalEntry(entry *FuncRef) {
	se.evalEntryList(entry, entry.Decl.Body.List)
}

// evalEntryList walks the entry point's statements in order; the arms of error checks (`if err != nil { return … }
// else { … }`, also produced by helper inlining) are walked too.
func (se *ShapeEval) evalEntryList(entry *FuncRef, list []ast.Stmt) {
	info := entry.Pkg.TypesInfo
	for _, s := range list {
		switch x := s.(type) {
		case *ast.BlockStmt:
			se.evalEntryList(entry, x.List)
			continue
		case *ast.IfStmt:
			se.evalEntryList(entry, x.Body.List)
			if x.Else != nil {
				se.evalEntryList(entry, []ast.Stmt{x.Else})
			}
			continue
		}
		// `for _, part := range []string{b.A, b.B, …} { f.WriteString(part) }`: the writes of the listed fields, in order
		if rs, ok := s.(*ast.RangeStmt); ok && rs.Value != nil && len(rs.Body.List) == 1 {
			listExpr := unparen(rs.X)
			if o := identObj(info, listExpr); o != nil {
				// the list of parts held in a local defined once
				defs := newDefs(info)
				defs.scan(entry.Decl.Body)
				if defs.count[o] == 1 && defs.single[o] != nil {
					listExpr = unparen(defs.single[o])
				}
			}
			if lit, ok := listExpr.(*ast.CompositeLit); ok {
				if es, ok := rs.Body.List[0].(*ast.ExprStmt); ok {
					if call, ok := es.X.(*ast.CallExpr); ok && len(call.Args) == 1 && identObj(info, call.Args[0]) == identObj(info, rs.Value) {
						if f := callee(info, call); f != nil && f.FullName() == "(*os.File).WriteString" {
							for _, el := range lit.Elts {
								if fv := fieldVar(info, el); fv != nil {
									se.writes = append(se.writes, fv)
								} else {
									se.errf(el.Pos(), "WriteString of something that is not a builder field")
								}
							}
						}
					}
				}
			}
			continue
		}
		// `b.Field = b.buildX()`: a build step that hands its text back instead of storing it
		if as, ok := s.(*ast.AssignStmt); ok && as.Tok == token.ASSIGN && len(as.Lhs) == 1 && len(as.Rhs) == 1 {
			if call, ok := unparen(as.Rhs[0]).(*ast.CallExpr); ok {
				if f := callee(info, call); f != nil && strings.HasPrefix(f.Name(), "build") && len(call.Args) == 0 {
					if ref := se.c.FuncOf(f); ref != nil && ref.Decl.Recv != nil {
						if fv := fieldVar(info, as.Lhs[0]); fv != nil && isStringType(fv.Type()) {
							se.calls = append(se.calls, ref.Name)
							fr := se.newFrame(ref)
							se.stmts(fr, ref.Decl.Body.List)
							if fr.hasRet && fr.ret != nil {
								se.fields[fv] = fr.ret
								se.fieldPos[fv] = as.Pos()
							} else {
								se.errf(as.Pos(), "build step %s returns nothing the extractor can follow", f.Name())
							}
							continue
						}
					}
				}
			}
		}
		es, ok := s.(*ast.ExprStmt)
		if !ok {
			continue
		}
		call, ok := es.X.(*ast.CallExpr)
		if !ok {
			continue
		}
		f := callee(info, call)
		if f == nil {
			continue
		}
		if f.FullName() == "(*os.File).WriteString" && len(call.Args) == 1 {
			if fv := fieldVar(info, call.Args[0]); fv != nil {
				se.writes = append(se.writes, fv)
			} else {
				se.errf(call.Pos(), "WriteString of something that is not a builder field")
			}
			continue
		}
		ref := se.c.FuncOf(f)
		if ref == nil || ref.Decl.Recv == nil {
			continue
		}
		if plainWriterHelper(se.c, f) {
			// a method of the builder that only writes builder fields to the file it is handed: its writes, in order
			hinfo := ref.Pkg.TypesInfo
			for _, hs := range ref.Decl.Body.List {
				hc := hs.(*ast.ExprStmt).X.(*ast.CallExpr)
				if hf := callee(hinfo, hc); hf != nil && hf.FullName() == "(*os.File).WriteString" && len(hc.Args) == 1 {
					if fv := fieldVar(hinfo, hc.Args[0]); fv != nil {
						se.writes = append(se.writes, fv)
					} else {
						se.errf(hc.Pos(), "WriteString of something that is not a builder field")
					}
				}
			}
			continue
		}
		if strings.HasPrefix(f.Name(), "build") {
			se.calls = append(se.calls, ref.Name)
			fr := se.newFrame(ref)
			se.stmts(fr, ref.Decl.Body.List)
		}
	}
}

type envSnap struct {
	env    map[types.Object]Shape
	fields map[*types.Var]Shape
}

func (se *ShapeEval) snap(fr *shapeFrame) envSnap {
	s := envSnap{env: map[types.Object]Shape{}, fields: map[*types.Var]Shape{}}
	for k, v := range fr.env {
		s.env[k] = v
	}
	for k, v := range se.fields {
		s.fields[k] = v
	}
	return s
}

func (se *ShapeEval) restore(fr *shapeFrame, s envSnap) {
	fr.env = map[types.Object]Shape{}
	for k, v := range s.env {
		fr.env[k] = v
	}
	se.fields = map[*types.Var]Shape{}
	for k, v := range s.fields {
		se.fields[k] = v
	}
}

func (se *ShapeEval) stmts(fr *shapeFrame, list []ast.Stmt) {
	for i, s := range list {
		if fr.hasRet {
			return
		}
		// `if c { …; return X }` followed by the rest of a function body is `if c { …; return X } else { rest }`
		if is, ok := s.(*ast.IfStmt); ok && is.Else == nil && fr.inLoop == 0 && i+1 < len(list) && len(is.Body.List) > 0 {
			if _, isRet := is.Body.List[len(is.Body.List)-1].(*ast.ReturnStmt); isRet {
				if _, known := se.configValue(fr, is.Cond); !known {
					whole := &ast.IfStmt{If: is.If, Init: is.Init, Cond: is.Cond, Body: is.Body, Else: &ast.BlockStmt{Lbrace: list[i+1].Pos(), List: list[i+1:], Rbrace: list[len(list)-1].End()}}
					se.stmt(fr, whole)
					return
				}
			}
		}
		// `if c { continue }` followed by the rest of a loop body is `if !c { rest }`
		if is, ok := s.(*ast.IfStmt); ok && is.Else == nil && is.Init == nil && len(is.Body.List) == 1 && fr.inLoop > 0 {
			if br, ok := is.Body.List[0].(*ast.BranchStmt); ok && br.Tok == token.CONTINUE && br.Label == nil {
				rest := &ast.IfStmt{If: is.If, Cond: &ast.UnaryExpr{OpPos: is.Cond.Pos(), Op: token.NOT, X: &ast.ParenExpr{X: is.Cond}}, Body: &ast.BlockStmt{List: list[i+1:]}}
				se.stmt(fr, rest)
				return
			}
		}
		se.stmt(fr, s)
	}
}

func (se *ShapeEval) configValue(fr *shapeFrame, cond ast.Expr) (bool, bool) {
	cond = unparen(cond)
	if u, ok := cond.(*ast.UnaryExpr); ok && u.Op == token.NOT {
		v, ok := se.configValue(fr, u.X)
		return !v, ok
	}
	if be, ok := cond.(*ast.BinaryExpr); ok && (be.Op == token.LAND || be.Op == token.LOR) {
		a, ok1 := se.configValue(fr, be.X)
		b, ok2 := se.configValue(fr, be.Y)
		if ok1 && ok2 {
			if be.Op == token.LAND {
				return a && b, true
			}
			return a || b, true
		}
		return false, false
	}
	p := fr.pc.path(cond)
	v, ok := se.config[p]
	return v, ok
}

func (se *ShapeEval) stmt(fr *shapeFrame, s ast.Stmt) {
	info := fr.info
	switch x := s.(type) {
	case *ast.BlockStmt:
		se.stmts(fr, x.List)
	case *ast.DeclStmt:
		if gd, ok := x.Decl.(*ast.GenDecl); ok {
			for _, sp := range gd.Specs {
				vs, ok := sp.(*ast.ValueSpec)
				if !ok {
					continue
				}
				for i, name := range vs.Names {
					o := info.Defs[name]
					if o != nil && isStringsBuilder(o.Type()) && i >= len(vs.Values) {
						fr.env[o] = &SLit{""} // var sb strings.Builder: an accumulating string
						continue
					}
					if o == nil || !isStringType(o.Type()) {
						continue
					}
					if i < len(vs.Values) {
						fr.env[o] = se.expr(fr, vs.Values[i])
					} else {
						fr.env[o] = &SLit{""}
					}
				}
			}
		}
	case *ast.AssignStmt:
		if len(x.Lhs) != len(x.Rhs) {
			for _, l := range x.Lhs {
				if o := identObj(info, l); o != nil && isStringType(o.Type()) {
					se.errf(x.Pos(), "string variable %s assigned from a multi-value expression", o.Name())
				}
			}
			return
		}
		for i, l := range x.Lhs {
			l = unparen(l)
			if id, ok := l.(*ast.Ident); ok && id.Name == "_" {
				continue
			}
			tv := info.Types[x.Rhs[i]]
			lt := info.TypeOf(l)
			if fv := fieldVar(info, l); fv != nil && se.isBuilderField(fr, l) {
				se.fieldPos[fv] = x.Pos()
				if isStringType(lt) {
					v := se.expr(fr, x.Rhs[i])
					switch x.Tok {
					case token.ASSIGN:
						se.fields[fv] = v
					case token.ADD_ASSIGN:
						se.fields[fv] = cat(se.fields[fv], v)
					default:
						se.errf(x.Pos(), "unsupported assignment operator on builder field %s", fv.Name())
					}
				} else {
					se.fieldsP[fv] = fr.pc.path(x.Rhs[i])
				}
				continue
			}
			o := identObj(info, l)
			if o == nil {
				if isStringType(lt) {
					se.errf(x.Pos(), "string stored to an unsupported target %s", exprString(l))
				}
				continue
			}
			if isStringsBuilder(o.Type()) && x.Tok == token.DEFINE {
				fr.env[o] = &SLit{""}
				continue
			}
			if !isStringType(o.Type()) {
				_ = tv
				continue
			}
			v := se.expr(fr, x.Rhs[i])
			switch x.Tok {
			case token.DEFINE, token.ASSIGN:
				fr.env[o] = v
			case token.ADD_ASSIGN:
				fr.env[o] = cat(fr.env[o], v)
			default:
				se.errf(x.Pos(), "unsupported assignment operator on string variable %s", o.Name())
			}
		}
	case *ast.IfStmt:
		if x.Init != nil {
			se.stmt(fr, x.Init)
		}
		if v, ok := se.configValue(fr, x.Cond); ok {
			if v {
				se.stmts(fr, x.Body.List)
			} else if x.Else != nil {
				se.stmt(fr, x.Else)
			}
			return
		}
		before := se.snap(fr)
		retBefore := fr.ret
		se.stmts(fr, x.Body.List)
		thenRet := fr.hasRet
		retThen := fr.ret
		thenSnap := se.snap(fr)
		se.restore(fr, before)
		fr.hasRet = false
		fr.ret = retBefore
		if x.Else != nil {
			se.stmt(fr, x.Else)
		}
		elseRet := fr.hasRet
		retElse := fr.ret
		elseSnap := se.snap(fr)
		if thenRet && elseRet && (retThen != nil || retElse != nil) {
			// both arms return a string: the function's value is the alternative of the two
			fr.ret = se.mergeAlt(fr, x.Cond, retThen, retElse)
		}
		if thenRet || elseRet {
			// early returns inside conditionals are outside the recognised subset unless no string state differs
			if thenRet != elseRet {
				se.errf(x.Pos(), "conditional return in a fragment builder")
			}
		}
		fr.hasRet = thenRet && elseRet
		// merge
		merged := envSnap{env: map[types.Object]Shape{}, fields: map[*types.Var]Shape{}}
		for k := range unionKeysObj(thenSnap.env, elseSnap.env) {
			merged.env[k] = se.mergeAlt(fr, x.Cond, thenSnap.env[k], elseSnap.env[k])
		}
		for k := range unionKeysVar(thenSnap.fields, elseSnap.fields) {
			merged.fields[k] = se.mergeAlt(fr, x.Cond, thenSnap.fields[k], elseSnap.fields[k])
		}
		se.restore(fr, merged)
	case *ast.ForStmt, *ast.RangeStmt:
		se.loop(fr, s)
	case *ast.ReturnStmt:
		if len(x.Results) == 1 && isStringType(info.TypeOf(x.Results[0])) {
			fr.ret = se.expr(fr, x.Results[0])
		}
		fr.hasRet = true
	case *ast.ExprStmt:
		// calls without string results do not change tracked state, except builder sub-calls
		if call, ok := x.X.(*ast.CallExpr); ok {
			if se.builderWrite(fr, call) {
				return
			}
			if f := callee(info, call); f != nil {
				if ref := se.c.FuncOf(f); ref != nil && ref.Decl.Recv != nil && strings.HasPrefix(f.Name(), "build") {
					sub := se.newFrame(ref)
					se.stmts(sub, ref.Decl.Body.List)
				}
			}
		}
	case *ast.DeferStmt, *ast.EmptyStmt, *ast.IncDecStmt:
	case *ast.SwitchStmt, *ast.TypeSwitchStmt, *ast.SelectStmt, *ast.LabeledStmt, *ast.BranchStmt, *ast.GoStmt:
		if assignsString(info, s) || true {
			se.errf(s.Pos(), "statement %T is outside the recognised builder subset", s)
		}
	default:
		se.errf(s.Pos(), "statement %T is outside the recognised builder subset", s)
	}
}

func assignsString(info *types.Info, n ast.Node) bool {
	found := false
	ast.Inspect(n, func(m ast.Node) bool {
		if as, ok := m.(*ast.AssignStmt); ok {
			for _, l := range as.Lhs {
				if isStringType(info.TypeOf(l)) {
					found = true
				}
			}
		}
		return true
	})
	return found
}

func unionKeysObj(a, b map[types.Object]Shape) map[types.Object]bool {
	m := map[types.Object]bool{}
	for k := range a {
		m[k] = true
	}
	for k := range b {
		m[k] = true
	}
	return m
}
func unionKeysVar(a, b map[*types.Var]Shape) map[*types.Var]bool {
	m := map[*types.Var]bool{}
	for k := range a {
		m[k] = true
	}
	for k := range b {
		m[k] = true
	}
	return m
}

func sameShape(a, b Shape) bool {
	if a == b {
		return true
	}
	la, ok1 := a.(*SLit)
	lb, ok2 := b.(*SLit)
	if ok1 && ok2 {
		return la.S == lb.S
	}
	ca, ok1 := a.(*SCat)
	cb, ok2 := b.(*SCat)
	if ok1 && ok2 && len(ca.Parts) == len(cb.Parts) {
		for i := range ca.Parts {
			if !sameShape(ca.Parts[i], cb.Parts[i]) {
				return false
			}
		}
		return true
	}
	return false
}

func (se *ShapeEval) mergeAlt(fr *shapeFrame, cond ast.Expr, a, b Shape) Shape {
	if sameShape(a, b) {
		return a
	}
	// normalise (adjacent literals merged), then factor the common prefix: whole parts first, then the common
	// characters of the first differing pair of literals — only the text that really differs goes into the arms
	pa, pb := partsOf(cat(partsOf(a)...)), partsOf(cat(partsOf(b)...))
	n := 0
	for n < len(pa) && n < len(pb) && sameShape(pa[n], pb[n]) {
		n++
	}
	common := append([]Shape{}, pa[:n]...)
	pa, pb = append([]Shape{}, pa[n:]...), append([]Shape{}, pb[n:]...)
	n = 0
	if len(pa) > 0 && len(pb) > 0 {
		la, oka := pa[0].(*SLit)
		lb, okb := pb[0].(*SLit)
		if oka && okb {
			k := 0
			for k < len(la.S) && k < len(lb.S) && la.S[k] == lb.S[k] {
				k++
			}
			for k > 0 && ((k < len(la.S) && !utf8.RuneStart(la.S[k])) || (k < len(lb.S) && !utf8.RuneStart(lb.S[k]))) {
				k--
			}
			if k > 0 {
				common = append(common, &SLit{la.S[:k]})
				pa[0], pb[0] = &SLit{la.S[k:]}, &SLit{lb.S[k:]}
			}
		}
	}
	pa = append(common, pa...)
	pb = append(append([]Shape{}, common...), pb...)
	n = len(common)
	alt := &SAlt{Cond: cond, CondPath: fr.pc.path(cond), CondNNF: nnfAtoms(fr.pc, cond, false), Then: cat(pa[n:]...), Else: cat(pb[n:]...)}
	if pred := se.textPredOf(fr, cond); pred != nil && shapeHasUserText(pred.Subject) {
		alt.Pred = pred
	}
	if alt.Then == nil {
		alt.Then = &SLit{""}
	}
	if alt.Else == nil {
		alt.Else = &SLit{""}
	}
	return cat(append(append([]Shape{}, pa[:n]...), alt)...)
}

// isBuilderField: the selector's base is the method receiver (or a local builder variable).
func (se *ShapeEval) isBuilderField(fr *shapeFrame, l ast.Expr) bool {
	sel, ok := unparen(l).(*ast.SelectorExpr)
	if !ok {
		return false
	}
	return fr.pc.path(sel.X) == "recv"
}

func (se *ShapeEval) loop(fr *shapeFrame, s ast.Stmt) {
	info := fr.info
	var body *ast.BlockStmt
	lp := &SLoop{Stmt: s, Fn: fr.fn.Name, Lo: -1}
	counted := false
	switch l := s.(type) {
	case *ast.RangeStmt:
		body = l.Body
		// `for i, x := range S { if i == 0 { continue }; … }` over a slice is the counted loop
		// `for i := 1; i < len(S); i++ { x := S[i]; … }`: normalise to that form
		if ko, rest := skipsFirstIndex(info, l); ko != nil {
			if fr.pc.subst == nil {
				fr.pc.subst = map[types.Object]string{}
			}
			lp.Lo = 1
			lp.Var = se.counterName()
			counted = true
			lp.Over = "len(" + fr.pc.path(l.X) + ")"
			if vo := identObj(info, l.Value); vo != nil {
				fr.pc.subst[vo] = fr.pc.path(l.X) + "[" + lp.Var + "]"
			}
			fr.pc.subst[ko] = lp.Var
			body = &ast.BlockStmt{Lbrace: l.Body.Lbrace, List: rest, Rbrace: l.Body.Rbrace}
			break
		}
		lp.Over = fr.pc.path(l.X)
		if o := identObj(info, l.Value); o != nil {
			lp.Var = fr.pc.path(l.Value.(*ast.Ident))
		}
		if o := identObj(info, l.Key); o != nil && l.Key.(*ast.Ident).Name != "_" {
			lp.KeyVar = fr.pc.path(l.Key.(*ast.Ident))
		}
	case *ast.ForStmt:
		body = l.Body
		init, ok := l.Init.(*ast.AssignStmt)
		post, ok3 := l.Post.(*ast.IncDecStmt)
		if !ok || l.Cond == nil || !ok3 || len(init.Lhs) != 1 || post.Tok != token.INC {
			se.errf(s.Pos(), "for loop is not of the form `for i := c; i < bound; i++`")
			return
		}
		bound, okB := upperBound(info, l.Cond, identObj(info, init.Lhs[0]))
		if !okB {
			se.errf(s.Pos(), "for loop is not of the form `for i := c; i < bound; i++`")
			return
		}
		lo, isC := constInt(info, init.Rhs[0])
		if !isC || identObj(info, post.X) != identObj(info, init.Lhs[0]) {
			se.errf(s.Pos(), "for loop counter is not a simple ascending counter from a constant")
			return
		}
		lp.Lo = lo
		lp.Var = se.counterName()
		counted = true
		lp.Over = fr.pc.path(bound)
		if fr.pc.subst == nil {
			fr.pc.subst = map[types.Object]string{}
		}
		fr.pc.subst[identObj(info, init.Lhs[0])] = lp.Var
	}
	// builder fields first assigned inside the loop start from their zero value
	ast.Inspect(body, func(n ast.Node) bool {
		if as, ok := n.(*ast.AssignStmt); ok {
			for _, l := range as.Lhs {
				if fv := fieldVar(info, l); fv != nil && se.isBuilderField(fr, l) && isStringType(fv.Type()) {
					if _, ok := se.fields[fv]; !ok {
						se.fields[fv] = &SLit{""}
					}
				}
			}
		}
		return true
	})
	// markers
	before := se.snap(fr)
	markEnv := map[types.Object]*sVar{}
	markFld := map[*types.Var]*sVar{}
	// locals the loop body never assigns keep their value inside the loop (a format string hoisted out of it is
	// still that literal); only what the body can change is replaced by a marker
	assigned := map[types.Object]bool{}
	ast.Inspect(body, func(n ast.Node) bool {
		switch x := n.(type) {
		case *ast.AssignStmt:
			for _, l := range x.Lhs {
				if o := identObj(info, l); o != nil {
					assigned[o] = true
				}
			}
		case *ast.IncDecStmt:
			if o := identObj(info, x.X); o != nil {
				assigned[o] = true
			}
		case *ast.UnaryExpr:
			if x.Op == token.AND {
				if o := identObj(info, x.X); o != nil {
					assigned[o] = true
				}
			}
		case *ast.CallExpr:
			// a method called on a local (strings.Builder's WriteString …) may change it
			if se, ok := unparen(x.Fun).(*ast.SelectorExpr); ok {
				if o := identObj(info, se.X); o != nil {
					assigned[o] = true
				}
			}
		case *ast.RangeStmt:
			for _, e := range []ast.Expr{x.Key, x.Value} {
				if e != nil {
					if o := identObj(info, e); o != nil {
						assigned[o] = true
					}
				}
			}
		}
		return true
	})
	for k := range fr.env {
		if !assigned[k] {
			continue
		}
		se.nextVar++
		m := &sVar{se.nextVar}
		markEnv[k] = m
		fr.env[k] = m
	}
	for k := range se.fields {
		se.nextVar++
		m := &sVar{se.nextVar}
		markFld[k] = m
		se.fields[k] = m
	}
	fr.inLoop++
	if counted {
		se.counters++
	}
	se.stmts(fr, body.List)
	if counted {
		se.counters--
	}
	fr.inLoop--
	if fr.hasRet {
		se.errf(s.Pos(), "return inside a loop of a fragment builder")
	}
	after := se.snap(fr)
	se.restore(fr, before)
	delta := func(m *sVar, v Shape, name string) (Shape, bool) {
		if v == Shape(m) {
			return nil, false
		}
		ps := partsOf(v)
		if len(ps) == 0 || ps[0] != Shape(m) {
			se.errf(s.Pos(), "%s is overwritten (not appended to) inside a loop", name)
			return nil, false
		}
		return cat(ps[1:]...), true
	}
	// markers of variables the loop does not modify stand for their (loop-invariant) value
	sub := map[*sVar]Shape{}
	changedMark := map[*sVar]string{}
	for k, m := range markEnv {
		if after.env[k] == Shape(m) {
			sub[m] = before.env[k]
		} else {
			changedMark[m] = k.Name()
		}
	}
	for k, m := range markFld {
		if after.fields[k] == Shape(m) {
			sub[m] = before.fields[k]
		} else {
			changedMark[m] = k.Name()
		}
	}
	fix := func(d Shape) Shape {
		d = substMarkers(d, sub)
		walkShape(d, func(x Shape) {
			if m, ok := x.(*sVar); ok {
				if n, ok := changedMark[m]; ok {
					se.errf(s.Pos(), "%s is read inside the loop that appends to it", n)
				}
			}
		})
		return d
	}
	for k, m := range markEnv {
		if d, changed := delta(m, after.env[k], k.Name()); changed {
			l2 := *lp
			l2.Body = fix(d)
			fr.env[k] = cat(before.env[k], &l2)
		}
	}
	for k, m := range markFld {
		if d, changed := delta(m, after.fields[k], k.Name()); changed {
			l2 := *lp
			l2.Body = fix(d)
			se.fields[k] = cat(before.fields[k], &l2)
		}
	}
	// string fields first assigned inside a loop
	for k, v := range after.fields {
		if _, had := markFld[k]; !had {
			se.errf(s.Pos(), "builder field %s is first assigned inside a loop", k.Name())
			_ = v
		}
	}
}

func (se *ShapeEval) expr(fr *shapeFrame, e ast.Expr) Shape {
	info := fr.info
	e = unparen(e)
	if s, ok := constString(info, e); ok {
		return &SLit{s}
	}
	switch x := e.(type) {
	case *ast.Ident:
		o := objOf(info, x)
		if v, ok := fr.env[o]; ok {
			return v
		}
		if vv, ok := o.(*types.Var); ok && vv.Pkg() != nil && vv.Parent() == vv.Pkg().Scope() {
			// package-level string variable with a constant initialiser
			if s, ok := pkgVarString(se.c, vv); ok {
				return &SLit{s}
			}
		}
		return se.hole(fr, "s", e)
	case *ast.BinaryExpr:
		if x.Op == token.ADD {
			return cat(se.expr(fr, x.X), se.expr(fr, x.Y))
		}
	case *ast.SelectorExpr:
		if fv := fieldVar(info, e); fv != nil && se.isBuilderField(fr, e) {
			if v, ok := se.fields[fv]; ok {
				return v
			}
			if isStringType(fv.Type()) {
				// a string field of the freshly made builder that no step has assigned yet: its zero value
				// (the same reading `b.F += x` gives it)
				return &SLit{""}
			}
		}
		if lit, ok := se.tableField(fr, x); ok {
			return &SLit{lit}
		}
		return se.hole(fr, "s", e)
	case *ast.CallExpr:
		f := callee(info, x)
		name := ""
		if f != nil {
			name = f.FullName()
		}
		switch name {
		case "(*strings.Builder).String":
			if sel, ok := unparen(x.Fun).(*ast.SelectorExpr); ok {
				if o := builderObj(info, sel.X); o != nil {
					if v, ok := fr.env[o]; ok {
						return v
					}
				}
			}
		case "fmt.Sprintf":
			if len(x.Args) == 0 {
				break
			}
			return se.sprintf(fr, x)
		case "fmt.Sprint":
			var parts []Shape
			for _, a := range x.Args {
				if isStringType(info.TypeOf(a)) {
					parts = append(parts, se.expr(fr, a))
				} else {
					parts = append(parts, se.hole(fr, "v", a))
				}
			}
			return cat(parts...)
		case "strings.ReplaceAll":
			if len(x.Args) == 3 {
				if old, ok := constString(info, x.Args[1]); ok {
					return &SRepl{Base: se.expr(fr, x.Args[0]), Old: old, New: se.expr(fr, x.Args[2]), Pos: x.Pos()}
				}
			}
			se.errf(x.Pos(), "strings.ReplaceAll with a non-constant pattern")
			return se.hole(fr, "s", e)
		case "(*regexp.Regexp).ReplaceAllStringFunc":
			return se.regexRepl(fr, x)
		}
		// repo helper returning a string: inline when it belongs to the Builder package
		if f != nil {
			if ref := se.c.FuncOf(f); ref != nil && strings.HasPrefix(ref.Name, "Builder.") && se.depth < 3 {
				return se.inline(fr, ref, x)
			}
		}
		return se.hole(fr, "s", e)
	}
	return se.hole(fr, "s", e)
}

// pkgVarInit returns the initialiser of a package-level variable and whether any function of its package assigns it
// (or takes its address) afterwards.
func pkgVarInit(c *Ctx, v *types.Var) (ast.Expr, bool) {
	p := c.Pkgs[v.Pkg().Path()]
	if p == nil {
		return nil, true
	}
	var init ast.Expr
	assigned := false
	for _, f := range p.Syntax {
		for _, d := range f.Decls {
			switch x := d.(type) {
			case *ast.GenDecl:
				for _, sp := range x.Specs {
					if vs, ok := sp.(*ast.ValueSpec); ok {
						for i, n := range vs.Names {
							if p.TypesInfo.Defs[n] == v && i < len(vs.Values) {
								init = vs.Values[i]
							}
						}
					}
				}
			case *ast.FuncDecl:
				if x.Body == nil {
					continue
				}
				ast.Inspect(x.Body, func(n ast.Node) bool {
					switch y := n.(type) {
					case *ast.AssignStmt:
						for _, l := range y.Lhs {
							if identObj(p.TypesInfo, l) == types.Object(v) {
								assigned = true
							}
						}
					case *ast.UnaryExpr:
						if y.Op == token.AND && identObj(p.TypesInfo, y.X) == types.Object(v) {
							assigned = true
						}
					}
					return true
				})
			}
		}
	}
	return init, assigned
}

func pkgVarString(c *Ctx, v *types.Var) (string, bool) {
	p := c.Pkgs[v.Pkg().Path()]
	if p == nil {
		return "", false
	}
	for _, f := range p.Syntax {
		for _, d := range f.Decls {
			gd, ok := d.(*ast.GenDecl)
			if !ok {
				continue
			}
			for _, sp := range gd.Specs {
				vs, ok := sp.(*ast.ValueSpec)
				if !ok {
					continue
				}
				for i, n := range vs.Names {
					if p.TypesInfo.Defs[n] == v && i < len(vs.Values) {
						return constString(p.TypesInfo, vs.Values[i])
					}
				}
			}
		}
	}
	return "", false
}

func (se *ShapeEval) hole(fr *shapeFrame, verb string, e ast.Expr) Shape {
	h := &SHole{Verb: verb, Expr: e, Path: fr.pc.path(e), Typ: fr.info.TypeOf(e), Fn: fr.fn.Name, Pos: e.Pos()}
	if call, ok := unparen(e).(*ast.CallExpr); ok && len(call.Args) == 1 {
		if fn := callee(fr.info, call); fn != nil && (fn.FullName() == "strconv.Itoa" || fn.FullName() == "fmt.Sprint") {
			if isIntType(fr.info.TypeOf(call.Args[0])) {
				// the decimal text of an integer: the same hole as `%d` of that integer
				a := call.Args[0]
				return &SHole{Verb: "d", Expr: a, Path: fr.pc.path(a), Typ: fr.info.TypeOf(a), Fn: fr.fn.Name, Pos: a.Pos()}
			}
		}
	}
	return h
}

func (se *ShapeEval) sprintf(fr *shapeFrame, call *ast.CallExpr) Shape {
	format := se.expr(fr, call.Args[0])
	args := call.Args[1:]
	ai := 0
	var out []Shape
	for _, p := range partsOf(format) {
		lit, ok := p.(*SLit)
		if !ok {
			// non-literal piece of a format (a previously built fragment): kept verbatim; a '%' inside it would be
			// interpreted by Sprintf — only literals and config-resolved prefixes occur in this repository
			if _, isHole := p.(*SHole); isHole {
				se.errf(call.Pos(), "format string of Sprintf contains a run-time value (%s)", shapeString(p))
			}
			out = append(out, p)
			continue
		}
		s := lit.S
		for {
			i := strings.IndexByte(s, '%')
			if i < 0 {
				out = append(out, &SLit{s})
				break
			}
			out = append(out, &SLit{s[:i]})
			if i+1 >= len(s) {
				se.errf(call.Pos(), "format string ends in %%")
				break
			}
			v := s[i+1]
			s = s[i+2:]
			switch v {
			case '%':
				out = append(out, &SLit{"%"})
			case 'd', 's', 'v', 'q', 'c':
				if ai >= len(args) {
					se.errf(call.Pos(), "format has more verbs than arguments")
					out = append(out, &SLit{"%!" + string(v) + "(MISSING)"})
					continue
				}
				a := args[ai]
				ai++
				if isStringType(fr.info.TypeOf(a)) && v == 'q' {
					out = append(out, &SQuote{Inner: se.expr(fr, a)})
				} else if isStringType(fr.info.TypeOf(a)) {
					sh := se.expr(fr, a)
					if h, ok := sh.(*SHole); ok {
						h.Verb = string(v)
					}
					out = append(out, sh)
				} else {
					h := se.hole(fr, string(v), a).(*SHole)
					out = append(out, h)
				}
			default:
				se.errf(call.Pos(), "unsupported format verb %%%c", v)
			}
		}
	}
	if ai != len(args) {
		se.errf(call.Pos(), "Sprintf has %d arguments for %d verbs", len(args), ai)
	}
	return cat(out...)
}

func (se *ShapeEval) regexRepl(fr *shapeFrame, call *ast.CallExpr) Shape {
	info := fr.info
	sel, ok := unparen(call.Fun).(*ast.SelectorExpr)
	if !ok || len(call.Args) != 2 {
		se.errf(call.Pos(), "unrecognised ReplaceAllStringFunc call")
		return se.hole(fr, "s", call)
	}
	pattern := se.regexPatternOf(fr, sel.X)
	fl, ok := unparen(call.Args[1]).(*ast.FuncLit)
	if !ok {
		// a closure held in a local with a single definition: `repl := func(s string) string {…}`
		if o := identObj(info, call.Args[1]); o != nil && fr.pc != nil && fr.pc.defs != nil && fr.pc.defs.count[o] == 1 {
			fl, ok = unparen(fr.pc.defs.single[o]).(*ast.FuncLit)
		}
	}
	if pattern == "" || !ok || len(fl.Type.Params.List) != 1 || len(fl.Type.Params.List[0].Names) != 1 {
		se.errf(call.Pos(), "ReplaceAllStringFunc: pattern is not a constant or the replacement is not a function literal")
		return se.hole(fr, "s", call)
	}
	param := info.Defs[fl.Type.Params.List[0].Names[0]]
	// evaluate the literal's body in a nested frame sharing provenance context
	sub := &shapeFrame{fn: fr.fn, info: info, pc: fr.pc, env: map[types.Object]Shape{}}
	for k, v := range fr.env {
		sub.env[k] = v
	}
	sub.env[param] = &SHole{Verb: "s", Path: "$match", Typ: param.Type(), Fn: fr.fn.Name, Pos: fl.Pos()}
	old := fr.pc.subst[param]
	fr.pc.subst[param] = "$match"
	se.stmts(sub, fl.Body.List)
	if old == "" {
		delete(fr.pc.subst, param)
	}
	if sub.ret == nil {
		se.errf(fl.Pos(), "replacement function has no string result")
		return se.hole(fr, "s", call)
	}
	return &SRepl{Base: se.expr(fr, call.Args[0]), Old: pattern, IsRegex: true, New: sub.ret, Param: "$match", Pos: call.Pos()}
}

func (se *ShapeEval) inline(fr *shapeFrame, ref *FuncRef, call *ast.CallExpr) Shape {
	se.depth++
	defer func() { se.depth-- }()
	sub := se.newFrame(ref)
	i := 0
	for _, f := range ref.Decl.Type.Params.List {
		for _, n := range f.Names {
			if i >= len(call.Args) {
				break
			}
			o := ref.Pkg.TypesInfo.Defs[n]
			if isStringType(o.Type()) {
				sub.env[o] = se.expr(fr, call.Args[i])
			} else {
				sub.pc.subst[o] = fr.pc.path(call.Args[i])
			}
			i++
		}
	}
	se.stmts(sub, ref.Decl.Body.List)
	if sub.ret == nil {
		se.errf(call.Pos(), "helper %s has no recognisable string result", ref.Name)
		return se.hole(fr, "s", call)
	}
	return sub.ret
}

// substMarkers replaces entry markers by the given shapes.
func substMarkers(s Shape, sub map[*sVar]Shape) Shape {
	switch x := s.(type) {
	case *sVar:
		if v, ok := sub[x]; ok {
			return v
		}
		return x
	case *SCat:
		var parts []Shape
		for _, p := range x.Parts {
			parts = append(parts, substMarkers(p, sub))
		}
		return cat(parts...)
	case *SLoop:
		l := *x
		l.Body = substMarkers(x.Body, sub)
		return &l
	case *SAlt:
		a := *x
		a.Then = substMarkers(x.Then, sub)
		a.Else = substMarkers(x.Else, sub)
		return &a
	case *SRepl:
		r := *x
		r.Base = substMarkers(x.Base, sub)
		r.New = substMarkers(x.New, sub)
		return &r
	case *SQuote:
		return &SQuote{Inner: substMarkers(x.Inner, sub)}
	}
	return s
}

// skipsFirstIndex: the range statement runs over a slice with a named index and its body starts with
// `if <index> == 0 { continue }`; returns the index variable and the rest of the body.
func skipsFirstIndex(info *types.Info, l *ast.RangeStmt) (types.Object, []ast.Stmt) {
	if l.Tok != token.DEFINE || l.Key == nil || len(l.Body.List) == 0 {
		return nil, nil
	}
	if _, isSlice := info.TypeOf(l.X).Underlying().(*types.Slice); !isSlice {
		return nil, nil
	}
	ko := identObj(info, l.Key)
	if ko == nil || ko.Name() == "_" {
		return nil, nil
	}
	is, ok := l.Body.List[0].(*ast.IfStmt)
	if !ok || is.Init != nil || is.Else != nil || len(is.Body.List) != 1 {
		return nil, nil
	}
	if br, ok := is.Body.List[0].(*ast.BranchStmt); !ok || br.Tok != token.CONTINUE || br.Label != nil {
		return nil, nil
	}
	be, ok := unparen(is.Cond).(*ast.BinaryExpr)
	if !ok || be.Op != token.EQL || identObj(info, be.X) != ko || !isConstZero(info, be.Y) {
		return nil, nil
	}
	// the index and the element are not assigned in the body
	written := false
	ast.Inspect(l.Body, func(n ast.Node) bool {
		switch x := n.(type) {
		case *ast.AssignStmt:
			for _, lh := range x.Lhs {
				if o := identObj(info, lh); o != nil && (o == ko || o == identObj(info, l.Value)) {
					written = true
				}
			}
		case *ast.IncDecStmt:
			if identObj(info, x.X) == ko {
				written = true
			}
		case *ast.UnaryExpr:
			if x.Op == token.AND {
				if o := identObj(info, x.X); o != nil && (o == ko || o == identObj(info, l.Value)) {
					written = true
				}
			}
		}
		return true
	})
	if written {
		return nil, nil
	}
	return ko, l.Body.List[1:]
}

func isConstZero(info *types.Info, e ast.Expr) bool {
	v, ok := constInt(info, e)
	return ok && v == 0
}

// plainWriterHelper: a repository function whose body is nothing but `p.WriteString(…)` / `p.Close()` statements on
// one of its own *os.File parameters (no other call, no control flow).
func plainWriterHelper(c *Ctx, f *types.Func) bool {
	ref := c.FuncOf(f)
	if ref == nil || ref.Decl.Body == nil || len(ref.Decl.Body.List) == 0 {
		return false
	}
	info := ref.Pkg.TypesInfo
	params := map[types.Object]bool{}
	for _, p := range paramObjs(info, ref.Decl) {
		params[p] = true
	}
	for _, st := range ref.Decl.Body.List {
		es, ok := st.(*ast.ExprStmt)
		if !ok {
			return false
		}
		call, ok := es.X.(*ast.CallExpr)
		if !ok {
			return false
		}
		cf := callee(info, call)
		if cf == nil || (cf.FullName() != "(*os.File).WriteString" && cf.FullName() != "(*os.File).Close") {
			return false
		}
		se, ok := unparen(call.Fun).(*ast.SelectorExpr)
		if !ok || !params[identObj(info, se.X)] {
			return false
		}
		for _, a := range call.Args {
			nested := false
			ast.Inspect(a, func(n ast.Node) bool {
				if _, isCall := n.(*ast.CallExpr); isCall {
					nested = true
				}
				return true
			})
			if nested {
				return false
			}
		}
	}
	return true
}

func isStringsBuilder(t types.Type) bool {
	if p, ok := t.(*types.Pointer); ok {
		t = p.Elem()
	}
	n, ok := t.(*types.Named)
	return ok && n.Obj().Pkg() != nil && n.Obj().Pkg().Path() == "strings" && n.Obj().Name() == "Builder"
}

// builderObj: e is a local strings.Builder `sb` or its address `&sb`.
func builderObj(info *types.Info, e ast.Expr) types.Object {
	e = unparen(e)
	if u, ok := e.(*ast.UnaryExpr); ok && u.Op == token.AND {
		e = unparen(u.X)
	}
	o := identObj(info, e)
	if o == nil || !isStringsBuilder(o.Type()) {
		return nil
	}
	return o
}

// builderWrite models writes to a local strings.Builder as appends to a string variable:
// sb.WriteString(x), sb.WriteByte/WriteRune(const), fmt.Fprintf(&sb, f, a…), fmt.Fprint(&sb, a…), fmt.Fprintln(&sb, a…).
func (se *ShapeEval) builderWrite(fr *shapeFrame, call *ast.CallExpr) bool {
	info := fr.info
	f := callee(info, call)
	if f == nil {
		return false
	}
	appendTo := func(o types.Object, v Shape) {
		fr.env[o] = cat(fr.env[o], v)
	}
	switch f.FullName() {
	case "(*strings.Builder).WriteString":
		if sel, ok := unparen(call.Fun).(*ast.SelectorExpr); ok && len(call.Args) == 1 {
			if o := builderObj(info, sel.X); o != nil {
				if _, known := fr.env[o]; known {
					appendTo(o, se.expr(fr, call.Args[0]))
					return true
				}
			}
		}
	case "(*strings.Builder).WriteByte", "(*strings.Builder).WriteRune":
		if sel, ok := unparen(call.Fun).(*ast.SelectorExpr); ok && len(call.Args) == 1 {
			if o := builderObj(info, sel.X); o != nil {
				if _, known := fr.env[o]; known {
					if v, isC := constInt(info, call.Args[0]); isC {
						appendTo(o, &SLit{string(rune(v))})
					} else {
						appendTo(o, se.hole(fr, "c", call.Args[0]))
					}
					return true
				}
			}
		}
	case "fmt.Fprintf", "fmt.Fprint", "fmt.Fprintln":
		if len(call.Args) == 0 {
			return false
		}
		o := builderObj(info, call.Args[0])
		if o == nil {
			return false
		}
		if _, known := fr.env[o]; !known {
			return false
		}
		rest := &ast.CallExpr{Fun: call.Fun, Lparen: call.Lparen, Args: call.Args[1:], Rparen: call.Rparen}
		switch f.Name() {
		case "Fprintf":
			if len(rest.Args) == 0 {
				return false
			}
			appendTo(o, se.sprintf(fr, rest))
		default:
			var parts []Shape
			for i, a := range rest.Args {
				if i > 0 && f.Name() == "Fprintln" {
					parts = append(parts, &SLit{" "})
				}
				if isStringType(info.TypeOf(a)) {
					parts = append(parts, se.expr(fr, a))
				} else {
					parts = append(parts, se.hole(fr, "v", a))
				}
			}
			if f.Name() == "Fprintln" {
				parts = append(parts, &SLit{"\n"})
			}
			appendTo(o, cat(parts...))
		}
		return true
	}
	return false
}

// tableField: `T[k].f` (directly or through a local bound once to `T[k]`) where T is a package-level map that nothing
// assigns, k a mode flag whose value the configuration fixes, and the selected entry a struct literal whose field f is
// a constant string — the names a builder picks per mode from a table instead of an if.
func (se *ShapeEval) tableField(fr *shapeFrame, sel *ast.SelectorExpr) (string, bool) {
	info := fr.info
	base := unparen(sel.X)
	if o := identObj(info, base); o != nil && fr.pc != nil && fr.pc.defs != nil && fr.pc.defs.count[o] == 1 && fr.pc.defs.single[o] != nil {
		base = unparen(fr.pc.defs.single[o])
	}
	ix, ok := base.(*ast.IndexExpr)
	if !ok {
		return "", false
	}
	tv, ok := identObj(info, ix.X).(*types.Var)
	if !ok || tv.Pkg() == nil || tv.Parent() != tv.Pkg().Scope() {
		return "", false
	}
	key, known := se.configValue(fr, ix.Index)
	if !known {
		return "", false
	}
	init, assigned := pkgVarInit(se.c, tv)
	lit, ok := init.(*ast.CompositeLit)
	if !ok || assigned {
		return "", false
	}
	pinfo := se.c.Pkgs[tv.Pkg().Path()].TypesInfo
	for _, el := range lit.Elts {
		kv, ok := el.(*ast.KeyValueExpr)
		if !ok {
			return "", false
		}
		cv := constOf(pinfo, kv.Key)
		if cv == nil || cv.Kind() != constant.Bool || constant.BoolVal(cv) != key {
			continue
		}
		entry, ok := kv.Value.(*ast.CompositeLit)
		if !ok {
			return "", false
		}
		st := structOf(pinfo.TypeOf(entry))
		for i, fe := range entry.Elts {
			if fkv, ok := fe.(*ast.KeyValueExpr); ok {
				if id, ok := fkv.Key.(*ast.Ident); ok && id.Name == sel.Sel.Name {
					return constString(pinfo, fkv.Value)
				}
				continue
			}
			if st != nil && i < st.NumFields() && st.Field(i).Name() == sel.Sel.Name {
				return constString(pinfo, fe)
			}
		}
		// a field the entry does not mention is the zero string
		return "", true
	}
	return "", false
}
