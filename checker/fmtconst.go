package main

// fmtconst.go — format-string provenance: the format argument of a fmt formatting call must be built from
// compile-time constants only (constants, locals all of whose assignments are constant-derived, concatenations of
// such, parameters whose every call-site argument in the repository is constant-derived). A format that contains
// run-time text (a symbol name, a label, user code) lets a '%' in that text swallow arguments.

import (
	"go/ast"
	"go/token"
	"go/types"
	"strings"
)

var fmtFuncs = map[string]int{"fmt.Sprintf": 0, "fmt.Printf": 0, "fmt.Errorf": 0, "fmt.Fprintf": 1}

type fmtFinding struct {
	fn   *FuncRef
	call *ast.CallExpr
	why  string
}

func constDerived(c *Ctx, fn *FuncRef, e ast.Expr, depth int) (bool, string) {
	info := fn.Pkg.TypesInfo
	e = unparen(e)
	if constOf(info, e) != nil {
		return true, ""
	}
	if depth > 6 {
		return false, "too deep"
	}
	switch x := e.(type) {
	case *ast.BinaryExpr:
		if x.Op.String() == "+" {
			if ok, why := constDerived(c, fn, x.X, depth+1); !ok {
				return false, why
			}
			return constDerived(c, fn, x.Y, depth+1)
		}
	case *ast.Ident:
		o := objOf(info, x)
		v, ok := o.(*types.Var)
		if !ok {
			return false, exprString(e)
		}
		if v.Pkg() != nil && v.Parent() == v.Pkg().Scope() {
			if _, ok := pkgVarString(c, v); ok {
				return true, ""
			}
			return false, "package variable " + v.Name()
		}
		// parameter: every call site's argument
		for i, p := range paramObjs(info, fn.Decl) {
			if p == o {
				n := 0
				for _, caller := range c.AllFuncs() {
					cinfo := caller.Pkg.TypesInfo
					bad := ""
					ast.Inspect(caller.Decl.Body, func(nd ast.Node) bool {
						call, ok := nd.(*ast.CallExpr)
						if !ok || callee(cinfo, call) != fn.Obj || i >= len(call.Args) {
							return true
						}
						n++
						if ok2, why := constDerived(c, caller, call.Args[i], depth+1); !ok2 {
							bad = why
						}
						return true
					})
					if bad != "" {
						return false, "argument of " + caller.Name + ": " + bad
					}
				}
				return n > 0, "parameter " + x.Name + " without call sites"
			}
		}
		// local: all assignments
		ws := localWrites(fn, o)
		if len(ws) == 0 {
			return false, "local " + x.Name + " without definition"
		}
		// a variable declared inside the innermost loop that encloses the use starts afresh in every iteration:
		// only the writes that textually precede the use can reach it
		if loop := innermostLoop(fn.Decl.Body, x.Pos()); loop != nil && defIdentIn(info, loop, o) != nil || innermostLoop(fn.Decl.Body, x.Pos()) == nil {
			var before []writeSite
			for _, w := range ws {
				if (w.expr != nil && w.expr.End() <= x.Pos()) || (w.expr == nil && w.pos < x.Pos()) {
					before = append(before, w)
				}
			}
			ws = before
		}
		for _, w := range ws {
			if w.expr == nil {
				continue // zero value ""
			}
			switch w.op {
			case "=", ":=", "var", "+=":
				// a format that is rebuilt from itself through Sprintf stays constant-derived only if that Sprintf's
				// own format and the spliced-in pieces are
				if call, ok := unparen(w.expr).(*ast.CallExpr); ok {
					if f := callee(w.info, call); f != nil && f.FullName() == "fmt.Sprintf" && len(call.Args) > 0 {
						for _, a := range call.Args {
							if identObj(w.info, a) == o {
								continue
							}
							if isStringType(w.info.TypeOf(a)) {
								if ok2, why := constDerived(c, fn, a, depth+1); !ok2 {
									return false, why
								}
							}
						}
						continue
					}
				}
				if identObj(w.info, w.expr) == o {
					continue
				}
				if ok2, why := constDerived(c, fn, w.expr, depth+1); !ok2 {
					return false, why
				}
			default:
				return false, "local " + x.Name + " modified with " + w.op
			}
		}
		return true, ""
	}
	return false, "run-time value " + exprString(e)
}

// nonConstantFormats lists the formatting calls in the given package dirs whose format is not constant-derived.
func nonConstantFormats(c *Ctx, dirs ...string) (int, []fmtFinding) {
	var out []fmtFinding
	n := 0
	for _, f := range c.AllFuncs() {
		match := false
		for _, d := range dirs {
			if strings.HasPrefix(f.Name, d+".") {
				match = true
			}
		}
		if !match {
			continue
		}
		info := f.Pkg.TypesInfo
		ast.Inspect(f.Decl.Body, func(nd ast.Node) bool {
			call, ok := nd.(*ast.CallExpr)
			if !ok {
				return true
			}
			fn := callee(info, call)
			if fn == nil {
				return true
			}
			idx, isFmt := fmtFuncs[fn.FullName()]
			if !isFmt || idx >= len(call.Args) {
				return true
			}
			n++
			if ok2, why := constDerived(c, f, call.Args[idx], 0); !ok2 {
				out = append(out, fmtFinding{f, call, why})
			}
			return true
		})
	}
	return n, out
}

// innermostLoop returns the innermost for/range statement of body that contains pos.
func innermostLoop(body *ast.BlockStmt, pos token.Pos) ast.Stmt {
	var best ast.Stmt
	ast.Inspect(body, func(n ast.Node) bool {
		switch n.(type) {
		case *ast.ForStmt, *ast.RangeStmt:
			if n.Pos() <= pos && pos <= n.End() {
				best = n.(ast.Stmt)
			}
		}
		return true
	})
	return best
}
