package main

// C04 — conflicts are resolved by declared precedence/associativity, else yacc defaults.
// Decided: the branch logic of the two resolvers (it only compares) as finite decision tables (R4),
// and the plumbing that carries "left/right/nonassoc + level" from the directive word to the
// fields the resolver reads (R1/R2).

import (
	"fmt"
	"go/ast"
	"go/constant"
	"go/token"
	"go/types"
	"regexp"
	"strings"

	"golang.org/x/tools/go/packages"
)

func init() { register("C04", checkC04) }

func pkgConst(p *packages.Package, name string) (constant.Value, bool) {
	if p == nil {
		return nil, false
	}
	o := p.Types.Scope().Lookup(name)
	c, ok := o.(*types.Const)
	if !ok {
		return nil, false
	}
	return c.Val(), true
}

func mustConsts(c *Ctx, r *Report, clause, dir string, names ...string) (map[string]constant.Value, bool) {
	out := map[string]constant.Value{}
	for _, n := range names {
		v, ok := pkgConst(c.Pkg(dir), n)
		if !ok {
			r.Undecided(clause, "ANCHOR", dir+"."+n, "-", "constant not found")
			return nil, false
		}
		out[n] = v
	}
	return out, true
}

// paramRename names the i-th parameter of fd "P<i>" in the enumerator so that renaming a parameter does not matter.
func paramObjs(info *types.Info, fd *ast.FuncDecl) []types.Object {
	var out []types.Object
	for _, f := range fd.Type.Params.List {
		for _, n := range f.Names {
			out = append(out, info.Defs[n])
		}
	}
	return out
}

// reduceSign derives the sign of a REDUCE action's ActionIndex relative to the rule number from the
// writer (CheckAndResolveConflict): -1 when it is the arithmetic negation of the rule index.
func reduceSign(c *Ctx) (int, string) {
	f := c.Func("LALR", "LALR1", "CheckAndResolveConflict")
	if f == nil {
		return 0, "CheckAndResolveConflict not found"
	}
	info := f.Pkg.TypesInfo
	reduceVal, ok := pkgConst(c.Pkg("LALR"), "REDUCE")
	if !ok {
		return 0, "REDUCE constant not found"
	}
	sign := 0
	ast.Inspect(f.Decl.Body, func(n ast.Node) bool {
		cl, ok := n.(*ast.CompositeLit)
		if !ok {
			return true
		}
		var at, ai ast.Expr
		for _, el := range cl.Elts {
			if kv, ok := el.(*ast.KeyValueExpr); ok {
				if k, ok := kv.Key.(*ast.Ident); ok {
					switch k.Name {
					case "ActionType":
						at = kv.Value
					case "ActionIndex":
						ai = kv.Value
					}
				}
			}
		}
		if at == nil || ai == nil {
			return true
		}
		if v := constOf(info, at); v != nil && constant.Compare(v, token.EQL, reduceVal) {
			if u, ok := unparen(ai).(*ast.UnaryExpr); ok && u.Op == token.SUB {
				sign = -1
			} else {
				sign = 1
			}
		}
		return true
	})
	if sign == 0 {
		return 0, "no REDUCE action literal with ActionIndex found"
	}
	return sign, ""
}

func checkC04(c *Ctx, r *Report) {
	r.Explanation = "Static decision-table extraction (R4): every acyclic path of ResolveConflict / UseDefaultResolveConflict is enumerated as a conjunction of comparisons over the two actions' fields, evaluated on every ordering class of (action types × precedence relation × associativity) and compared with the table stated by the property. Plumbing clauses (R1/R2) follow the directive word through Kind, PrecAssocType and E_Precedence constants by value and check where level and rule precedence are assigned. Not decided: how whole expressions group on inputs (needs running a parser); reduce/reduce pairs in which both rules carry precedence (the property does not state them); 3-way conflicts beyond the pairwise fold."
	r.Assumptions = append(r.Assumptions,
		"equal precedence level implies equal associativity (one level = one declaration line), so classes with equal level and different associativity are infeasible and not compared",
		"the lookahead sets and the automaton feeding CheckAndResolveConflict are right (C03, C09)")

	c04a(c, r)
	c04b(c, r)
	c04c(c, r)
	c04d(c, r)
	c04e(c, r)
	c04Flows(c, r)
	c04NoPrecedenceSentinel(c, r, "C04.a")
	c10DirectiveWords(c, r, "C04.b")
	c10DeclareDispatch(c, r, "C04.b")
	// a %prec belongs to one alternative: at `|` the next alternative starts from a fresh record (C10.d)
	includeSome(r, "C04.c", func(sub *Report) { c10d(c, sub) }, "alternative-starts-fresh")
	// "reduces by the rule that appears first in the grammar file": rule numbers are file order only if every list
	// between the parser and the grammar is append-only and nothing sorts rules (C10.c)
	includeClauses(c, r, "C04.b", checkC10, "C10.c")
	// every cell with two or more candidates is resolved at all (C02.a)
	includeSome(r, "C04.e", func(sub *Report) { c02a(c, sub) }, "fold-covers-every-conflict")
	// the error cell a %nonassoc resolution leaves is a cell like any other: it reaches the packed parser only if
	// exactly the cells equal to the row's default are blanked (C05.c)
	includeSome(r, "C04.e", func(sub *Report) { c05c(c, sub) }, "blank-equals-own-default")
}

// c04e — a cell with three or more candidate actions: the property's pairwise rules are applied as a LEFT FOLD,
// winner(winner(a1, a2), a3) …: every resolution compares the running winner with the next unconsumed candidate,
// the default rule is asked about the same pair, the result becomes the new running winner, and the cell ends up
// holding the last winner. Two forms are recognised: the sliding window (`res[1] = act; res = res[1:]`, exit on
// len(res) == 1 storing res) and the indexed loop over list[1:] with a winner variable initialised to list[0].
func c04e(c *Ctx, r *Report) {
	const clause = "C04.e"
	f := c.need(r, clause, "LALR", "LALR1", "CheckAndResolveConflict")
	if f == nil {
		return
	}
	info := f.Pkg.TypesInfo
	key := f.Name + "/fold-keeps-the-running-winner"
	fold, rcall := findFoldLoop(info, f.Decl)
	if fold == nil || len(rcall.Args) != 2 {
		r.Undecided(clause, "R4 DECISION-TABLE", key, c.pos(f.Decl.Pos()), "no loop calls ResolveConflict(a, b): candidates of a cell are not folded pairwise")
		return
	}
	defs := newDefs(info)
	defs.scan(f.Decl.Body)
	// resolve a single-definition local to its defining expression (prev := list[i-1])
	resolve := func(e ast.Expr) ast.Expr {
		for k := 0; k < 4; k++ {
			o := identObj(info, unparen(e))
			if o == nil || defs.count[o] != 1 || defs.single[o] == nil {
				break
			}
			e = defs.single[o]
		}
		return unparen(e)
	}
	a0, a1 := resolve(rcall.Args[0]), resolve(rcall.Args[1])
	pe := newPathEnum(info)
	paths, err := pe.Enumerate(fold.Body.List)
	if err != nil {
		r.Undecided(clause, "R4 DECISION-TABLE", key, c.pos(fold.Pos()), err.Error())
		return
	}
	rName, dName := "ResolveConflict", "UseDefaultResolveConflict"
	isResult := func(t *Term) string { // "R" = result0 of ResolveConflict, "D" = UseDefault…, "" otherwise
		if t == nil {
			return ""
		}
		s := t.String()
		switch {
		case strings.HasPrefix(s, "result0(") && strings.Contains(s, rName+"(") && !strings.Contains(s, dName):
			return "R"
		case t.Op == "call" && strings.HasSuffix(t.Name, dName):
			return "D"
		}
		return ""
	}
	bad := ""
	form := ""
	// the default rule is asked about the same pair
	ast.Inspect(fold.Body, func(n ast.Node) bool {
		if call, ok := n.(*ast.CallExpr); ok {
			if fn := callee(info, call); fn != nil && strings.HasSuffix(shortFuncName(fn), "LALR1)."+dName) && len(call.Args) == 2 {
				if exprString(resolve(call.Args[0])) != exprString(a0) || exprString(resolve(call.Args[1])) != exprString(a1) {
					bad = fmt.Sprintf("the default rule is asked about (%s, %s) but precedence about (%s, %s)", exprString(resolve(call.Args[0])), exprString(resolve(call.Args[1])), exprString(a0), exprString(a1))
				}
			}
		}
		return true
	})
	ix0, isIx0 := a0.(*ast.IndexExpr)
	ix1, isIx1 := a1.(*ast.IndexExpr)
	switch {
	case isIx0 && isIx1 && identObj(info, ix0.X) != nil && identObj(info, ix0.X) == identObj(info, ix1.X) && (fold.Cond == nil || lenNotOne(info, fold.Cond, identObj(info, ix0.X))):
		// sliding window over S
		form = "sliding window"
		S := identObj(info, ix0.X)
		condForm := fold.Cond != nil // `for len(S) != 1 { … }` followed by the store of S into the cell
		if v, ok := constInt(info, ix0.Index); !ok || v != 0 {
			bad = "the first operand is not the window's first element"
		}
		if v, ok := constInt(info, ix1.Index); !ok || v != 1 {
			bad = "the second operand is not the window's second element"
		}
		exits := 0
		for _, p := range paths {
			if p.Kind == "break" || p.Kind == "return" {
				exits++
				okCond, okStore := false, false
				for _, cd := range p.Conds {
					if cd.Pol && cd.Atom.String() == "(len("+S.Name()+") == 1)" {
						okCond = true
					}
				}
				for _, e := range p.Effects {
					if e.Kind == "store" && e.LHS.Op == "index" && e.Term.String() == S.Name() {
						okStore = true
					}
				}
				if !okCond || !okStore {
					bad = "the loop can end without the cell receiving the one remaining candidate (exit must be `len(window) == 1` storing the window)"
				}
				continue
			}
			stored := ""
			for _, e := range p.Effects {
				if e.Kind == "store" && e.LHS.String() == S.Name()+"[1]" {
					stored = isResult(e.Term)
				}
			}
			if stored == "" {
				bad = "an iteration does not put the pair's winner into the window's second slot"
			}
			if t := p.Env[S]; t == nil || t.String() != S.Name()+"[1:]" {
				bad = "an iteration does not advance the window by exactly one candidate"
			}
		}
		if condForm {
			if exits != 0 {
				bad = "the fold loop is left from inside although its condition `len(window) != 1` decides the end"
			} else {
				// the statement after the loop stores the one remaining candidate into the cell
				stored := false
				if nx := stmtAfter(f.Decl.Body, fold); nx != nil {
					if as, ok := nx.(*ast.AssignStmt); ok && len(as.Lhs) == 1 && len(as.Rhs) == 1 && identObj(info, as.Rhs[0]) == S {
						if _, isIx := unparen(as.Lhs[0]).(*ast.IndexExpr); isIx {
							stored = true
						}
					}
				}
				if !stored {
					bad = "the one remaining candidate is not stored into the cell right after the fold loop"
				}
			}
		} else if exits == 0 {
			bad = "the fold loop has no exit"
		}
		// the window starts as the whole candidate list
		if bad == "" {
			n, okInit := 0, false
			ast.Inspect(f.Decl.Body, func(m ast.Node) bool {
				if as, ok := m.(*ast.AssignStmt); ok && len(as.Lhs) == 1 && len(as.Rhs) == 1 && identObj(info, as.Lhs[0]) == S {
					n++
					if as.Pos() < fold.Pos() {
						if id, ok := unparen(as.Rhs[0]).(*ast.Ident); ok && id != nil {
							okInit = true
						}
					}
				}
				return true
			})
			if n != 2 || !okInit {
				bad = "the window is not initialised once to the whole candidate list"
			}
			_ = condForm
		}
	case isIx1 && identObj(info, a0) != nil:
		// indexed loop with a winner variable
		form = "indexed loop with a winner variable"
		W := identObj(info, a0)
		L := identObj(info, ix1.X)
		iv := identObj(info, ix1.Index)
		full := false
		if init, ok := fold.Init.(*ast.AssignStmt); ok && len(init.Lhs) == 1 && identObj(info, init.Lhs[0]) == iv && iv != nil {
			if v, ok := constInt(info, init.Rhs[0]); ok && v == 1 {
				if be, ok := fold.Cond.(*ast.BinaryExpr); ok && be.Op == token.LSS && identObj(info, be.X) == iv {
					if call, ok := be.Y.(*ast.CallExpr); ok && builtinName(info, call) == "len" && identObj(info, call.Args[0]) == L {
						if post, ok := fold.Post.(*ast.IncDecStmt); ok && post.Tok == token.INC && identObj(info, post.X) == iv {
							full = true
						}
					}
				}
			}
		}
		if !full || L == nil {
			bad = "the loop does not visit candidates 1 … len(list)-1 one by one"
		}
		for _, p := range paths {
			if p.Kind != "fall" && p.Kind != "continue" {
				bad = "the fold can stop before the last candidate"
				continue
			}
			if isResult(p.Env[W]) == "" {
				bad = "an iteration does not make the pair's winner the new running winner"
			}
		}
		// W starts as list[0]; after the loop the cell receives W
		okInit, okOut := false, false
		ast.Inspect(f.Decl.Body, func(m ast.Node) bool {
			as, ok := m.(*ast.AssignStmt)
			if !ok || len(as.Lhs) != 1 || len(as.Rhs) != 1 {
				return true
			}
			if identObj(info, as.Lhs[0]) == W && as.Pos() < fold.Pos() {
				if ix, ok := unparen(as.Rhs[0]).(*ast.IndexExpr); ok && identObj(info, ix.X) == L {
					if v, ok := constInt(info, ix.Index); ok && v == 0 {
						okInit = true
					}
				}
			}
			if _, isIdx := as.Lhs[0].(*ast.IndexExpr); isIdx && as.Pos() > fold.End() {
				if cl, ok := unparen(as.Rhs[0]).(*ast.CompositeLit); ok && len(cl.Elts) == 1 && identObj(info, cl.Elts[0]) == W {
					okOut = true
				}
			}
			return true
		})
		if !okInit {
			bad = "the running winner does not start as the first candidate"
		}
		if !okOut {
			bad = "the cell does not receive the final winner after the loop"
		}
	default:
		bad = fmt.Sprintf("ResolveConflict is applied to (%s, %s): neither (window[0], window[1]) of a sliding window nor (running winner, list[i]) — with three candidates some candidate is never compared with the winner of the others", exprString(a0), exprString(a1))
	}
	r.Check(bad == "", clause, "R4 DECISION-TABLE", key, c.pos(fold.Pos()),
		"cells with more than two candidates are folded left to right ("+form+"): each step compares the running winner with the next candidate, precedence and default rule see the same pair, the result replaces the winner, the cell keeps the last one",
		bad)
}

func c04a(c *Ctx, r *Report) {
	const clause = "C04.a"
	f := c.need(r, clause, "LALR", "LALR1", "ResolveConflict")
	if f == nil {
		return
	}
	at, ok1 := mustConsts(c, r, clause, "LALR", "SHIFT", "REDUCE", "ERROR")
	pt, ok2 := mustConsts(c, r, clause, "Symbol", "LEFT", "RIGHT", "NONE")
	if !ok1 || !ok2 {
		return
	}
	info := f.Pkg.TypesInfo
	ps := paramObjs(info, f.Decl)
	if len(ps) != 2 {
		r.Undecided(clause, "R4", f.Name, c.pos(f.Decl.Pos()), "expected two action parameters")
		return
	}
	pe := newPathEnum(info)
	pe.rename[ps[0]] = "A"
	pe.rename[ps[1]] = "B"
	paths, err := pe.Enumerate(f.Decl.Body.List)
	if err != nil {
		r.Undecided(clause, "R4", f.Name, c.pos(f.Decl.Pos()), "cannot enumerate paths: "+err.Error())
		return
	}
	r.Extra["C04.a_paths"] = len(paths)
	precVals := []int64{-1, 1, 2}
	typeNames := []string{"SHIFT", "REDUCE"}
	assocNames := []string{"LEFT", "RIGHT", "NONE"}
	nClasses, nCompared, nInfeasible, nUnspecified := 0, 0, 0, 0
	var firstBad string
	bad := 0
	for _, ta := range typeNames {
		for _, tb := range typeNames {
			for _, pa := range precVals {
				for _, pb := range precVals {
					for _, aa := range assocNames {
						for _, ab := range assocNames {
							nClasses++
							vals := map[string]constant.Value{
								"A.ActionType": at[ta], "B.ActionType": at[tb],
								"A.Prec": constant.MakeInt64(pa), "B.Prec": constant.MakeInt64(pb),
								"A.PrecType": pt[aa], "B.PrecType": pt[ab],
							}
							if ta == tb {
								nUnspecified++
								continue
							}
							if pa == pb && pa != -1 && aa != ab {
								nInfeasible++
								continue
							}
							val := func(t *Term) (constant.Value, bool) {
								if t.Op == "field" {
									v, ok := vals[t.String()]
									return v, ok
								}
								return nil, false
							}
							class := fmt.Sprintf("A={%s prec=%d %s} B={%s prec=%d %s}", ta, pa, aa, tb, pb, ab)
							p, err := selectPath(paths, val)
							if err != nil {
								bad++
								if firstBad == "" {
									firstBad = class + ": " + err.Error()
								}
								continue
							}
							nCompared++
							// reduce side / shift side
							red, sh, rp, sp, ra := "A", "B", pa, pb, aa
							if tb == "REDUCE" {
								red, sh, rp, sp, ra = "B", "A", pb, pa, ab
							}
							want := ""
							switch {
							case rp == -1 || sp == -1:
								want = "unresolved"
							case rp > sp:
								want = red
							case rp < sp:
								want = sh
							case ra == "LEFT":
								want = red
							case ra == "RIGHT":
								want = sh
							default:
								want = "ERROR"
							}
							got := describeResolveOutcome(p, at["ERROR"])
							if got != want {
								bad++
								if firstBad == "" {
									firstBad = fmt.Sprintf("%s: code path [%s] yields %s, the property requires %s (%s)", class, p.CondString(), got, want, c.pos(p.Node.Pos()))
								}
							}
						}
					}
				}
			}
		}
	}
	r.Extra["C04.a_classes"] = map[string]int{"enumerated": nClasses, "compared": nCompared, "infeasible_equal_level_different_assoc": nInfeasible, "same_type_pairs_not_stated_by_property": nUnspecified}
	r.Check(bad == 0 && nCompared > 0, clause, "R4 DECISION-TABLE", f.Name+"/shift-reduce-classes", c.pos(f.Decl.Pos()),
		fmt.Sprintf("%d paths; %d shift/reduce ordering classes agree with the property's table (higher precedence wins; equal: LEFT reduce, RIGHT shift, NONE error; undeclared: unresolved)", len(paths), nCompared),
		fmt.Sprintf("%d ordering class(es) disagree with the property's table; first: %s", bad, firstBad))
}

// describeResolveOutcome classifies a return of ResolveConflict as A, B, ERROR, unresolved or other.
func describeResolveOutcome(p *PathOut, errConst constant.Value) string {
	if p.Kind != "return" || len(p.Vals) != 2 {
		return "other(" + p.Kind + ")"
	}
	v, e := p.Vals[0], p.Vals[1]
	errIsNil := e.Op == "leaf" && e.Name == "nil"
	if !errIsNil {
		return "unresolved"
	}
	if v.Op == "leaf" && (v.Name == "A" || v.Name == "B") {
		return v.Name
	}
	t := v
	if t.Op == "addr" {
		t = t.Args[0]
	}
	if t.Op == "composite" {
		if at, ok := t.Fields["ActionType"]; ok && at.Op == "const" && constant.Compare(at.Val, token.EQL, errConst) {
			return "ERROR"
		}
		return "other(composite)"
	}
	return "other(" + v.String() + ")"
}

func c04b(c *Ctx, r *Report) {
	const clause = "C04.b"
	f := c.need(r, clause, "LALR", "LALR1", "UseDefaultResolveConflict")
	if f == nil {
		return
	}
	at, ok := mustConsts(c, r, clause, "LALR", "SHIFT", "REDUCE")
	if !ok {
		return
	}
	sign, why := reduceSign(c)
	if sign == 0 {
		r.Undecided(clause, "R4", f.Name, c.pos(f.Decl.Pos()), "cannot derive the reduce encoding from the writer: "+why)
		return
	}
	info := f.Pkg.TypesInfo
	ps := paramObjs(info, f.Decl)
	if len(ps) != 2 {
		r.Undecided(clause, "R4", f.Name, c.pos(f.Decl.Pos()), "expected two action parameters")
		return
	}
	pe := newPathEnum(info)
	pe.rename[ps[0]] = "A"
	pe.rename[ps[1]] = "B"
	paths, err := pe.Enumerate(f.Decl.Body.List)
	if err != nil {
		r.Undecided(clause, "R4", f.Name, c.pos(f.Decl.Pos()), "cannot enumerate paths: "+err.Error())
		return
	}
	bad, n := 0, 0
	first := ""
	// rule numbers 3 and 5 in both orders, plus equal
	for _, ta := range []string{"SHIFT", "REDUCE"} {
		for _, tb := range []string{"SHIFT", "REDUCE"} {
			for _, rules := range [][2]int64{{3, 5}, {5, 3}, {4, 4}} {
				if ta == "SHIFT" && tb == "SHIFT" {
					continue // cannot happen: one shift per symbol
				}
				ia, ib := rules[0]*int64(sign), rules[1]*int64(sign)
				if ta == "SHIFT" {
					ia = 7
				}
				if tb == "SHIFT" {
					ib = 7
				}
				vals := map[string]constant.Value{
					"A.ActionType": at[ta], "B.ActionType": at[tb],
					"A.ActionIndex": constant.MakeInt64(ia), "B.ActionIndex": constant.MakeInt64(ib),
				}
				val := func(t *Term) (constant.Value, bool) {
					if t.Op == "field" {
						v, ok := vals[t.String()]
						return v, ok
					}
					return nil, false
				}
				class := fmt.Sprintf("A={%s idx=%d} B={%s idx=%d}", ta, ia, tb, ib)
				p, err := selectPath(paths, val)
				n++
				if err != nil {
					bad++
					if first == "" {
						first = class + ": " + err.Error()
					}
					continue
				}
				got := "other"
				if p.Kind == "return" && len(p.Vals) == 1 && p.Vals[0].Op == "leaf" {
					got = p.Vals[0].Name
				}
				want := ""
				switch {
				case ta == "SHIFT":
					want = "A"
				case tb == "SHIFT":
					want = "B"
				case rules[0] < rules[1]:
					want = "A"
				case rules[0] > rules[1]:
					want = "B"
				default:
					want = got // equal rule numbers: either
					if got != "A" && got != "B" {
						want = "A|B"
					}
				}
				if got != want {
					bad++
					if first == "" {
						first = fmt.Sprintf("%s (rule numbers %d vs %d, ActionIndex = %+d*rule): code path [%s] returns %s, the property requires %s — shift wins, else the rule that appears first (%s)",
							class, rules[0], rules[1], sign, p.CondString(), got, want, c.pos(p.Node.Pos()))
					}
				}
			}
		}
	}
	r.Check(bad == 0, clause, "R4 DECISION-TABLE", f.Name+"/default-classes", c.pos(f.Decl.Pos()),
		fmt.Sprintf("%d paths; %d classes: shift wins in either position, two reduces keep the smaller rule number (reduce encoding sign %+d derived from CheckAndResolveConflict)", len(paths), n, sign),
		fmt.Sprintf("%d class(es) disagree; first: %s", bad, first))
}

// ---------------------------------------------------------------------------------------------

var reKindTest = regexp.MustCompile(`\.current\.Kind == "([A-Za-z_]+)"`)

func c04c(c *Ctx, r *Report) {
	const clause = "C04.c"
	// (1) directive word -> Kind
	word2kind := map[string]string{}
	if f := c.need(r, clause, "Parser", "", "DirectiveOtherState"); f != nil {
		for _, a := range directiveArms(f) {
			if a.kind != "" {
				word2kind[a.word] = a.kind
			}
		}
	}
	// (2) Kind -> PrecAssocType in parsePrecList
	kind2assoc := map[string]int64{}
	var precKinds []string
	fp := c.need(r, clause, "Parser", "parser", "parsePrecList")
	fd := c.need(r, clause, "Parser", "parser", "parseDeclare")
	if fp != nil && fd != nil {
		info := fp.Pkg.TypesInfo
		// kinds for which parseDeclare calls parsePrecList: the positive kind tests that guard the call
		// (`if current.Is(K1) || current.Is(K2)` or `case K1, K2:` — both render as `current.Kind == K`)
		ast.Inspect(fd.Decl.Body, func(n ast.Node) bool {
			call, ok := n.(*ast.CallExpr)
			if !ok || callee(info, call) != fp.Obj {
				return true
			}
			st := stmtOf(fd.Decl.Body, call)
			if st == nil {
				return true
			}
			for _, a := range guardAtoms(c, fd, st) {
				if strings.HasPrefix(a, "!") || strings.HasPrefix(a, "no-earlier") {
					continue
				}
				for _, m := range reKindTest.FindAllStringSubmatch(a, -1) {
					precKinds = append(precKinds, m[1])
				}
			}
			return true
		})
		// variable flowing into PrecDef.AssocType
		var assocVar types.Object
		ast.Inspect(fp.Decl.Body, func(n ast.Node) bool {
			cl, ok := n.(*ast.CompositeLit)
			if !ok {
				return true
			}
			if tv, ok := info.Types[cl]; !ok || !strings.HasSuffix(types.TypeString(tv.Type, shortQual), "PrecDef") {
				return true
			}
			for _, el := range cl.Elts {
				if kv, ok := el.(*ast.KeyValueExpr); ok {
					if k, ok := kv.Key.(*ast.Ident); ok && k.Name == "AssocType" {
						assocVar = identObj(info, kv.Value)
					}
				}
			}
			return true
		})
		if assocVar == nil {
			r.Undecided(clause, "R1", fp.Name+"/PrecDef.AssocType", c.pos(fp.Decl.Pos()), "no PrecDef literal whose AssocType is a local variable")
		} else {
			// top-level statements (before the first loop) that assign it
			var stmts []ast.Stmt
			for _, s := range fp.Decl.Body.List {
				if _, isLoop := s.(*ast.ForStmt); isLoop {
					break
				}
				assigns := false
				ast.Inspect(s, func(m ast.Node) bool {
					if as, ok := m.(*ast.AssignStmt); ok {
						for _, l := range as.Lhs {
							if identObj(info, l) == assocVar {
								assigns = true
							}
						}
					}
					return true
				})
				if assigns {
					stmts = append(stmts, s)
				}
			}
			// no assignment inside loops
			inLoop := false
			for _, s := range fp.Decl.Body.List {
				if _, isLoop := s.(*ast.ForStmt); isLoop {
					ast.Inspect(s, func(m ast.Node) bool {
						if as, ok := m.(*ast.AssignStmt); ok {
							for _, l := range as.Lhs {
								if identObj(info, l) == assocVar {
									inLoop = true
								}
							}
						}
						return true
					})
				}
			}
			pe := newPathEnum(info)
			paths, err := pe.Enumerate(stmts)
			if err != nil || inLoop || len(stmts) == 0 {
				r.Undecided(clause, "R4", fp.Name+"/assoc-chain", c.pos(fp.Decl.Pos()), fmt.Sprintf("cannot enumerate the associativity chain (err=%v, assigned in loop=%v, statements=%d)", err, inLoop, len(stmts)))
			} else {
				for _, k := range precKinds {
					kk := k
					val := func(t *Term) (constant.Value, bool) {
						if t.Op == "call" && strings.HasSuffix(t.Name, "Token).Is") && len(t.Args) == 2 && t.Args[1].Op == "const" {
							return constant.MakeBool(constant.StringVal(t.Args[1].Val) == kk), true
						}
						// `switch p.current.Kind { case K: }`: the current token's kind is kk
						if t.Op == "field" && t.Name == "Kind" {
							return constant.MakeString(kk), true
						}
						return nil, false
					}
					p, err := selectPath(paths, val)
					if err != nil {
						r.Undecided(clause, "R4", fp.Name+"/assoc-chain/"+k, c.pos(fp.Decl.Pos()), err.Error())
						continue
					}
					if t := p.Env[assocVar]; t != nil && t.Op == "const" {
						v, _ := constant.Int64Val(t.Val)
						kind2assoc[k] = v
					} else {
						r.Undecided(clause, "R4", fp.Name+"/assoc-chain/"+k, c.pos(fp.Decl.Pos()), "associativity value is not a constant on this path")
					}
				}
			}
		}
	}
	// (3) PrecAssocType -> E_Precedence in BuildLALR1
	assoc2prec := map[int64]string{}
	var defaultPrec string
	fb := c.need(r, clause, "Parser", "Walker", "BuildLALR1")
	pt, okpt := mustConsts(c, r, clause, "Symbol", "LEFT", "RIGHT", "NONE")
	if fb != nil && okpt {
		info := fb.Pkg.TypesInfo
		var sw *ast.SwitchStmt
		ast.Inspect(fb.Decl.Body, func(n ast.Node) bool {
			if s, ok := n.(*ast.SwitchStmt); ok && s.Tag != nil {
				if fv := fieldVar(info, s.Tag); fv != nil && fv.Name() == "AssocType" {
					sw = s
				}
			}
			return true
		})
		if sw == nil {
			// table form: `t, known := <package-level map>[prec.AssocType]; if !known { t = <default> }; sy.SetPrecType(t)`
			if !assocTable(c, fb, pt, assoc2prec, &defaultPrec) {
				r.Undecided(clause, "R4", fb.Name+"/assoc-switch", c.pos(fb.Decl.Pos()), "no switch on a precedence entry's AssocType (and no constant lookup table with an explicit default)")
			}
		} else {
			pe := newPathEnum(info)
			paths, err := pe.Enumerate([]ast.Stmt{sw})
			if err != nil {
				r.Undecided(clause, "R4", fb.Name+"/assoc-switch", c.pos(sw.Pos()), err.Error())
			} else {
				precName := func(v constant.Value) string {
					for n, cv := range pt {
						if constant.Compare(v, token.EQL, cv) {
							return n
						}
					}
					return "?" + v.ExactString()
				}
				for _, av := range []int64{1, 2, 3, 99} {
					a := av
					val := func(t *Term) (constant.Value, bool) {
						if t.Op == "field" && t.Name == "AssocType" {
							return constant.MakeInt64(a), true
						}
						return nil, false
					}
					p, err := selectPath(paths, val)
					if err != nil {
						r.Undecided(clause, "R4", fb.Name+"/assoc-switch", c.pos(sw.Pos()), err.Error())
						continue
					}
					got := "none-set"
					for _, e := range p.Effects {
						if e.Kind == "call" && strings.HasSuffix(e.Term.Name, "Symbol).SetPrecType") && len(e.Term.Args) == 2 && e.Term.Args[1].Op == "const" {
							got = precName(e.Term.Args[1].Val)
						}
					}
					if a == 99 {
						defaultPrec = got
					} else {
						assoc2prec[a] = got
					}
				}
			}
		}
	}
	// composition
	want := map[string]string{"left": "LEFT", "right": "RIGHT", "nonassoc": "NONE", "precedence": "NONE"}
	for _, w := range []string{"left", "right", "nonassoc", "precedence"} {
		k, ok := word2kind[w]
		construct := "directive-chain/%" + w
		if !ok {
			r.Undecided(clause, "R1 PROVENANCE", construct, "Parser/Lex.go", "the lexer has no `acceptOnlyAlphaWord(\""+w+"\")` → emit(kind) arm")
			continue
		}
		a, ok := kind2assoc[k]
		if !ok {
			r.Fail(clause, "R1 PROVENANCE", construct, "Parser/Parser.go", fmt.Sprintf("token kind %q emitted for %%%s does not reach parsePrecList (parseDeclare dispatches on %v)", k, w, precKinds))
			continue
		}
		p, ok := assoc2prec[a]
		if !ok {
			p = defaultPrec
		}
		r.Check(p == want[w], clause, "R1 PROVENANCE", construct, "Parser/Lex.go → Parser/Parser.go → Parser/Vistor.go",
			fmt.Sprintf("%%%s → Kind %q → PrecAssocType %d → symbol.%s", w, k, a, p),
			fmt.Sprintf("%%%s → Kind %q → PrecAssocType %d → symbol.%s, the property requires %s", w, k, a, p, want[w]))
	}

	// (4) level: one increment per declaration line
	if f := c.need(r, clause, "Parser", "astDeclareVistor", "Process"); f != nil {
		info := f.Pkg.TypesInfo
		var outer *ast.RangeStmt
		ast.Inspect(f.Decl.Body, func(n ast.Node) bool {
			if rs, ok := n.(*ast.RangeStmt); ok {
				if fv := fieldVar(info, rs.X); fv != nil && fv.Name() == "PrecDefList" {
					outer = rs
				}
			}
			return true
		})
		if outer == nil {
			r.Undecided(clause, "R3 LOCKSTEP", f.Name+"/precedence-level", c.pos(f.Decl.Pos()), "no loop over the declaration's PrecDefList")
		} else {
			// statements directly in the outer body
			incs, innerIncs := 0, 0
			var levelField *types.Var
			var inner ast.Stmt
			for _, s := range outer.Body.List {
				if id, ok := s.(*ast.IncDecStmt); ok && id.Tok == token.INC {
					if fv := fieldVar(info, id.X); fv != nil {
						incs++
						levelField = fv
					}
				}
				switch s.(type) {
				case *ast.RangeStmt, *ast.ForStmt:
					inner = s
				}
			}
			usesLevel, assocFromDef := false, false
			if inner != nil && levelField != nil {
				ast.Inspect(inner, func(n ast.Node) bool {
					switch x := n.(type) {
					case *ast.IncDecStmt:
						if fieldVar(info, x.X) == levelField {
							innerIncs++
						}
					case *ast.AssignStmt:
						for _, l := range x.Lhs {
							if fieldVar(info, l) == levelField {
								innerIncs++
							}
						}
					case *ast.CompositeLit:
						for _, el := range x.Elts {
							if kv, ok := el.(*ast.KeyValueExpr); ok {
								if k, ok := kv.Key.(*ast.Ident); ok {
									if k.Name == "Prec" && fieldVar(info, kv.Value) == levelField {
										usesLevel = true
									}
									if k.Name == "AssocType" {
										if fv := fieldVar(info, kv.Value); fv != nil && fv.Name() == "AssocType" {
											assocFromDef = true
										}
									}
								}
							}
						}
					}
					return true
				})
			}
			ok := incs == 1 && innerIncs == 0 && usesLevel && assocFromDef && inner != nil && inner.Pos() > outer.Body.List[0].Pos()
			r.Check(ok, clause, "R3 LOCKSTEP", f.Name+"/precedence-level", c.pos(outer.Pos()),
				"the level counter is incremented exactly once per declaration line, before the per-symbol loop, which copies (level, AssocType) unchanged into every symbol of the line",
				fmt.Sprintf("precedence level is not 'one increment per declaration line, shared by all its symbols' (increments in line loop=%d, writes in symbol loop=%d, Prec←counter=%v, AssocType←definition=%v)", incs, innerIncs, usesLevel, assocFromDef))
		}
	}

	// (5) rule precedence: %prec assignment after the right-hand-side loop
	if f := c.need(r, clause, "Parser", "RuleVistor", "Process"); f != nil {
		info := f.Pkg.TypesInfo
		found := false
		ast.Inspect(f.Decl.Body, func(n ast.Node) bool {
			blk, ok := n.(*ast.BlockStmt)
			if !ok {
				return true
			}
			loopIdx, precIdx := -1, -1
			for i, s := range blk.List {
				if rs, ok := s.(*ast.RangeStmt); ok {
					if fv := fieldVar(info, rs.X); fv != nil && fv.Name() == "RightPart" {
						// the loop must assign PrecIdSym from the symbol's own precedence entry
						ast.Inspect(rs.Body, func(m ast.Node) bool {
							if as, ok := m.(*ast.AssignStmt); ok {
								for _, l := range as.Lhs {
									if fv := fieldVar(info, l); fv != nil && fv.Name() == "PrecIdSym" {
										loopIdx = i
									}
								}
							}
							return true
						})
					}
				}
				if is, ok := s.(*ast.IfStmt); ok && loopIdx >= 0 && i > loopIdx {
					condOK := false
					ast.Inspect(is.Cond, func(m ast.Node) bool {
						if fv := fieldVar(info, exprOrNil(m)); fv != nil && fv.Name() == "PrecSym" {
							condOK = true
						}
						return true
					})
					if condOK {
						for _, bs := range is.Body.List {
							if as, ok := bs.(*ast.AssignStmt); ok {
								for _, l := range as.Lhs {
									if fv := fieldVar(info, l); fv != nil && fv.Name() == "PrecIdSym" {
										precIdx = i
									}
								}
							}
						}
					}
				}
			}
			if loopIdx >= 0 {
				found = true
				r.Check(precIdx > loopIdx, clause, "R2 ORDER", f.Name+"/%prec-after-rhs-loop", c.pos(blk.List[loopIdx].Pos()),
					"the explicit %prec symbol is assigned after the right-hand-side loop (which keeps the last symbol carrying a precedence), so it overrides it",
					"no `if ruledef.PrecSym != \"\" { r.PrecIdSym = … }` follows the right-hand-side loop in the same block: an explicit %prec would not override the last-terminal default")
				return false
			}
			return true
		})
		if !found {
			r.Undecided(clause, "R2 ORDER", f.Name+"/%prec-after-rhs-loop", c.pos(f.Decl.Pos()), "no loop over the rule's RightPart assigning PrecIdSym")
		}
	}

	// (5b) the %prec operand and the precedence-line operands are named like the declared tokens
	for _, fn := range []string{"parseRule", "parsePrecList"} {
		if f := c.need(r, clause, "Parser", "parser", fn); f != nil {
			c10LiteralNames(c, r, f, clause)
		}
	}
	// (6) the resolver's inputs: REDUCE ← rule's PrecSymbol, SHIFT ← the symbol
	if f := c.need(r, clause, "LALR", "LALR1", "CheckAndResolveConflict"); f != nil {
		c04cActionFields(c, r, f)
	}
	// (7) rule.PrecSymbol and symbol.Prec are written from the declared entries in BuildLALR1
	if fb != nil {
		info := fb.Pkg.TypesInfo
		setPrecOK, setRuleOK := false, false
		ast.Inspect(fb.Decl.Body, func(n ast.Node) bool {
			call, ok := n.(*ast.CallExpr)
			if !ok {
				return true
			}
			name := shortFuncName(callee(info, call))
			if strings.HasSuffix(name, "Symbol).SetPrec") && len(call.Args) == 1 {
				if fv := fieldVar(info, call.Args[0]); fv != nil && fv.Name() == "Prec" {
					setPrecOK = true
				}
			}
			if strings.HasSuffix(name, "ProductoinRule).SetPrecSymbol") && len(call.Args) == 1 {
				pc := pathCtxFor(fb)
				if strings.Contains(pc.path(call.Args[0]), "PrecIdSym.Id.Name") {
					setRuleOK = true
				}
			}
			return true
		})
		r.Check(setPrecOK && setRuleOK, clause, "R1 PROVENANCE", fb.Name+"/SetPrec+SetPrecSymbol", c.pos(fb.Decl.Pos()),
			"terminal level ← its precedence entry's Prec; rule precedence symbol ← the rule's PrecIdSym entry",
			fmt.Sprintf("precedence is not carried into the grammar objects (SetPrec←entry.Prec: %v, SetPrecSymbol←rule.PrecIdSym: %v)", setPrecOK, setRuleOK))
	}
}

func exprOrNil(n ast.Node) ast.Expr {
	if e, ok := n.(ast.Expr); ok {
		return e
	}
	return nil
}

func c04cActionFields(c *Ctx, r *Report, f *FuncRef) {
	const clause = "C04.c"
	info := f.Pkg.TypesInfo
	at, ok := mustConsts(c, r, clause, "LALR", "SHIFT", "REDUCE")
	if !ok {
		return
	}
	defs := newDefs(info)
	defs.scan(f.Decl.Body)
	pc := &pathCtx{info: info, defs: defs, root: f.Decl.Body}
	seen := map[string]bool{}
	ast.Inspect(f.Decl.Body, func(n ast.Node) bool {
		cl, ok := n.(*ast.CompositeLit)
		if !ok {
			return true
		}
		fields := map[string]ast.Expr{}
		for _, el := range cl.Elts {
			if kv, ok := el.(*ast.KeyValueExpr); ok {
				if k, ok := kv.Key.(*ast.Ident); ok {
					fields[k.Name] = kv.Value
				}
			}
		}
		atv := constOf(info, fields["ActionType"])
		if atv == nil {
			return true
		}
		switch {
		case constant.Compare(atv, token.EQL, at["SHIFT"]):
			seen["SHIFT"] = true
			p1, p2 := pc.path(fields["PrecType"]), pc.path(fields["Prec"])
			sym := pc.path(fields["Sym"])
			ok := strings.HasSuffix(p1, ".PrecType") && strings.HasSuffix(p2, ".Prec") &&
				strings.TrimSuffix(p1, ".PrecType") == sym && strings.TrimSuffix(p2, ".Prec") == sym &&
				strings.Contains(sym, ".Symbols[") && strings.Contains(sym, "sym_or_rule")
			r.Check(ok, clause, "R1 PROVENANCE", f.Name+"/SHIFT-action-precedence", c.pos(cl.Pos()),
				"SHIFT action: Prec/PrecType come from the shifted symbol G.Symbols[tr.sym_or_rule]",
				fmt.Sprintf("SHIFT action precedence is not the shifted symbol's (Sym=%s PrecType=%s Prec=%s)", sym, p1, p2))
		case constant.Compare(atv, token.EQL, at["REDUCE"]):
			seen["REDUCE"] = true
			// PrecType / Prec are locals with a default and an override under `PrecSymbol != nil`
			okAll := true
			detail := ""
			for _, fld := range []string{"PrecType", "Prec"} {
				o := identObj(info, fields[fld])
				if o == nil {
					okAll = false
					detail += fld + " is not a local; "
					continue
				}
				var srcs []string
				ast.Inspect(f.Decl.Body, func(m ast.Node) bool {
					if as, ok := m.(*ast.AssignStmt); ok && len(as.Lhs) == len(as.Rhs) {
						for i, l := range as.Lhs {
							if identObj(info, l) == o {
								srcs = append(srcs, pc.path(as.Rhs[i]))
							}
						}
					}
					return true
				})
				hasDefault, hasRule := false, false
				for _, s := range srcs {
					if strings.Contains(s, ".PrecSymbol."+fld) && strings.Contains(s, "ProductoinRules[") {
						hasRule = true
					} else if s == "2" || s == "-1" {
						hasDefault = true
					} else {
						okAll = false
						detail += fld + " ← " + s + "; "
					}
				}
				if !hasDefault || !hasRule {
					okAll = false
					detail += fmt.Sprintf("%s sources %v; ", fld, srcs)
				}
				// the default is re-established for every reduce action: the statement giving the default is a
				// top-level statement of a block that encloses the literal, comes before it, and lies inside the
				// loop over the state's transitions — otherwise a rule without precedence inherits the level of
				// an earlier reduction of the same state (loop-carried value)
				if !defaultPerIteration(info, f, o, cl) {
					okAll = false
					detail += fld + ": the (−1, NONE) default is not re-assigned on the way to every REDUCE action inside the transition loop — the value of an earlier reduction can leak into a rule without precedence; "
				}
			}
			r.Check(okAll, clause, "R1 PROVENANCE", f.Name+"/REDUCE-action-precedence", c.pos(cl.Pos()),
				"REDUCE action: Prec/PrecType come from the reduced rule's PrecSymbol, (−1, NONE) when it has none",
				"REDUCE action precedence does not come from the rule's PrecSymbol with the (−1, NONE) default: "+detail)
		}
		return true
	})
	for _, k := range []string{"SHIFT", "REDUCE"} {
		if !seen[k] {
			r.Undecided(clause, "R1 PROVENANCE", f.Name+"/"+k+"-action-precedence", c.pos(f.Decl.Pos()), "no "+k+" action literal found")
		}
	}
}

// C04.d — an ERROR action (nonassoc) leaves the pre-filled error code in the cell.
func c04d(c *Ctx, r *Report) {
	const clause = "C04.d"
	f := c.need(r, clause, "LALR", "LALR1", "GenTable")
	if f == nil {
		return
	}
	res := analyseGenTableCells(c, f)
	if res.err != "" {
		r.Undecided(clause, "R4 DECISION-TABLE", f.Name+"/cell-writer", c.pos(f.Decl.Pos()), res.err)
		return
	}
	r.Check(res.errorLeavesPrefill && res.prefillIsErrorCode, clause, "R4 DECISION-TABLE", f.Name+"/ERROR-keeps-prefill", c.pos(res.pos),
		"cells are pre-filled with GenErrorCode() over the whole row; an action of type ERROR stores nothing, so %nonassoc yields a syntax error",
		fmt.Sprintf("an ERROR action does not leave the error code in its cell (prefill is error code: %v, ERROR arm stores nothing: %v)", res.prefillIsErrorCode, res.errorLeavesPrefill))
}

// defaultPerIteration: some constant assignment / definition of local o is a top-level statement of a block enclosing
// `at`, positioned before it, and that block lies inside the outermost loop enclosing `at`; every assignment of o from
// a non-constant comes after it.
func defaultPerIteration(info *types.Info, f *FuncRef, o types.Object, at ast.Node) bool {
	pm := parentMap(f.Decl.Body)
	// enclosing blocks of `at`, innermost first, up to and including the body of the outermost enclosing loop
	var blocks []*ast.BlockStmt
	var outer ast.Node
	for cur := ast.Node(at); cur != nil; cur = pm[cur] {
		switch x := cur.(type) {
		case *ast.RangeStmt, *ast.ForStmt:
			outer = x
		}
	}
	if outer == nil {
		return false
	}
	for cur := ast.Node(at); cur != nil && cur != outer; cur = pm[cur] {
		if b, ok := cur.(*ast.BlockStmt); ok {
			blocks = append(blocks, b)
		}
	}
	var dflt ast.Stmt
	for _, b := range blocks {
		for _, st := range b.List {
			if st.Pos() >= at.Pos() {
				break
			}
			switch x := st.(type) {
			case *ast.AssignStmt:
				if len(x.Lhs) == len(x.Rhs) {
					for i, l := range x.Lhs {
						if identObj(info, l) == o && constOf(info, x.Rhs[i]) != nil {
							dflt = st
						}
					}
				}
			case *ast.DeclStmt:
				ast.Inspect(x, func(m ast.Node) bool {
					if vs, ok := m.(*ast.ValueSpec); ok {
						for i, nm := range vs.Names {
							if info.Defs[nm] == o && i < len(vs.Values) && constOf(info, vs.Values[i]) != nil {
								dflt = st
							}
						}
					}
					return true
				})
			}
		}
	}
	if dflt == nil {
		// or: the value is (re)assigned on every arm of an if/else that is a top-level statement of an enclosing block
		// before the literal — nothing of an earlier iteration survives either
		for _, b := range blocks {
			for _, st := range b.List {
				if st.Pos() >= at.Pos() {
					break
				}
				if is, ok := st.(*ast.IfStmt); ok && everyArmAssigns(info, is, o) {
					return true
				}
			}
		}
		return false
	}
	ok := true
	ast.Inspect(f.Decl.Body, func(m ast.Node) bool {
		if as, isA := m.(*ast.AssignStmt); isA && len(as.Lhs) == len(as.Rhs) {
			for i, l := range as.Lhs {
				if identObj(info, l) == o && constOf(info, as.Rhs[i]) == nil && (as.Pos() < dflt.Pos() || as.Pos() > at.Pos()) {
					ok = false
				}
			}
		}
		return true
	})
	return ok
}

// everyArmAssigns: an if / else-if / else chain with a final else in which every arm assigns (or defines) o at its top level.
func everyArmAssigns(info *types.Info, is *ast.IfStmt, o types.Object) bool {
	assigns := func(list []ast.Stmt) bool {
		for _, st := range list {
			if as, ok := st.(*ast.AssignStmt); ok {
				for _, l := range as.Lhs {
					if identObj(info, l) == o {
						return true
					}
				}
			}
		}
		return false
	}
	for cur := is; cur != nil; {
		if !assigns(cur.Body.List) {
			return false
		}
		switch e := cur.Else.(type) {
		case *ast.BlockStmt:
			return assigns(e.List)
		case *ast.IfStmt:
			cur = e
		default:
			return false
		}
	}
	return false
}

// lenNotOne: cond is `len(S) != 1` or `len(S) > 1`.
func lenNotOne(info *types.Info, cond ast.Expr, S types.Object) bool {
	be, ok := unparen(cond).(*ast.BinaryExpr)
	if !ok || (be.Op != token.NEQ && be.Op != token.GTR) || S == nil {
		return false
	}
	call, ok := unparen(be.X).(*ast.CallExpr)
	if !ok || builtinName(info, call) != "len" || len(call.Args) != 1 || identObj(info, call.Args[0]) != S {
		return false
	}
	v, isC := constInt(info, be.Y)
	return isC && v == 1
}

// stmtAfter: the statement that directly follows s in its statement list (nil if none).
func stmtAfter(root *ast.BlockStmt, s ast.Stmt) ast.Stmt {
	pm := parentMap(root)
	var list []ast.Stmt
	switch p := pm[s].(type) {
	case *ast.BlockStmt:
		list = p.List
	case *ast.CaseClause:
		list = p.Body
	case *ast.LabeledStmt:
		return stmtAfter(root, p)
	}
	for i, st := range list {
		if st == s && i+1 < len(list) {
			return list[i+1]
		}
	}
	return nil
}

// assocTable recognises the table form of the AssocType → precedence-type mapping in BuildLALR1 and fills the maps
// the switch form fills.
func assocTable(c *Ctx, fb *FuncRef, pt map[string]constant.Value, assoc2prec map[int64]string, defaultPrec *string) bool {
	info := fb.Pkg.TypesInfo
	precName := func(v constant.Value) string {
		for n, cv := range pt {
			if constant.Compare(v, token.EQL, cv) {
				return n
			}
		}
		return "?" + v.ExactString()
	}
	// the SetPrecType call and its argument
	var arg types.Object
	ast.Inspect(fb.Decl.Body, func(n ast.Node) bool {
		if call, ok := n.(*ast.CallExpr); ok && len(call.Args) == 1 {
			if fn := callee(info, call); fn != nil && fn.Name() == "SetPrecType" {
				arg = identObj(info, call.Args[0])
			}
		}
		return true
	})
	if arg == nil {
		return false
	}
	var table *types.Var
	var okVar types.Object
	dflt := ""
	nAssign := 0
	ast.Inspect(fb.Decl.Body, func(n ast.Node) bool {
		as, ok := n.(*ast.AssignStmt)
		if !ok {
			return true
		}
		for i, l := range as.Lhs {
			if identObj(info, l) != arg {
				continue
			}
			nAssign++
			if len(as.Lhs) == 2 && len(as.Rhs) == 1 && i == 0 {
				if ix, ok := unparen(as.Rhs[0]).(*ast.IndexExpr); ok && fieldNamed(info, ix.Index, "AssocType") {
					if tv, ok := identObj(info, ix.X).(*types.Var); ok && tv.Pkg() != nil && tv.Parent() == tv.Pkg().Scope() {
						table, okVar = tv, identObj(info, as.Lhs[1])
					}
				}
			} else if len(as.Lhs) == len(as.Rhs) {
				if cv := constOf(info, as.Rhs[i]); cv != nil {
					// the default, assigned exactly under `!known`
					atoms := guardAtoms(c, fb, as)
					for _, a := range atoms {
						if okVar != nil && a == "!($"+okVar.Name()+")" {
							dflt = precName(cv)
						}
					}
				}
			}
		}
		return true
	})
	if table == nil || dflt == "" || nAssign != 2 {
		return false
	}
	init, assigned := pkgVarInitOf(fb, table)
	lit, ok := init.(*ast.CompositeLit)
	if !ok || assigned {
		return false
	}
	for _, el := range lit.Elts {
		kv, ok := el.(*ast.KeyValueExpr)
		if !ok {
			return false
		}
		k, okk := constInt(info, kv.Key)
		v := constOf(info, kv.Value)
		if !okk || v == nil {
			return false
		}
		assoc2prec[k] = precName(v)
	}
	*defaultPrec = dflt
	return true
}
