package main

// C16 — generated code is well-formed for every accepted grammar.
// R11 STAGED WELL-FORMEDNESS: every template variant × fragment unrolling × representative action set parses and
// type-checks as Go with exactly the prologue/epilogue the property assumes; the TypeScript concatenation lexes,
// is bracket-balanced and calls only declared functions. Hole-context rule: a string hole that lands inside a
// string literal, a Printf format, a comment, an identifier or a selector must be safe for every value its
// provenance admits.

import (
	"fmt"
	"go/scanner"
	"go/token"
	"regexp"
	"sort"
	"strconv"
	"strings"
)

func init() { register("C16", checkC16) }

func checkC16(c *Ctx, r *Report) {
	r.Explanation = "The generated parser exists in the repository as two text/template constants plus the builders' format strings. For every documented configuration the template is parsed (never executed), holes are filled with the builders' statically extracted string shapes rendered abstractly (loops unrolled k times, typed placeholders, representative action bodies pushed through the extracted $$/$n replacement shapes), and the result is parsed with go/parser and type-checked with go/types against the prologue/epilogue the property assumes. This checks all grammars at once for everything that does not depend on user-chosen values. The hole-context rule lexes each skeleton with sentinels in the string holes and decides, per (provenance class, lexical context), whether every admissible value is safe. TypeScript: tokenizer + bracket tree (no TS compiler is installed). Not decided: duplicate case labels from equal user token numbers, contents of user prologue/epilogue/actions, TypeScript type errors."
	r.Assumptions = append(r.Assumptions,
		"the prologue names the package and imports fmt, the epilogue defines GetToken with the documented signature, the %union body is a valid struct field list",
		"placeholder values (distinct ints, identifiers T0…, tag `val`) are representative for type-checking: the emitted code's typing does not depend on the numeric values")
	st := c.GetStaged()
	for _, e := range st.Errs {
		r.Undecided("C16.a", "R11 STAGED", "staging", "-", e)
	}
	// prerequisite: the skeletons are checked with "exactly the assumed prologue / %union body / epilogue" in place —
	// that is only what the generator emits if those three texts reach the output as the user wrote them
	includeSome(r, "C16.a", func(sub *Report) { c10b(c, sub); c10SectionExtents(c, sub) },
		"arrives-unchanged", "value-is-the-text-between-the-markers", "closing-brace-balances-the-opening-one", "oneRule.ActionCode/writers")
	// prerequisite: user code (GetToken, actions) is assumed to compile against the declared token names — that needs
	// a constant for every named terminal the file declares, −1 tokens included (C11.c)
	includeSome(r, "C16.a", func(sub *Report) { c11c(c, sub, st) }, "buildConstPart/filter", "buildConstPart/name-value-pair")
	// … and the translate switch has one case per terminal: two terminals with one code are a duplicate case label.
	// Automatic codes stay clear of every explicit one only if the maximum is taken over all declarations first (C11.a)
	// and each automatic code is a pre-increment above it (C11.b)
	includeSome(r, "C16.a", func(sub *Report) { c11a(c, sub); c11b(c, sub) }, "max-scan-before-numbering", "pre-incremented-code")
	// … and a token's name becomes a Go identifier verbatim: the lexer's identifier class (letters, decimal digits,
	// `_`) is what makes every accepted name a legal one (C10.d)
	includeSome(r, "C16.a", func(sub *Report) { c10RootDispatch(c, sub, "C10.d") }, "identifier-continues-over-letters-digits-underscore")
	// … and a name is only ever a name: a lexical error ends the lexer, so the text of an error token cannot be
	// taken for a tag or a symbol where the parser does not look at a token's kind (C19.c)
	includeSome(r, "C16.a", func(sub *Report) { c19LexerErrorStops(c, sub, "C19.c") }, "a-lexical-error-stops-the-lexer")
	nSk := 0
	for _, sc := range st.Configs {
		name := "skeleton " + sc.V.Name
		for _, e := range sc.Errs {
			r.Undecided("C16.a", "R11 STAGED", name+"/shape-extraction", "Builder/GoTemplBuilder.go", "a builder construct is outside the recognised subset, the fragment's text cannot be bounded: "+e)
		}
		if sc.Tree == nil {
			r.Fail("C16.a", "R11 STAGED", name+"/template-parses", c.pos(sc.TemplPos), "the embedded template does not parse: "+strings.Join(sc.Errs, "; "))
			continue
		}
		// every field the template refers to is filled by the builder in this configuration: a field nobody assigns
		// renders as its zero value ("" / 0 / false) — e.g. NTERMINALS = 0 or an empty switch body
		if sc.Eval != nil && sc.Used != nil {
			missing := sortedKeys(sc.Unfilled)
			r.Check(len(missing) == 0, "C16.a", "R11 STAGED", name+"/every-template-field-is-filled", c.pos(sc.TemplPos),
				fmt.Sprintf("all %d fields the template consults in this configuration are assigned by the builder before the template is executed", len(sc.Used)),
				fmt.Sprintf("the template consults builder field(s) %v that nothing assigns in this configuration: they render as zero values", missing))
		}
		for _, sk := range sc.Skels {
			nSk++
			construct := fmt.Sprintf("%s/k=%d/actions=%d", name, sk.K, sk.ActSet)
			if sk.ParseEr != nil {
				r.Fail("C16.a", "R11 STAGED", construct, c.pos(sc.TemplPos), "the rendered parser is not syntactically valid Go: "+firstScanError(sk))
				continue
			}
			if len(sk.TypeErs) > 0 {
				r.Fail("C16.a", "R11 STAGED", construct, c.pos(sc.TemplPos), fmt.Sprintf("the rendered parser does not type-check (%d error(s)); first: %s", len(sk.TypeErs), sk.TypeErs[0]))
				continue
			}
			r.OK("C16.a", "R11 STAGED", construct, c.pos(sc.TemplPos), fmt.Sprintf("%d bytes of Go parse and type-check (template %s)", len(sk.Src), sc.TemplVar))
		}
		c16HoleContexts(c, r, sc)
	}
	r.Extra["C16_skeletons"] = nSk
	if nSk < 4 {
		r.Undecided("C16.a", "R11 STAGED", "skeletons", "-", fmt.Sprintf("only %d skeletons were rendered, 4 configurations are documented", nSk))
	}
	// the template engine is text/template (no escaping)
	if wf := c.need(r, "C16.a", "Builder", "TemplateBuilder", "WriteFile"); wf != nil {
		ok := false
		for _, f := range wf.Pkg.Syntax {
			for _, im := range f.Imports {
				if im.Path.Value == `"text/template"` {
					ok = true
				}
				if im.Path.Value == `"html/template"` {
					ok = false
				}
			}
		}
		r.Check(ok, "C16.a", "R11 STAGED", wf.Name+"/text-template", c.pos(wf.Decl.Pos()), "the Builder package renders with text/template (no HTML escaping of the fragments)", "the Builder package does not import text/template (html/template would escape the generated code)")
	}
	c16TS(c, r, st)
}

func firstScanError(sk *Skeleton) string {
	if sk.ParseEr == nil {
		return ""
	}
	if el, ok := sk.ParseEr.(scanner.ErrorList); ok && len(el) > 0 {
		lines := strings.Split(sk.Src, "\n")
		ln := el[0].Pos.Line
		ctx := ""
		if ln-1 < len(lines) && ln > 0 {
			ctx = strings.TrimSpace(lines[ln-1])
		}
		return fmt.Sprintf("%s (line %d: `%s`)", el[0].Msg, ln, ctx)
	}
	return sk.ParseEr.Error()
}

// ---------------------------------------------------------------------------------------------
// hole contexts

const sentOpen, sentClose = "\uE000", "\uE001"

var reSentinel = regexp.MustCompile(`(?:\x{E000}|\\ue000)(\d+)(?:\x{E001}|\\ue001)`)

type holeUse struct {
	h       *SHole
	field   string
	context string // string, format, comment, code-ident, code-selector, code
	detail  string
}

// holeClass classifies the provenance of a string hole.
func holeClass(h *SHole) string {
	p := h.Path
	if h.Verb == "c" {
		return "character"
	}
	switch {
	case strings.HasSuffix(p, ".ActionCode"):
		return "action"
	case strings.HasSuffix(p, ".Tag"):
		return "tag"
	case strings.HasPrefix(p, "Parser.RemoveTempName(") && strings.HasSuffix(p, ".Name)"):
		return "display-name"
	case strings.HasSuffix(p, ".Name"):
		return "name"
	case strings.HasSuffix(p, ".Alias"):
		return "alias"
	case strings.HasSuffix(p, ".GetCode()"), strings.HasSuffix(p, ".GetCodeCopy()"), strings.HasSuffix(p, ".GetUion()"):
		return "user-section"
	case p == "$match" || p == "$match[1:]":
		return "digits"
	case (strings.HasPrefix(p, "strconv.Itoa(") || strings.HasPrefix(p, "fmt.Sprint(")) && strings.HasSuffix(p, ")") && h.Itoa:
		return "digits" // the decimal text of an integer (optionally signed)
	}
	return "other"
}

func c16HoleContexts(c *Ctx, r *Report, sc *StagedConfig) {
	const clause = "C16.b"
	// render once with sentinels in every string hole (k = 1, first action set)
	rd := &renderer{c: c, k: 1, actSet: 1}
	var holes []*SHole
	quotedHole := map[int]bool{}
	neutralised := map[int]bool{}
	rd.sentinel = func(h *SHole) (string, bool) {
		if h.Verb == "c" && isIntType(h.Typ) {
			holes = append(holes, h)
			return sentOpen + strconv.Itoa(len(holes)-1) + sentClose, true
		}
		if !isStringType(h.Typ) {
			return "", false
		}
		cls := holeClass(h)
		if cls == "user-section" || cls == "digits" {
			return "", false
		}
		holes = append(holes, h)
		if rd.quoted > 0 {
			quotedHole[len(holes)-1] = true
		}
		for _, rp := range rd.repls {
			if l, ok := rp.New.(*SLit); ok && !rp.IsRegex && rp.Old == "*/" && !strings.Contains(l.S, "*/") {
				neutralised[len(holes)-1] = true
			}
		}
		s := sentOpen + strconv.Itoa(len(holes)-1) + sentClose
		if cls == "action" {
			s += " $$ = $1" // so that the $$ / $n replacement shapes are rendered too
		}
		if h.Verb == "q" {
			return strconv.Quote(s), true
		}
		return s, true
	}
	rd.bothAlts = true
	src := sc.renderTemplate(rd)
	// lex
	fset := token.NewFileSet()
	file := fset.AddFile("sentinel.go", -1, len(src))
	var s scanner.Scanner
	s.Init(file, []byte(src), func(pos token.Position, msg string) {}, scanner.ScanComments)
	ctxOf := map[int]string{}
	detail := map[int]string{}
	prevTok := token.ILLEGAL
	prevLit := ""
	var prevCall string // identifier before the last '('
	var lastIdent string
	for {
		_, tok, lit := s.Scan()
		if tok == token.EOF {
			break
		}
		for _, m := range reSentinel.FindAllStringSubmatch(lit, -1) {
			id, _ := strconv.Atoi(m[1])
			switch tok {
			case token.STRING:
				ctxOf[id] = "string"
				if strings.HasPrefix(prevCall, "Printf") || strings.HasPrefix(prevCall, "Sprintf") || strings.HasPrefix(prevCall, "Errorf") {
					// first argument of a formatting call
					if prevTok == token.LPAREN {
						ctxOf[id] = "format"
					}
				}
				if holes[id].Verb == "q" || quotedHole[id] {
					if ctxOf[id] == "format" {
						ctxOf[id] = "quoted-format"
					} else {
						ctxOf[id] = "quoted"
					}
				}
				detail[id] = strings.ReplaceAll(reSentinel.ReplaceAllString(lit, "‹hole›"), "\n", " ")
			case token.COMMENT:
				ctxOf[id] = "comment"
			case token.CHAR:
				ctxOf[id] = "char"
			}
		}
		if tok == token.ILLEGAL || tok == token.IDENT {
			// sentinel characters in code position are scanned as ILLEGAL runs; classify by neighbours below
		}
		if tok == token.IDENT {
			lastIdent = lit
		}
		if tok == token.LPAREN {
			prevCall = lastIdent
		}
		if tok != token.COMMENT {
			prevTok, prevLit = tok, lit
		}
	}
	_ = prevLit
	// holes not inside a literal token: code context, refined by the characters around the sentinel
	for id := range holes {
		if _, ok := ctxOf[id]; ok {
			continue
		}
		mark := sentOpen + strconv.Itoa(id) + sentClose
		i := strings.Index(src, mark)
		if i < 0 {
			ctxOf[id] = "absent"
			continue
		}
		before := strings.TrimRight(src[:i], " \t")
		after := src[i+len(mark):]
		switch {
		case strings.HasSuffix(before, "."):
			ctxOf[id] = "code-selector"
		case strings.HasSuffix(before, "const") || strings.HasSuffix(before, "var") || strings.HasSuffix(before, "func") || strings.HasSuffix(before, "type"):
			ctxOf[id] = "code-declared-name"
		default:
			ctxOf[id] = "code"
		}
		if len(after) > 20 {
			after = after[:20]
		}
		if len(before) > 30 {
			before = before[len(before)-30:]
		}
		detail[id] = strings.ReplaceAll(before+"‹hole›"+after, "\n", " ")
	}
	// verdict per (class, context)
	type key struct{ fn, class, ctx string }
	seen := map[key]bool{}
	var ids []int
	for id := range holes {
		ids = append(ids, id)
	}
	sort.Ints(ids)
	for _, id := range ids {
		h := holes[id]
		cls, ctx := holeClass(h), ctxOf[id]
		k := key{h.Fn, cls + ":" + h.Path, ctx}
		if seen[k] || ctx == "absent" {
			continue
		}
		seen[k] = true
		construct := fmt.Sprintf("%s/hole %s in %s context", h.Fn, shortPath(h.Path), ctx)
		if sc.V.Name != "go/global/packed" {
			// the builders are shared by all configurations; report a (function, hole, context) once, except when a
			// configuration yields a context not seen before
			if holeSeenGlobal[construct] {
				continue
			}
		}
		holeSeenGlobal[construct] = true
		verdict, why := holeVerdict(cls, ctx)
		if cls == "action" && ctx == "comment" && neutralised[id] {
			verdict, why = "safe", "the echoed action text passes through ReplaceAll(\"*/\", …) first: it cannot close the generated comment"
		}
		pos := c.pos(h.Pos)
		switch verdict {
		case "safe":
			r.OK(clause, "R11 HOLE-CONTEXT", construct, pos, why+" — `"+detail[id]+"`")
		case "unsafe":
			r.Fail(clause, "R11 HOLE-CONTEXT", construct, pos, why+" — emitted as `"+detail[id]+"`")
		default:
			r.Undecided(clause, "R11 HOLE-CONTEXT", construct, pos, "no rule for provenance class "+cls+" in "+ctx+" context — `"+detail[id]+"`")
		}
	}
}

var holeSeenGlobal = map[string]bool{}

func shortPath(p string) string {
	p = strings.ReplaceAll(p, "recv.vnode.LALR1.G.", "G.")
	p = strings.ReplaceAll(p, "recv.vnode.", "")
	if len(p) > 70 {
		p = "…" + p[len(p)-70:]
	}
	return p
}

// holeVerdict: is every value the provenance class admits safe in the lexical context?
func holeVerdict(class, ctx string) (string, string) {
	switch class {
	case "action":
		switch ctx {
		case "code":
			return "safe", "the action body is the user's code in statement position (its content is the user's responsibility)"
		case "comment":
			return "unsafe", "the action text is echoed inside a /* … */ comment without neutralising `*/`: an action that itself contains a /* … */ comment closes the generated comment early and the rest of the echo is parsed as code (the generated file does not compile)"
		}
	case "display-name":
		// RemoveTempName(sym.Name): identifiers, or 'c' for a character literal with an arbitrary character c
		switch ctx {
		case "comment":
			return "safe", "a symbol name or quoted single character cannot contain `*/`"
		case "quoted":
			return "safe", "emitted through %q: a valid Go string literal for every value"
		case "quoted-format":
			return "unsafe", "the symbol's display name is quoted with %q but the quoted literal is then used as a Printf FORMAT: the token '%' is taken for a verb, swallows an argument and the trace line prints %!…(MISSING) (go vet also fails)"
		case "string":
			return "unsafe", "a symbol's display name is pasted between double quotes unescaped: the character-literal token '\"' yields `\"'\"' \"`, which is not a valid Go string (the generated file does not compile)"
		case "format":
			return "unsafe", "a symbol's display name is pasted into a Printf format string unescaped: the token '\"' breaks the literal (the file does not compile) and the token '%' is taken for a verb (go vet fails, the trace prints %!…)"
		}
	case "name":
		switch ctx {
		case "quoted":
			return "safe", "emitted through %q: a valid Go string literal for every value"
		case "comment":
			return "safe", "inside a comment; names cannot contain `*/`"
		case "code-declared-name":
			return "unsafe", "a token name becomes a Go constant identifier verbatim: a token named like a Go keyword (type, func, range, …) or like an identifier of the generated parser (Parser, Context, StateSym, IsTrace, …) makes the file fail to compile"
		}
	case "alias":
		// the text between the double quotes of `%token NAME "alias"`: any characters, possibly none
		switch ctx {
		case "quoted":
			return "safe", "emitted through %q: a valid Go string literal for every value"
		case "quoted-format":
			return "unsafe", "an alias is quoted with %q but the literal is then used as a Printf format: a `%` in it is taken for a verb"
		case "string", "format", "comment", "code", "code-selector", "code-declared-name", "char":
			return "unsafe", "a token alias is arbitrary user text: pasted unescaped into " + ctx + " context it can end the literal / comment or form other code"
		}
	case "character":
		switch ctx {
		case "char":
			return "unsafe", "a token's code is pasted between single quotes as a character (%c): for the single-quote token (or a backslash or newline) the result is not a valid rune literal and the generated file does not compile"
		case "comment":
			return "safe", "inside a comment"
		}
	case "tag":
		switch ctx {
		case "code-selector", "code":
			return "unsafe", "the value tag follows `dollarDolar.` / `Dollar[n].` verbatim: for a symbol without %type/%token tag the selector is empty (`dollarDolar. = …`) and the file does not compile, yet generation reports no error"
		case "comment":
			return "safe", "inside a comment"
		}
	}
	return "unknown", ""
}

// ---------------------------------------------------------------------------------------------
// TypeScript

func c16TS(c *Ctx, r *Report, st *Staged) {
	const clause = "C16.c"
	ts := st.TS
	name := "typescript/output"
	if ts == nil || ts.Eval == nil {
		r.Undecided(clause, "TS WELL-FORMED", name, "Builder/TsGenCode.go", "TypeScript backend could not be staged")
		return
	}
	for _, e := range ts.Errs {
		r.Undecided(clause, "TS WELL-FORMED", name+"/shape-extraction", "Builder/TsGenCode.go", e)
	}
	if ts.LexEr != "" {
		r.Fail(clause, "TS WELL-FORMED", name+"/lexes", "Builder/TsGenCode.go", "the concatenated TypeScript does not lex: "+ts.LexEr)
		return
	}
	bal := tsBalance(ts.Toks)
	r.Check(bal == "", clause, "TS WELL-FORMED", name+"/brackets-balanced", "Builder/TsGenCode.go",
		fmt.Sprintf("%d tokens: (), [], {} are balanced across the concatenation in write order %v", len(ts.Toks), ts.Order), bal)
	// write order: declarations the driver needs come from the builder, the epilogue last
	want := []string{"CodeHeader", "ConstPart", "UnionPart", "AnalyTable", "StateFunc", "ReduceFunc", "Translate", "CodeLast"}
	missing := []string{}
	have := map[string]bool{}
	for _, o := range ts.Order {
		have[o] = true
	}
	for _, w := range want {
		if !have[w] {
			missing = append(missing, w)
		}
	}
	r.Check(len(missing) == 0, clause, "TS WELL-FORMED", name+"/all-fragments-written", "Builder/TsGenCode.go", "all eight fragments are written", "fragments never written: "+strings.Join(missing, ", "))
	// every function parses; called global functions are declared
	declared := map[string]bool{"console.error": true, "console.log": true}
	for n := range ts.Funcs {
		declared[n] = true
	}
	for i := 0; i+1 < len(ts.Toks); i++ {
		if ts.Toks[i].kind == "ident" && ts.Toks[i].text == "class" && ts.Toks[i+1].kind == "ident" {
			declared["new "+ts.Toks[i+1].text] = true
		}
	}
	bad := ""
	nCalls := 0
	var names []string
	for n := range ts.Funcs {
		names = append(names, n)
	}
	sort.Strings(names)
	for _, n := range names {
		f := ts.Funcs[n]
		if f.ParseE != "" {
			bad = "function " + n + " does not parse: " + f.ParseE
		}
		for _, cl := range tsCalls(f.Toks) {
			nCalls++
			if strings.Contains(cl, ".") && !strings.HasPrefix(cl, "console.") {
				continue // method call on a value
			}
			if !declared[cl] {
				bad = "function " + n + " calls `" + cl + "`, which no fragment declares"
			}
		}
	}
	for _, need := range []string{"Parser", "ReduceFunc", "PushStateSym", "PopStateSym", "initialize", "translate", "fetchLookAhead"} {
		if ts.Funcs[need] == nil {
			bad = "the output does not declare function " + need
		}
	}
	r.Check(bad == "", clause, "TS WELL-FORMED", name+"/functions-declared", "Builder/TsGenCode.go",
		fmt.Sprintf("%d functions parse in the supported statement subset; all %d global calls refer to declared functions or classes (GetToken from the epilogue)", len(ts.Funcs), nCalls), bad)
}
