package main

// astutil.go — resolved-program helpers shared by the rules: callee resolution, constants by value,
// canonical access paths with local single-definition substitution, CFG dominance.

import (
	"fmt"
	"go/ast"
	"go/constant"
	"go/token"
	"go/types"
	"sort"
	"strings"

	"golang.org/x/tools/go/cfg"
	"golang.org/x/tools/go/types/typeutil"
)

func callee(info *types.Info, call *ast.CallExpr) *types.Func {
	if f, ok := typeutil.Callee(info, call).(*types.Func); ok {
		return f
	}
	return nil
}

// funcFullName returns e.g. "fmt.Sprintf" or "(*github.com/acekingke/yaccgo/LALR.LALR1).GenErrorCode".
func funcFullName(f *types.Func) string {
	if f == nil {
		return ""
	}
	return f.FullName()
}

// shortFuncName trims the module path: "(*LALR.LALR1).GenErrorCode", "Parser.RemoveTempName".
func shortFuncName(f *types.Func) string {
	return strings.ReplaceAll(funcFullName(f), modPath+"/", "")
}

func isCallTo(info *types.Info, call *ast.CallExpr, full string) bool {
	return shortFuncName(callee(info, call)) == full
}

func builtinName(info *types.Info, call *ast.CallExpr) string {
	if id, ok := unparen(call.Fun).(*ast.Ident); ok {
		if b, ok := info.Uses[id].(*types.Builtin); ok {
			return b.Name()
		}
	}
	return ""
}

func unparen(e ast.Expr) ast.Expr {
	for {
		p, ok := e.(*ast.ParenExpr)
		if !ok {
			return e
		}
		e = p.X
	}
}

func constOf(info *types.Info, e ast.Expr) constant.Value {
	if tv, ok := info.Types[e]; ok && tv.Value != nil {
		return tv.Value
	}
	return nil
}

func constInt(info *types.Info, e ast.Expr) (int64, bool) {
	v := constOf(info, e)
	if v == nil || v.Kind() != constant.Int {
		return 0, false
	}
	return constant.Int64Val(v)
}

func constString(info *types.Info, e ast.Expr) (string, bool) {
	v := constOf(info, e)
	if v == nil || v.Kind() != constant.String {
		return "", false
	}
	return constant.StringVal(v), true
}

func objOf(info *types.Info, id *ast.Ident) types.Object {
	if o := info.Uses[id]; o != nil {
		return o
	}
	return info.Defs[id]
}

// identObj returns the object of e when e is a (parenthesised) identifier.
func identObj(info *types.Info, e ast.Expr) types.Object {
	if id, ok := unparen(e).(*ast.Ident); ok {
		return objOf(info, id)
	}
	return nil
}

// ---------------------------------------------------------------------------------------------
// Local definitions: variables of a function that are assigned exactly once (":=", "var x = e",
// range variables are recorded as element markers). Used to substitute locals into access paths so
// that hoisting an expression into a variable, or inlining it back, does not change a provenance.

type Defs struct {
	info    *types.Info
	single  map[types.Object]ast.Expr // object -> defining expression (single definition)
	count   map[types.Object]int
	rangeOf map[types.Object]string // range key/value variables: canonical description
	params  map[types.Object]string // substituted parameters (for inlined callees)
}

func newDefs(info *types.Info) *Defs {
	return &Defs{info: info, single: map[types.Object]ast.Expr{}, count: map[types.Object]int{}, rangeOf: map[types.Object]string{}, params: map[types.Object]string{}}
}

func (d *Defs) scan(body ast.Node) {
	ast.Inspect(body, func(n ast.Node) bool {
		switch s := n.(type) {
		case *ast.AssignStmt:
			if len(s.Lhs) == len(s.Rhs) {
				for i, l := range s.Lhs {
					if o := identObj(d.info, l); o != nil {
						d.count[o]++
						if s.Tok == token.DEFINE || s.Tok == token.ASSIGN {
							d.single[o] = s.Rhs[i]
						} else {
							d.count[o]++ // compound assignment: never single
						}
					}
				}
			} else {
				for _, l := range s.Lhs {
					if o := identObj(d.info, l); o != nil {
						d.count[o] += 2
					}
				}
			}
		case *ast.IncDecStmt:
			if o := identObj(d.info, s.X); o != nil {
				d.count[o] += 2
			}
		case *ast.ValueSpec:
			for i, name := range s.Names {
				o := d.info.Defs[name]
				if o == nil {
					continue
				}
				if i < len(s.Values) {
					d.count[o]++
					d.single[o] = s.Values[i]
				}
			}
		case *ast.RangeStmt:
			if s.Tok == token.DEFINE {
				if k := identObj(d.info, s.Key); k != nil {
					d.count[k] += 1
					d.rangeOf[k] = "key"
				}
				if v := identObj(d.info, s.Value); v != nil {
					d.count[v] += 1
					d.rangeOf[v] = "elem"
				}
			}
		case *ast.UnaryExpr:
			if s.Op == token.AND { // address taken: may be written through the pointer
				if o := identObj(d.info, s.X); o != nil {
					d.count[o] += 2
				}
			}
		}
		return true
	})
}

// rangeStmtOf finds the RangeStmt that defines obj as key or value inside root.
func rangeStmtOf(info *types.Info, root ast.Node, obj types.Object) (rs *ast.RangeStmt, isKey bool) {
	ast.Inspect(root, func(n ast.Node) bool {
		if s, ok := n.(*ast.RangeStmt); ok {
			if identObj(info, s.Key) == obj && obj != nil {
				rs, isKey = s, true
			}
			if identObj(info, s.Value) == obj && obj != nil {
				rs, isKey = s, false
			}
		}
		return rs == nil
	})
	return
}

// Path renders an expression as a canonical access path: local single-definition variables are replaced
// by their definitions, range value variables by "elem(<ranged path>)", embedded-field promotions are
// made explicit, method calls are written with their resolved full name.
type pathCtx struct {
	info  *types.Info
	defs  *Defs
	root  ast.Node // function body, to resolve range variables
	subst map[types.Object]string
	depth int
}

func (p *pathCtx) path(e ast.Expr) string {
	p.depth++
	defer func() { p.depth-- }()
	if p.depth > 40 {
		return "<deep>"
	}
	e = unparen(e)
	if v := constOf(p.info, e); v != nil {
		if _, isIdent := e.(*ast.Ident); !isIdent || true {
			return v.ExactString()
		}
	}
	switch x := e.(type) {
	case *ast.Ident:
		o := objOf(p.info, x)
		if o == nil {
			return x.Name
		}
		if s, ok := p.subst[o]; ok {
			return s
		}
		if _, ok := o.(*types.Var); ok {
			if o.Parent() == o.Pkg().Scope() {
				return shortPkg(o.Pkg()) + "." + o.Name()
			}
			if p.defs != nil {
				if kind, ok := p.defs.rangeOf[o]; ok && p.defs.count[o] == 1 && p.root != nil {
					if rs, isKey := rangeStmtOf(p.info, p.root, o); rs != nil {
						if isKey {
							return "key(" + p.path(rs.X) + ")"
						}
						_ = kind
						return "elem(" + p.path(rs.X) + ")"
					}
				}
				if d, ok := p.defs.single[o]; ok && p.defs.count[o] == 1 {
					return p.path(d)
				}
			}
			return "$" + o.Name()
		}
		if f, ok := o.(*types.Func); ok {
			return shortFuncName(f)
		}
		return o.Name()
	case *ast.SelectorExpr:
		if sel, ok := p.info.Selections[x]; ok {
			base := p.path(x.X)
			// expand embedded promotions
			t := sel.Recv()
			idx := sel.Index()
			for i := 0; i < len(idx)-1; i++ {
				st := structOf(t)
				if st == nil {
					break
				}
				f := st.Field(idx[i])
				base += "." + f.Name()
				t = f.Type()
			}
			return base + "." + sel.Obj().Name()
		}
		// qualified identifier
		if o := p.info.Uses[x.Sel]; o != nil && o.Pkg() != nil {
			return shortPkg(o.Pkg()) + "." + o.Name()
		}
		return p.path(x.X) + "." + x.Sel.Name
	case *ast.IndexExpr:
		return p.path(x.X) + "[" + p.path(x.Index) + "]"
	case *ast.SliceExpr:
		lo, hi := "", ""
		if x.Low != nil {
			lo = p.path(x.Low)
		}
		if x.High != nil {
			hi = p.path(x.High)
		}
		return p.path(x.X) + "[" + lo + ":" + hi + "]"
	case *ast.StarExpr:
		return "*" + p.path(x.X)
	case *ast.UnaryExpr:
		return x.Op.String() + p.path(x.X)
	case *ast.BinaryExpr:
		// comparisons with a constant (or nil) are written constant-last: `1 == x.T` and `x.T == 1` are one path
		if flipped, isCmp := flipCmp[x.Op]; isCmp && p.isConstOperand(x.X) && !p.isConstOperand(x.Y) {
			return "(" + p.path(x.Y) + " " + flipped.String() + " " + p.path(x.X) + ")"
		}
		return "(" + p.path(x.X) + " " + x.Op.String() + " " + p.path(x.Y) + ")"
	case *ast.CallExpr:
		var args []string
		for _, a := range x.Args {
			args = append(args, p.path(a))
		}
		if b := builtinName(p.info, x); b != "" {
			return b + "(" + strings.Join(args, ", ") + ")"
		}
		if tv, ok := p.info.Types[x.Fun]; ok && tv.IsType() { // conversion
			return types.TypeString(tv.Type, shortQual) + "(" + strings.Join(args, ", ") + ")"
		}
		if f := callee(p.info, x); f != nil {
			if se, ok := unparen(x.Fun).(*ast.SelectorExpr); ok {
				if _, isSel := p.info.Selections[se]; isSel {
					// Token.Is(kind) with no value list is the comparison `tok.Kind == kind` (see isKindTest): one
					// canonical form for `if tok.Is(K)` and `switch tok.Kind { case K: }`
					if len(args) == 1 && isKindTest(f) {
						return "(" + p.path(se.X) + ".Kind == " + args[0] + ")"
					}
					return p.path(se.X) + "." + f.Name() + "(" + strings.Join(args, ", ") + ")"
				}
			}
			return shortFuncName(f) + "(" + strings.Join(args, ", ") + ")"
		}
		return p.path(x.Fun) + "(" + strings.Join(args, ", ") + ")"
	case *ast.BasicLit:
		return x.Value
	case *ast.CompositeLit:
		return "composite{" + types.ExprString(x.Type) + "}"
	case *ast.FuncLit:
		return "funclit"
	case *ast.TypeAssertExpr:
		return p.path(x.X) + ".(" + types.ExprString(x.Type) + ")"
	}
	return fmt.Sprintf("<%T>", e)
}

// pathCtxFor: canonical paths inside f with single-definition locals replaced by their definitions.
func pathCtxFor(f *FuncRef) *pathCtx {
	defs := newDefs(f.Pkg.TypesInfo)
	defs.scan(f.Decl.Body)
	return &pathCtx{info: f.Pkg.TypesInfo, defs: defs, root: f.Decl.Body}
}

func shortQual(p *types.Package) string { return shortPkg(p) }

func shortPkg(p *types.Package) string {
	if p == nil {
		return ""
	}
	return strings.TrimPrefix(p.Path(), modPath+"/")
}

func structOf(t types.Type) *types.Struct {
	for {
		switch u := t.(type) {
		case *types.Pointer:
			t = u.Elem()
			continue
		case *types.Named:
			t = u.Underlying()
			continue
		case *types.Struct:
			return u
		}
		if a, ok := t.(*types.Alias); ok {
			t = types.Unalias(a)
			continue
		}
		return nil
	}
}

// fieldVar resolves a selector to the struct field it selects, nil otherwise.
func fieldVar(info *types.Info, e ast.Expr) *types.Var {
	se, ok := unparen(e).(*ast.SelectorExpr)
	if !ok {
		return nil
	}
	if sel, ok := info.Selections[se]; ok && sel.Kind() == types.FieldVal {
		if v, ok := sel.Obj().(*types.Var); ok {
			return v
		}
	}
	return nil
}

// fieldName returns "Struct.Field"-like readable name for a field var (only the field name and package).
func fieldName(v *types.Var) string {
	if v == nil {
		return ""
	}
	return v.Name()
}

// ---------------------------------------------------------------------------------------------
// CFG helpers

type FuncCFG struct {
	g     *cfg.CFG
	info  *types.Info
	where map[ast.Node]*cfg.Block // statement/expression node -> block
	index map[ast.Node]int        // position inside block
	idom  map[*cfg.Block]*cfg.Block
	preds map[*cfg.Block][]*cfg.Block
	order []*cfg.Block
}

// noReturn: calls to panic and os.Exit do not return.
func mayReturn(info *types.Info) func(*ast.CallExpr) bool {
	return func(call *ast.CallExpr) bool {
		if builtinName(info, call) == "panic" {
			return false
		}
		if f := callee(info, call); f != nil && f.FullName() == "os.Exit" {
			return false
		}
		return true
	}
}

func buildCFG(info *types.Info, body *ast.BlockStmt) *FuncCFG {
	g := cfg.New(body, mayReturn(info))
	fc := &FuncCFG{g: g, info: info, where: map[ast.Node]*cfg.Block{}, index: map[ast.Node]int{}, idom: map[*cfg.Block]*cfg.Block{}, preds: map[*cfg.Block][]*cfg.Block{}}
	for _, b := range g.Blocks {
		for i, n := range b.Nodes {
			fc.where[n] = b
			fc.index[n] = i
		}
		for _, s := range b.Succs {
			fc.preds[s] = append(fc.preds[s], b)
		}
	}
	fc.computeDominators()
	return fc
}

func (fc *FuncCFG) computeDominators() {
	if len(fc.g.Blocks) == 0 {
		return
	}
	entry := fc.g.Blocks[0]
	// reachable blocks in reverse postorder
	seen := map[*cfg.Block]bool{}
	var post []*cfg.Block
	var dfs func(b *cfg.Block)
	dfs = func(b *cfg.Block) {
		seen[b] = true
		for _, s := range b.Succs {
			if !seen[s] {
				dfs(s)
			}
		}
		post = append(post, b)
	}
	dfs(entry)
	rpo := make([]*cfg.Block, len(post))
	num := map[*cfg.Block]int{}
	for i := range post {
		rpo[i] = post[len(post)-1-i]
		num[rpo[i]] = i
	}
	fc.order = rpo
	fc.idom[entry] = entry
	changed := true
	for changed {
		changed = false
		for _, b := range rpo[1:] {
			var nd *cfg.Block
			for _, p := range fc.preds[b] {
				if _, ok := fc.idom[p]; !ok {
					continue
				}
				if nd == nil {
					nd = p
					continue
				}
				// intersect
				a, c := p, nd
				for a != c {
					for num[a] > num[c] {
						a = fc.idom[a]
					}
					for num[c] > num[a] {
						c = fc.idom[c]
					}
				}
				nd = a
			}
			if nd != nil && fc.idom[b] != nd {
				fc.idom[b] = nd
				changed = true
			}
		}
	}
}

// locate finds the CFG block and index holding node n (n itself or the innermost registered ancestor
// that contains it: cfg registers statements and some expressions).
func (fc *FuncCFG) locate(n ast.Node) (*cfg.Block, int, bool) {
	if b, ok := fc.where[n]; ok {
		return b, fc.index[n], true
	}
	// search containing registered node
	var best ast.Node
	for reg := range fc.where {
		if reg.Pos() <= n.Pos() && n.End() <= reg.End() {
			if best == nil || (reg.End()-reg.Pos()) < (best.End()-best.Pos()) {
				best = reg
			}
		}
	}
	if best != nil {
		return fc.where[best], fc.index[best], true
	}
	// a statement the CFG has split into parts (e.g. a DeclStmt registered as its ValueSpecs, an if registered as
	// its condition): the first registered node inside n
	for reg := range fc.where {
		if n.Pos() <= reg.Pos() && reg.End() <= n.End() {
			if best == nil || reg.Pos() < best.Pos() {
				best = reg
			}
		}
	}
	if best != nil {
		return fc.where[best], fc.index[best], true
	}
	return nil, 0, false
}

func (fc *FuncCFG) blockDominates(a, b *cfg.Block) bool {
	for {
		if a == b {
			return true
		}
		d, ok := fc.idom[b]
		if !ok || d == b {
			return false
		}
		b = d
	}
}

// Dominates reports whether node a is executed on every path from function entry to node b.
func (fc *FuncCFG) Dominates(a, b ast.Node) bool {
	ba, ia, ok1 := fc.locate(a)
	bb, ib, ok2 := fc.locate(b)
	if !ok1 || !ok2 {
		return false
	}
	if ba == bb {
		if ia == ib {
			return a.Pos() <= b.Pos()
		}
		return ia < ib
	}
	return fc.blockDominates(ba, bb)
}

// Reachable reports whether some path leads from just after node a to node b.
func (fc *FuncCFG) Reachable(a, b ast.Node) bool {
	ba, ia, ok1 := fc.locate(a)
	bb, ib, ok2 := fc.locate(b)
	if !ok1 || !ok2 {
		return true // unknown: conservative
	}
	if ba == bb && ia < ib {
		return true
	}
	seen := map[*cfg.Block]bool{}
	var stack []*cfg.Block
	stack = append(stack, ba.Succs...)
	for len(stack) > 0 {
		x := stack[len(stack)-1]
		stack = stack[:len(stack)-1]
		if seen[x] {
			continue
		}
		seen[x] = true
		if x == bb {
			return true
		}
		stack = append(stack, x.Succs...)
	}
	return false
}

// PostDominatesExit: every path from node a to a normal function exit (return / fall off the end) passes
// through some node satisfying pred strictly after a. Paths ending in panic are ignored (no normal exit).
func (fc *FuncCFG) EveryPathToExitPasses(a ast.Node, pred func(ast.Node) bool) bool {
	ba, ia, ok := fc.locate(a)
	if !ok {
		return false
	}
	for _, n := range ba.Nodes[ia+1:] {
		if pred(n) {
			return true
		}
	}
	seen := map[*cfg.Block]bool{}
	var walk func(b *cfg.Block) bool
	walk = func(b *cfg.Block) bool {
		if seen[b] {
			return true
		}
		seen[b] = true
		for _, n := range b.Nodes {
			if pred(n) {
				return true
			}
		}
		if len(b.Succs) == 0 {
			// exit block: normal exit unless it ends in a no-return call
			if len(b.Nodes) > 0 {
				if es, ok := b.Nodes[len(b.Nodes)-1].(*ast.ExprStmt); ok {
					if call, ok := es.X.(*ast.CallExpr); ok && !mayReturn(fc.info)(call) {
						return true
					}
				}
			}
			return false
		}
		for _, s := range b.Succs {
			if !walk(s) {
				return false
			}
		}
		return true
	}
	if len(ba.Succs) == 0 {
		return false
	}
	for _, s := range ba.Succs {
		if !walk(s) {
			return false
		}
	}
	return true
}

// ---------------------------------------------------------------------------------------------
// misc

func sortedKeys(m map[string]bool) []string {
	var out []string
	for k := range m {
		out = append(out, k)
	}
	sort.Strings(out)
	return out
}

// enclosingFuncBody: walk file to find FuncDecl containing pos
func exprString(e ast.Expr) string { return types.ExprString(e) }

// findCalls returns every call expression in root whose resolved callee short name equals name.
func findCalls(info *types.Info, root ast.Node, name string) []*ast.CallExpr {
	var out []*ast.CallExpr
	ast.Inspect(root, func(n ast.Node) bool {
		if call, ok := n.(*ast.CallExpr); ok {
			if isCallTo(info, call, name) {
				out = append(out, call)
			}
		}
		return true
	})
	return out
}

// stmtOf returns the innermost statement in root that contains node n.
func stmtOf(root ast.Node, n ast.Node) ast.Stmt {
	var best ast.Stmt
	ast.Inspect(root, func(m ast.Node) bool {
		if m == nil {
			return false
		}
		if m.Pos() <= n.Pos() && n.End() <= m.End() {
			if s, ok := m.(ast.Stmt); ok {
				if _, isBlock := s.(*ast.BlockStmt); !isBlock {
					best = s
				}
			}
			return true
		}
		return false
	})
	return best
}

// parentMap builds child->parent links for a subtree.
func parentMap(root ast.Node) map[ast.Node]ast.Node {
	pm := map[ast.Node]ast.Node{}
	var stack []ast.Node
	ast.Inspect(root, func(n ast.Node) bool {
		if n == nil {
			stack = stack[:len(stack)-1]
			return false
		}
		if len(stack) > 0 {
			pm[n] = stack[len(stack)-1]
		}
		stack = append(stack, n)
		return true
	})
	return pm
}

// isKindTest: f is a method `Is(kind K, values ...string) bool` on a struct with a field Kind of type K — the
// repository's Token.Is, which for an empty value list answers `kind == t.Kind`.
func isKindTest(f *types.Func) bool {
	if f.Name() != "Is" {
		return false
	}
	sig, ok := f.Type().(*types.Signature)
	if !ok || sig.Recv() == nil || !sig.Variadic() || sig.Params().Len() != 2 {
		return false
	}
	st := structOf(sig.Recv().Type())
	if st == nil {
		return false
	}
	for i := 0; i < st.NumFields(); i++ {
		if st.Field(i).Name() == "Kind" && types.Identical(st.Field(i).Type(), sig.Params().At(0).Type()) {
			return true
		}
	}
	return false
}

var flipCmp = map[token.Token]token.Token{token.EQL: token.EQL, token.NEQ: token.NEQ, token.LSS: token.GTR, token.GTR: token.LSS, token.LEQ: token.GEQ, token.GEQ: token.LEQ}

func (p *pathCtx) isConstOperand(e ast.Expr) bool {
	e = unparen(e)
	if constOf(p.info, e) != nil {
		return true
	}
	if id, ok := e.(*ast.Ident); ok && id.Name == "nil" {
		_, isNil := p.info.Uses[id].(*types.Nil)
		return isNil
	}
	return false
}

// defIdentIn: the identifier inside root that DEFINES obj (nil if obj is defined elsewhere). Positions of objects are
// those of the original source; positions of nodes may be virtual (inline.go) — ask the tree, not the numbers.
func defIdentIn(info *types.Info, root ast.Node, obj types.Object) *ast.Ident {
	if root == nil || obj == nil {
		return nil
	}
	var found *ast.Ident
	ast.Inspect(root, func(n ast.Node) bool {
		if id, ok := n.(*ast.Ident); ok && found == nil && info.Defs[id] == obj {
			found = id
		}
		return found == nil
	})
	return found
}

// trueIffUnchanged: cond, a boolean combination of comparisons of the progress variable with constants, is true
// when the variable is 0 / false and false when it is 1 / true (the variable only counts upwards or is set to true).
func trueIffUnchanged(info *types.Info, cond ast.Expr, change types.Object) bool {
	var eval func(e ast.Expr, val constant.Value) (constant.Value, bool)
	eval = func(e ast.Expr, val constant.Value) (constant.Value, bool) {
		e = unparen(e)
		if identObj(info, e) == change {
			return val, true
		}
		if cv := constOf(info, e); cv != nil {
			return cv, true
		}
		switch x := e.(type) {
		case *ast.UnaryExpr:
			if x.Op == token.NOT {
				if v, ok := eval(x.X, val); ok && v.Kind() == constant.Bool {
					return constant.MakeBool(!constant.BoolVal(v)), true
				}
			}
		case *ast.BinaryExpr:
			a, okA := eval(x.X, val)
			b, okB := eval(x.Y, val)
			if !okA || !okB {
				return nil, false
			}
			switch x.Op {
			case token.EQL, token.NEQ, token.LSS, token.GTR, token.LEQ, token.GEQ:
				if a.Kind() == constant.Bool && b.Kind() == constant.Bool {
					eq := constant.BoolVal(a) == constant.BoolVal(b)
					switch x.Op {
					case token.EQL:
						return constant.MakeBool(eq), true
					case token.NEQ:
						return constant.MakeBool(!eq), true
					}
					return nil, false
				}
				if a.Kind() == constant.Int && b.Kind() == constant.Int {
					return constant.MakeBool(constant.Compare(a, x.Op, b)), true
				}
			case token.LAND, token.LOR:
				if a.Kind() == constant.Bool && b.Kind() == constant.Bool {
					if x.Op == token.LAND {
						return constant.MakeBool(constant.BoolVal(a) && constant.BoolVal(b)), true
					}
					return constant.MakeBool(constant.BoolVal(a) || constant.BoolVal(b)), true
				}
			}
		}
		return nil, false
	}
	zero, one := constant.Value(constant.MakeInt64(0)), constant.Value(constant.MakeInt64(1))
	if b, ok := change.Type().Underlying().(*types.Basic); ok && b.Info()&types.IsBoolean != 0 {
		zero, one = constant.MakeBool(false), constant.MakeBool(true)
	}
	v0, ok0 := eval(cond, zero)
	v1, ok1 := eval(cond, one)
	return ok0 && ok1 && v0.Kind() == constant.Bool && v1.Kind() == constant.Bool && constant.BoolVal(v0) && !constant.BoolVal(v1)
}

// earlyExits: the statements that leave a loop enclosing target before the loop has run to its end — a `break` whose
// innermost breakable statement is that loop (or that names it by label), a `return` or a `goto` anywhere inside it
// (function literals excepted). Loops that do not enclose target (a search for one element next to it) are not looked at.
func earlyExits(root ast.Node, target ast.Node) []ast.Stmt {
	pm := parentMap(root)
	var out []ast.Stmt
	seen := map[ast.Stmt]bool{}
	for cur := pm[target]; cur != nil; cur = pm[cur] {
		var body *ast.BlockStmt
		switch l := cur.(type) {
		case *ast.ForStmt:
			body = l.Body
		case *ast.RangeStmt:
			body = l.Body
		}
		if body == nil {
			continue
		}
		loop := cur
		label := ""
		if ls, ok := pm[loop].(*ast.LabeledStmt); ok {
			label = ls.Label.Name
		}
		ast.Inspect(body, func(n ast.Node) bool {
			switch x := n.(type) {
			case *ast.FuncLit:
				return false
			case *ast.ReturnStmt:
				if !seen[x] {
					seen[x] = true
					out = append(out, x)
				}
			case *ast.BranchStmt:
				leaves := false
				switch x.Tok {
				case token.GOTO:
					leaves = true
				case token.BREAK:
					if x.Label != nil {
						leaves = label != "" && x.Label.Name == label
					} else {
						// innermost breakable statement around the break
						for p := pm[x]; p != nil; p = pm[p] {
							stop := false
							switch p.(type) {
							case *ast.ForStmt, *ast.RangeStmt:
								leaves, stop = p == loop, true
							case *ast.SwitchStmt, *ast.TypeSwitchStmt, *ast.SelectStmt:
								stop = true
							}
							if stop {
								break
							}
						}
					}
				}
				if leaves && !seen[x] {
					seen[x] = true
					out = append(out, x)
				}
			}
			return true
		})
	}
	return out
}
