package main

// core.go — loading /repo, obligation bookkeeping, evidence and known-findings handling.
//
// Soundness policy (DESIGN.md §1): an anchor that cannot be resolved, a construct a rule does not
// recognise, a type-check error or a panic in the analyser is reported as a failed obligation
// ("undecided"), never silently skipped.

import (
	"encoding/json"
	"fmt"
	"go/ast"
	"go/token"
	"go/types"
	"os"
	"path/filepath"
	"regexp"
	"sort"
	"strings"
	"time"

	"golang.org/x/tools/go/packages"
)

const modPath = "github.com/acekingke/yaccgo"

type Obligation struct {
	Key       string `json:"key"`       // rule + construct, stable across line changes
	Clause    string `json:"clause"`    // e.g. C05.a
	Rule      string `json:"rule"`      // e.g. R15 DOUBLE-ADVANCE
	Construct string `json:"construct"` // package.function / construct
	Pos       string `json:"pos"`       // file:line (informational)
	Verdict   string `json:"verdict"`   // ok | violation | undecided | known
	Detail    string `json:"detail"`
	Nontriv   bool   `json:"-"`
}

type Ctx struct {
	RepoDir string
	Fset    *token.FileSet
	Pkgs    map[string]*packages.Package // by import path
	All     []*packages.Package
	Tier    string
	NFuncs  int
	stage   *Staged     // lazily built staged program
	norm    *normaliser // helper inlining (inline.go)
	renames *renameLog  // renamed declarations read under their baseline names (rename.go)
	stageEr error
}

type Report struct {
	Prop        string
	Obls        []*Obligation
	Notes       []string
	Assumptions []string
	Explanation string
	Extra       map[string]interface{}
	seen        map[string]bool
}

func (r *Report) add(clause, rule, construct, pos, verdict, detail string) *Obligation {
	key := clause + "/" + rule + "/" + construct
	if r.seen == nil {
		r.seen = map[string]bool{}
	}
	base := key
	for i := 2; r.seen[key]; i++ {
		key = fmt.Sprintf("%s#%d", base, i)
	}
	r.seen[key] = true
	o := &Obligation{Key: key, Clause: clause, Rule: rule, Construct: construct, Pos: pos, Verdict: verdict, Detail: detail, Nontriv: true}
	r.Obls = append(r.Obls, o)
	return o
}

func (r *Report) OK(clause, rule, construct, pos, detail string) {
	r.add(clause, rule, construct, pos, "ok", detail)
}
func (r *Report) Fail(clause, rule, construct, pos, detail string) {
	r.add(clause, rule, construct, pos, "violation", detail)
}
func (r *Report) Undecided(clause, rule, construct, pos, detail string) {
	r.add(clause, rule, construct, pos, "undecided", "undecided: "+detail)
}

// Check records ok or violation depending on cond.
func (r *Report) Check(cond bool, clause, rule, construct, pos, okDetail, failDetail string) bool {
	if cond {
		r.OK(clause, rule, construct, pos, okDetail)
	} else {
		r.Fail(clause, rule, construct, pos, failDetail)
	}
	return cond
}

func (r *Report) Note(format string, a ...interface{}) {
	r.Notes = append(r.Notes, fmt.Sprintf(format, a...))
}

// ---------------------------------------------------------------------------------------------

func loadRepo(repo string) (*Ctx, error) {
	fset := token.NewFileSet()
	cfg := &packages.Config{
		Mode: packages.NeedName | packages.NeedFiles | packages.NeedCompiledGoFiles | packages.NeedImports |
			packages.NeedTypes | packages.NeedTypesSizes | packages.NeedSyntax | packages.NeedTypesInfo | packages.NeedDeps | packages.NeedModule,
		Dir:   repo,
		Fset:  fset,
		Tests: false,
		Env: append(os.Environ(), "GOFLAGS=-mod=mod", "GOPROXY=off", "GOSUMDB=off", "GOWORK=off",
			"GOTOOLCHAIN=local", "CGO_ENABLED=0"),
	}
	pkgs, err := packages.Load(cfg, "./...")
	if err != nil {
		return nil, err
	}
	c := &Ctx{RepoDir: repo, Fset: fset, Pkgs: map[string]*packages.Package{}}
	for _, p := range pkgs {
		if len(p.Errors) > 0 {
			return nil, fmt.Errorf("package %s has errors: %v", p.PkgPath, p.Errors[0])
		}
		if !strings.HasPrefix(p.PkgPath, modPath) {
			continue
		}
		c.Pkgs[p.PkgPath] = p
		c.All = append(c.All, p)
		for _, f := range p.Syntax {
			for _, d := range f.Decls {
				if fd, ok := d.(*ast.FuncDecl); ok && fd.Body != nil {
					c.NFuncs++
				}
			}
		}
	}
	sort.Slice(c.All, func(i, j int) bool { return c.All[i].PkgPath < c.All[j].PkgPath })
	if len(c.All) == 0 {
		return nil, fmt.Errorf("no packages of %s loaded from %s", modPath, repo)
	}
	normaliseRenames(c)
	normaliseSkeletonNames(c)
	normaliseHelpers(c)
	return c, nil
}

// Pkg returns the repo package with the given directory name (e.g. "LALR").
func (c *Ctx) Pkg(dir string) *packages.Package {
	return c.Pkgs[modPath+"/"+dir]
}

func (c *Ctx) pos(p token.Pos) string {
	if !p.IsValid() {
		return "-"
	}
	for k := 0; p >= virtualBase && c.norm != nil && k < 8; k++ {
		p = c.norm.virtualToOrig(p) // a position inside a normalised (helper-inlined) function
	}
	if !p.IsValid() {
		return "-"
	}
	pp := c.Fset.Position(p)
	rel, err := filepath.Rel(c.RepoDir, pp.Filename)
	if err != nil {
		rel = pp.Filename
	}
	return fmt.Sprintf("%s:%d", rel, pp.Line)
}

// FuncRef is a resolved function declaration.
type FuncRef struct {
	Pkg  *packages.Package
	Decl *ast.FuncDecl
	Obj  *types.Func
	Name string // "pkgdir.(*T).M" or "pkgdir.F"
}

func recvTypeName(fd *ast.FuncDecl) (name string, ptr bool) {
	if fd.Recv == nil || len(fd.Recv.List) == 0 {
		return "", false
	}
	t := fd.Recv.List[0].Type
	if s, ok := t.(*ast.StarExpr); ok {
		ptr = true
		t = s.X
	}
	if id, ok := t.(*ast.Ident); ok {
		return id.Name, ptr
	}
	return "", ptr
}

// rehomedName: display name on the loaded tree → display name on the tree the rules were confirmed on, for functions
// that became methods (or the other way round, or moved to another receiver) — see rename.go, pass 4.
var rehomedName = map[string]string{}

func funcDisplayName(dir string, fd *ast.FuncDecl) string {
	n := rawDisplayName(dir, fd)
	if b, ok := rehomedName[n]; ok {
		return b
	}
	return n
}

func rawDisplayName(dir string, fd *ast.FuncDecl) string {
	rn, ptr := recvTypeName(fd)
	if rn == "" {
		return dir + "." + fd.Name.Name
	}
	if ptr {
		return fmt.Sprintf("%s.(*%s).%s", dir, rn, fd.Name.Name)
	}
	return fmt.Sprintf("%s.(%s).%s", dir, rn, fd.Name.Name)
}

// Func finds a function by package dir and name; recv "" for plain functions, else the receiver type name.
func (c *Ctx) Func(dir, recv, name string) *FuncRef {
	p := c.Pkg(dir)
	if p == nil {
		return nil
	}
	want := map[string]bool{}
	if recv == "" {
		want[dir+"."+name] = true
	} else {
		want[fmt.Sprintf("%s.(*%s).%s", dir, recv, name)] = true
		want[fmt.Sprintf("%s.(%s).%s", dir, recv, name)] = true
	}
	for _, f := range p.Syntax {
		for _, d := range f.Decls {
			fd, ok := d.(*ast.FuncDecl)
			if !ok || fd.Body == nil {
				continue
			}
			// by the name the function had on the confirmed tree (a function turned into a method keeps its anchor)
			if !want[funcDisplayName(dir, fd)] {
				continue
			}
			obj, _ := p.TypesInfo.Defs[fd.Name].(*types.Func)
			return &FuncRef{Pkg: p, Decl: fd, Obj: obj, Name: funcDisplayName(dir, fd)}
		}
	}
	return nil
}

// AllFuncs returns every function declaration with a body in the repo's non-test code.
func (c *Ctx) AllFuncs() []*FuncRef {
	var out []*FuncRef
	for _, p := range c.All {
		dir := strings.TrimPrefix(p.PkgPath, modPath+"/")
		for _, f := range p.Syntax {
			for _, d := range f.Decls {
				fd, ok := d.(*ast.FuncDecl)
				if !ok || fd.Body == nil {
					continue
				}
				obj, _ := p.TypesInfo.Defs[fd.Name].(*types.Func)
				out = append(out, &FuncRef{Pkg: p, Decl: fd, Obj: obj, Name: funcDisplayName(dir, fd)})
			}
		}
	}
	return out
}

// FuncOf maps a types.Func of the repo back to its declaration.
func (c *Ctx) FuncOf(fn *types.Func) *FuncRef {
	if fn == nil || fn.Pkg() == nil {
		return nil
	}
	p := c.Pkgs[fn.Pkg().Path()]
	if p == nil {
		return nil
	}
	dir := strings.TrimPrefix(p.PkgPath, modPath+"/")
	for _, f := range p.Syntax {
		for _, d := range f.Decls {
			fd, ok := d.(*ast.FuncDecl)
			if !ok || fd.Body == nil {
				continue
			}
			if p.TypesInfo.Defs[fd.Name] == fn {
				return &FuncRef{Pkg: p, Decl: fd, Obj: fn, Name: funcDisplayName(dir, fd)}
			}
		}
	}
	return nil
}

// need resolves a function anchor or records an undecided obligation.
func (c *Ctx) need(r *Report, clause, dir, recv, name string) *FuncRef {
	f := c.Func(dir, recv, name)
	if f == nil {
		n := dir + "." + name
		if recv != "" {
			n = dir + "." + recv + "." + name
		}
		r.Undecided(clause, "ANCHOR", n, "-", "function not found in /repo (anchor of this clause); the rule cannot be evaluated")
	}
	return f
}

// ---------------------------------------------------------------------------------------------
// known findings

type KnownFinding struct {
	Property string `json:"property"`
	Key      string `json:"key"`
	Status   string `json:"status"` // known | fixed
	Commit   string `json:"commit,omitempty"`
	What     string `json:"what"`
}

func loadKnown(path string) ([]KnownFinding, error) {
	b, err := os.ReadFile(path)
	if err != nil {
		if os.IsNotExist(err) {
			return nil, nil
		}
		return nil, err
	}
	var out []KnownFinding
	for _, line := range strings.Split(string(b), "\n") {
		line = strings.TrimSpace(line)
		if line == "" || strings.HasPrefix(line, "#") {
			continue
		}
		var k KnownFinding
		if err := json.Unmarshal([]byte(line), &k); err != nil {
			return nil, fmt.Errorf("known-findings: %v in %q", err, line)
		}
		out = append(out, k)
	}
	return out, nil
}

// ---------------------------------------------------------------------------------------------
// evidence + verdict

var sanitizeRe = regexp.MustCompile(`[^A-Za-z0-9_.-]+`)

func finish(c *Ctx, r *Report, verifDir string, known []KnownFinding, seed int, start time.Time, loadInfo map[string]interface{}) int {
	knownSet := map[string]KnownFinding{}
	for _, k := range known {
		if k.Property == r.Prop && k.Status == "known" {
			knownSet[k.Key] = k
		}
	}
	nOK, nViol, nKnown := 0, 0, 0
	distinct := map[string]bool{}
	var samples []interface{}
	var violLines []string
	os.MkdirAll(filepath.Join(verifDir, "reports"), 0o755)
	for _, o := range r.Obls {
		if o.Verdict == "violation" || o.Verdict == "undecided" {
			if k, ok := knownSet[o.Key]; ok {
				o.Verdict = "known"
				nKnown++
				fmt.Printf("KNOWN-FINDING: property=%s %s — %s [%s]\n", r.Prop, o.Key, k.What, o.Pos)
				continue
			}
			nViol++
			rp := filepath.Join(verifDir, "reports", r.Prop+"-"+sanitizeRe.ReplaceAllString(o.Key, "_")+".json")
			b, _ := json.MarshalIndent(map[string]interface{}{
				"property": r.Prop, "obligation": o, "tier": c.Tier,
				"replay": fmt.Sprintf("/verif/bin/yaccverif -prop %s -tier %s -only '%s'", r.Prop, c.Tier, o.Key),
			}, "", " ")
			os.WriteFile(rp, b, 0o644)
			fmt.Printf("FAIL  %-8s %-22s %s\n      at %s\n      %s\n", o.Clause, o.Rule, o.Construct, o.Pos, o.Detail)
			violLines = append(violLines, fmt.Sprintf("VIOLATION property=%s replay=%s", r.Prop, rp))
		} else {
			nOK++
		}
	}
	for _, o := range r.Obls {
		if o.Nontriv {
			distinct[o.Clause+"/"+o.Rule+"/"+o.Construct] = true
		}
		if o.Verdict == "ok" {
			fmt.Printf("ok    %-8s %-22s %s — %s\n", o.Clause, o.Rule, o.Construct, o.Detail)
		}
	}
	// samples: first few obligations of each clause, and every non-ok one
	perClause := map[string]int{}
	for _, o := range r.Obls {
		if o.Verdict != "ok" || perClause[o.Clause] < 3 {
			perClause[o.Clause]++
			samples = append(samples, o)
		}
	}
	for _, n := range r.Notes {
		fmt.Println("note:", n)
	}
	cov := map[string]interface{}{
		"obligations":         len(r.Obls),
		"discharged":          nOK,
		"evaluations":         len(r.Obls),
		"distinct_nontrivial": len(distinct),
		"rule":                "one evaluation = one rule instance (rule template × resolved construct of /repo's current source); distinct = distinct clause/rule/construct keys; non-trivial = the construct was resolved and contained at least one branch, call, store or format hole relevant to the rule",
		"samples":             samples,
		"explanation":         r.Explanation,
		"exhaustive":          true,
		"known_findings":      nKnown,
	}
	cov["notes"] = r.Notes
	for k, v := range loadInfo {
		cov[k] = v
	}
	for k, v := range r.Extra {
		cov[k] = v
	}
	r.Assumptions = append(r.Assumptions, "trusted base: go/packages, go/types, go/cfg, text/template/parse and this analyser's own path enumerator / shape extractor")
	if r.Notes == nil {
		r.Notes = []string{}
	}
	ev := map[string]interface{}{
		"property_id": r.Prop,
		"tier":        c.Tier,
		"seed":        seed,
		"level":       "other",
		"coverage":    cov,
		"assumptions": r.Assumptions,
		"wall_s":      time.Since(start).Seconds(),
		"violations":  nViol,
	}
	os.MkdirAll(filepath.Join(verifDir, "evidence"), 0o755)
	b, _ := json.MarshalIndent(ev, "", " ")
	if err := os.WriteFile(filepath.Join(verifDir, "evidence", r.Prop+".json"), b, 0o644); err != nil {
		fmt.Println("cannot write evidence:", err)
		return 2
	}
	fmt.Printf("summary property=%s tier=%s obligations=%d ok=%d known=%d violations=%d\n", r.Prop, c.Tier, len(r.Obls), nOK, nKnown, nViol)
	for _, l := range violLines {
		fmt.Println(l)
	}
	if nViol > 0 {
		return 1
	}
	if len(r.Obls) == 0 {
		fmt.Println("checker broken: no obligations were generated")
		return 2
	}
	return 0
}

// includePrereq evaluates another property's rules as prerequisite clauses of this one: a violation of the
// prerequisite is a violation here too (e.g. completeness needs exact lookaheads and lossless packing).
// includeSome evaluates part of another property (run fills a scratch report) and adopts the obligations whose
// construct contains one of the given substrings as prerequisite clauses `clause←<their clause>`.
func includeSome(r *Report, clause string, run func(sub *Report), constructs ...string) {
	sub := &Report{Prop: r.Prop, Extra: map[string]interface{}{}}
	run(sub)
	n := 0
	for _, o := range sub.Obls {
		for _, want := range constructs {
			if strings.Contains(o.Construct, want) {
				no := r.add(clause+"←"+o.Clause, o.Rule, o.Construct, o.Pos, o.Verdict, o.Detail)
				no.Nontriv = true
				n++
				break
			}
		}
	}
	if n == 0 {
		r.Undecided(clause, "PREREQUISITE", strings.Join(constructs, ","), "-", "the prerequisite rule produced no obligation (renamed or removed construct)")
	}
}

// includeClauses evaluates another property and adopts the obligations of the named clauses (prefix match on the
// obligation's clause, e.g. "C10.c").
func includeClauses(c *Ctx, r *Report, clause string, f propFunc, prefixes ...string) {
	sub := &Report{Prop: r.Prop, Extra: map[string]interface{}{}}
	f(c, sub)
	n := 0
	for _, o := range sub.Obls {
		for _, p := range prefixes {
			if strings.HasPrefix(o.Clause, p) {
				no := r.add(clause+"←"+o.Clause, o.Rule, o.Construct, o.Pos, o.Verdict, o.Detail)
				no.Nontriv = o.Nontriv
				n++
				break
			}
		}
	}
	if n == 0 {
		r.Undecided(clause, "PREREQUISITE", strings.Join(prefixes, ","), "-", "the prerequisite clauses produced no obligation")
	}
}

func includePrereq(c *Ctx, r *Report, clause string, f propFunc) {
	sub := &Report{Prop: r.Prop, Extra: map[string]interface{}{}}
	f(c, sub)
	for _, o := range sub.Obls {
		n := r.add(clause+"←"+o.Clause, o.Rule, o.Construct, o.Pos, o.Verdict, o.Detail)
		n.Nontriv = o.Nontriv
	}
}
