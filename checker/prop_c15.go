package main

// C15 — parses are independent: re-init and separate contexts do not interfere.
// R12 STATE INVENTORY on the staged program: which package-level variables / receiver fields are stored to by
// the functions reachable from Parser, that the tables are never stored to, and that ParserInit re-establishes
// slot 0 and the stack pointer.

import (
	"fmt"
	"go/ast"
	"go/token"
	"go/types"
	"sort"
	"strings"
)

func init() { register("C15", checkC15) }

func checkC15(c *Ctx, r *Report) {
	r.Explanation = "The generated parser is analysed as a staged program: for each of the four Go skeletons the call graph from Parser is built on the type-checked source, and every store (assignment, op-assignment, ++/--) is attributed to its root variable. Global mode: stores reachable from Parser must hit only the stack and its pointer; every other package-level variable the parser reads (tables, IsTrace) must never be stored to anywhere in the generated code. Object mode: no package-level store is reachable from (*Context).Parser, all stores go through the receiver — distinct contexts share no mutable state, which is the race-freedom argument. ParserInit / MakeParserContext re-establish {state 0, end marker} in slot 0 and pointer 1. TypeScript: initialize() assigns both variables (token-level). Not decided: user code in actions and GetToken; aliasing of the returned *ValType into the stack; stack underflow (slot 0 of a re-used context keeps the initial entry only as long as the pointer never drops below 1)."
	r.Assumptions = append(r.Assumptions, "user actions and GetToken keep no state between calls", "the stack never underflows (tables are correct), so slot 0 of a context always holds the initial entry")
	st := c.GetStaged()
	stagedErrors(r, "C15", st)
	sks := quickSkeletons(st)
	if len(sks) < 4 {
		r.Undecided("C15.a", "R12 STATE-INVENTORY", "skeletons", "-", fmt.Sprintf("only %d of 4 skeletons available: %v", len(sks), st.Errs))
	}
	for _, sk := range sks {
		name := "skeleton " + sk.V.Name
		if sk.File == nil || sk.Pkg == nil || len(sk.TypeErs) > 0 {
			r.Undecided("C15.a", "R12 STATE-INVENTORY", name, sk.pos(token.NoPos), "skeleton does not type-check (see C16)")
			continue
		}
		sf := skeletonFuncs(sk)
		recv := ""
		if sk.V.Object {
			recv = "Context"
		}
		parser := sk.FuncDecl(recv, "Parser")
		if parser == nil {
			r.Undecided("C15.a", "R12 STATE-INVENTORY", name+"/Parser", sk.pos(token.NoPos), "no Parser function")
			continue
		}
		reach := sf.reachable(parser)
		stored := map[string]string{} // var -> function
		recvStored := map[string]bool{}
		read := map[string]bool{}
		var fnames []string
		for _, fd := range reach {
			fnames = append(fnames, sf.names[fd])
			pv, rf := storesOf(sk.Info, fd)
			for v := range pv {
				stored[v] = sf.names[fd]
			}
			for f := range rf {
				recvStored[f] = true
			}
			for v := range readsOf(sk.Info, fd) {
				read[v] = true
			}
		}
		sort.Strings(fnames)
		// stores anywhere in the generated code (outside user sections)
		storedAnywhere := map[string]string{}
		for fd, n := range sf.names {
			if n == "GetToken" {
				continue
			}
			pv, _ := storesOf(sk.Info, fd)
			for v := range pv {
				storedAnywhere[v] = n
			}
		}
		var storedList []string
		for v := range stored {
			storedList = append(storedList, v)
		}
		sort.Strings(storedList)
		if sk.V.Object {
			r.Check(len(stored) == 0, "C15.b", "R12 STATE-INVENTORY", name+"/no-shared-mutable-state", sk.pos(parser.Pos()),
				fmt.Sprintf("%d functions reachable from (*Context).Parser (%s): no store to a package-level variable; stores through the receiver: %v", len(reach), strings.Join(fnames, ", "), keysOf(recvStored)),
				fmt.Sprintf("functions reachable from (*Context).Parser store to package-level variable(s) %v (in %s): two contexts parsing interleaved or concurrently share that state", storedList, firstVal(stored)))
			extra := []string{}
			for f := range recvStored {
				if f != "StackSym" && f != "Stackpos" {
					extra = append(extra, f)
				}
			}
			r.Check(len(extra) == 0, "C15.b", "R12 STATE-INVENTORY", name+"/context-state-is-stack-and-pointer", sk.pos(parser.Pos()),
				"the only context fields written during a parse are StackSym and Stackpos, both reset by ParserInit", fmt.Sprintf("a parse also writes context field(s) %v, which ParserInit does not reset", extra))
		} else {
			bad := []string{}
			for _, v := range storedList {
				if v != "StateSymStack" && v != "StackPointer" {
					bad = append(bad, v+" (in "+stored[v]+")")
				}
			}
			r.Check(len(bad) == 0, "C15.a", "R12 STATE-INVENTORY", name+"/mutable-state-is-stack-and-pointer", sk.pos(parser.Pos()),
				fmt.Sprintf("%d functions reachable from Parser (%s) store only to StateSymStack and StackPointer, both reset by ParserInit", len(reach), strings.Join(fnames, ", ")),
				fmt.Sprintf("functions reachable from Parser also store to %v: that state survives ParserInit and leaks from one parse into the next", bad))
		}
		// everything else the parser reads is never stored to
		var leaky []string
		for v := range read {
			if v == "StateSymStack" || v == "StackPointer" {
				continue
			}
			if fn, ok := storedAnywhere[v]; ok {
				leaky = append(leaky, v+" (stored in "+fn+")")
			}
		}
		sort.Strings(leaky)
		r.Check(len(leaky) == 0, "C15.a", "R12 STATE-INVENTORY", name+"/tables-and-flags-are-read-only", sk.pos(parser.Pos()),
			fmt.Sprintf("the %d other package-level variables the parser reads (tables, IsTrace) are never assigned by generated code", len(read)),
			fmt.Sprintf("the parser reads package-level variable(s) that generated code also assigns: %v", leaky))
		// ParserInit
		init := sk.FuncDecl(recv, "ParserInit")
		if init == nil {
			r.Fail("C15.c", "R12 STATE-INVENTORY", name+"/ParserInit", sk.pos(token.NoPos), "the generated parser has no ParserInit")
			continue
		}
		pe := newPathEnum(sk.Info)
		paths, err := pe.Enumerate(init.Body.List)
		if err != nil || len(paths) != 1 {
			r.Undecided("C15.c", "R12 STATE-INVENTORY", name+"/ParserInit", sk.pos(init.Pos()), "ParserInit is not straight-line")
			continue
		}
		ptrOK, slotOK := false, false
		slotHow := ""
		var otherStores []string
		for _, e := range paths[0].Effects {
			if e.Kind != "store" {
				continue
			}
			lhs := normTerm(e.LHS)
			rhs := normTerm(e.Term)
			if !(strings.HasSuffix(lhs, "StackPointer") || strings.HasSuffix(lhs, ".Stackpos") || strings.HasSuffix(lhs, "StateSymStack") || strings.HasSuffix(lhs, ".StackSym")) {
				if !isLocalStore(sk.Info, init, e) {
					otherStores = append(otherStores, lhs)
				}
			}
			if (strings.HasSuffix(lhs, "StackPointer") || strings.HasSuffix(lhs, ".Stackpos")) && rhs == "1" {
				ptrOK = true
			}
			if strings.HasSuffix(lhs, "StateSymStack") || strings.HasSuffix(lhs, ".StackSym") {
				if strings.Contains(rhs, "Yystate: 0") && strings.Contains(rhs, "YySymIndex: 1") {
					slotOK = true
					if strings.HasPrefix(rhs, "append(") {
						slotHow = "appended (on a fresh context this is slot 0; a re-initialised context still has the initial entry in slot 0 because nothing ever writes below the pointer)"
					} else {
						slotHow = "a fresh one-element stack"
					}
				}
			}
		}
		r.Check(ptrOK && slotOK, "C15.c", "R12 STATE-INVENTORY", name+"/ParserInit", sk.pos(init.Pos()),
			"ParserInit sets the pointer to 1 and provides the entry {state 0, symbol 1 = end marker}: "+slotHow,
			fmt.Sprintf("ParserInit does not re-establish the initial configuration (pointer = 1: %v, entry {Yystate: 0, YySymIndex: 1}: %v)", ptrOK, slotOK))
		// re-initialisation touches the current parse's stack and pointer only: the saved contexts of enclosing
		// parses (PushContex … ParserInit … Parser … PopContex), tables and flags are not its to reset
		sort.Strings(otherStores)
		r.Check(len(otherStores) == 0, "C15.c", "R12 STATE-INVENTORY", name+"/ParserInit/resets-only-the-current-stack", sk.pos(init.Pos()),
			"ParserInit stores to the stack and the pointer and to nothing else",
			fmt.Sprintf("ParserInit also stores to %v: re-initialising for a nested parse (PushContex; ParserInit; Parser; PopContex) destroys state that belongs to the enclosing parse", otherStores))
		if !sk.V.Object {
			c15FreshStack(r, "C15.c", sk)
			c15SaveRestore(r, "C15.c", sk)
		}
		// slots at or above the pointer are dead: they hold what an earlier push (possibly of an earlier parse) left
		// there and ParserInit does not clear them. The only legitimate use of stack[pointer] is as the target of the
		// store in PushStateSym; reading it or taking its address (e.g. as the $$ cell of a reduction) makes the
		// result depend on the parser's history
		{
			var stale []string
			for _, d := range sk.File.Decls {
				fd, isF := d.(*ast.FuncDecl)
				if !isF || fd.Body == nil || fd.Name.Name == "GetToken" {
					continue
				}
				pmF := parentMap(fd.Body)
				ast.Inspect(fd.Body, func(n ast.Node) bool {
					ix, isI := n.(*ast.IndexExpr)
					if !isI || !isStackPointerExpr(sk.Info, ix.Index) {
						return true
					}
					base := strings.TrimSpace(printNode(sk.Fset, ix.X))
					if base != "StateSymStack" && !strings.HasSuffix(base, ".StackSym") {
						return true
					}
					// allowed: the left-hand side of a plain assignment in PushStateSym
					if as, isA := pmF[ix].(*ast.AssignStmt); isA && fd.Name.Name == "PushStateSym" {
						for _, l := range as.Lhs {
							if unparen(l) == ast.Expr(ix) {
								return true
							}
						}
					}
					stale = append(stale, fmt.Sprintf("%s uses %s at %s", fd.Name.Name, oneLine(printNode(sk.Fset, ix)), sk.pos(ix.Pos())))
					return true
				})
			}
			sort.Strings(stale)
			r.Check(len(stale) == 0, "C15.c", "R12 STATE-INVENTORY", name+"/slots-above-the-top-are-never-read", sk.pos(parser.Pos()),
				"stack[pointer] occurs only as the target of PushStateSym's store: no value is read from (and no pointer taken to) a slot that is not part of the current stack",
				"a slot at the pointer (above the top of the stack) is read or aliased: "+strings.Join(stale, "; ")+" — it holds leftovers of earlier pushes, which ParserInit does not clear")
		}
		// when ParserInit keeps the old array (it appends and moves the pointer), the LENGTH of the stack is history too:
		// it is the high-water mark of every parse the context has served plus one per re-initialisation. The only use
		// that cannot leak it is the comparison with the pointer that chooses between appending and overwriting (and
		// the sanity comparison of the same two quantities); a limit, an index or an iteration derived from the
		// length makes a parse depend on the parses before it
		if strings.HasPrefix(slotHow, "appended") {
			var leaks []string
			uses := 0
			for _, d := range sk.File.Decls {
				fd, isF := d.(*ast.FuncDecl)
				if !isF || fd.Body == nil || fd.Name.Name == "GetToken" {
					continue
				}
				isStack := func(e ast.Expr) bool {
					base := strings.TrimSpace(printNode(sk.Fset, unparen(e)))
					return base == "StateSymStack" || strings.HasSuffix(base, ".StackSym")
				}
				pmF := parentMap(fd.Body)
				ast.Inspect(fd.Body, func(n ast.Node) bool {
					switch x := n.(type) {
					case *ast.RangeStmt:
						if isStack(x.X) {
							leaks = append(leaks, fmt.Sprintf("%s iterates over the whole array at %s", fd.Name.Name, sk.pos(x.Pos())))
						}
					case *ast.CallExpr:
						id, isId := unparen(x.Fun).(*ast.Ident)
						if !isId || (id.Name != "len" && id.Name != "cap") || len(x.Args) != 1 || !isStack(x.Args[0]) {
							return true
						}
						if _, isB := sk.Info.Uses[id].(*types.Builtin); !isB {
							return true
						}
						uses++
						var up ast.Node = pmF[x]
						var self ast.Expr = x
						for {
							p, isP := up.(*ast.ParenExpr)
							if !isP {
								break
							}
							self, up = p, pmF[p]
						}
						if be, isBE := up.(*ast.BinaryExpr); isBE {
							switch be.Op {
							case token.GEQ, token.LEQ, token.LSS, token.GTR, token.EQL, token.NEQ:
								other := be.X
								if unparen(be.X) == unparen(self) || be.X == self {
									other = be.Y
								}
								if isStackPointerExpr(sk.Info, other) {
									return true
								}
							}
						}
						leaks = append(leaks, fmt.Sprintf("%s uses %s at %s", fd.Name.Name, oneLine(printNode(sk.Fset, up)), sk.pos(x.Pos())))
					}
					return true
				})
			}
			sort.Strings(leaks)
			r.Check(len(leaks) == 0 && uses > 0, "C15.c", "R12 STATE-INVENTORY", name+"/stack-length-only-against-the-pointer", sk.pos(parser.Pos()),
				fmt.Sprintf("ParserInit keeps the array, so its length records earlier parses; all %d uses of len(stack) are comparisons with the stack pointer", uses),
				"the length of the stack array (which ParserInit never shrinks: it grows with every parse and re-initialisation of the context) is used other than in a comparison with the stack pointer: "+strings.Join(leaks, "; "))
		}
		// slots are written only at the pointer or above-by-append: PushStateSym stores at [pointer]
		push := sk.FuncDecl(recv, "PushStateSym")
		if push != nil {
			ok := true
			ast.Inspect(push.Body, func(n ast.Node) bool {
				as, isA := n.(*ast.AssignStmt)
				if !isA {
					return true
				}
				for _, l := range as.Lhs {
					if ix, isI := unparen(l).(*ast.IndexExpr); isI {
						s := printNode(sk.Fset, ix.Index)
						if s != "StackPointer" && s != "c.Stackpos" {
							ok = false
						}
					}
				}
				return true
			})
			r.Check(ok, "C15.c", "R12 STATE-INVENTORY", name+"/push-writes-at-pointer", sk.pos(push.Pos()),
				"PushStateSym writes the slot at the stack pointer (or appends): slots below the pointer, slot 0 in particular, are never overwritten",
				"PushStateSym writes a slot other than the one at the stack pointer")
		}
		if sk.V.Object {
			mk := sk.FuncDecl("", "MakeParserContext")
			ok := false
			if mk != nil {
				pe := newPathEnum(sk.Info)
				ps, err := pe.Enumerate(mk.Body.List)
				if err == nil && len(ps) == 1 && ps[0].Kind == "return" {
					fresh := strings.HasPrefix(normTerm(ps[0].Vals[0]), "&Context{") || strings.Contains(ps[0].Vals[0].String(), "Context{")
					calls := hasCall(ps[0], "ParserInit") != ""
					ok = fresh && calls
				}
			}
			r.Check(ok, "C15.c", "R12 STATE-INVENTORY", name+"/MakeParserContext", sk.pos(token.NoPos),
				"MakeParserContext returns a freshly allocated Context after ParserInit", "MakeParserContext does not return a fresh, initialised Context")
		}
	}
	// TypeScript
	if ts := st.TS; ts != nil && ts.Funcs["initialize"] != nil {
		f := ts.Funcs["initialize"]
		sets := map[string]string{}
		for _, s := range f.Body {
			if s.Kind == "assign" && s.Op == "=" {
				sets[s.Name] = tsJoin(s.Expr)
			}
		}
		ok := sets["StackPointer"] == "1" && strings.Contains(sets["StateSymStack"], "new StateSym(0,1)") && strings.HasPrefix(sets["StateSymStack"], "[")
		r.Check(ok, "C15.d", "TS STATE", "typescript/initialize", "Builder/TsGenCode.go (StateFunc literal)",
			"initialize() assigns a fresh one-element stack [new StateSym(0,1)] and StackPointer = 1 (token-level rule)",
			fmt.Sprintf("initialize() does not reset both variables (StateSymStack = %q, StackPointer = %q)", sets["StateSymStack"], sets["StackPointer"]))
		// global stores in Parser's call tree: only the two variables
		bad := ""
		for _, fn := range []string{"Parser", "ReduceFunc", "PushStateSym", "PopStateSym", "fetchLookAhead", "translate"} {
			tf := ts.Funcs[fn]
			if tf == nil {
				continue
			}
			var walk func(ss []*tsStmt)
			locals := map[string]bool{}
			for _, p := range tf.Params {
				if p.kind == "ident" {
					locals[p.text] = true
				}
			}
			walk = func(ss []*tsStmt) {
				for _, s := range ss {
					switch s.Kind {
					case "let":
						locals[s.Name] = true
					case "assign":
						root := s.Name
						if i := strings.IndexAny(root, ".["); i >= 0 {
							root = root[:i]
						}
						if !locals[root] && root != "StateSymStack" && root != "StackPointer" {
							bad = fn + " assigns global `" + s.Name + "`"
						}
					}
					walk(s.Then)
					walk(s.Else)
					for _, cs := range s.Cases {
						walk(cs.Then)
					}
				}
			}
			walk(tf.Body)
		}
		r.Check(bad == "", "C15.d", "TS STATE", "typescript/mutable-state-is-stack-and-pointer", "Builder/TsGenCode.go",
			"the TypeScript driver functions assign only locals, StateSymStack and StackPointer (token-level rule)", bad)
	} else {
		r.Undecided("C15.d", "TS STATE", "typescript/initialize", "Builder/TsGenCode.go", "no initialize() function in the TypeScript output")
	}
}

// c15FreshStack — global skeletons. The template offers nested parses: PushContex saves the live stack BY SLICE
// HEADER, the action then calls ParserInit + Parser, PopContex restores the header; and Parser returns a pointer
// into the stack array. Both alias the backing array of the stack in use. Hence ParserInit must install storage
// that is disjoint from every earlier stack: an allocation expression that does not mention the old stack.
// (If PushContex copied the elements and Parser returned a copy, re-using the array would be harmless; the rule
// first establishes that the aliases exist.)
func c15FreshStack(r *Report, clause string, sk *Skeleton) {
	name := "skeleton " + sk.V.Name
	init := sk.FuncDecl("", "ParserInit")
	if init == nil {
		return // reported by the ParserInit obligation
	}
	var stackObj types.Object
	if sk.Pkg != nil {
		stackObj = sk.Pkg.Scope().Lookup("StateSymStack")
	}
	if stackObj == nil {
		r.Undecided(clause, "R12 STATE-INVENTORY", name+"/ParserInit/fresh-storage", sk.pos(init.Pos()), "no package-level StateSymStack in the global skeleton")
		return
	}
	mentions := func(n ast.Node) bool {
		found := false
		ast.Inspect(n, func(m ast.Node) bool {
			if id, ok := m.(*ast.Ident); ok && sk.Info.Uses[id] == stackObj {
				found = true
			}
			return !found
		})
		return found
	}
	// aliases of the live stack's backing array
	var aliases []string
	if pc := sk.FuncDecl("", "PushContex"); pc != nil {
		ast.Inspect(pc.Body, func(n ast.Node) bool {
			if kv, ok := n.(*ast.KeyValueExpr); ok {
				if id, ok := unparen(kv.Value).(*ast.Ident); ok && sk.Info.Uses[id] == stackObj {
					aliases = append(aliases, "PushContex saves the stack by slice header")
				}
			}
			return true
		})
	}
	if ps := sk.FuncDecl("", "Parser"); ps != nil {
		ast.Inspect(ps.Body, func(n ast.Node) bool {
			if ret, ok := n.(*ast.ReturnStmt); ok {
				for _, e := range ret.Results {
					if u, ok := unparen(e).(*ast.UnaryExpr); ok && u.Op == token.AND {
						aliases = append(aliases, "Parser returns a pointer into the stack ("+printNode(sk.Fset, e)+")")
						return false
					}
				}
			}
			return true
		})
	}
	if len(aliases) == 0 {
		r.OK(clause, "R12 STATE-INVENTORY", name+"/ParserInit/fresh-storage", sk.pos(init.Pos()), "nothing aliases the stack's backing array across ParserInit (no header-saving PushContex, Parser returns no pointer): re-use would be harmless")
		return
	}
	var rhs ast.Expr
	ast.Inspect(init.Body, func(n ast.Node) bool {
		if as, ok := n.(*ast.AssignStmt); ok && len(as.Lhs) == len(as.Rhs) {
			for i, l := range as.Lhs {
				if id, ok := unparen(l).(*ast.Ident); ok && sk.Info.Uses[id] == stackObj {
					rhs = as.Rhs[i]
				}
			}
		}
		return true
	})
	if rhs == nil {
		r.Fail(clause, "R12 STATE-INVENTORY", name+"/ParserInit/fresh-storage", sk.pos(init.Pos()), "ParserInit does not assign the stack variable as a whole: the previous parse's array stays in use although "+strings.Join(dedupStrings(aliases), " and "))
		return
	}
	alloc := false
	switch x := unparen(rhs).(type) {
	case *ast.CompositeLit:
		alloc = true
	case *ast.CallExpr:
		switch builtinName(sk.Info, x) {
		case "make":
			alloc = true
		case "append":
			alloc = true // judged by the mention test below: append(nil / literal, …) allocates
		}
	}
	ok := alloc && !mentions(rhs)
	r.Check(ok, clause, "R12 STATE-INVENTORY", name+"/ParserInit/fresh-storage", sk.pos(init.Pos()),
		"ParserInit installs a newly allocated stack (`"+oneLine(printNode(sk.Fset, rhs))+"`) that does not derive from the old one; needed because "+strings.Join(dedupStrings(aliases), " and "),
		"ParserInit builds the new stack from the old one (`"+oneLine(printNode(sk.Fset, rhs))+"`), re-using its backing array, but "+strings.Join(dedupStrings(aliases), " and ")+": a nested parse (PushContex; ParserInit; Parser; PopContex) overwrites the outer parse's entries and a kept result is overwritten by the next parse")
}

// c15SaveRestore — global skeletons: PushContex saves exactly (the stack, the stack pointer) and PopContex restores
// exactly that pair from the entry it then removes. A nested parse sandwiched between them must leave the outer
// parse's configuration untouched: saving the stack's length (its high-water mark) instead of the pointer, restoring
// from another entry, or dropping the entry before reading it breaks the outer parse.
func c15SaveRestore(r *Report, clause string, sk *Skeleton) {
	name := "skeleton " + sk.V.Name
	push, pop := sk.FuncDecl("", "PushContex"), sk.FuncDecl("", "PopContex")
	if push == nil && pop == nil {
		return
	}
	if push == nil || pop == nil {
		r.Fail(clause, "R12 STATE-INVENTORY", name+"/PushContex-PopContex/save-restore", sk.pos(token.NoPos), "only one of PushContex / PopContex exists")
		return
	}
	info := sk.Info
	pkgVar := func(e ast.Expr, n string) bool {
		id, ok := unparen(e).(*ast.Ident)
		return ok && isPkgLevelVar(info.Uses[id]) && id.Name == n
	}
	why := ""
	// PushContex: <saved> = append(<saved>, Context{StackSym: StateSymStack, Stackpos: StackPointer})
	var savedObj types.Object
	okPush := false
	ast.Inspect(push.Body, func(n ast.Node) bool {
		as, ok := n.(*ast.AssignStmt)
		if !ok || len(as.Lhs) != 1 || len(as.Rhs) != 1 {
			return true
		}
		call, ok := unparen(as.Rhs[0]).(*ast.CallExpr)
		if !ok || builtinName(info, call) != "append" || len(call.Args) != 2 || identObj(info, call.Args[0]) == nil || identObj(info, call.Args[0]) != identObj(info, as.Lhs[0]) {
			return true
		}
		cl, ok := unparen(call.Args[1]).(*ast.CompositeLit)
		if !ok {
			return true
		}
		stackOK, ptrOK := false, false
		for _, el := range cl.Elts {
			kv, ok := el.(*ast.KeyValueExpr)
			if !ok {
				continue
			}
			k, _ := kv.Key.(*ast.Ident)
			if k == nil {
				continue
			}
			switch k.Name {
			case "StackSym":
				stackOK = pkgVar(kv.Value, "StateSymStack")
			case "Stackpos":
				ptrOK = pkgVar(kv.Value, "StackPointer")
			}
		}
		savedObj = identObj(info, as.Lhs[0])
		okPush = stackOK && ptrOK
		if !stackOK {
			why = "PushContex does not save the stack variable itself"
		} else if !ptrOK {
			why = "PushContex does not save the stack pointer (the saved position is another expression, e.g. the stack's length — its high-water mark, not the current depth)"
		}
		return true
	})
	if savedObj == nil {
		why = "PushContex does not append a saved configuration"
	}
	// PopContex: StackPointer = saved[len(saved)-1].Stackpos; StateSymStack = saved[len(saved)-1].StackSym; then saved = saved[:len(saved)-1]
	if okPush {
		popDefs := newDefs(info)
		popDefs.scan(pop.Body)
		isLast := func(e ast.Expr, field string) bool {
			se, ok := unparen(e).(*ast.SelectorExpr)
			if !ok || se.Sel.Name != field {
				return false
			}
			// the last saved entry, written in place or held in a local defined once as saved[len(saved)-1]
			base := unparen(se.X)
			if o := identObj(info, base); o != nil && popDefs.count[o] == 1 && popDefs.single[o] != nil {
				base = unparen(popDefs.single[o])
			}
			ix, ok := base.(*ast.IndexExpr)
			if !ok || identObj(info, ix.X) != savedObj {
				return false
			}
			be, ok := unparen(ix.Index).(*ast.BinaryExpr)
			if !ok || be.Op != token.SUB {
				return false
			}
			lc, ok := unparen(be.X).(*ast.CallExpr)
			if !ok || builtinName(info, lc) != "len" || len(lc.Args) != 1 || identObj(info, lc.Args[0]) != savedObj {
				return false
			}
			v, isC := constInt(info, be.Y)
			return isC && v == 1
		}
		ptrAt, stackAt, dropAt := -1, -1, -1
		for i, st := range pop.Body.List {
			as, ok := st.(*ast.AssignStmt)
			if !ok || len(as.Lhs) != 1 || len(as.Rhs) != 1 {
				why = "PopContex contains a statement other than the three restoring assignments"
				continue
			}
			// a local holding the last saved entry (read before the entry is removed: checked through dropAt below)
			if o := identObj(info, as.Lhs[0]); o != nil && as.Tok == token.DEFINE && popDefs.count[o] == 1 {
				if ix, isIx := unparen(as.Rhs[0]).(*ast.IndexExpr); isIx && identObj(info, ix.X) == savedObj {
					if dropAt >= 0 {
						why = "PopContex reads the last saved entry after removing it"
					}
					continue
				}
			}
			switch {
			case pkgVar(as.Lhs[0], "StackPointer") && isLast(as.Rhs[0], "Stackpos"):
				ptrAt = i
			case pkgVar(as.Lhs[0], "StateSymStack") && isLast(as.Rhs[0], "StackSym"):
				stackAt = i
			case identObj(info, as.Lhs[0]) == savedObj:
				if se, ok := unparen(as.Rhs[0]).(*ast.SliceExpr); ok && identObj(info, se.X) == savedObj && se.Low == nil && se.High != nil {
					if be, ok := unparen(se.High).(*ast.BinaryExpr); ok && be.Op == token.SUB {
						if v, isC := constInt(info, be.Y); isC && v == 1 {
							dropAt = i
						}
					}
				}
			default:
				why = "PopContex assigns something other than the saved pointer / stack of the last entry (" + oneLine(printNode(sk.Fset, as)) + ")"
			}
		}
		switch {
		case why != "":
		case ptrAt < 0:
			why = "PopContex does not restore the stack pointer from the last saved entry"
		case stackAt < 0:
			why = "PopContex does not restore the stack from the last saved entry"
		case dropAt < 0:
			why = "PopContex does not remove the entry it restored from"
		case dropAt < ptrAt || dropAt < stackAt:
			why = "PopContex removes the saved entry before reading it"
		}
	}
	r.Check(why == "", clause, "R12 STATE-INVENTORY", name+"/PushContex-PopContex/save-restore", sk.pos(push.Pos()),
		"PushContex saves (StateSymStack, StackPointer); PopContex restores both from the last saved entry and then removes it: a nested parse leaves the outer configuration as it was",
		"a nested parse does not get the outer configuration back: "+why)
}

// c15FreshStackAll evaluates the fresh-storage rule on every global skeleton (used as a prerequisite clause by the
// properties that assume the parse stack belongs to one parse: C01, C07, C08).
func c15FreshStackAll(r *Report, clause string, st *Staged) {
	for _, sk := range quickSkeletons(st) {
		if sk.V.Object || sk.File == nil || sk.Pkg == nil || len(sk.TypeErs) > 0 {
			continue
		}
		c15FreshStack(r, clause, sk)
	}
}

func dedupStrings(in []string) []string {
	seen := map[string]bool{}
	var out []string
	for _, s := range in {
		if !seen[s] {
			seen[s] = true
			out = append(out, s)
		}
	}
	return out
}

func oneLine(s string) string {
	return strings.Join(strings.Fields(s), " ")
}

func firstVal(m map[string]string) string {
	for _, v := range m {
		return v
	}
	return ""
}

// isLocalStore: the store's target is rooted at a variable declared inside fd (not the receiver, not package level).
func isLocalStore(info *types.Info, fd *ast.FuncDecl, e Effect) bool {
	if e.Node == nil {
		return false
	}
	var root ast.Expr
	switch x := e.Node.(type) {
	case *ast.AssignStmt:
		if len(x.Lhs) > 0 {
			root = x.Lhs[0]
		}
	case *ast.IncDecStmt:
		root = x.X
	}
	for root != nil {
		switch x := unparen(root).(type) {
		case *ast.Ident:
			o := objOf(info, x)
			if o == nil || o.Pkg() == nil {
				return false
			}
			if o.Parent() == o.Pkg().Scope() {
				return false
			}
			if fd.Recv != nil && len(fd.Recv.List) == 1 && len(fd.Recv.List[0].Names) == 1 && info.Defs[fd.Recv.List[0].Names[0]] == o {
				return false
			}
			return defIdentIn(info, fd, o) != nil
		case *ast.SelectorExpr:
			root = x.X
		case *ast.IndexExpr:
			root = x.X
		case *ast.StarExpr:
			root = x.X
		case *ast.SliceExpr:
			root = x.X
		default:
			return false
		}
	}
	return false
}
