package main

// C03 — lookahead sets are exactly LALR(1); conflicts are reported iff they exist.
// Decided: the DeRemer–Pennello relations are computed with the dependence structure their definitions demand
// (R5), the Digraph routine has the algorithm's skeleton (R2/R4, pinned to the recursive implementation), the
// nullable computation is a least fixpoint of the right predicate (R6), and the conflict warning is printed
// exactly on the unresolved-conflict path (R4). The sets themselves are not computed by the checker.

import (
	"fmt"
	"go/ast"
	"go/constant"
	"go/token"
	"go/types"
	"strings"
)

func init() { register("C03", checkC03) }

func checkC03(c *Ctx, r *Report) {
	r.Explanation = "R5 DEPENDENCE: for each relation-producing append (lookback, includes, reads, DR) the guard's backward slice (enclosing conditions, preceding early exits, loop domains, closed over local definitions and callee bodies) must contain the fields the relation's definition quantifies over — symbol match, nullable suffix, and the path condition p --ω--> q through the automaton's transition function. R13 on the slice bounds of the nullable suffix / walked prefix. R4 decision tables for the symbol predicates, min, the warning path. R2 ordering premises for 'transition 0 is (state 0, start symbol)'. Digraph/Traverse/Union are compared with the algorithm's skeleton (pinned to the recursive implementation: a rewrite into another shape is reported as undecided). R6 FIXPOINT template for nullable. Not decided: equality of the computed sets with LALR(1) for any grammar; aliasing of slices inside Union."
	r.Assumptions = append(r.Assumptions, "the LR(0) automaton is canonical (C09)", "a dependence that is present is also used correctly — the rule proves absence of a dependence, not correctness of its use")
	c03ab(c, r)
	c03c(c, r)
	c03d(c, r)
	c03e(c, r)
	c03Flows(c, r)
	c03f(c, r)
	c03g(c, r)
	c03h(c, r)
	// C03.i prerequisite: "each reduction in each parser state" — LALR(1) lookaheads are defined on the canonical LR(0)
	// collection; on an automaton with a missing, duplicated or mis-linked state the relations range over the wrong
	// transitions, and conflicts are reported that the grammar does not have (or the other way round). Not repeated
	// when C03 itself is evaluated as a prerequisite of a property that includes C09 directly.
	if r.Prop == "C03" {
		includePrereq(c, r, "C03.i", checkC09)
		// "a conflict warning exactly when the grammar has a conflict that precedence declarations do not resolve":
		// which conflicts precedence resolves is ResolveConflict's decision table (C04.a) — a pair it wrongly calls
		// resolved is a warning that is never printed
		includeClauses(c, r, "C03.f", checkC04, "C04.a")
	}
}

// C03.h — the guard of each relation is exactly the conjunction its definition states: an extra conjunct drops pairs
// for particular grammar shapes (under-approximation), which the dependence rule (a necessary condition on what the
// guard reads) cannot see.
func c03h(c *Ctx, r *Report) {
	const clause = "C03.h"
	type spec struct {
		fn    string
		descr string
		want  [][]string // per expected atom: substrings its canonical form must contain (operand order is free)
	}
	specs := []spec{
		{"CalcLookbacks", "lookback: symbol match ∧ path p --ω--> q", [][]string{
			{"sym_or_rule", "LeftPart.ID", " == "},
			{"walk(", ".RighPart)", ".q", " == "}}},
		{"CaclIncludeRelation", "includes: symbol match ∧ nullable suffix ∧ path p' --β--> p ∧ transition (p', B) exists", [][]string{
			{"Symbols[", "sym_or_rule]", "elem(", "RighPart)", " == "},
			{"seqenceCanEpsilon(", "RighPart[(key(", " + 1):])"},
			{"walk(", "RighPart[:key(", ".q", " == "},
			{"nil", " == "}}},
		{"calcReadsRelation", "reads: candidate leaves the successor state ∧ its symbol is a nullable nonterminal", [][]string{
			{".q", ".to", " == "},
			{"isNonAndEpsilonSymIndex(", "sym_or_rule)"}}},
		{"fetchOneDr", "DR: A is a nonterminal ∧ candidate leaves the successor state ∧ its symbol is a terminal", [][]string{
			{"IsNonTerminator"},
			{".q", ".to", " == "},
			{"isTermSymIndex(", "sym_or_rule)"}}},
	}
	for _, sp := range specs {
		f := c.need(r, clause, "LALR", "LALR1", sp.fn)
		if f == nil {
			continue
		}
		info := f.Pkg.TypesInfo
		var target ast.Node
		if apps := findRelationAppends(f); len(apps) == 1 {
			target = apps[0]
		} else {
			ast.Inspect(f.Decl.Body, func(n ast.Node) bool {
				if call, ok := n.(*ast.CallExpr); ok && builtinName(info, call) == "append" {
					target = call
				}
				return true
			})
		}
		if target == nil {
			r.Undecided(clause, "R4 EXACT-GUARD", f.Name, c.pos(f.Decl.Pos()), "no guarded append")
			continue
		}
		atoms := guardAtoms(c, f, target)
		used := make([]bool, len(atoms))
		var missing []string
		for _, w := range sp.want {
			hit := false
			for i, a := range atoms {
				if used[i] {
					continue
				}
				all := true
				wantNeg := len(w) > 0 && w[0] == "¬"
				if strings.HasPrefix(a, "!") != wantNeg || strings.HasPrefix(a, "no-earlier-element-with(") {
					all = false
				}
				for _, sub := range w {
					if sub == "¬" {
						continue
					}
					if !strings.Contains(a, sub) {
						all = false
					}
				}
				if all {
					used[i], hit = true, true
					break
				}
			}
			if !hit {
				missing = append(missing, strings.Join(w, "…"))
			}
		}
		var extra []string
		for i, a := range atoms {
			if !used[i] {
				extra = append(extra, a)
			}
		}
		bad := ""
		if len(extra) > 0 {
			bad = fmt.Sprintf("the guard has the additional condition(s) %v beyond the definition (%s): pairs of the relation are dropped for the grammar shapes where they are false, so some lookahead is lost", extra, sp.descr)
		} else if len(missing) > 0 {
			bad = fmt.Sprintf("the guard %v lacks a conjunct of the definition (%s)", atoms, sp.descr)
		}
		r.Check(bad == "", clause, "R4 EXACT-GUARD", f.Name+"/guard-is-the-definition", c.pos(target.Pos()),
			fmt.Sprintf("%s — the append is guarded by exactly these %d conditions", sp.descr, len(atoms)), bad)
		// … and for every candidate: the scans around the append run to their end
		var exits []string
		for _, st := range earlyExits(f.Decl.Body, target) {
			exits = append(exits, fmt.Sprintf("`%s` at %s", oneLine(printNode(c.Fset, st)), c.pos(st.Pos())))
		}
		r.Check(len(exits) == 0, clause, "R2 COVERAGE", f.Name+"/every-candidate-is-examined", c.pos(target.Pos()),
			"no break, return or goto leaves a loop around the append: every candidate that satisfies the definition contributes its pair",
			"a scan that collects the relation is left early ("+strings.Join(exits, "; ")+"): the candidates behind that point contribute nothing, so pairs of the relation — and with them lookaheads — are lost for the grammars where more than one candidate matches")
	}
}

// C03.g — the three Digraph stages are chained: Read = DR closed under reads, Follow = Read closed under includes,
// LA = Follow closed under lookback; each stage's relation comes from the matching constructor.
func c03g(c *Ctx, r *Report) {
	const clause = "C03.g"
	type stage struct {
		fn, rel, seed, out string
	}
	for _, st := range []stage{
		{"CalcReadSet", "CalcAllReadRelations", ".DRSet", "&$lalr.ReadSet"},
		{"CalcFollowSet", "CaclIncludes", ".ReadSet", "&$lalr.FollowSet"},
		{"CalcLookAheadSet", "CalcLookbacks", ".FollowSet", "&$Set"},
	} {
		f := c.need(r, clause, "LALR", "LALR1", st.fn)
		if f == nil {
			continue
		}
		info := f.Pkg.TypesInfo
		defs := newDefs(info)
		defs.scan(f.Decl.Body)
		pc := &pathCtx{info: info, defs: defs, root: f.Decl.Body}
		var call *ast.CallExpr
		n := 0
		ast.Inspect(f.Decl.Body, func(nd ast.Node) bool {
			if cl, ok := nd.(*ast.CallExpr); ok {
				if fn := callee(info, cl); fn != nil && fn.Name() == "Digraph" {
					call = cl
					n++
				}
			}
			return true
		})
		if call == nil || n != 1 || len(call.Args) != 4 {
			r.Undecided(clause, "R1 PROVENANCE", f.Name+"/digraph-stage", c.pos(f.Decl.Pos()), "expected exactly one Digraph(X, R, F', &F) call")
			continue
		}
		rel, seed, out := pc.path(call.Args[1]), pc.path(call.Args[2]), pc.path(call.Args[3])
		// the result may be handed over as a map or as a pointer to it; the last stage collects into a local
		outOK := strings.TrimPrefix(out, "&") == strings.TrimPrefix(st.out, "&")
		if st.out == "&$Set" {
			a := unparen(call.Args[3])
			if u, isU := a.(*ast.UnaryExpr); isU && u.Op == token.AND {
				a = unparen(u.X)
			}
			if v, isV := identObj(info, a).(*types.Var); isV && !v.IsField() && v.Parent() != v.Pkg().Scope() {
				outOK = true
			}
		}
		ok := strings.HasSuffix(rel, "."+st.rel+"()") && strings.HasSuffix(seed, st.seed) && outOK
		r.Check(ok, clause, "R1 PROVENANCE", f.Name+"/digraph-stage", c.pos(call.Pos()),
			fmt.Sprintf("closes %s under %s() into %s", strings.TrimPrefix(st.seed, "."), st.rel, strings.TrimPrefix(st.out, "&$")),
			fmt.Sprintf("this stage calls Digraph(_, %s, %s, %s); the DeRemer–Pennello pipeline requires the relation %s(), the seed sets %s and the result %s — seeding from another stage's sets loses (or invents) lookaheads for particular grammar shapes only", rel, seed, out, st.rel, st.seed, st.out))
	}
	// every stage hands Digraph ALL its start nodes: X collects the key of every entry of the seed map (reads, includes)
	// resp. the index of every reduce transition (lookback), unconditionally
	for _, st := range []struct{ fn, over string }{{"CalcReadSet", "DRSet"}, {"CalcFollowSet", "ReadSet"}, {"CalcLookAheadSet", "fetchReduceTransistor"}} {
		f := c.need(r, clause, "LALR", "LALR1", st.fn)
		if f == nil {
			continue
		}
		cf := newCoverFn(f)
		info := cf.info
		var dcall *ast.CallExpr
		ast.Inspect(f.Decl.Body, func(nd ast.Node) bool {
			if cl, ok := nd.(*ast.CallExpr); ok {
				if fn := callee(info, cl); fn != nil && fn.Name() == "Digraph" {
					dcall = cl
				}
			}
			return true
		})
		why := "no Digraph call"
		if dcall != nil && len(dcall.Args) == 4 {
			xObj := identObj(info, dcall.Args[0])
			why = "no loop over " + st.over + " that appends every element's key to the node list handed to Digraph"
			for _, rs := range cf.rangesOver(nil, func(e ast.Expr) bool {
				if fieldNamed(info, e, st.over) {
					return true
				}
				if call, ok := e.(*ast.CallExpr); ok {
					if fn := callee(info, call); fn != nil && fn.Name() == st.over {
						return true
					}
				}
				return false
			}) {
				if rs.Pos() > dcall.Pos() || !cf.unconditional(rs, f.Decl.Body) || !noSkips(rs.Body) {
					continue
				}
				// the node: the range key (maps) or <value>.Index (transition list)
				isNode := func(e ast.Expr) bool {
					if rs.Value == nil {
						return identObj(info, e) != nil && identObj(info, e) == identObj(info, rs.Key)
					}
					return cf.selOn(e, "Index", identObj(info, rs.Value))
				}
				if cf.collectsInto(rs, xObj, isNode) {
					why = ""
				}
			}
		}
		r.Check(why == "", clause, "R2 COVERAGE", f.Name+"/all-start-nodes", c.pos(f.Decl.Pos()),
			"the node list given to Digraph holds every "+st.over+" entry (unconditional loop, no element skipped)", why)
	}
	// DR: every nonterminal transition gets its direct-read set, and the end marker is ADDED to transition 0's own set
	if f := c.need(r, clause, "LALR", "LALR1", "CalcDR"); f != nil {
		cf := newCoverFn(f)
		info := cf.info
		why := "no loop over all transitions"
		for _, rs := range cf.rangesOver(nil, func(e ast.Expr) bool { return fieldNamed(info, e, "trans") }) {
			tr := identObj(info, rs.Value)
			if tr == nil || !cf.unconditional(rs, f.Decl.Body) || !noSkips(rs.Body) {
				why = "the loop over the transitions is conditional or can skip one"
				continue
			}
			why = "no store DRSet[<transition>.Index] = fetchOneDr(<transition>) guarded by exactly isNonSymIndex(<its symbol>)"
			ast.Inspect(rs.Body, func(n ast.Node) bool {
				as, ok := n.(*ast.AssignStmt)
				if !ok || len(as.Lhs) != 1 || len(as.Rhs) != 1 {
					return true
				}
				ix, ok := unparen(as.Lhs[0]).(*ast.IndexExpr)
				if !ok || !fieldNamed(info, ix.X, "DRSet") || !cf.selOn(ix.Index, "Index", tr) {
					return true
				}
				isFetch := func(e ast.Expr) bool {
					call, ok := unparen(e).(*ast.CallExpr)
					if !ok {
						return false
					}
					fn := callee(info, call)
					return fn != nil && fn.Name() == "fetchOneDr" && len(call.Args) == 1 && identObj(info, call.Args[0]) == tr
				}
				okVal := isFetch(as.Rhs[0])
				if o := identObj(info, as.Rhs[0]); o != nil && !okVal {
					// a local that holds fetchOneDr(tr), possibly remembered in a map (memoisation): every definition of
					// the local in the loop body is the call itself or a read of a map into which only that local is stored
					fetches, other := 0, false
					ast.Inspect(rs.Body, func(m ast.Node) bool {
						d, ok := m.(*ast.AssignStmt)
						if !ok {
							return true
						}
						for i, l := range d.Lhs {
							if identObj(info, l) != o {
								continue
							}
							var rhs ast.Expr
							if len(d.Lhs) == len(d.Rhs) {
								rhs = d.Rhs[i]
							} else if len(d.Rhs) == 1 {
								rhs = d.Rhs[0]
							}
							switch {
							case rhs != nil && isFetch(rhs):
								fetches++
							case rhs != nil:
								if ix, ok := unparen(rhs).(*ast.IndexExpr); ok {
									mo := identObj(info, ix.X)
									onlySelf := mo != nil
									ast.Inspect(f.Decl.Body, func(k ast.Node) bool {
										if st, ok := k.(*ast.AssignStmt); ok && len(st.Lhs) == 1 && len(st.Rhs) == 1 {
											if sx, ok := unparen(st.Lhs[0]).(*ast.IndexExpr); ok && identObj(info, sx.X) == mo && identObj(info, st.Rhs[0]) != o {
												onlySelf = false
											}
										}
										return true
									})
									if !onlySelf {
										other = true
									}
								} else {
									other = true
								}
							}
						}
						return true
					})
					okVal = fetches >= 1 && !other
				}
				if !okVal {
					return true
				}
				atoms := guardAtoms(c, f, as)
				if len(atoms) == 1 && strings.Contains(atoms[0], "isNonSymIndex(") && !strings.HasPrefix(atoms[0], "!") && strings.Contains(atoms[0], "sym_or_rule") {
					why = ""
				} else {
					why = fmt.Sprintf("the direct-read set is stored under the guard %v, not exactly `the transition's symbol is a nonterminal`", atoms)
				}
				return true
			})
			if why == "" {
				break
			}
		}
		r.Check(why == "", clause, "R2 COVERAGE", f.Name+"/every-nonterminal-transition-gets-DR", c.pos(f.Decl.Pos()),
			"DRSet[t] = fetchOneDr(t) for every transition t on a nonterminal, and for no other", why)
		// DRSet[0] = append(DRSet[0], end marker)
		ok := false
		ast.Inspect(f.Decl.Body, func(n ast.Node) bool {
			as, isA := n.(*ast.AssignStmt)
			if !isA || len(as.Lhs) != 1 || len(as.Rhs) != 1 {
				return true
			}
			ix, isI := unparen(as.Lhs[0]).(*ast.IndexExpr)
			if !isI || !fieldNamed(info, ix.X, "DRSet") {
				return true
			}
			if v, isC := constInt(info, ix.Index); !isC || v != 0 {
				return true
			}
			if call, isC := unparen(as.Rhs[0]).(*ast.CallExpr); isC && builtinName(info, call) == "append" && len(call.Args) >= 2 {
				if exprString(call.Args[0]) == exprString(as.Lhs[0]) && cf.unconditional(as, f.Decl.Body) {
					ok = true
				}
			}
			return true
		})
		r.Check(ok, clause, "R1 PROVENANCE", f.Name+"/end-marker-added-to-own-set", c.pos(f.Decl.Pos()),
			"the end marker is appended to transition 0's own direct-read set (DRSet[0] = append(DRSet[0], …)), unconditionally",
			"the end marker is not appended onto DRSet[0] itself: transition 0 loses its direct reads or receives another transition's")
	}
	// the relation constructors use the matching per-transition function for every transition
	for _, pr := range [][2]string{{"CalcAllReadRelations", "calcReadsRelation"}, {"CaclIncludes", "CaclIncludeRelation"}} {
		f := c.need(r, clause, "LALR", "LALR1", pr[0])
		if f == nil {
			continue
		}
		info := f.Pkg.TypesInfo
		ok := false
		ast.Inspect(f.Decl.Body, func(nd ast.Node) bool {
			rs, isR := nd.(*ast.RangeStmt)
			if !isR || rs.Key == nil {
				return true
			}
			uses, appends := false, false
			ast.Inspect(rs.Body, func(m ast.Node) bool {
				if cl, isC := m.(*ast.CallExpr); isC {
					if fn := callee(info, cl); fn != nil && fn.Name() == pr[1] && len(cl.Args) == 1 && identObj(info, cl.Args[0]) == identObj(info, rs.Key) {
						uses = true
					}
					if builtinName(info, cl) == "append" && cl.Ellipsis.IsValid() {
						appends = true
					}
				}
				return true
			})
			exits := false
			ast.Inspect(rs.Body, func(m ast.Node) bool {
				if br, isB := m.(*ast.BranchStmt); isB && (br.Tok.String() == "break" || br.Tok.String() == "continue") {
					exits = true
				}
				return true
			})
			if uses && appends && !exits {
				ok = true
			}
			return true
		})
		r.Check(ok, clause, "R2 COVERAGE", f.Name, c.pos(f.Decl.Pos()), "collects "+pr[1]+"(t) for every nonterminal transition t, unconditionally", "does not collect "+pr[1]+"(t) for every nonterminal transition")
	}
	// stage order in ComputeLALR
	if f := c.need(r, clause, "LALR", "", "ComputeLALR"); f != nil {
		info := f.Pkg.TypesInfo
		var seq []string
		ast.Inspect(f.Decl.Body, func(nd ast.Node) bool {
			if cl, ok := nd.(*ast.CallExpr); ok {
				if fn := callee(info, cl); fn != nil {
					switch fn.Name() {
					case "BuildTrans", "CalcDR", "CalcReadSet", "CalcFollowSet", "CalcLookAheadSet", "GenTable":
						seq = append(seq, fn.Name())
					}
				}
			}
			return true
		})
		got := strings.Join(seq, ",")
		r.Check(got == "BuildTrans,CalcDR,CalcReadSet,CalcFollowSet,CalcLookAheadSet,GenTable", clause, "R2 ORDER", f.Name+"/stage-order", c.pos(f.Decl.Pos()),
			"transitions, DR, Read, Follow, LA are computed in this order, each once, before the table", "lookahead stages run as `"+got+"`")
	}
}

var transitionFnFields = []string{"GoToMap", "GoTo", "ItemCl", "to"}

func hasTransitionFn(d *depSet) bool {
	for _, f := range transitionFnFields {
		if d.has("", f) {
			return true
		}
	}
	return false
}

func c03ab(c *Ctx, r *Report) {
	// lookback
	if f := c.need(r, "C03.a", "LALR", "LALR1", "CalcLookbacks"); f != nil {
		apps := findRelationAppends(f)
		if len(apps) != 1 {
			r.Undecided("C03.a", "R5 DEPENDENCE", f.Name+"/lookback-guard", c.pos(f.Decl.Pos()), fmt.Sprintf("expected one relation-producing append, found %d", len(apps)))
		} else {
			d := guardDeps(c, f, apps[0])
			var missing []string
			need := [][2]string{{"Transistor", "sym_or_rule"}, {"ProductoinRule", "LeftPart"}, {"Transistor", "q"}, {"ProductoinRule", "RighPart"}}
			for _, n := range need {
				if !d.has(n[0], n[1]) {
					missing = append(missing, n[0]+"."+n[1])
				}
			}
			if !hasTransitionFn(d) {
				missing = append(missing, "the automaton's transition function (GoTo/GoToMap/ItemCl/to)")
			}
			r.Check(len(missing) == 0, "C03.a", "R5 DEPENDENCE", f.Name+"/lookback-guard", c.pos(apps[0].Pos()),
				"(q, A→ω) lookback (p, A) is guarded by the symbol match and by a path fact p --ω--> q: the guard's slice reads the states of both transitions, the rule's right-hand side and the transition function",
				fmt.Sprintf("the guard of the lookback relation does not depend on %s (it depends only on %v). By definition (q, A→ω) lookback (p, A) iff p --ω--> q; without the path condition every A-transition of the automaton is looked back to, the lookaheads degenerate to FOLLOW-like sets and LALR(1) grammars that are not SLR(1) (S: L '=' R | R; L: '*' R | id; R: L) get spurious conflicts", strings.Join(missing, ", "), d.fieldNames()))
		}
	}
	// includes
	if f := c.need(r, "C03.b", "LALR", "LALR1", "CaclIncludeRelation"); f != nil {
		info := f.Pkg.TypesInfo
		apps := findRelationAppends(f)
		if len(apps) != 1 {
			r.Undecided("C03.b", "R5 DEPENDENCE", f.Name+"/includes-guard", c.pos(f.Decl.Pos()), fmt.Sprintf("expected one relation-producing append, found %d", len(apps)))
		} else {
			d := guardDeps(c, f, apps[0])
			var missing []string
			need := [][2]string{{"Transistor", "sym_or_rule"}, {"ProductoinRule", "LeftPart"}, {"Transistor", "q"}, {"ProductoinRule", "RighPart"}, {"Symbol", "IsEpsilonClosure"}}
			for _, n := range need {
				if !d.has(n[0], n[1]) {
					missing = append(missing, n[0]+"."+n[1])
				}
			}
			if !hasTransitionFn(d) {
				missing = append(missing, "the automaton's transition function (GoTo/GoToMap/ItemCl/to)")
			}
			r.Check(len(missing) == 0, "C03.b", "R5 DEPENDENCE", f.Name+"/includes-guard", c.pos(apps[0].Pos()),
				"(p, A) includes (p', B) is guarded by the symbol match, the nullable suffix and a path fact p' --β--> p through the transition function",
				fmt.Sprintf("the guard of the includes relation does not depend on %s (it depends only on %v). By definition (p, A) includes (p', B) iff B → β A γ, γ nullable and p' --β--> p; without the path condition any state containing an item of the rule qualifies and Follow sets are over-approximated", strings.Join(missing, ", "), d.fieldNames()))
		}
		// R13: nullable suffix is RighPart[Dot+1:] for the matched position Dot
		var rng *ast.RangeStmt
		ast.Inspect(f.Decl.Body, func(n ast.Node) bool {
			if rs, ok := n.(*ast.RangeStmt); ok {
				if fv := fieldVar(info, rs.X); fv != nil && fv.Name() == "RighPart" && rs.Key != nil && rs.Value != nil {
					rng = rs
				}
			}
			return true
		})
		if rng == nil {
			r.Undecided("C03.b", "R13 AFFINE", f.Name+"/nullable-suffix", c.pos(f.Decl.Pos()), "no loop `for Dot, sym := range rule.RighPart`")
		} else {
			keyObj := identObj(info, rng.Key)
			suffixOK, found := false, false
			prefixSeen, prefixOK := false, true
			ast.Inspect(rng.Body, func(n ast.Node) bool {
				call, ok := n.(*ast.CallExpr)
				if !ok {
					return true
				}
				fn := callee(info, call)
				if fn == nil {
					return true
				}
				for _, a := range call.Args {
					se, ok := unparen(a).(*ast.SliceExpr)
					if !ok || exprString(se.X) != exprString(rng.X) {
						continue
					}
					if fn.Name() == "seqenceCanEpsilon" {
						found = true
						if se.High == nil && se.Low != nil {
							if be, ok := unparen(se.Low).(*ast.BinaryExpr); ok && be.Op == token.ADD {
								k, cst := be.X, be.Y
								if identObj(info, k) != keyObj {
									k, cst = cst, k
								}
								if v, isC := constInt(info, cst); isC && v == 1 && identObj(info, k) == keyObj {
									suffixOK = true
								}
							}
						}
					} else if se.Low == nil {
						// walked prefix: RighPart[:Dot]
						prefixSeen = true
						if identObj(info, se.High) != keyObj {
							prefixOK = false
						}
					}
				}
				return true
			})
			r.Check(found && suffixOK, "C03.b", "R13 AFFINE", f.Name+"/nullable-suffix", c.pos(rng.Pos()),
				"the nullable test is applied to RighPart[Dot+1:], the symbols after the matched position",
				"the nullable test is not applied to exactly the symbols after the matched position (expected seqenceCanEpsilon(rule.RighPart[Dot+1:]))")
			if prefixSeen {
				r.Check(prefixOK, "C03.b", "R13 AFFINE", f.Name+"/walked-prefix", c.pos(rng.Pos()),
					"the path condition walks RighPart[:Dot], the symbols before the matched position",
					"the path condition does not walk exactly the symbols before the matched position (expected RighPart[:Dot])")
			}
		}
	}
	// seqenceCanEpsilon is the ∀ over its argument
	if f := c.need(r, "C03.b", "LALR", "LALR1", "seqenceCanEpsilon"); f != nil {
		info := f.Pkg.TypesInfo
		ok := false
		ps := paramObjs(info, f.Decl)
		ast.Inspect(f.Decl.Body, func(n ast.Node) bool {
			rs, isR := n.(*ast.RangeStmt)
			if !isR || len(ps) != 1 || identObj(info, rs.X) != ps[0] {
				return true
			}
			pe := newPathEnum(info)
			paths, err := pe.Enumerate(rs.Body.List)
			if err != nil {
				return true
			}
			// exactly: [!elem.IsEpsilonClosure] → the result becomes false (assigned, or returned at once); otherwise nothing
			good := true
			for _, p := range paths {
				neg := false
				for _, cd := range p.Conds {
					if strings.HasSuffix(cd.Atom.String(), ".IsEpsilonClosure") && !cd.Pol {
						neg = true
					}
				}
				setsFalse := false
				for _, o := range p.Env {
					if o != nil && o.Op == "const" && o.Val.Kind() == constant.Bool && !constant.BoolVal(o.Val) {
						setsFalse = true
					}
				}
				if p.Kind == "return" && len(p.Vals) == 1 && p.Vals[0].Op == "const" && p.Vals[0].Val.Kind() == constant.Bool && !constant.BoolVal(p.Vals[0].Val) {
					setsFalse = true
				}
				if neg != setsFalse {
					good = false
				}
			}
			// the value for "no symbol failed" is true: `ret := true … return ret` or a final `return true`
			startsTrue := false
			ast.Inspect(f.Decl.Body, func(m ast.Node) bool {
				switch y := m.(type) {
				case *ast.AssignStmt:
					if len(y.Rhs) == 1 && y.Tok.String() == ":=" {
						if cv := constOf(info, y.Rhs[0]); cv != nil && cv.Kind() == constant.Bool && constant.BoolVal(cv) {
							startsTrue = true
						}
					}
				case *ast.ReturnStmt:
					if len(y.Results) == 1 && y.Pos() > rs.End() {
						if cv := constOf(info, y.Results[0]); cv != nil && cv.Kind() == constant.Bool && constant.BoolVal(cv) {
							startsTrue = true
						}
					}
				}
				return true
			})
			ok = good && len(paths) == 2 && startsTrue
			return true
		})
		// initial value true and returned
		r.Check(ok, "C03.b", "R4 DECISION-TABLE", f.Name, c.pos(f.Decl.Pos()),
			"true for the empty sequence, false as soon as one symbol is not nullable", "is not the conjunction of IsEpsilonClosure over its argument")
	}
}

func c03c(c *Ctx, r *Report) {
	const clause = "C03.c"
	type req struct {
		fn    string
		what  string
		need  [][2]string
		descr string
	}
	for _, q := range []req{
		{"calcReadsRelation", "reads-guard", [][2]string{{"Transistor", "to"}, {"Transistor", "q"}, {"Transistor", "sym_or_rule"}, {"Symbol", "IsNonTerminator"}, {"Symbol", "IsEpsilonClosure"}},
			"(p, A) reads (r, C) iff p --A--> r --C--> and C is a nullable nonterminal"},
		{"fetchOneDr", "DR-guard", [][2]string{{"Transistor", "to"}, {"Transistor", "q"}, {"Transistor", "sym_or_rule"}, {"Symbol", "IsNonTerminator"}},
			"DR(p, A) = terminals t with p --A--> r --t-->"},
	} {
		f := c.need(r, clause, "LALR", "LALR1", q.fn)
		if f == nil {
			continue
		}
		info := f.Pkg.TypesInfo
		// the guarded statement: relation append, or the append of a symbol to the result
		var target ast.Node
		if apps := findRelationAppends(f); len(apps) == 1 {
			target = apps[0]
		} else {
			ast.Inspect(f.Decl.Body, func(n ast.Node) bool {
				if call, ok := n.(*ast.CallExpr); ok && builtinName(info, call) == "append" {
					target = call
				}
				return true
			})
		}
		if target == nil {
			r.Undecided(clause, "R5 DEPENDENCE", f.Name+"/"+q.what, c.pos(f.Decl.Pos()), "no guarded append found")
			continue
		}
		d := guardDeps(c, f, target)
		var missing []string
		for _, n := range q.need {
			if !d.has(n[0], n[1]) {
				missing = append(missing, n[0]+"."+n[1])
			}
		}
		r.Check(len(missing) == 0, clause, "R5 DEPENDENCE", f.Name+"/"+q.what, c.pos(target.Pos()),
			q.descr+": the guard reads the successor state, the candidate's source state, its symbol and the symbol class",
			fmt.Sprintf("%s — but the guard does not depend on %s (depends on %v)", q.descr, strings.Join(missing, ", "), d.fieldNames()))
		// the successor test compares candidate.q with the successor state tr.to
		cmpOK := false
		defs := newDefs(info)
		defs.scan(f.Decl.Body)
		pc := &pathCtx{info: info, defs: defs, root: f.Decl.Body}
		ast.Inspect(f.Decl.Body, func(n ast.Node) bool {
			be, ok := n.(*ast.BinaryExpr)
			if !ok || be.Op != token.EQL {
				return true
			}
			a, b := pc.path(be.X), pc.path(be.Y)
			if (strings.HasSuffix(a, ".q") && strings.HasSuffix(b, ".to")) || (strings.HasSuffix(b, ".q") && strings.HasSuffix(a, ".to")) {
				cmpOK = true
			}
			return true
		})
		r.Check(cmpOK, clause, "R4 DECISION-TABLE", f.Name+"/successor-state-test", c.pos(f.Decl.Pos()),
			"candidates are the transitions leaving the successor state (candidate.q == tr.to)",
			"no test `candidate.q == tr.to`: candidates are not restricted to the transitions that leave the successor state")
	}
	// symbol predicates as decision tables
	type predSpec struct {
		name string
		want func(isRule, nt, eps bool) bool
	}
	for _, ps := range []predSpec{
		{"isNonSymIndex", func(isRule, nt, eps bool) bool { return !isRule && nt }},
		{"isNonAndEpsilonSymIndex", func(isRule, nt, eps bool) bool { return !isRule && nt && eps }},
		{"isTermSymIndex", func(isRule, nt, eps bool) bool { return !isRule && !nt }},
	} {
		f := c.need(r, clause, "LALR", "LALR1", ps.name)
		if f == nil {
			continue
		}
		pe := newPathEnum(f.Pkg.TypesInfo)
		paths, err := pe.Enumerate(f.Decl.Body.List)
		if err != nil {
			r.Undecided(clause, "R4 DECISION-TABLE", f.Name, c.pos(f.Decl.Pos()), err.Error())
			continue
		}
		bad := ""
		n := 0
		for _, isRule := range []bool{false, true} {
			for _, nt := range []bool{false, true} {
				for _, eps := range []bool{false, true} {
					ir, n2, e2 := isRule, nt, eps
					val := func(t *Term) (constant.Value, bool) {
						switch {
						case t.Op == "cmp" && strings.Contains(t.String(), "&"): // (in & CheckMask) != 0
							// only the exact rule-bit test is decided by the class: mask = CheckMask, compared with 0
							if !isRuleBitTest(c, t) {
								return nil, false
							}
							v := ir
							if t.Name == "==" {
								v = !ir
							}
							return constant.MakeBool(v), true
						case t.Op == "field" && t.Name == "IsNonTerminator":
							return constant.MakeBool(n2), true
						case t.Op == "field" && t.Name == "IsEpsilonClosure":
							return constant.MakeBool(e2), true
						}
						return nil, false
					}
					for _, p := range selectPaths(paths, val) {
						if p.Kind != "return" || len(p.Vals) != 1 {
							continue
						}
						v, ok := evalTerm(p.Vals[0], val)
						n++
						if !ok || v.Kind() != constant.Bool {
							bad = "result " + p.Vals[0].String() + " is not decided by the class"
							continue
						}
						if constant.BoolVal(v) != ps.want(ir, n2, e2) {
							bad = fmt.Sprintf("for (rule-bit=%v, nonterminal=%v, nullable=%v) the result is %v, expected %v", ir, n2, e2, constant.BoolVal(v), ps.want(ir, n2, e2))
						}
					}
				}
			}
		}
		r.Check(bad == "" && n >= 8, clause, "R4 DECISION-TABLE", f.Name, c.pos(f.Decl.Pos()), "all 8 classes (rule bit × nonterminal × nullable) give the defined result", bad)
	}
	c03WalkAndFetch(c, r, clause)
	c03EndMarker(c, r, clause)
	// BuildTrans ordering premises
	if f := c.need(r, clause, "LALR", "LALR1", "BuildTrans"); f != nil {
		c03BuildTrans(c, r, f)
	}
}

// c03TransEncoding — how BuildTrans writes a transition is how every reader decodes it: a goto entry g of state s
// becomes {q: s.Index, sym_or_rule: g.Sym.ID, to: g.ItemCl}; a completed item (Dot == length of its own rule) of
// state s becomes {q: s.Index, sym_or_rule: RuleIndex | CheckMask, to: MaxInt}; CheckMask is a single bit and Mask
// its complement, so `x&CheckMask != 0` tells the two kinds apart and `x&Mask` returns the rule.
func c03TransEncoding(c *Ctx, r *Report, f *FuncRef) {
	const clause = "C03.c"
	cf := newCoverFn(f)
	info := cf.info
	key := f.Name + "/transition-encoding"
	p := c.Pkg("LALR")
	cm, ok1 := pkgConst(p, "CheckMask")
	mk, ok2 := pkgConst(p, "Mask")
	if !ok1 || !ok2 {
		r.Undecided(clause, "R4 DECISION-TABLE", key, c.pos(f.Decl.Pos()), "constants CheckMask / Mask not found")
		return
	}
	cmv, _ := constant.Uint64Val(constant.ToInt(cm))
	mkv, _ := constant.Uint64Val(constant.ToInt(mk))
	why := ""
	if cmv == 0 || cmv&(cmv-1) != 0 || cmv < 1<<20 {
		why = fmt.Sprintf("CheckMask (%d) is not a single bit above every symbol number", cmv)
	} else if mkv != ^cmv {
		why = "Mask is not the complement of CheckMask"
	}
	var gotoLit, redLit *ast.CompositeLit
	var gotoRS, redRS *ast.RangeStmt
	ast.Inspect(f.Decl.Body, func(n ast.Node) bool {
		cl, ok := n.(*ast.CompositeLit)
		if !ok {
			return true
		}
		if t := info.TypeOf(cl); t == nil || !strings.HasSuffix(t.String(), "Transistor") {
			return true
		}
		for cur := cf.pm[cl]; cur != nil; cur = cf.pm[cur] {
			if rs, ok := cur.(*ast.RangeStmt); ok {
				if fieldNamed(info, rs.X, "GoTo") && gotoLit == nil {
					gotoLit, gotoRS = cl, rs
				}
				if fieldNamed(info, rs.X, "Items") && redLit == nil {
					redLit, redRS = cl, rs
				}
				if fieldNamed(info, rs.X, "GoTo") || fieldNamed(info, rs.X, "Items") {
					break
				}
			}
		}
		return true
	})
	field := func(cl *ast.CompositeLit, name string) ast.Expr {
		for _, el := range cl.Elts {
			if kv, ok := el.(*ast.KeyValueExpr); ok {
				if id, ok := kv.Key.(*ast.Ident); ok && id.Name == name {
					return kv.Value
				}
			}
		}
		return nil
	}
	stateOf := func(rs *ast.RangeStmt) types.Object {
		// the enclosing loop over the states
		for cur := cf.pm[rs]; cur != nil; cur = cf.pm[cur] {
			if outer, ok := cur.(*ast.RangeStmt); ok {
				return identObj(info, outer.Value)
			}
		}
		return nil
	}
	if why == "" {
		switch {
		case gotoLit == nil || redLit == nil:
			why = "the two transition literals (inside the loops over GoTo and Items) were not found"
		default:
			g, st := identObj(info, gotoRS.Value), stateOf(gotoRS)
			if q := field(gotoLit, "q"); q == nil || !cf.selOn(q, "Index", st) {
				why = "a goto transition's source is not the state it was found in"
			}
			if sy := field(gotoLit, "sym_or_rule"); sy == nil {
				why = "a goto transition has no symbol"
			} else if se, ok := cf.resolve(sy).(*ast.SelectorExpr); !ok || !fieldNamed(info, se, "ID") || !cf.selOn(se.X, "Sym", g) {
				why = "a goto transition's symbol is not the ID of the goto entry's own symbol"
			}
			if to := field(gotoLit, "to"); to == nil || !cf.selOn(to, "ItemCl", g) {
				why = "a goto transition's target is not the goto entry's own target state"
			}
			it, st2 := identObj(info, redRS.Value), stateOf(redRS)
			if q := field(redLit, "q"); q == nil || !cf.selOn(q, "Index", st2) {
				why = "a reduce transition's source is not the state that holds the completed item"
			}
			if to := field(redLit, "to"); to != nil {
				if cv := constOf(info, to); cv == nil {
					why = "a reduce transition's target is not the constant MaxInt"
				}
			}
			// guard and value through the path enumerator (the value is built in two steps)
			pe := newPathEnum(info)
			if it != nil {
				pe.rename[it] = "IT"
			}
			paths, err := pe.Enumerate(redRS.Body.List)
			if err != nil {
				why = err.Error()
			}
			nApp := 0
			for _, p := range paths {
				for _, e := range p.Effects {
					var vals []*Term
					collectFieldOfComposite(e.Term, "Transistor", "sym_or_rule", &vals)
					for _, v := range vals {
						nApp++
						want1 := fmt.Sprintf("(IT.RuleIndex | %d)", cmv)
						want2 := fmt.Sprintf("(%d | IT.RuleIndex)", cmv)
						if v.String() != want1 && v.String() != want2 {
							why = "a reduce transition is encoded as `" + v.String() + "`, not as <rule index of the item> | CheckMask: readers test `&CheckMask != 0` and take `&Mask` as the rule"
						}
						okGuard := len(p.Conds) == 1 && p.Conds[0].Pol && strings.HasPrefix(p.Conds[0].Atom.String(), "(IT.Dot == len(") && strings.Contains(p.Conds[0].Atom.String(), "[IT.RuleIndex].RighPart)")
						if !okGuard {
							why = "a reduce transition is recorded under `" + p.CondString() + "`, not exactly when the dot is at the end of the item's own rule"
						}
					}
				}
			}
			if why == "" && nApp != 1 {
				why = fmt.Sprintf("%d paths of the item loop record a reduce transition, expected one", nApp)
			}
		}
	}
	r.Check(why == "", clause, "R4 DECISION-TABLE", key, c.pos(f.Decl.Pos()),
		"goto entry → {state, symbol id, target}; completed item → {state, rule | CheckMask, MaxInt}; CheckMask is one high bit and Mask its complement", why)
}

func c03BuildTrans(c *Ctx, r *Report, f *FuncRef) {
	const clause = "C03.c"
	c03TransEncoding(c, r, f)
	info := f.Pkg.TypesInfo
	// the two places that append transitions: inside a loop over a state's GoTo list and inside a loop over its
	// Items. They may sit in two top-level loops (goto loop first) or in one loop over the states (goto part first):
	// either way, of the transitions of one source state the gotos are appended before the reductions.
	gotoIdx, redIdx, sortIdx, fillIdx := -1, -1, -1, -1
	sortKeyOK := false
	pm := parentMap(f.Decl.Body)
	var gotoApp, redApp ast.Node
	ast.Inspect(f.Decl.Body, func(n ast.Node) bool {
		call, ok := n.(*ast.CallExpr)
		if !ok || builtinName(info, call) != "append" || len(call.Args) == 0 {
			return true
		}
		if fv := fieldVar(info, call.Args[0]); fv == nil || fv.Name() != "trans" {
			return true
		}
		// innermost enclosing range over .GoTo / .Items
		for cur := pm[call]; cur != nil; cur = pm[cur] {
			if rs, ok := cur.(*ast.RangeStmt); ok {
				if fv := fieldVar(info, rs.X); fv != nil {
					if fv.Name() == "GoTo" && gotoApp == nil {
						gotoApp = call
					}
					if fv.Name() == "Items" && redApp == nil {
						redApp = call
					}
					if fv.Name() == "GoTo" || fv.Name() == "Items" {
						break
					}
				}
			}
		}
		return true
	})
	topIndex := func(n ast.Node) (int, ast.Stmt) {
		for cur := n; cur != nil; cur = pm[cur] {
			if pm[cur] == ast.Node(f.Decl.Body) {
				for i, s := range f.Decl.Body.List {
					if ast.Node(s) == cur {
						return i, s
					}
				}
			}
		}
		return -1, nil
	}
	if gotoApp != nil && redApp != nil {
		var gs, rs ast.Stmt
		gotoIdx, gs = topIndex(gotoApp)
		redIdx, rs = topIndex(redApp)
		if gs == rs && gs != nil {
			// one loop over the states: order inside its body decides
			if outer, ok := gs.(*ast.RangeStmt); ok {
				gi, ri := -1, -1
				for i, st := range outer.Body.List {
					if st.Pos() <= gotoApp.Pos() && gotoApp.End() <= st.End() {
						gi = i
					}
					if st.Pos() <= redApp.Pos() && redApp.End() <= st.End() {
						ri = i
					}
				}
				if gi >= 0 && ri > gi {
					redIdx = gotoIdx + 1 // same statement, goto part first: counts as "after"
					sortIdxShift := 1
					_ = sortIdxShift
				} else {
					redIdx = -1
				}
			} else {
				redIdx = -1
			}
		}
	}
	mergedShift := 0
	if gotoApp != nil && redApp != nil {
		if gi, _ := topIndex(gotoApp); gi >= 0 {
			if ri, _ := topIndex(redApp); ri == gi && redIdx == gotoIdx+1 {
				mergedShift = 1
			}
		}
	}
	for i, s := range f.Decl.Body.List {
		switch x := s.(type) {
		case *ast.RangeStmt:
			fill := false
			ast.Inspect(x, func(n ast.Node) bool {
				if y, ok := n.(*ast.AssignStmt); ok {
					for _, l := range y.Lhs {
						if fv := fieldVar(info, l); fv != nil && fv.Name() == "Index" {
							fill = true
						}
					}
				}
				return true
			})
			if fill {
				fillIdx = i + mergedShift
			}
		case *ast.ExprStmt:
			if call, ok := x.X.(*ast.CallExpr); ok {
				if fn := callee(info, call); fn != nil && fn.FullName() == "sort.SliceStable" && len(call.Args) == 2 {
					sortIdx = i + mergedShift
					if fl, ok := call.Args[1].(*ast.FuncLit); ok && len(fl.Body.List) == 1 {
						if rs, ok := fl.Body.List[0].(*ast.ReturnStmt); ok && len(rs.Results) == 1 {
							if be, ok := unparen(rs.Results[0]).(*ast.BinaryExpr); ok && be.Op == token.LSS {
								fa, fb := fieldVar(info, be.X), fieldVar(info, be.Y)
								if fa != nil && fb != nil && fa.Name() == "q" && fb.Name() == "q" {
									sortKeyOK = true
								}
							}
						}
					}
				}
			}
		}
	}
	ok := gotoIdx >= 0 && redIdx > gotoIdx && sortIdx > redIdx && fillIdx > sortIdx && sortKeyOK
	r.Check(ok, clause, "R2 ORDER", f.Name+"/transition-0-is-(0,S)", c.pos(f.Decl.Pos()),
		"goto transitions are collected before reduce transitions, the sort is stable on the source state alone, indices are assigned after the sort: transition 0 is state 0's first goto, (0, S)",
		fmt.Sprintf("the premises of 'transition index 0 is (state 0, start symbol)' do not hold (goto loop@%d, reduce loop@%d, stable sort@%d key-is-q=%v, index fill@%d): DR/lookahead keys would be attached to the wrong transitions", gotoIdx, redIdx, sortIdx, sortKeyOK, fillIdx))
	// one transition per GoTo entry with (q, sym.ID, ItemCl); one per final item with rule|bit
	finalOK := false
	ast.Inspect(f.Decl.Body, func(n ast.Node) bool {
		is, ok := n.(*ast.IfStmt)
		if !ok {
			return true
		}
		be, ok := unparen(is.Cond).(*ast.BinaryExpr)
		if !ok || be.Op != token.EQL {
			return true
		}
		a, b := exprString(be.X), exprString(be.Y)
		if (strings.HasSuffix(a, ".Dot") && strings.HasPrefix(b, "len(") && strings.HasSuffix(b, ".RighPart)")) || (strings.HasSuffix(b, ".Dot") && strings.HasPrefix(a, "len(")) {
			finalOK = true
		}
		return true
	})
	r.Check(finalOK, clause, "R4 DECISION-TABLE", f.Name+"/reduce-transition-iff-final-item", c.pos(f.Decl.Pos()),
		"a reduce transition is created exactly for items whose dot is at the end of the right-hand side", "reduce transitions are not created under `it.Dot == len(rule.RighPart)`")
}

// ---------------------------------------------------------------------------------------------
// C03.d Digraph skeleton

func storesAndCalls(p *PathOut, callSuffix ...string) []string {
	var out []string
	for _, e := range p.Effects {
		switch e.Kind {
		case "store":
			out = append(out, "store "+normTerm(e.LHS)+" = "+normTerm(e.Term))
		case "call":
			for _, s := range callSuffix {
				if strings.HasSuffix(e.Term.Name, s) {
					out = append(out, "call "+s)
				}
			}
		}
	}
	return out
}

func c03d(c *Ctx, r *Report) {
	const clause = "C03.d"
	c03OwnStorage(c, r, clause)
	f := c.need(r, clause, "LALR", "", "Traverse")
	if f == nil {
		return
	}
	info := f.Pkg.TypesInfo
	ps := paramObjs(info, f.Decl)
	if len(ps) != 6 {
		r.Undecided(clause, "R2 SKELETON", f.Name, c.pos(f.Decl.Pos()), "expected parameters (x, R, FP, F, N, S)")
		return
	}
	rename := func(pe *PathEnum) {
		for i, n := range []string{"X", "R", "FP", "F", "N", "S"} {
			pe.rename[ps[i]] = n
		}
	}
	maxInt, _ := pkgConst(c.Pkg("LALR"), "MaxInt")
	// locate the statements
	var edgeLoop *ast.RangeStmt
	var popIf *ast.IfStmt
	var pre []ast.Stmt
	for _, s := range f.Decl.Body.List {
		switch x := s.(type) {
		case *ast.RangeStmt:
			if identObj(info, x.X) == ps[1] {
				edgeLoop = x
			}
		case *ast.IfStmt:
			if edgeLoop != nil {
				popIf = x
			}
		default:
			if edgeLoop == nil {
				pre = append(pre, s)
			}
		}
	}
	if edgeLoop == nil || popIf == nil {
		r.Undecided(clause, "R2 SKELETON", f.Name, c.pos(f.Decl.Pos()), "no loop over the relation R followed by the SCC pop (rule is pinned to the recursive Digraph implementation)")
		return
	}
	// prelude: Push(x); d = len(S); N[x] = d; F[x] = FP[x]
	pe := newPathEnum(info)
	rename(pe)
	prePaths, err := pe.Enumerate(pre)
	if err != nil || len(prePaths) != 1 {
		r.Undecided(clause, "R2 SKELETON", f.Name+"/prelude", c.pos(f.Decl.Pos()), "prelude is not straight-line")
		return
	}
	// F may be handed over as a map or as a pointer to one: `(*F)[x]` and `F[x]` are the same cell
	derefF := func(s string) string { return strings.ReplaceAll(s, "*F[", "F[") }
	got := derefF(strings.Join(storesAndCalls(prePaths[0], "stack).Push"), "; "))
	want := "call stack).Push; store N[X] = len(*S); store F[X] = FP[X]"
	r.Check(got == want, clause, "R2 SKELETON", f.Name+"/prelude", c.pos(f.Decl.Pos()),
		"push x; N[x] = depth after the push; F[x] = F'[x] — before any edge is followed",
		"prelude is `"+got+"`, the algorithm requires `"+want+"` (depth recorded after the push, F x initialised from F' x before the edges)")
	// edge loop body
	pe = newPathEnum(info)
	rename(pe)
	el := identObj(info, edgeLoop.Value)
	if el != nil {
		pe.rename[el] = "E"
	}
	paths, err := pe.Enumerate(edgeLoop.Body.List)
	if err != nil {
		r.Undecided(clause, "R2 SKELETON", f.Name+"/edge-loop", c.pos(edgeLoop.Pos()), err.Error())
		return
	}
	bad := ""
	nEdge := 0
	for _, p := range paths {
		isEdge, unvisited, hasUnv := false, false, false
		for _, cd := range p.Conds {
			s := normCond(Cond{cd.Atom, true})
			if s == "E.x == X" {
				isEdge = cd.Pol
			}
			if s == "0 == N[E.y]" {
				hasUnv = true
				unvisited = cd.Pol
			}
		}
		eff := storesAndCalls(p, "LALR.Traverse")
		if !isEdge {
			if len(eff) != 0 {
				bad = "a relation pair that does not start at x has effects: " + strings.Join(eff, "; ")
			}
			continue
		}
		nEdge++
		var wantSeq []string
		if hasUnv && unvisited {
			wantSeq = append(wantSeq, "call LALR.Traverse")
		}
		g := derefF(strings.Join(eff, "; "))
		okN := strings.Contains(g, "store N[X] = LALR.min(N[X], N[E.y])") || strings.Contains(g, "store N[X] = LALR.min(N[E.y], N[X])")
		okF := strings.Contains(g, "store F[X] = LALR.Union(F[E.y], F[X])") || strings.Contains(g, "store F[X] = LALR.Union(F[X], F[E.y])")
		okT := (strings.HasPrefix(g, "call LALR.Traverse")) == (hasUnv && unvisited)
		if !hasUnv {
			bad = "the recursion is not guarded by N[y] == 0"
		}
		if !okN || !okF || !okT {
			bad = fmt.Sprintf("for an edge x R y (y %svisited) the effects are `%s`; required: recurse iff N[y]==0, then N[x] = min(N[x], N[y]) and F[x] = F[x] ∪ F[y]", map[bool]string{true: "un", false: ""}[unvisited], g)
		}
	}
	if nEdge < 2 {
		bad = "the edge loop does not distinguish visited and unvisited successors"
	}
	// recursion passes the same R, FP, F, N, S and y
	for _, p := range paths {
		for _, e := range p.Effects {
			if e.Kind == "call" && strings.HasSuffix(e.Term.Name, "LALR.Traverse") {
				if e.Term.String() != "LALR.Traverse(E.y, R, FP, F, N, S)" {
					bad = "recursive call is " + e.Term.String() + ", expected Traverse(y, R, FP, F, N, S)"
				}
			}
		}
	}
	r.Check(bad == "", clause, "R2 SKELETON", f.Name+"/edge-loop", c.pos(edgeLoop.Pos()),
		"for every pair x R y: recurse iff y is unvisited, then N[x] = min(N[x], N[y]) and F[x] = F[x] ∪ F[y]; pairs not starting at x have no effect", bad)
	// SCC pop
	pe = newPathEnum(info)
	rename(pe)
	// the depth recorded in the prelude: local defined as len(*S)
	for _, s := range pre {
		if as, ok := s.(*ast.AssignStmt); ok && len(as.Lhs) == 1 && len(as.Rhs) == 1 {
			if call, ok := as.Rhs[0].(*ast.CallExpr); ok && builtinName(info, call) == "len" {
				if o := identObj(info, as.Lhs[0]); o != nil {
					pe.rename[o] = "len(*S)"
				}
			}
		}
	}
	popPaths, err := pe.Enumerate([]ast.Stmt{popIf})
	bad = ""
	if err != nil {
		bad = err.Error()
	} else {
		var inner *ast.ForStmt
		for _, p := range popPaths {
			root := false
			for _, cd := range p.Conds {
				if normCond(Cond{cd.Atom, true}) == "N[X] == len(*S)" {
					root = cd.Pol
				}
			}
			eff := storesAndCalls(p)
			if !root && len(eff) > 0 {
				bad = "a non-root node (N[x] != d) pops the stack"
			}
			if root {
				for _, e := range p.Effects {
					if e.Kind == "loop" {
						inner, _ = e.Node.(*ast.ForStmt)
					}
				}
			}
		}
		if inner == nil {
			bad = "no pop loop under N[x] == d"
		} else {
			pe = newPathEnum(info)
			rename(pe)
			ip, err := pe.Enumerate(inner.Body.List)
			if err != nil {
				bad = err.Error()
			} else {
				sawBreak, sawFall := false, false
				for _, p := range ip {
					g := derefF(strings.Join(storesAndCalls(p, "stack).Pop"), "; "))
					top := "(*LALR.stack).Pop(*S)"
					wantStores := "call stack).Pop; store N[" + top + "] = " + maxInt.ExactString() + "; store F[" + top + "] = F[X]"
					if g != wantStores {
						bad = "a pop iteration does `" + g + "`, required `" + wantStores + "` (every popped node gets N = ∞ and the root's F)"
					}
					isTop := false
					for _, cd := range p.Conds {
						if s := normCond(Cond{cd.Atom, true}); s == top+" == X" || s == "X == "+top {
							isTop = cd.Pol
						}
					}
					if isTop {
						if p.Kind != "break" {
							bad = "the pop loop does not stop at x"
						}
						sawBreak = true
					} else {
						if p.Kind != "fall" {
							bad = "the pop loop stops before reaching x"
						}
						sawFall = true
					}
				}
				if !sawBreak || !sawFall {
					bad = "the pop loop does not run `until top == x`"
				}
			}
		}
	}
	r.Check(bad == "", clause, "R2 SKELETON", f.Name+"/scc-pop", c.pos(popIf.Pos()),
		"if N[x] == d: pop until x, every popped node gets N = ∞ and F = F[x] (strongly connected nodes share one set)", bad)

	// min
	if m := c.need(r, clause, "LALR", "", "min"); m != nil {
		minfo := m.Pkg.TypesInfo
		mps := paramObjs(minfo, m.Decl)
		pe := newPathEnum(minfo)
		if len(mps) == 2 {
			pe.rename[mps[0]] = "A"
			pe.rename[mps[1]] = "B"
		}
		paths, err := pe.Enumerate(m.Decl.Body.List)
		bad := ""
		if err != nil || len(mps) != 2 {
			bad = "cannot enumerate"
		} else {
			for _, cl := range [][2]int64{{1, 2}, {2, 1}, {3, 3}} {
				a, b := cl[0], cl[1]
				val := func(t *Term) (constant.Value, bool) {
					if t.Op == "leaf" && t.Name == "A" {
						return constant.MakeInt64(a), true
					}
					if t.Op == "leaf" && t.Name == "B" {
						return constant.MakeInt64(b), true
					}
					return nil, false
				}
				p, err := selectPath(paths, val)
				if err != nil {
					bad = err.Error()
					continue
				}
				v, ok := evalTerm(p.Vals[0], val)
				want := a
				if b < a {
					want = b
				}
				if !ok || v.ExactString() != fmt.Sprint(want) {
					bad = fmt.Sprintf("min(%d,%d) yields %v", a, b, v)
				}
			}
		}
		r.Check(bad == "", clause, "R4 DECISION-TABLE", m.Name, c.pos(m.Decl.Pos()), "returns the smaller argument on all three ordering classes", bad)
	}
	// Union
	if u := c.need(r, clause, "LALR", "", "Union"); u != nil {
		c03Union(c, r, u)
	}
	// Digraph: N = 0 for all, Traverse for every unvisited x
	if g := c.need(r, clause, "LALR", "", "Digraph"); g != nil {
		ginfo := g.Pkg.TypesInfo
		initOK, callOK := false, false
		ast.Inspect(g.Decl.Body, func(n ast.Node) bool {
			rs, ok := n.(*ast.RangeStmt)
			if !ok {
				return true
			}
			pe := newPathEnum(ginfo)
			paths, err := pe.Enumerate(rs.Body.List)
			if err != nil {
				return true
			}
			for _, p := range paths {
				for _, e := range p.Effects {
					if e.Kind == "store" && e.LHS.Op == "index" && e.Term.Op == "const" && e.Term.Val.ExactString() == "0" && len(p.Conds) == 0 {
						initOK = true
					}
					if e.Kind == "call" && strings.HasSuffix(e.Term.Name, "LALR.Traverse") {
						// guarded by exactly N[x] == 0 (written as `if N[x] == 0 {…}` or as `if N[x] != 0 { continue }`)
						if len(p.Conds) == 1 {
							cd := p.Conds[0]
							a := cd.Atom
							if a.Op == "cmp" && len(a.Args) == 2 && (a.Name == "==" || a.Name == "!=") {
								isEq := (a.Name == "==") == cd.Pol
								l, rr := a.Args[0], a.Args[1]
								if l.Op == "const" {
									l, rr = rr, l
								}
								if isEq && l.Op == "index" && rr.Op == "const" && rr.Val.ExactString() == "0" {
									callOK = true
								}
							}
						}
					}
				}
			}
			return true
		})
		r.Check(initOK && callOK, clause, "R2 SKELETON", g.Name, c.pos(g.Decl.Pos()),
			"N is zeroed for every node and Traverse is started from every node that is still unvisited",
			fmt.Sprintf("Digraph does not (zero N for all nodes: %v) and (traverse every unvisited node: %v)", initOK, callOK))
	}
}

func c03Union(c *Ctx, r *Report, u *FuncRef) {
	const clause = "C03.d"
	info := u.Pkg.TypesInfo
	ps := paramObjs(info, u.Decl)
	if len(ps) != 2 {
		r.Undecided(clause, "R2 SKELETON", u.Name, c.pos(u.Decl.Pos()), "expected two slices")
		return
	}
	// result variable returned
	var res types.Object
	for _, s := range u.Decl.Body.List {
		if rs, ok := s.(*ast.ReturnStmt); ok && len(rs.Results) == 1 {
			res = identObj(info, rs.Results[0])
		}
	}
	bad := ""
	if res == nil {
		bad = "does not return a local result slice"
	}
	var base types.Object // parameter the result starts from
	var outer *ast.RangeStmt
	outerLabel := ""
	for _, s := range u.Decl.Body.List {
		if as, ok := s.(*ast.AssignStmt); ok && len(as.Lhs) == 1 && identObj(info, as.Lhs[0]) == res && res != nil {
			base = identObj(info, as.Rhs[0])
			// or a copy of an argument: append(<empty>, arg...)
			if call, ok := unparen(as.Rhs[0]).(*ast.CallExpr); ok && builtinName(info, call) == "append" && len(call.Args) == 2 && call.Ellipsis.IsValid() {
				empty := false
				switch x := unparen(call.Args[0]).(type) {
				case *ast.CallExpr: // []int(nil)
					if len(x.Args) == 1 {
						if id, ok := unparen(x.Args[0]).(*ast.Ident); ok && id.Name == "nil" {
							empty = true
						}
					}
				case *ast.CompositeLit:
					empty = len(x.Elts) == 0
				case *ast.Ident:
					empty = x.Name == "nil"
				}
				if empty {
					base = identObj(info, call.Args[1])
				}
			}
		}
		if rs, ok := s.(*ast.RangeStmt); ok {
			outer = rs
		}
		if ls, ok := s.(*ast.LabeledStmt); ok {
			if rs, ok := ls.Stmt.(*ast.RangeStmt); ok {
				outer, outerLabel = rs, ls.Label.Name
			}
		}
	}
	if bad == "" && (base == nil || (base != ps[0] && base != ps[1])) {
		bad = "the result does not start as a copy of one of the arguments"
	}
	if bad == "" && outer == nil {
		bad = "no loop over the other argument"
	}
	if bad == "" {
		other := ps[0]
		if base == ps[0] {
			other = ps[1]
		}
		if identObj(info, outer.X) != other || outer.Value == nil {
			bad = "the loop does not range over the argument that is not the base"
		} else {
			v := identObj(info, outer.Value)
			// flag reset per element, inner loop over base (or result) sets it on equality, append iff !flag
			var flag types.Object
			resetOK, innerOK, appendOK := false, false, false
			skipForm := false
			for _, s := range outer.Body.List {
				switch x := s.(type) {
				case *ast.AssignStmt:
					if len(x.Lhs) == 1 && len(x.Rhs) == 1 {
						if cv := constOf(info, x.Rhs[0]); cv != nil && cv.Kind() == constant.Bool && !constant.BoolVal(cv) {
							flag = identObj(info, x.Lhs[0])
							resetOK = true
						}
					}
				case *ast.RangeStmt:
					in := identObj(info, x.X)
					if (in == base || in == res) && x.Value != nil {
						w := identObj(info, x.Value)
						ast.Inspect(x.Body, func(n ast.Node) bool {
							if is, ok := n.(*ast.IfStmt); ok {
								if be, ok := unparen(is.Cond).(*ast.BinaryExpr); ok && be.Op == token.EQL {
									a, b := identObj(info, be.X), identObj(info, be.Y)
									if (a == v && b == w) || (a == w && b == v) {
										// `continue <outer label>` on a match: the element is skipped, nothing after the
										// inner loop runs for it
										if len(is.Body.List) == 1 && outerLabel != "" {
											if br, ok := is.Body.List[0].(*ast.BranchStmt); ok && br.Tok == token.CONTINUE && br.Label != nil && br.Label.Name == outerLabel {
												resetOK, innerOK, skipForm = true, true, true
											}
										}
										for _, bs := range is.Body.List {
											if as, ok := bs.(*ast.AssignStmt); ok && len(as.Lhs) == 1 && identObj(info, as.Lhs[0]) == flag {
												if cv := constOf(info, as.Rhs[0]); cv != nil && cv.Kind() == constant.Bool && constant.BoolVal(cv) {
													innerOK = true
												}
											}
										}
									}
								}
							}
							return true
						})
					}
				case *ast.IfStmt:
					// membership through a helper: if !contains(base, v) { result = append(result, v) }
					if un, ok := unparen(x.Cond).(*ast.UnaryExpr); ok && un.Op == token.NOT {
						if call, ok := unparen(un.X).(*ast.CallExpr); ok && len(call.Args) == 2 {
							in := identObj(info, call.Args[0])
							if (in == base || in == res) && identObj(info, call.Args[1]) == v && isMembershipHelper(c, c.FuncOf(callee(info, call))) {
								resetOK, innerOK = true, true
								for _, bs := range x.Body.List {
									if as, ok := bs.(*ast.AssignStmt); ok && len(as.Lhs) == 1 && identObj(info, as.Lhs[0]) == res {
										if ac, ok := as.Rhs[0].(*ast.CallExpr); ok && builtinName(info, ac) == "append" && len(ac.Args) == 2 &&
											identObj(info, ac.Args[0]) == res && identObj(info, ac.Args[1]) == v {
											appendOK = true
										}
									}
								}
							}
						}
					}
					if un, ok := unparen(x.Cond).(*ast.UnaryExpr); ok && un.Op == token.NOT && identObj(info, un.X) == flag && flag != nil {
						for _, bs := range x.Body.List {
							if as, ok := bs.(*ast.AssignStmt); ok && len(as.Lhs) == 1 && identObj(info, as.Lhs[0]) == res {
								if call, ok := as.Rhs[0].(*ast.CallExpr); ok && builtinName(info, call) == "append" && len(call.Args) == 2 &&
									identObj(info, call.Args[0]) == res && identObj(info, call.Args[1]) == v {
									appendOK = true
								}
							}
						}
					}
				}
			}
			if skipForm {
				// the append is the unconditional last statement of the outer body
				if n := len(outer.Body.List); n > 0 {
					if as, ok := outer.Body.List[n-1].(*ast.AssignStmt); ok && len(as.Lhs) == 1 && identObj(info, as.Lhs[0]) == res {
						if call, ok := as.Rhs[0].(*ast.CallExpr); ok && builtinName(info, call) == "append" && len(call.Args) == 2 &&
							identObj(info, call.Args[0]) == res && identObj(info, call.Args[1]) == v {
							appendOK = true
						}
					}
				}
			}
			if !resetOK || !innerOK || !appendOK {
				bad = fmt.Sprintf("not `for v in other { found=false; for u in base { if v==u {found=true} }; if !found { result = append(result, v) } }` (flag reset per element: %v, membership test: %v, append iff absent: %v)", resetOK, innerOK, appendOK)
			}
		}
	}
	r.Check(bad == "", clause, "R2 SKELETON", u.Name, c.pos(u.Decl.Pos()), "result = one argument plus every element of the other that it does not already contain", bad)
}

// c03OwnStorage — Traverse starts F(x) as the slice F′(x) itself and Union appends in place onto its second argument.
// That is sound only while no two entries of an initial-set map share a backing array: otherwise the terminals one
// transition gains overwrite those of another, and which one survives depends on the traversal order. Every store
// into DRSet / ReadSet / FollowSet outside Digraph must therefore assign a slice of its own: a literal, make, the
// result of a function that builds its result from nil, or append onto the same entry.
func c03OwnStorage(c *Ctx, r *Report, clause string) {
	// premise: is the in-place style present at all?
	inPlace := false
	if u := c.Func("LALR", "", "Union"); u != nil {
		info := u.Pkg.TypesInfo
		ps := paramObjs(info, u.Decl)
		ast.Inspect(u.Decl.Body, func(n ast.Node) bool {
			if as, ok := n.(*ast.AssignStmt); ok && len(as.Rhs) == 1 {
				for _, p := range ps {
					if identObj(info, as.Rhs[0]) == p {
						inPlace = true // c := b: the result starts as an argument's own slice
					}
				}
			}
			return true
		})
	}
	key := "LALR/set-entries-own-their-storage"
	if !inPlace {
		r.OK(clause, "R12 OWNERSHIP", key, "LALR/Digraph.go", "Union builds its result in a slice of its own: shared entries would be harmless")
		return
	}
	// (a) sharing made by Traverse itself: the members of a strongly connected component receive one and the same
	// slice ((*F)[top] = (*F)[x]) and F(x) starts as the slice F′(x); the result map of one phase is the initial-set
	// map of the next (ReadSet: result of the reads phase, F′ of the includes phase). With an in-place Union the
	// next phase then appends onto a slice that several keys hold.
	if t := c.Func("LALR", "", "Traverse"); t != nil {
		info := t.Pkg.TypesInfo
		ps := paramObjs(info, t.Decl)
		sharesPos := token.NoPos
		if len(ps) == 6 {
			isElemOf := func(e ast.Expr, m types.Object) bool {
				ix, ok := unparen(e).(*ast.IndexExpr)
				if !ok {
					return false
				}
				root := unparen(ix.X)
				if st, ok := root.(*ast.StarExpr); ok {
					root = unparen(st.X)
				}
				return identObj(info, root) == m
			}
			ast.Inspect(t.Decl.Body, func(n ast.Node) bool {
				if as, ok := n.(*ast.AssignStmt); ok && len(as.Lhs) == 1 && len(as.Rhs) == 1 {
					if isElemOf(as.Lhs[0], ps[3]) && isElemOf(as.Rhs[0], ps[3]) && exprString(as.Lhs[0]) != exprString(as.Rhs[0]) {
						sharesPos = as.Pos()
					}
				}
				return true
			})
		}
		// phase chaining: a field passed as &F in one Digraph call and as Fp in another
		asResult, asInit := map[string]bool{}, map[string]bool{}
		for _, f := range c.AllFuncs() {
			if !strings.HasPrefix(f.Name, "LALR.") {
				continue
			}
			info := f.Pkg.TypesInfo
			ast.Inspect(f.Decl.Body, func(n ast.Node) bool {
				call, ok := n.(*ast.CallExpr)
				if !ok || len(call.Args) != 4 {
					return true
				}
				if fn := callee(info, call); fn == nil || shortFuncName(fn) != "LALR.Digraph" {
					return true
				}
				if fv := fieldVar(info, call.Args[2]); fv != nil {
					asInit[fv.Name()] = true
				}
				if u, ok := unparen(call.Args[3]).(*ast.UnaryExpr); ok && u.Op == token.AND {
					if fv := fieldVar(info, u.X); fv != nil {
						asResult[fv.Name()] = true
					}
				}
				return true
			})
		}
		chained := ""
		for _, name := range sortedKeys(asResult) {
			if asInit[name] {
				chained = name
			}
		}
		if sharesPos != token.NoPos && chained != "" {
			r.Fail(clause, "R12 OWNERSHIP", "LALR.Traverse/shared-entries-are-appended-in-place", c.pos(sharesPos),
				"Traverse gives all members of a strongly connected component one slice ((*F)[top] = (*F)[x]); "+chained+" is the result of one Digraph phase and the initial-set map of the next, where F(x) starts as that very slice and Union appends onto it in place (c := b; append(c, …)): with spare capacity the terminal added for one member overwrites the one added for another, and which survives depends on the traversal order. Needs a cycle in the first relation (reads), i.e. nullable nonterminals in a cyclic grammar")
		} else {
			r.OK(clause, "R12 OWNERSHIP", "LALR.Traverse/shared-entries-are-appended-in-place", c.pos(t.Decl.Pos()), "no map that holds shared slices is appended in place by a later phase")
		}
	}
	fields := map[string]bool{"DRSet": true, "ReadSet": true, "FollowSet": true}
	bad := ""
	n := 0
	for _, f := range c.AllFuncs() {
		if !strings.HasPrefix(f.Name, "LALR.") || f.Name == "LALR.Digraph" || f.Name == "LALR.Traverse" || f.Name == "LALR.Union" {
			continue
		}
		info := f.Pkg.TypesInfo
		ast.Inspect(f.Decl.Body, func(nd ast.Node) bool {
			as, ok := nd.(*ast.AssignStmt)
			if !ok || len(as.Lhs) != len(as.Rhs) {
				return true
			}
			for i, l := range as.Lhs {
				ix, ok := unparen(l).(*ast.IndexExpr)
				if !ok {
					continue
				}
				fv := fieldVar(info, ix.X)
				if fv == nil || !fields[fv.Name()] {
					continue
				}
				n++
				if why := notFreshSlice(c, info, as.Rhs[i], l, 0); why != "" {
					bad = fmt.Sprintf("%s stores %s into %s at %s: %s", f.Name, exprString(as.Rhs[i]), exprString(l), c.pos(as.Pos()), why)
				}
			}
			return true
		})
	}
	r.Check(bad == "" && n >= 3, clause, "R12 OWNERSHIP", key, "LALR/LALR.go",
		fmt.Sprintf("%d stores into DRSet / ReadSet / FollowSet outside Digraph: each assigns a slice of its own (literal, make, a function result built from nil, or append onto the same entry), so Union's in-place append never touches another entry", n),
		"two entries of an initial-set map can share a backing array, and Union appends in place: "+bad)
}

// notFreshSlice returns "" when e certainly denotes storage no other map entry holds.
func notFreshSlice(c *Ctx, info *types.Info, e ast.Expr, target ast.Expr, depth int) string {
	switch x := unparen(e).(type) {
	case *ast.CompositeLit:
		return ""
	case *ast.Ident:
		if x.Name == "nil" {
			return ""
		}
		return "the value is a variable, which can hold the same slice for several keys"
	case *ast.CallExpr:
		switch builtinName(info, x) {
		case "make":
			return ""
		case "append":
			if len(x.Args) >= 1 && exprString(x.Args[0]) == exprString(target) {
				return ""
			}
			if len(x.Args) >= 1 {
				return notFreshSlice(c, info, x.Args[0], target, depth)
			}
		}
		fn := callee(info, x)
		ref := c.FuncOf(fn)
		if ref == nil || depth > 1 {
			return "the value comes from a call whose result cannot be shown to be newly built"
		}
		// every return returns a local that is only ever nil / literal / make / append(itself, …)
		rinfo := ref.Pkg.TypesInfo
		why := ""
		ast.Inspect(ref.Decl.Body, func(n ast.Node) bool {
			rt, ok := n.(*ast.ReturnStmt)
			if !ok || len(rt.Results) != 1 {
				return true
			}
			o := identObj(rinfo, rt.Results[0])
			if o == nil {
				if w := notFreshSlice(c, rinfo, rt.Results[0], nil, depth+1); w != "" {
					why = w
				}
				return true
			}
			ast.Inspect(ref.Decl.Body, func(m ast.Node) bool {
				switch y := m.(type) {
				case *ast.AssignStmt:
					for i, l := range y.Lhs {
						if identObj(rinfo, l) != o || len(y.Lhs) != len(y.Rhs) {
							continue
						}
						rhs := unparen(y.Rhs[i])
						if call, ok := rhs.(*ast.CallExpr); ok && builtinName(rinfo, call) == "append" && len(call.Args) >= 1 && identObj(rinfo, call.Args[0]) == o {
							continue
						}
						if w := notFreshSlice(c, rinfo, rhs, nil, depth+1); w != "" {
							why = "the callee's result " + o.Name() + " can be " + exprString(rhs) + " (" + w + ")"
						}
					}
				case *ast.ValueSpec:
					for i, nm := range y.Names {
						if rinfo.Defs[nm] == o && i < len(y.Values) {
							if w := notFreshSlice(c, rinfo, y.Values[i], nil, depth+1); w != "" {
								why = "the callee's result " + o.Name() + " is initialised with " + exprString(y.Values[i]) + " (" + w + ")"
							}
						}
					}
				}
				return true
			})
			return true
		})
		return why
	case *ast.IndexExpr, *ast.SelectorExpr, *ast.SliceExpr:
		return "the value is read from other storage (" + exprString(e) + "), which keeps a reference to the same array"
	}
	return "unrecognised expression"
}

// ---------------------------------------------------------------------------------------------
// R6 FIXPOINT template

type fixpointSpec struct {
	mark     string   // field marked on the left-hand side
	predAll  []string // fields the per-symbol predicate must read
	predOnly bool
}

// checkFixpoint verifies the least-fixpoint template on fn (see DESIGN.md R6); returns "" or the deviation.
func checkFixpoint(c *Ctx, fn *FuncRef, spec fixpointSpec) string {
	info := fn.Pkg.TypesInfo
	// pass loop and its progress variable P. Accepted forms:
	//   for { P = 0|false; …; if P == 0 | !P { break } }        (P a counter or a flag)
	//   P := true; for P { P = false; … }                       (P a flag)
	// with P++ / P = true next to the mark, and no other write to P inside the loop.
	var outer *ast.ForStmt
	for _, s := range fn.Decl.Body.List {
		if fs, ok := s.(*ast.ForStmt); ok && fs.Init == nil && fs.Post == nil && outer == nil {
			outer = fs
		}
	}
	if outer == nil {
		return "no pass loop (`for { … }` or `for changed { … }`)"
	}
	if len(outer.Body.List) < 2 {
		return "the change counter / flag is not reset at the start of every pass: a pass whose last rule changes nothing would end the iteration although earlier rules changed something"
	}
	isZero := func(e ast.Expr) bool {
		if v, isC := constInt(info, e); isC && v == 0 {
			return true
		}
		cv := constOf(info, e)
		return cv != nil && cv.Kind() == constant.Bool && !constant.BoolVal(cv)
	}
	isTrue := func(e ast.Expr) bool {
		cv := constOf(info, e)
		return cv != nil && cv.Kind() == constant.Bool && constant.BoolVal(cv)
	}
	// first statement: P = 0 / P = false / P := false
	var change types.Object
	if as, ok := outer.Body.List[0].(*ast.AssignStmt); ok && len(as.Lhs) == 1 && len(as.Rhs) == 1 && (as.Tok == token.ASSIGN || as.Tok == token.DEFINE) {
		if isZero(as.Rhs[0]) {
			change = identObj(info, as.Lhs[0])
		}
	}
	if change == nil {
		return "the change counter / flag is not reset at the start of every pass"
	}
	exitOK := false
	if outer.Cond != nil {
		// for P { … }: P must be true on entry
		if identObj(info, unparen(outer.Cond)) == change {
			entry := false
			for _, s := range fn.Decl.Body.List {
				if s == ast.Stmt(outer) {
					break
				}
				switch x := s.(type) {
				case *ast.AssignStmt:
					if len(x.Lhs) == 1 && len(x.Rhs) == 1 && identObj(info, x.Lhs[0]) == change {
						entry = isTrue(x.Rhs[0])
					}
				case *ast.DeclStmt:
					if gd, ok := x.Decl.(*ast.GenDecl); ok {
						for _, sp := range gd.Specs {
							if vs, ok := sp.(*ast.ValueSpec); ok {
								for i, nm := range vs.Names {
									if info.Defs[nm] == change {
										entry = i < len(vs.Values) && isTrue(vs.Values[i])
									}
								}
							}
						}
					}
				}
			}
			exitOK = entry
			if !entry {
				return "the pass loop `for " + change.Name() + " { … }` is not entered: the flag is not true before the loop"
			}
		}
	} else if last, ok := outer.Body.List[len(outer.Body.List)-1].(*ast.IfStmt); ok && last.Else == nil && len(last.Body.List) == 1 {
		if br, ok := last.Body.List[0].(*ast.BranchStmt); ok && br.Tok == token.BREAK && br.Label == nil {
			// `change == 0`, `0 == change`, `!(change != 0)`, `change <= 0`, `!changed`, … : true exactly when nothing changed
			if trueIffUnchanged(info, last.Cond, change) {
				exitOK = true
			}
		}
	}
	if !exitOK {
		return "the pass loop does not end exactly when a whole pass changed nothing (`if change == 0 { break }`, `if !changed { break }` or `for changed { … }`)"
	}
	// writes to P inside the loop: the reset and the progress notes (P++ / P = true); anything else can lose a change
	progress := map[ast.Stmt]bool{}
	otherWrite := ""
	ast.Inspect(outer.Body, func(n ast.Node) bool {
		switch x := n.(type) {
		case *ast.AssignStmt:
			for i, l := range x.Lhs {
				if identObj(info, l) != change || ast.Stmt(x) == outer.Body.List[0] {
					continue
				}
				if len(x.Lhs) == len(x.Rhs) && x.Tok == token.ASSIGN && isTrue(x.Rhs[i]) {
					progress[x] = true
				} else {
					otherWrite = "`" + exprString(l) + " " + x.Tok.String() + " …` at " + c.pos(x.Pos())
				}
			}
		case *ast.IncDecStmt:
			if identObj(info, x.X) == change {
				if x.Tok == token.INC {
					progress[x] = true
				} else {
					otherWrite = "`" + change.Name() + "--` at " + c.pos(x.Pos())
				}
			}
		}
		return true
	})
	if otherWrite != "" {
		return "the change counter / flag is also written by " + otherWrite + ": a change noted earlier in the pass can be forgotten and the iteration stops before the fixpoint"
	}
	// rule loop
	var rules *ast.RangeStmt
	for _, s := range outer.Body.List {
		if rs, ok := s.(*ast.RangeStmt); ok {
			if fv := fieldVar(info, rs.X); fv != nil && fv.Name() == "ProductoinRules" {
				rules = rs
			}
		}
	}
	if rules == nil || rules.Value == nil {
		return "no loop over all production rules inside a pass"
	}
	rv := identObj(info, rules.Value)
	// accumulator
	var acc types.Object
	var syms *ast.RangeStmt
	for _, s := range rules.Body.List {
		switch x := s.(type) {
		case *ast.AssignStmt:
			if len(x.Lhs) == 1 && x.Tok == token.DEFINE {
				if cv := constOf(info, x.Rhs[0]); cv != nil && cv.Kind() == constant.Bool && constant.BoolVal(cv) {
					acc = identObj(info, x.Lhs[0])
				}
			}
		case *ast.RangeStmt:
			syms = x
		}
	}
	if acc == nil {
		return "the ∀-accumulator is not initialised to true for every rule (the empty right-hand side must count as satisfied)"
	}
	if syms == nil || syms.Value == nil {
		return "no loop over the rule's right-hand side"
	}
	if fv := fieldVar(info, syms.X); fv == nil || fv.Name() != "RighPart" || identObj(info, unparen(syms.X).(*ast.SelectorExpr).X) != rv {
		return "the inner loop does not range over the current rule's RighPart"
	}
	sv := identObj(info, syms.Value)
	if len(syms.Body.List) != 1 {
		return "the right-hand-side loop does more than accumulate (early exits or extra statements change the ∀)"
	}
	as, ok := syms.Body.List[0].(*ast.AssignStmt)
	if !ok || len(as.Lhs) != 1 || identObj(info, as.Lhs[0]) != acc {
		return "the right-hand-side loop does not assign the accumulator"
	}
	// acc = acc && pred(sym)
	conj := flattenAnd(as.Rhs[0])
	hasAcc := false
	fieldsRead := map[string]bool{}
	for _, e := range conj {
		if identObj(info, e) == acc {
			hasAcc = true
			continue
		}
		se, ok := unparen(e).(*ast.SelectorExpr)
		if !ok || identObj(info, se.X) != sv {
			return "the accumulated predicate contains `" + exprString(e) + "`, which is not a field of the current symbol"
		}
		fieldsRead[se.Sel.Name] = true
	}
	if !hasAcc {
		return "the accumulator is overwritten instead of AND-ed (only the last symbol would count)"
	}
	for _, f := range spec.predAll {
		if !fieldsRead[f] {
			return "the per-symbol predicate does not read " + f
		}
	}
	if len(fieldsRead) != len(spec.predAll) {
		return fmt.Sprintf("the per-symbol predicate reads %v, expected exactly %v", keysOf(fieldsRead), spec.predAll)
	}
	// marking: `LeftPart.mark = true` guarded (through any nesting of ifs / a conjunction) by the accumulator and by
	// `!LeftPart.mark`, with the change counter incremented in the same block
	pm := parentMap(rules.Body)
	var markStmt *ast.AssignStmt
	ast.Inspect(rules.Body, func(n ast.Node) bool {
		if x, ok := n.(*ast.AssignStmt); ok && x.Pos() > syms.End() {
			for i, l := range x.Lhs {
				if fv := fieldVar(info, l); fv != nil && fv.Name() == spec.mark && strings.Contains(exprString(l), "LeftPart") {
					if cv := constOf(info, x.Rhs[i]); cv != nil && cv.Kind() == constant.Bool && constant.BoolVal(cv) {
						markStmt = x
					}
				}
			}
		}
		return true
	})
	if markStmt == nil {
		return "the left-hand side's " + spec.mark + " is not set to true after the right-hand side was examined"
	}
	isMarkRead := func(e ast.Expr) bool {
		fv := fieldVar(info, unparen(e))
		return fv != nil && fv.Name() == spec.mark && strings.Contains(exprString(e), "LeftPart")
	}
	byAcc, byUnmarked := false, false
	var cur ast.Node = markStmt
	for cur != nil && cur != ast.Node(rules.Body) {
		par := pm[cur]
		switch p := par.(type) {
		case *ast.IfStmt:
			if cur == ast.Node(p.Body) {
				for _, e := range flattenAnd(p.Cond) {
					if identObj(info, e) == acc {
						byAcc = true
					}
					if un, ok := unparen(e).(*ast.UnaryExpr); ok && un.Op == token.NOT && isMarkRead(un.X) {
						byUnmarked = true
					}
				}
			}
		case *ast.BlockStmt:
			// guard-clause form: `if !acc { continue }` / `if LeftPart.mark { continue }` before the mark
			for _, st := range p.List {
				if ast.Node(st) == cur {
					break
				}
				is, ok := st.(*ast.IfStmt)
				if !ok || is.Else != nil || is.Init != nil || len(is.Body.List) != 1 {
					continue
				}
				if br, ok := is.Body.List[0].(*ast.BranchStmt); !ok || br.Tok != token.CONTINUE || br.Label != nil {
					continue
				}
				cnd := unparen(is.Cond)
				if un, ok := cnd.(*ast.UnaryExpr); ok && un.Op == token.NOT && identObj(info, unparen(un.X)) == acc {
					byAcc = true
				}
				if isMarkRead(cnd) {
					byUnmarked = true
				}
			}
		}
		cur = par
	}
	counted := false
	if blk, ok := pm[markStmt].(*ast.BlockStmt); ok {
		for _, s := range blk.List {
			if progress[s] {
				counted = true
			}
		}
	}
	if !byAcc {
		return "the mark is not guarded by the accumulator"
	}
	if !byUnmarked || !counted {
		return "a new mark does not increment the change counter exactly when the symbol was not marked before (the loop could stop early or never)"
	}
	return ""
}

func flattenAnd(e ast.Expr) []ast.Expr {
	e = unparen(e)
	if be, ok := e.(*ast.BinaryExpr); ok && be.Op == token.LAND {
		return append(flattenAnd(be.X), flattenAnd(be.Y)...)
	}
	return []ast.Expr{e}
}

func keysOf(m map[string]bool) []string { return sortedKeys(m) }

func c03e(c *Ctx, r *Report) {
	const clause = "C03.e"
	f := c.need(r, clause, "Grammar", "Grammar", "CalculateEpsilonClosure")
	if f == nil {
		return
	}
	why := checkFixpoint(c, f, fixpointSpec{mark: "IsEpsilonClosure", predAll: []string{"IsEpsilonClosure", "IsNonTerminator"}})
	r.Check(why == "", clause, "R6 FIXPOINT", f.Name, c.pos(f.Decl.Pos()),
		"least fixpoint: repeat passes over all rules until nothing changes; a left-hand side becomes nullable iff every right-hand symbol is a nullable nonterminal (vacuously for an empty rule)",
		"nullable computation deviates from the least-fixpoint template: "+why)
	// who writes IsEpsilonClosure
	fv := lookupField(c, "Symbol", "Symbol", "IsEpsilonClosure")
	if fv != nil {
		bad := ""
		for _, w := range fieldWrites(c, fv) {
			if w.fn != f.Name && w.fn != "Symbol.(*Symbol).SetEpsilon" {
				bad = w.fn + " at " + c.pos(w.pos)
			}
		}
		// SetEpsilon must not be called from non-test code
		for _, g := range c.AllFuncs() {
			ast.Inspect(g.Decl.Body, func(n ast.Node) bool {
				if call, ok := n.(*ast.CallExpr); ok {
					if cf := callee(g.Pkg.TypesInfo, call); cf != nil && cf.Name() == "SetEpsilon" {
						bad = g.Name + " calls SetEpsilon at " + c.pos(call.Pos())
					}
				}
				return true
			})
		}
		r.Check(bad == "", clause, "WHO-WRITES", "Symbol.Symbol.IsEpsilonClosure", c.pos(fv.Pos()), "written only by the nullable fixpoint", "also written by "+bad)
	}
}

// ---------------------------------------------------------------------------------------------
// C03.f warning ⇔ unresolved conflict

func c03f(c *Ctx, r *Report) {
	const clause = "C03.f"
	f := c.need(r, clause, "LALR", "LALR1", "CheckAndResolveConflict")
	if f == nil {
		return
	}
	info := f.Pkg.TypesInfo
	// the fold loop: the innermost loop that calls ResolveConflict (window form `for { … res = res[1:] }` or indexed
	// form `for i := 1; i < len(list); i++ { … }`)
	fold, _ := findFoldLoop(info, f.Decl)
	if fold == nil {
		r.Undecided(clause, "R4 DECISION-TABLE", f.Name+"/conflict-fold", c.pos(f.Decl.Pos()), "no loop calls ResolveConflict: candidates of a cell are not folded pairwise")
		return
	}
	pe := newPathEnum(info)
	paths, err := pe.Enumerate(fold.Body.List)
	if err != nil {
		r.Undecided(clause, "R4 DECISION-TABLE", f.Name+"/conflict-fold", c.pos(fold.Pos()), err.Error())
		return
	}
	bad := ""
	nWarn, nQuiet := 0, 0
	for _, p := range paths {
		unresolved, decided := false, false
		for _, cd := range p.Conds {
			s := cd.Atom.String()
			if strings.Contains(s, "ResolveConflict") && strings.Contains(s, "result1") {
				decided = true
				// cmp != nil
				isNE := cd.Atom.Op == "cmp" && cd.Atom.Name == "!="
				unresolved = (isNE && cd.Pol) || (!isNE && !cd.Pol)
			}
		}
		warns, dflt := false, false
		for _, e := range p.Effects {
			if e.Kind == "call" && strings.HasPrefix(e.Term.Name, "fmt.Print") && len(e.Term.Args) > 0 {
				if s, ok := termConstString(e.Term.Args[0]); ok && strings.HasPrefix(s, "warning") {
					warns = true
				}
			}
			if e.Kind == "call" && strings.HasSuffix(e.Term.Name, "UseDefaultResolveConflict") {
				dflt = true
			}
		}
		if !decided {
			if warns || dflt {
				bad = "a warning / default resolution happens on a path that has not consulted ResolveConflict"
			}
			continue
		}
		if unresolved {
			nWarn++
			if !warns {
				bad = "an unresolved conflict (ResolveConflict returned an error) is not reported with a `warning:` line"
			}
			if !dflt {
				bad = "an unresolved conflict is not resolved with the default rule"
			}
		} else {
			nQuiet++
			if warns {
				bad = "a conflict that precedence resolved is still reported as a warning"
			}
			if dflt {
				bad = "a conflict that precedence resolved is overridden by the default rule"
			}
		}
	}
	if nWarn == 0 || nQuiet == 0 {
		bad = "the fold does not distinguish resolved and unresolved conflicts"
	}
	r.Check(bad == "", clause, "R4 DECISION-TABLE", f.Name+"/warning-iff-unresolved", c.pos(fold.Pos()),
		"inside `len(actions) > 1`: the `warning:` line and the default resolution happen exactly when ResolveConflict reports it cannot decide (a precedence is missing, C04.a)", bad)
}

// isMembershipHelper: func(set []T, v T) bool that answers "v occurs in set": one loop over set comparing each element
// with v; a hit sets the flag that is returned (or returns true at once); no hit gives false.
func isMembershipHelper(c *Ctx, ref *FuncRef) bool {
	if ref == nil {
		return false
	}
	info := ref.Pkg.TypesInfo
	ps := paramObjs(info, ref.Decl)
	if len(ps) != 2 || ref.Decl.Type.Results == nil || len(ref.Decl.Type.Results.List) != 1 {
		return false
	}
	pe := newPathEnum(info)
	var loop *ast.RangeStmt
	for _, st := range ref.Decl.Body.List {
		if rs, ok := st.(*ast.RangeStmt); ok && identObj(info, rs.X) == ps[0] {
			loop = rs
		}
	}
	if loop == nil || loop.Value == nil {
		return false
	}
	elem := identObj(info, loop.Value)
	paths, err := pe.Enumerate(loop.Body.List)
	if err != nil {
		return false
	}
	var flag types.Object
	hitOK, missOK := false, true
	for _, p := range paths {
		eq, decided := false, false
		for _, cd := range p.Conds {
			if cd.Atom.Op == "cmp" && (cd.Atom.Name == "==" || cd.Atom.Name == "!=") && len(cd.Atom.Args) == 2 {
				a, b := cd.Atom.Args[0].String(), cd.Atom.Args[1].String()
				if (a == elem.Name() && b == ps[1].Name()) || (b == elem.Name() && a == ps[1].Name()) {
					decided = true
					eq = (cd.Atom.Name == "==") == cd.Pol
				}
			}
		}
		if !decided {
			return false
		}
		setTrue, retTrue := false, false
		for o, t := range p.Env {
			if t != nil && t.Op == "const" && t.Val.Kind() == constant.Bool && constant.BoolVal(t.Val) {
				if _, isVar := o.(*types.Var); isVar && o != elem {
					setTrue, flag = true, o
				}
			}
		}
		if p.Kind == "return" && len(p.Vals) == 1 && p.Vals[0].Op == "const" && p.Vals[0].Val.Kind() == constant.Bool && constant.BoolVal(p.Vals[0].Val) {
			retTrue = true
		}
		if eq {
			hitOK = setTrue || retTrue
		} else if setTrue || retTrue || p.Kind == "return" {
			missOK = false
		}
	}
	if !hitOK || !missOK {
		return false
	}
	// the final result: the flag (initialised false) or the constant false
	last, ok := ref.Decl.Body.List[len(ref.Decl.Body.List)-1].(*ast.ReturnStmt)
	if !ok || len(last.Results) != 1 {
		return false
	}
	if cv := constOf(info, last.Results[0]); cv != nil {
		return cv.Kind() == constant.Bool && !constant.BoolVal(cv) && flag == nil
	}
	if flag == nil || identObj(info, last.Results[0]) != flag {
		return false
	}
	// flag starts false
	init := false
	for _, st := range ref.Decl.Body.List {
		if as, ok := st.(*ast.AssignStmt); ok && len(as.Lhs) == 1 && identObj(info, as.Lhs[0]) == flag && st.Pos() < loop.Pos() {
			if cv := constOf(info, as.Rhs[0]); cv != nil && cv.Kind() == constant.Bool && !constant.BoolVal(cv) {
				init = true
			}
		}
	}
	return init
}

// findFoldLoop returns the innermost for-loop of fd whose body calls (*LALR1).ResolveConflict, and that call.
func findFoldLoop(info *types.Info, fd *ast.FuncDecl) (*ast.ForStmt, *ast.CallExpr) {
	var fold *ast.ForStmt
	var rcall *ast.CallExpr
	var stack []*ast.ForStmt
	var visit func(n ast.Node)
	visit = func(n ast.Node) {
		ast.Inspect(n, func(m ast.Node) bool {
			if m == nil || m == n {
				return true
			}
			switch x := m.(type) {
			case *ast.ForStmt:
				stack = append(stack, x)
				visit(x.Body)
				stack = stack[:len(stack)-1]
				return false
			case *ast.CallExpr:
				if fn := callee(info, x); fn != nil && fn.Name() == "ResolveConflict" && len(stack) > 0 {
					fold, rcall = stack[len(stack)-1], x
				}
			}
			return true
		})
	}
	visit(fd.Body)
	return fold, rcall
}

// c03WalkAndFetch — the two helpers the path conditions and the includes targets rest on.
// walk(q, ω): follows goto(q, X) for every symbol X of ω in order; a missing transition yields a value that is no
// state (negative); otherwise the state reached. fetchTransIndex(p, A): the index of the transition whose source
// is p and whose symbol is A, an error when there is none.
func c03WalkAndFetch(c *Ctx, r *Report, clause string) {
	if f := c.need(r, clause, "LALR", "LALR1", "walk"); f != nil {
		cf := newCoverFn(f)
		info := cf.info
		ps := paramObjs(info, f.Decl)
		why := ""
		if len(ps) != 2 {
			why = "expected (state, symbols)"
		} else {
			q, syms := ps[0], ps[1]
			loops := cf.rangesOver(nil, func(e ast.Expr) bool { return identObj(info, e) == syms })
			switch {
			case len(loops) != 1 || !cf.unconditional(loops[0], f.Decl.Body):
				why = "no single unconditional loop over the symbols"
			default:
				rs := loops[0]
				sy := identObj(info, rs.Value)
				pe := newPathEnum(info)
				pe.rename[q] = "Q"
				if sy != nil {
					pe.rename[sy] = "SY"
				}
				paths, err := pe.Enumerate(rs.Body.List)
				if err != nil {
					why = err.Error()
					break
				}
				for _, p := range paths {
					found, decided := false, false
					for _, cd := range p.Conds {
						if strings.Contains(cd.Atom.String(), "FindItemClosure(") && strings.Contains(cd.Atom.String(), "nil") {
							decided = true
							isEq := cd.Atom.Name == "=="
							found = (isEq && !cd.Pol) || (!isEq && cd.Pol)
						}
					}
					if !decided {
						why = "an iteration does not test whether the transition exists"
						continue
					}
					if !found {
						if p.Kind != "return" || len(p.Vals) != 1 || p.Vals[0].Op != "const" {
							why = "a missing transition does not end the walk with a constant"
						} else if v, ok := constant.Int64Val(constant.ToInt(p.Vals[0].Val)); !ok || v >= 0 {
							why = fmt.Sprintf("a missing transition makes walk return %s, which is a possible state number: the path condition then holds for transitions of that state", p.Vals[0].String())
						}
						continue
					}
					if p.Kind != "fall" && p.Kind != "continue" {
						why = "the walk stops although the transition exists"
					}
					t := p.Env[q]
					if t == nil || !strings.HasSuffix(t.String(), ".ItemCl") || !strings.Contains(t.String(), "LR0Closure[Q]") || !strings.Contains(t.String(), "FindItemClosure(") || !strings.Contains(t.String(), "SY") {
						why = "the state is not advanced to goto(state, symbol).ItemCl"
						if t != nil {
							why += " (it becomes " + t.String() + ")"
						}
					}
				}
				// final return q
				last, ok := f.Decl.Body.List[len(f.Decl.Body.List)-1].(*ast.ReturnStmt)
				if why == "" && (!ok || len(last.Results) != 1 || identObj(info, last.Results[0]) != q) {
					why = "the function does not end by returning the state reached"
				}
			}
		}
		r.Check(why == "", clause, "R4 DECISION-TABLE", f.Name+"/follows-the-transition-function", c.pos(f.Decl.Pos()),
			"walk advances state ← goto(state, X).ItemCl for every symbol in order, returns a negative constant when a transition is missing and the state reached otherwise", why)
	}
	if f := c.need(r, clause, "LALR", "LALR1", "fetchTransIndex"); f != nil {
		cf := newCoverFn(f)
		info := cf.info
		ps := paramObjs(info, f.Decl)
		why := ""
		loops := cf.rangesOver(nil, func(e ast.Expr) bool { return fieldNamed(info, e, "trans") })
		if len(ps) != 2 || len(loops) != 1 || !cf.unconditional(loops[0], f.Decl.Body) {
			why = "expected (state, symbol) and one unconditional loop over the transitions"
		} else {
			rs := loops[0]
			idx, tr := identObj(info, rs.Key), identObj(info, rs.Value)
			n := 0
			ast.Inspect(rs.Body, func(nd ast.Node) bool {
				rt, ok := nd.(*ast.ReturnStmt)
				if !ok || len(rt.Results) != 2 {
					return true
				}
				n++
				if identObj(info, rt.Results[0]) != idx || exprString(rt.Results[1]) != "nil" {
					why = "a hit does not return (the transition's index, nil)"
				}
				atoms := guardAtoms(c, f, rt)
				wantQ, wantS := false, false
				for _, a := range atoms {
					switch {
					case !strings.HasPrefix(a, "!") && strings.Contains(a, " == ") && strings.Contains(a, ".q") && strings.Contains(a, "$"+ps[0].Name()):
						wantQ = true
					case !strings.HasPrefix(a, "!") && strings.Contains(a, " == ") && strings.Contains(a, ".sym_or_rule") && strings.Contains(a, "$"+ps[1].Name()):
						wantS = true
					default:
						why = "a hit is reported under the extra condition " + a
					}
				}
				if !wantQ || !wantS {
					why = fmt.Sprintf("a hit is reported under %v, not exactly `source == state ∧ symbol == wanted symbol`", atoms)
				}
				_ = tr
				return true
			})
			if why == "" && n != 1 {
				why = "the loop has no single hit"
			}
			last, ok := f.Decl.Body.List[len(f.Decl.Body.List)-1].(*ast.ReturnStmt)
			if why == "" && (!ok || len(last.Results) != 2 || exprString(last.Results[1]) == "nil") {
				why = "a miss is not reported with a non-nil error"
			}
		}
		r.Check(why == "", clause, "R4 DECISION-TABLE", f.Name+"/finds-the-transition", c.pos(f.Decl.Pos()),
			"fetchTransIndex returns the index of the transition with the given source state and symbol, and an error when there is none", why)
	}
}

// isRuleBitTest: t is `(x & CheckMask) ==|!= 0` (operands in either order).
func isRuleBitTest(c *Ctx, t *Term) bool {
	if t.Op != "cmp" || (t.Name != "==" && t.Name != "!=") || len(t.Args) != 2 {
		return false
	}
	cm, ok := pkgConst(c.Pkg("LALR"), "CheckMask")
	if !ok {
		return false
	}
	cmv, _ := constant.Uint64Val(constant.ToInt(cm))
	isConst := func(x *Term, v uint64) bool {
		if x == nil || x.Op != "const" || x.Val == nil {
			return false
		}
		u, exact := constant.Uint64Val(constant.ToInt(x.Val))
		return exact && u == v
	}
	for _, pr := range [][2]*Term{{t.Args[0], t.Args[1]}, {t.Args[1], t.Args[0]}} {
		and, zero := pr[0], pr[1]
		if !isConst(zero, 0) || and == nil || and.Op != "arith" || and.Name != "&" || len(and.Args) != 2 {
			continue
		}
		if isConst(and.Args[0], cmv) || isConst(and.Args[1], cmv) {
			return true
		}
	}
	return false
}

// c03EndMarker: the end marker is seeded into DR of transition 0, rule 0 reduces (= accepts) on the end marker
// only, and the end marker is symbol 1. Shared with C01.a: an accept cell on any other lookahead is unsound.
func c03EndMarker(c *Ctx, r *Report, clause string) {
	// end-marker seeding
	if f := c.need(r, clause, "LALR", "LALR1", "CalcDR"); f != nil {
		info := f.Pkg.TypesInfo
		ok := false
		ast.Inspect(f.Decl.Body, func(n ast.Node) bool {
			as, isA := n.(*ast.AssignStmt)
			if !isA || len(as.Lhs) != 1 {
				return true
			}
			ix, isI := as.Lhs[0].(*ast.IndexExpr)
			if !isI {
				return true
			}
			if fv := fieldVar(info, ix.X); fv == nil || fv.Name() != "DRSet" {
				return true
			}
			if v, isC := constInt(info, ix.Index); !isC || v != 0 {
				return true
			}
			call, isC := as.Rhs[0].(*ast.CallExpr)
			if !isC || builtinName(info, call) != "append" {
				return true
			}
			// some appended element (or element of an appended literal) has the constant value 1, by value
			for _, a := range call.Args[1:] {
				ast.Inspect(a, func(m ast.Node) bool {
					if e, isE := m.(ast.Expr); isE {
						if _, isLit := e.(*ast.CompositeLit); !isLit {
							if v, isC := constInt(info, e); isC && v == 1 {
								ok = true
							}
						}
					}
					return true
				})
			}
			return true
		})
		r.Check(ok, clause, "R1 PROVENANCE", f.Name+"/end-marker-seed", c.pos(f.Decl.Pos()),
			"the end marker (symbol id 1) is added to DR of transition 0, the (state 0, start symbol) transition",
			"the end marker is not seeded into DR of transition 0: end of input would never be a lookahead")
	}
	if f := c.need(r, clause, "LALR", "LALR1", "CalcLookAheadSet"); f != nil {
		info := f.Pkg.TypesInfo
		ok := false
		// the store LookAheadSet[…] = {1} and its guard: exactly `rule number == 0` (if or switch form)
		ast.Inspect(f.Decl.Body, func(n ast.Node) bool {
			as, isA := n.(*ast.AssignStmt)
			if !isA || len(as.Lhs) != 1 || len(as.Rhs) != 1 {
				return true
			}
			ix, isI := unparen(as.Lhs[0]).(*ast.IndexExpr)
			if !isI || !fieldNamed(info, ix.X, "LookAheadSet") {
				return true
			}
			cl, isCl := unparen(as.Rhs[0]).(*ast.CompositeLit)
			if !isCl || len(cl.Elts) != 1 {
				return true
			}
			if v, isC := constInt(info, cl.Elts[0]); !isC || v != 1 {
				return true
			}
			atoms := guardAtoms(c, f, as)
			if len(atoms) == 1 && !strings.HasPrefix(atoms[0], "!") && strings.Contains(atoms[0], "sym_or_rule") && strings.Contains(atoms[0], "&") && strings.HasSuffix(atoms[0], " == 0)") {
				ok = true
			}
			return true
		})
		r.Check(ok, clause, "R1 PROVENANCE", f.Name+"/rule-0-lookahead", c.pos(f.Decl.Pos()),
			"the reduction by rule 0 (start → S) has exactly the end marker as lookahead",
			"the reduction by rule 0 is not given the end marker as its lookahead")
	}
	// dollar has id 1
	if f := c.need(r, clause, "Parser", "Walker", "BuildLALR1"); f != nil {
		info := f.Pkg.TypesInfo
		ok := false
		ast.Inspect(f.Decl.Body, func(n ast.Node) bool {
			if call, isC := n.(*ast.CallExpr); isC && strings.HasSuffix(shortFuncName(callee(info, call)), "Symbol.NewSymbol") && len(call.Args) == 2 {
				if v, isI := constInt(info, call.Args[0]); isI && v == 1 {
					if s, isS := constString(info, call.Args[1]); isS && s == "$" {
						ok = true
					}
				}
			}
			return true
		})
		r.Check(ok, clause, "R1 PROVENANCE", f.Name+"/end-marker-id", c.pos(f.Decl.Pos()), "the end marker `$` is created with symbol id 1, the id seeded by CalcDR", "the end marker `$` is not created with symbol id 1")
	}
}
