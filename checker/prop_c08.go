package main

// C08 — all backends and modes implement the same parser.
// R10 SIBLING-DIFF: the global and the object template agree function by function modulo the receiver mapping;
// the TypeScript driver and the Go driver agree as an abstract driver IR; sibling fragment builders fill the same
// roles from the same provenance; the mode flags are coherent.

import (
	"fmt"
	"go/ast"
	"go/token"
	"regexp"
	"strings"
)

func init() { register("C08", checkC08) }

var (
	reRecvField = regexp.MustCompile(`\bc\.(StackSym|Stackpos)\b`)
	reRecvCall  = regexp.MustCompile(`\bc\.(ReduceFunc|PushStateSym|PopStateSym|Parser|ParserInit)\(`)
)

func normaliseObjectText(s string) string {
	s = reRecvField.ReplaceAllStringFunc(s, func(m string) string {
		if strings.HasSuffix(m, "StackSym") {
			return "StateSymStack"
		}
		return "StackPointer"
	})
	s = reRecvCall.ReplaceAllString(s, "$1(")
	return s
}

func checkC08(c *Ctx, r *Report) {
	r.Explanation = "R10: for each packing mode, every function that exists in both the global and the object skeleton (Action, TraceShift, ReduceFunc, PushStateSym, PopStateSym, Parser, fetchLookAhead, translate, TraceTranslate, TraceReduce) is printed from its parsed AST and must be identical after the declared receiver mapping (c.StackSym↔StateSymStack, c.Stackpos↔StackPointer, c.F(↔F(); the one-sided declarations are listed. The TypeScript driver (token tree) and the Go driver (typed AST) are reduced to the same abstract IR — loop guards, lookup, classification order, per class the ordered core calls and their key arguments — and compared. Sibling builders (ReduceFunc, Translate, table, const part) must fill the same roles from the same access paths in Go and TypeScript. Mode flags: who writes utils.ObjectMode / PackFlags. Not decided: equality of outputs on inputs; TypeScript typing."
	r.Assumptions = append(r.Assumptions, "TypeScript rules are token-level (no TS front end is installed)")
	st := c.GetStaged()
	stagedErrors(r, "C08", st)
	c08a(c, r, st)
	c08b(c, r, st)
	c08c(c, r, st)
	c08d(c, r)
	// the object parser gives every nested parse its own context; the global parser must give it its own stack
	c15FreshStackAll(r, "C08.b←C15.c", st)
	// the packed variants (default) and the dense ones (-u, TypeScript) read the same table only if packing is
	// lossless: C05 is a prerequisite of "all variants run the same automaton"
	includePrereq(c, r, "C08.e", checkC05)
}

func c08a(c *Ctx, r *Report, st *Staged) {
	const clause = "C08.a"
	shared := []string{"Action", "TraceShift", "ReduceFunc", "PushStateSym", "PopStateSym", "Parser", "fetchLookAhead", "translate", "TraceTranslate", "TraceReduce"}
	for _, packing := range []string{"packed", "dense"} {
		var g, o *Skeleton
		for _, sk := range quickSkeletons(st) {
			if sk.V.Name == "go/global/"+packing {
				g = sk
			}
			if sk.V.Name == "go/object/"+packing {
				o = sk
			}
		}
		if g == nil || o == nil || g.File == nil || o.File == nil {
			r.Undecided(clause, "R10 SIBLING-DIFF", "skeletons/"+packing, "-", "global or object skeleton not available")
			continue
		}
		find := func(sk *Skeleton, name string) *ast.FuncDecl {
			for _, d := range sk.File.Decls {
				if fd, ok := d.(*ast.FuncDecl); ok && fd.Name.Name == name && fd.Body != nil {
					return fd
				}
			}
			return nil
		}
		for _, fn := range shared {
			gf, of := find(g, fn), find(o, fn)
			construct := fmt.Sprintf("templates/%s/%s", packing, fn)
			if gf == nil && of == nil {
				r.OK(clause, "R10 SIBLING-DIFF", construct, "Builder/GoCodeTemplate.go ↔ Builder/GoObjectTemplate.go", "neither template declares "+fn+" (nothing to compare)")
				continue
			}
			if gf == nil || of == nil {
				r.Fail(clause, "R10 SIBLING-DIFF", construct, "Builder/GoCodeTemplate.go ↔ Builder/GoObjectTemplate.go", fmt.Sprintf("function %s exists in only one of the two templates (global: %v, object: %v)", fn, gf != nil, of != nil))
				continue
			}
			// canonical text: receiver members mapped to their global counterparts, locals renamed in order of
			// appearance, comparisons oriented, tagless switches as if-chains (canon_text.go)
			gt := canonBodyText(g.Fset, g.Info, gf, nil)
			ot := canonBodyText(o.Fset, o.Info, of, map[string]string{"StackSym": "StateSymStack", "Stackpos": "StackPointer"})
			if strings.Join(strings.Fields(gt), " ") == strings.Join(strings.Fields(ot), " ") {
				r.OK(clause, "R10 SIBLING-DIFF", construct, "Builder/GoCodeTemplate.go ↔ Builder/GoObjectTemplate.go", fmt.Sprintf("bodies identical modulo the receiver mapping (%d bytes)", len(gt)))
				continue
			}
			// first differing line
			gl, ol := nonBlankLines(gt), nonBlankLines(ot)
			diff := ""
			for i := 0; i < len(gl) || i < len(ol); i++ {
				a, b := "", ""
				if i < len(gl) {
					a = strings.TrimSpace(gl[i])
				}
				if i < len(ol) {
					b = strings.TrimSpace(ol[i])
				}
				if a != b {
					diff = fmt.Sprintf("global template: `%s` — object template: `%s`", a, b)
					break
				}
			}
			r.Fail(clause, "R10 SIBLING-DIFF", construct, "Builder/GoCodeTemplate.go ↔ Builder/GoObjectTemplate.go",
				"the two hand-maintained Go templates disagree in "+fn+" beyond the receiver mapping: "+diff)
		}
	}
}

// driverIR is the backend-independent description of a driver loop.
type driverIR struct {
	guards  []string          // loop guards before the lookup
	classes map[string]string // class -> ordered core calls with key arguments
	order   string            // order in which the codes are tested
}

func goDriverIR(sk *Skeleton) (*driverIR, string) {
	d := analyseDriver(sk)
	if d.err != "" {
		return nil, d.err
	}
	ir := &driverIR{classes: map[string]string{}}
	// guards: conditions that precede the lookup on the error path
	eps := d.classPaths(d.errConst)
	if len(eps) == 0 {
		return nil, "no error class"
	}
	for _, cd := range eps[0].Conds {
		s := cd.Atom.String()
		if strings.Contains(s, d.aStr) {
			break
		}
		s = strings.NewReplacer("main.StackPointer", "SP", "c.Stackpos", "SP", "main.StateSymStack", "STACK", "c.StackSym", "STACK").Replace(s)
		ir.guards = append(ir.guards, holdsForm(s, cd.Pol))
	}
	// order of code tests on the reduce path
	var ord []string
	for _, p := range d.classPaths(constantInt(-3)) {
		for _, cd := range p.Conds {
			s := cd.Atom.String()
			switch {
			case strings.Contains(s, d.aStr+" == "+d.errConst.ExactString()):
				ord = append(ord, "error?")
			case strings.Contains(s, d.aStr+" == "+d.accConst.ExactString()):
				ord = append(ord, "accept?")
			case strings.Contains(s, d.aStr+" > 0"):
				ord = append(ord, "shift?")
			}
		}
		break
	}
	ir.order = strings.Join(ord, " ")
	core := func(p *PathOut) string {
		var out []string
		for _, e := range p.Effects {
			if e.Kind != "call" {
				continue
			}
			n := e.Term.Name
			if i := strings.LastIndex(n, "."); i >= 0 {
				n = n[i+1:]
			}
			switch n {
			case "PushStateSym":
				arg := e.Term.Args[len(e.Term.Args)-1]
				desc := "push(?)"
				t := arg
				if t.Op == "addr" {
					t = t.Args[0]
				}
				if t.Op == "composite" {
					st, sy, vl := t.Fields["Yystate"], t.Fields["YySymIndex"], t.Fields["ValType"]
					desc = fmt.Sprintf("push(state=%s,sym=%s,val=%s)", role(st, d), role(sy, d), role(vl, d))
				} else if t.Op == "call" && strings.HasSuffix(t.Name, "ReduceFunc") {
					desc = "push(reduced)"
				}
				out = append(out, desc)
			case "fetchLookAhead":
				out = append(out, "fetch")
			case "GetToken":
				// the lexer called in place (fetchLookAhead inlined): the same fetch, `translate` around it is part of it
				if sk := d.sk; sk != nil && sk.FuncDecl("", "fetchLookAhead") == nil {
					out = append(out, "fetch")
				}
			case "ReduceFunc":
				a := e.Term.Args[len(e.Term.Args)-1]
				if a.Op == "neg" && a.Args[0].String() == d.aStr {
					out = append(out, "reduce(-a)")
				} else {
					out = append(out, "reduce("+a.String()+")")
				}
			case "Action":
				if e.Term.String() == d.aStr {
					continue
				}
				arg := e.Term.Args[len(e.Term.Args)-1]
				if strings.HasSuffix(arg.String(), ".YySymIndex") && strings.Contains(arg.String(), "ReduceFunc") {
					out = append(out, "goto(top,reduced.sym)")
				} else {
					out = append(out, "goto(?)")
				}
			}
		}
		// Yystate store
		for _, e := range p.Effects {
			if e.Kind == "store" && strings.HasSuffix(e.LHS.String(), ".Yystate") && strings.Contains(e.Term.String(), "Action") {
				out = append(out, "reduced.state=goto")
			}
		}
		return strings.Join(out, "; ")
	}
	for cls, v := range map[string]int64{"shift": 5, "reduce": -3} {
		ps := d.classPaths(constantInt(v))
		if len(ps) != 1 {
			return nil, fmt.Sprintf("%d paths for the %s class", len(ps), cls)
		}
		ir.classes[cls] = core(ps[0])
	}
	if ps := d.classPaths(d.accConst); len(ps) == 1 && ps[0].Kind == "return" {
		ir.classes["accept"] = "return top.value"
		if !strings.HasSuffix(ps[0].Vals[0].String(), ".ValType") {
			ir.classes["accept"] = "return " + ps[0].Vals[0].String()
		}
	}
	ir.classes["error"] = "sink"
	return ir, ""
}

func role(t *Term, d *DriverFacts) string {
	if t == nil {
		return "∅"
	}
	s := t.String()
	switch {
	case s == d.aStr:
		return "a"
	case strings.Contains(s, "fetchLookAhead"), strings.Contains(s, "translate(main.GetToken("), len(d.aTerm.Args) > 0 && s == d.aTerm.Args[len(d.aTerm.Args)-1].String():
		return "look"
	case s == "val":
		return "val"
	}
	return s
}

func tsDriverIR(ts *TSStaged) (*driverIR, string) {
	loop, _, _, err := ts.tsDriver()
	if err != "" {
		return nil, err
	}
	ir := &driverIR{classes: map[string]string{}}
	paths := tsEnumerate(loop.Then)
	var errP, accP, shP, rdP *tsPath
	for _, p := range paths {
		for _, cd := range p.Conds {
			switch {
			case cd.Pol && strings.HasSuffix(cd.Text, "==ERROR_ACTION"):
				errP = p
			case cd.Pol && strings.HasSuffix(cd.Text, "==ACCEPT_ACTION"):
				accP = p
			case cd.Text == "action>0" && cd.Pol:
				shP = p
			case cd.Text == "action>0" && !cd.Pol:
				rdP = p
			}
		}
	}
	if errP == nil || accP == nil || shP == nil || rdP == nil {
		return nil, "the TypeScript driver does not have the four classes error / accept / shift / reduce"
	}
	for _, cd := range errP.Conds {
		if strings.Contains(cd.Text, "action") {
			break
		}
		s := strings.NewReplacer("StackPointer", "SP", "StateSymStack.length", "len(STACK)").Replace(cd.Text)
		s = strings.NewReplacer("SP==0", "(SP == 0)", "SP>len(STACK)", "(SP > len(STACK))").Replace(s)
		ir.guards = append(ir.guards, holdsForm(s, cd.Pol))
	}
	var ord []string
	for _, cd := range rdP.Conds {
		switch {
		case strings.HasSuffix(cd.Text, "==ERROR_ACTION"):
			ord = append(ord, "error?")
		case strings.HasSuffix(cd.Text, "==ACCEPT_ACTION"):
			ord = append(ord, "accept?")
		case cd.Text == "action>0":
			ord = append(ord, "shift?")
		}
	}
	ir.order = strings.Join(ord, " ")
	core := func(p *tsPath) string {
		var out []string
		symDesc := ""
		valSet := false
		for _, e := range p.Effects {
			switch {
			case strings.HasPrefix(e, "let sym = new StateSym("):
				args := strings.TrimSuffix(strings.TrimPrefix(e, "let sym = new StateSym("), ")")
				parts := strings.Split(args, ",")
				if len(parts) == 2 {
					m := map[string]string{"action": "a", "lookAhead": "look"}
					symDesc = fmt.Sprintf("state=%s,sym=%s", m[parts[0]], m[parts[1]])
				}
			case e == "set sym.ValType = model.ValType":
				valSet = true
			case e == "call PushStateSym":
				if symDesc != "" {
					v := "∅"
					if valSet {
						v = "val"
					}
					out = append(out, "push("+symDesc+",val="+v+")")
					symDesc = ""
				} else {
					out = append(out, "push(reduced)")
				}
			case e == "call fetchLookAhead":
				out = append(out, "fetch")
			case strings.HasPrefix(e, "let SymTy = ReduceFunc("):
				out = append(out, "reduce("+strings.ReplaceAll(strings.TrimSuffix(strings.TrimPrefix(e, "let SymTy = ReduceFunc("), ")"), "action", "a")+")")
			case strings.HasPrefix(e, "let gotoState = state.Action("):
				if strings.Contains(e, "SymTy.YySymIndex") {
					out = append(out, "goto(top,reduced.sym)")
				} else {
					out = append(out, "goto(?)")
				}
			}
		}
		for _, e := range p.Effects {
			if e == "set SymTy.Yystate = gotoState" {
				out = append(out, "reduced.state=goto")
			}
		}
		return strings.Join(out, "; ")
	}
	ir.classes["shift"] = core(shP)
	ir.classes["reduce"] = core(rdP)
	// the top of the stack must be re-read between ReduceFunc and the goto lookup
	reread := false
	seenReduce := false
	for _, e := range rdP.Effects {
		if strings.HasPrefix(e, "let SymTy = ReduceFunc(") {
			seenReduce = true
		}
		if seenReduce && strings.HasPrefix(e, "set state = StateSymStack[StackPointer-1]") {
			reread = true
		}
		if strings.HasPrefix(e, "let gotoState") && !reread {
			ir.classes["reduce"] += "; (goto looked up on the OLD top)"
		}
	}
	if accP.Kind == "return" && accP.Val == "state.ValType" {
		ir.classes["accept"] = "return top.value"
	} else {
		ir.classes["accept"] = accP.Kind + " " + accP.Val
	}
	ir.classes["error"] = "sink"
	return ir, ""
}

func c08b(c *Ctx, r *Report, st *Staged) {
	const clause = "C08.b"
	var ref *driverIR
	refName := ""
	for _, sk := range quickSkeletons(st) {
		ir, err := goDriverIR(sk)
		name := "skeleton " + sk.V.Name + "/Parser"
		if err != "" {
			r.Undecided(clause, "R10 DRIVER-IR", name, sk.pos(token.NoPos), err)
			continue
		}
		if ref == nil {
			ref, refName = ir, sk.V.Name
			want := map[string]string{
				"shift":  "push(state=a,sym=look,val=val); fetch",
				"reduce": "reduce(-a); goto(top,reduced.sym); push(reduced); reduced.state=goto",
				"accept": "return top.value", "error": "sink",
			}
			bad := ""
			for k, v := range want {
				if ir.classes[k] != v {
					bad += fmt.Sprintf("%s: `%s` (reference LR driver: `%s`); ", k, ir.classes[k], v)
				}
			}
			if ir.order != "error? accept? shift?" {
				bad += "code tests in order `" + ir.order + "`"
			}
			r.Check(bad == "", clause, "R10 DRIVER-IR", name+"/reference-LR-driver", sk.pos(token.NoPos),
				"driver IR: guards "+strings.Join(ir.guards, ", ")+"; tests error?, accept?, shift?; shift = push(a, lookahead, val) then fetch; reduce = ReduceFunc(-a), goto on the exposed top with the reduced symbol, push", bad)
			continue
		}
		same := ir.order == ref.order && strings.Join(ir.guards, "|") == strings.Join(ref.guards, "|")
		diff := ""
		for k, v := range ref.classes {
			if ir.classes[k] != v {
				same = false
				diff = fmt.Sprintf("class %s: `%s` vs `%s` in %s", k, ir.classes[k], v, refName)
			}
		}
		r.Check(same, clause, "R10 DRIVER-IR", name+"/same-as-"+refName, sk.pos(token.NoPos), "same driver IR as "+refName, "driver differs from "+refName+": "+diff+fmt.Sprintf(" (order %q vs %q, guards %v vs %v)", ir.order, ref.order, ir.guards, ref.guards))
	}
	if st.TS == nil || st.TS.LexEr != "" || ref == nil {
		r.Undecided(clause, "R10 DRIVER-IR", "typescript/Parser", "Builder/TsGenCode.go", "TypeScript driver or Go reference not available")
		return
	}
	ir, err := tsDriverIR(st.TS)
	if err != "" {
		r.Undecided(clause, "R10 DRIVER-IR", "typescript/Parser", "Builder/TsGenCode.go", err)
		return
	}
	same := ir.order == ref.order && strings.Join(ir.guards, "|") == strings.Join(ref.guards, "|")
	diff := ""
	for k, v := range ref.classes {
		if ir.classes[k] != v {
			same = false
			diff += fmt.Sprintf("class %s: TypeScript `%s` vs Go `%s`; ", k, ir.classes[k], v)
		}
	}
	if !same && diff == "" {
		diff = fmt.Sprintf("order %q vs %q, guards %v vs %v", ir.order, ref.order, ir.guards, ref.guards)
	}
	r.Check(same, clause, "R10 DRIVER-IR", "typescript/Parser/same-as-go", "Builder/TsGenCode.go (StateFunc literal)",
		"the TypeScript driver has the same IR as the Go driver (guards, order of code tests, shift / reduce / accept sequences; token-level)", "the TypeScript driver differs from the Go driver: "+diff)
}

// roleHoles extracts, per role, the provenance of the hole that fills it.
func reduceFuncRoles(sh Shape) map[string]string {
	parts := flatten(sh)
	roles := map[string]string{}
	grab := func(role string, suffixes ...string) {
		for _, s := range suffixes {
			if h := holeAfter(parts, s); h != nil {
				roles[role] = h.Path
				return
			}
		}
	}
	grab("case-label", "case ")
	grab("pushed-symbol", "dollarDolar.YySymIndex = ")
	grab("window-start", "[topIndex-", "(topIndex-")
	grab("pop-count", "PopStateSym(")
	grab("$$-tag", "dollarDolar.", "dollarDolar.ValType.")
	grab("$n-index", "Dollar[")
	grab("$n-tag", "].", "].ValType.")
	for _, p := range parts {
		if p.hole != nil && strings.HasSuffix(p.hole.Path, ".ActionCode") {
			roles["action-text"] = p.hole.Path
		}
	}
	for _, l := range loopsIn(sh) {
		if l.Lo >= 0 {
			roles["rule-loop"] = fmt.Sprintf("%s from %d below %s", l.Var, l.Lo, l.Over)
			break
		}
	}
	return roles
}

func c08c(c *Ctx, r *Report, st *Staged) {
	const clause = "C08.c"
	goCfg := configOf(st, "go/global/dense")
	if goCfg == nil || st.TS == nil || st.TS.Eval == nil {
		r.Undecided(clause, "R1 SIBLING-PROVENANCE", "builders", "Builder", "Go dense configuration or TypeScript backend not staged")
		return
	}
	gr, _ := fieldShapeOf(goCfg.Eval, "ReduceFunc")
	tr, _ := fieldShapeOf(st.TS.Eval, "ReduceFunc")
	if gr == nil || tr == nil {
		r.Undecided(clause, "R1 SIBLING-PROVENANCE", "buildReduceFunc", "Builder", "ReduceFunc shape missing")
	} else {
		g, t := reduceFuncRoles(gr), reduceFuncRoles(tr)
		var roles []string
		for k := range g {
			roles = append(roles, k)
		}
		for k := range t {
			if _, ok := g[k]; !ok {
				roles = append(roles, k)
			}
		}
		sortStrings(roles)
		for _, role := range roles {
			r.Check(g[role] == t[role] && g[role] != "", clause, "R1 SIBLING-PROVENANCE", "buildReduceFunc/"+role, "Builder/GoTemplBuilder.go ↔ Builder/TsGenCode.go",
				"Go and TypeScript fill it from "+shortPath(g[role]),
				fmt.Sprintf("Go fills it from %q, TypeScript from %q", g[role], t[role]))
		}
		if len(roles) < 8 {
			r.Undecided(clause, "R1 SIBLING-PROVENANCE", "buildReduceFunc/roles", "Builder", fmt.Sprintf("only %d roles recognised in the reduce fragments", len(roles)))
		}
	}
	// translate and dense table: same hole sequences
	for _, fld := range []struct{ g, t, name string }{{"Translate", "Translate", "buildTranslate"}, {"AnalyTable", "AnalyTable", "buildAnalyTable"}, {"ConstPart", "ConstPart", "buildConstPart"}} {
		gs, _ := fieldShapeOf(goCfg.Eval, fld.g)
		tsh, _ := fieldShapeOf(st.TS.Eval, fld.t)
		if gs == nil || tsh == nil {
			r.Undecided(clause, "R1 SIBLING-PROVENANCE", fld.name, "Builder", "shape missing")
			continue
		}
		seq := func(s Shape) string {
			var out []string
			for _, h := range holesOf(s) {
				out = append(out, h.Path)
			}
			for _, l := range loopsIn(s) {
				out = append(out, "loop:"+l.Over)
			}
			return strings.Join(out, " | ")
		}
		a, b := seq(gs), seq(tsh)
		r.Check(a == b, clause, "R1 SIBLING-PROVENANCE", fld.name+"/hole-sequence", "Builder/GoTemplBuilder.go ↔ Builder/TsGenCode.go",
			"Go and TypeScript emit the same data in the same order: "+shortPath(a), fmt.Sprintf("Go emits [%s], TypeScript emits [%s]", a, b))
	}
}

func c08d(c *Ctx, r *Report) {
	const clause = "C08.d"
	for _, flag := range []string{"ObjectMode", "PackFlags", "HttpDebug"} {
		var writers []string
		for _, f := range c.AllFuncs() {
			info := f.Pkg.TypesInfo
			ast.Inspect(f.Decl.Body, func(n ast.Node) bool {
				if as, ok := n.(*ast.AssignStmt); ok {
					for _, l := range as.Lhs {
						if o := rootObject(info, l); o != nil && isPkgLevelVar(o) && o.Name() == flag && o.Pkg() != nil && strings.HasSuffix(o.Pkg().Path(), "/Utils") {
							writers = append(writers, f.Name)
						}
					}
				}
				return true
			})
		}
		ok := true
		for _, w := range writers {
			if !strings.HasPrefix(w, "yaccgo.") {
				ok = false
			}
		}
		r.Check(ok, clause, "WHO-WRITES", "Utils."+flag, "Utils/flags.go", fmt.Sprintf("written only by the command-line front end (%v), before generation starts", writers), fmt.Sprintf("also written during generation: %v — fragments and template could be built for different modes", writers))
	}
	// the object/global choice: every mode condition in the builder reads utils.ObjectMode
	if f := c.need(r, clause, "Builder", "TemplateBuilder", "buildReduceFunc"); f != nil {
		wf := c.need(r, clause, "Builder", "TemplateBuilder", "WriteFile")
		if wf != nil {
			cond := func(fr *FuncRef) string {
				out := ""
				pc := &pathCtx{info: fr.Pkg.TypesInfo}
				ast.Inspect(fr.Decl.Body, func(n ast.Node) bool {
					if is, ok := n.(*ast.IfStmt); ok && out == "" {
						out = pc.path(is.Cond)
					}
					// or a per-mode table indexed by the flag
					if ix, ok := n.(*ast.IndexExpr); ok && out == "" {
						if p := pc.path(ix.Index); strings.HasPrefix(p, "Utils.") {
							out = p
						}
					}
					return true
				})
				return out
			}
			a, b := cond(f), cond(wf)
			r.Check(a == b && a == "Utils.ObjectMode", clause, "R1 PROVENANCE", "Builder/object-mode-switch", c.pos(f.Decl.Pos()),
				"the `c.`-prefixed fragments and the object template are selected by the same flag, utils.ObjectMode",
				fmt.Sprintf("the reduce fragments are switched by %q but the template by %q", a, b))
		}
	}
}

func nonBlankLines(s string) []string {
	var out []string
	for _, l := range strings.Split(s, "\n") {
		if strings.TrimSpace(l) != "" {
			out = append(out, l)
		}
	}
	return out
}

// holdsForm: what is known on the path once the condition has been tested with outcome pol, in positive comparison
// form — `(SP == 0)` tested false and `(SP != 0)` tested true both read `(SP != 0)`.
func holdsForm(atom string, pol bool) string {
	if pol {
		return positiveForm(atom)
	}
	return positiveForm("!(" + atom + ")")
}
