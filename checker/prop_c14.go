package main

// C14 — generation is deterministic.
// R7 MAP-ORDER-TAINT over every `range` over a map in the repository's non-test code: the body's effects are
// classified; order-sensitive effects must be sanitised (keys collected and sorted by a total order before any
// other use) or confined to diagnostics, or belong to the table of reasoned exceptions whose premises are
// re-checked on every run. Plus an inventory of other nondeterminism sources.

import (
	"fmt"
	"go/ast"
	"go/token"
	"go/types"
	"sort"
	"strings"
)

func init() { register("C14", checkC14) }

func checkC14(c *Ctx, r *Report) {
	r.Explanation = "R7: every map range is classified by the effects of its body — keyed writes (index is the range key), writes to the ranged element itself, commutative counters that are not read in the loop, diagnostics (fmt.Print*, panic text) and calls to side-effect-free functions are order-insensitive; appends to a slice are accepted when the slice is sorted with sort.Strings/sort.Ints before any other use; anything else (counter reads, non-keyed stores, string concatenation, tie-breaking assignments, early exits, calls with side effects) lets the iteration order escape and is a violation unless the site is in the exception table, whose premises are re-checked. Silence means: no map iteration order reaches any state other than stdout diagnostics. Inventory: no time/rand/environment/pid/pointer-formatting source, no select, exactly one goroutine producer (the lexer) feeding one unbuffered channel. Not decided: nondeterminism outside the Go program (the `dot` subprocess of -g, the file system)."
	r.Assumptions = append(r.Assumptions,
		"Digraph computes sets: the element order of lookahead slices varies with map order but not their contents (C03.d checks the algorithm's skeleton)",
		"PackTable places rows without overlap, so the order in which rows are written out does not matter (C05 assumption)")
	c14MapRanges(c, r)
	c14Inventory(c, r)
}

type mapRangeSite struct {
	fn   *FuncRef
	rs   *ast.RangeStmt
	path string
}

func allMapRanges(c *Ctx) []mapRangeSite {
	var out []mapRangeSite
	for _, f := range c.AllFuncs() {
		info := f.Pkg.TypesInfo
		pc := &pathCtx{info: info}
		defs := newDefs(info)
		defs.scan(f.Decl.Body)
		ast.Inspect(f.Decl.Body, func(n ast.Node) bool {
			rs, ok := n.(*ast.RangeStmt)
			if !ok {
				return true
			}
			if tv, ok := info.Types[rs.X]; ok {
				if _, isMap := tv.Type.Underlying().(*types.Map); isMap {
					// a local that is merely another name of a map (`m := lalr.DRSet`) is that map
					x := unparen(rs.X)
					for k := 0; k < 4; k++ {
						o := identObj(info, x)
						if o == nil || defs.count[o] != 1 || defs.single[o] == nil {
							break
						}
						d := unparen(defs.single[o])
						if _, isSel := d.(*ast.SelectorExpr); !isSel {
							if _, isId := d.(*ast.Ident); !isId {
								break
							}
						}
						x = d
					}
					out = append(out, mapRangeSite{f, rs, pc.path(x)})
				}
			}
			return true
		})
	}
	return out
}

// ---------------------------------------------------------------------------------------------
// purity

type purity struct {
	c    *Ctx
	memo map[*types.Func]string // "" = pure, else reason
	busy map[*types.Func]bool
}

var pureStd = map[string]bool{
	"fmt.Sprintf": true, "fmt.Sprint": true, "fmt.Errorf": true, "errors.New": true, "fmt.Sprintln": true,
	"strings.HasPrefix": true, "strings.Contains": true, "strings.ReplaceAll": true, "strings.Join": true, "strings.HasSuffix": true,
	"strconv.Itoa": true, "strconv.Atoi": true,
}
var diagStd = map[string]bool{"fmt.Println": true, "fmt.Printf": true, "fmt.Print": true}

// impureReason returns "" when calling fn cannot change state visible after the call (diagnostic prints allowed).
func (p *purity) impureReason(fn *types.Func) string {
	if fn == nil {
		return "dynamic call"
	}
	full := fn.FullName()
	if pureStd[full] || diagStd[full] {
		return ""
	}
	if r, ok := p.memo[fn]; ok {
		return r
	}
	ref := p.c.FuncOf(fn)
	if ref == nil {
		return "calls " + full + " (outside the repository, not in the pure table)"
	}
	if p.busy[fn] {
		return "" // recursion: judged by the outer activation
	}
	p.busy[fn] = true
	defer delete(p.busy, fn)
	info := ref.Pkg.TypesInfo
	reason := ""
	local := func(e ast.Expr) bool {
		// identifier declared inside this function (not a parameter used as pointer target)
		id, ok := unparen(e).(*ast.Ident)
		if !ok {
			return false
		}
		if id.Name == "_" {
			return true
		}
		o := objOf(info, id)
		v, ok := o.(*types.Var)
		return ok && v.Pkg() != nil && v.Parent() != v.Pkg().Scope() && !v.IsField()
	}
	// locals that hold freshly made values (make / composite / append to local): index stores into them are local
	ast.Inspect(ref.Decl.Body, func(n ast.Node) bool {
		if reason != "" {
			return false
		}
		switch x := n.(type) {
		case *ast.AssignStmt:
			for _, l := range x.Lhs {
				l = unparen(l)
				if local(l) {
					continue
				}
				if ix, ok := l.(*ast.IndexExpr); ok && local(ix.X) && !isParam(info, ref.Decl, ix.X) {
					continue
				}
				reason = fmt.Sprintf("%s writes %s", ref.Name, exprString(l))
			}
		case *ast.IncDecStmt:
			if !local(x.X) {
				reason = fmt.Sprintf("%s modifies %s", ref.Name, exprString(x.X))
			}
		case *ast.GoStmt, *ast.SendStmt:
			reason = ref.Name + " starts a goroutine / sends on a channel"
		case *ast.CallExpr:
			if b := builtinName(info, x); b != "" {
				return true
			}
			if tv, ok := info.Types[x.Fun]; ok && tv.IsType() {
				return true
			}
			if why := p.impureReason(callee(info, x)); why != "" {
				reason = why
			}
		}
		return true
	})
	p.memo[fn] = reason
	return reason
}

func isParam(info *types.Info, fd *ast.FuncDecl, e ast.Expr) bool {
	o := identObj(info, e)
	for _, p := range paramObjs(info, fd) {
		if p == o {
			return true
		}
	}
	if fd.Recv != nil {
		for _, f := range fd.Recv.List {
			for _, n := range f.Names {
				if info.Defs[n] == o {
					return true
				}
			}
		}
	}
	return false
}

// ---------------------------------------------------------------------------------------------
// classification of one map range

type mrVerdict struct {
	sensitive []string       // reasons the iteration order escapes
	collected []types.Object // slices appended to inside the loop
	notes     []string
}

type mrCtx struct {
	c      *Ctx
	info   *types.Info
	pur    *purity
	key    types.Object
	val    types.Object
	rs     *ast.RangeStmt
	inner  map[types.Object]bool // declared inside the body
	writes map[string]bool       // outer variables / fields written non-keyed in the body (printed form)
	v      *mrVerdict
	// fill-cursor form of collecting: `X[i] = e; i++` at the top level of the body with i := 0 before the loop and
	// no other use of i in the body — the same as X = append(X, e); skip maps the two statements
	cursor map[types.Object]types.Object // i -> X
	skip   map[ast.Stmt]bool
}

func classifyMapRange(c *Ctx, pur *purity, f *FuncRef, rs *ast.RangeStmt) *mrVerdict {
	info := f.Pkg.TypesInfo
	m := &mrCtx{c: c, info: info, pur: pur, rs: rs, inner: map[types.Object]bool{}, writes: map[string]bool{}, v: &mrVerdict{}}
	m.key, m.val = identObj(info, rs.Key), identObj(info, rs.Value)
	// declared inside
	ast.Inspect(rs.Body, func(n ast.Node) bool {
		switch x := n.(type) {
		case *ast.AssignStmt:
			if x.Tok == token.DEFINE {
				for _, l := range x.Lhs {
					if id, ok := l.(*ast.Ident); ok {
						if o := info.Defs[id]; o != nil {
							m.inner[o] = true
						}
					}
				}
			}
		case *ast.ValueSpec:
			for _, nme := range x.Names {
				if o := info.Defs[nme]; o != nil {
					m.inner[o] = true
				}
			}
		case *ast.RangeStmt:
			if x.Tok == token.DEFINE {
				for _, e := range []ast.Expr{x.Key, x.Value} {
					if o := identObj(info, e); o != nil {
						m.inner[o] = true
					}
				}
			}
		}
		return true
	})
	// outer locals that every iteration re-initialises before reading, and that are dead after the loop, behave
	// like iteration-local variables (e.g. a string buffer reset at the top of the body and printed at its end)
	for _, s := range rs.Body.List {
		as, ok := s.(*ast.AssignStmt)
		if !ok || as.Tok != token.ASSIGN || len(as.Lhs) != 1 || len(as.Rhs) != 1 {
			continue
		}
		o := identObj(info, as.Lhs[0])
		v, isVar := o.(*types.Var)
		if !isVar || v.IsField() || v.Pkg() == nil || v.Parent() == v.Pkg().Scope() || m.inner[o] {
			continue
		}
		// rhs must not mention o; no mention of o earlier in the body; no use after the loop
		mentions := func(n ast.Node) bool {
			hit := false
			ast.Inspect(n, func(x ast.Node) bool {
				if id, ok := x.(*ast.Ident); ok && objOf(info, id) == o {
					hit = true
				}
				return true
			})
			return hit
		}
		if mentions(as.Rhs[0]) {
			continue
		}
		early := false
		for _, t := range rs.Body.List {
			if t == s {
				break
			}
			if mentions(t) {
				early = true
			}
		}
		after := false
		ast.Inspect(f.Decl.Body, func(x ast.Node) bool {
			if id, ok := x.(*ast.Ident); ok && objOf(info, id) == o && id.Pos() > rs.End() {
				after = true
			}
			return true
		})
		if !early && !after {
			m.inner[o] = true
		}
	}
	m.cursor, m.skip = map[types.Object]types.Object{}, map[ast.Stmt]bool{}
	for _, st := range rs.Body.List {
		inc, ok := st.(*ast.IncDecStmt)
		if !ok || inc.Tok != token.INC {
			continue
		}
		i := identObj(info, inc.X)
		if i == nil || m.inner[i] || i == m.key || i == m.val {
			continue
		}
		// the matching store X[i] = e at the top level, before the increment
		var store *ast.AssignStmt
		var X types.Object
		for _, t := range rs.Body.List {
			if t == st {
				break
			}
			if as, ok := t.(*ast.AssignStmt); ok && as.Tok == token.ASSIGN && len(as.Lhs) == 1 && len(as.Rhs) == 1 {
				if ix, ok := unparen(as.Lhs[0]).(*ast.IndexExpr); ok && identObj(info, ix.Index) == i && identObj(info, ix.X) != nil {
					store, X = as, identObj(info, ix.X)
				}
			}
		}
		if store == nil {
			continue
		}
		// i is used nowhere else in the body, and starts at 0 before the loop
		uses := 0
		ast.Inspect(rs.Body, func(n ast.Node) bool {
			if id, ok := n.(*ast.Ident); ok && objOf(info, id) == i {
				uses++
			}
			return true
		})
		zeroBefore := false
		ast.Inspect(f.Decl.Body, func(n ast.Node) bool {
			if as, ok := n.(*ast.AssignStmt); ok && as.Pos() < rs.Pos() && len(as.Lhs) == 1 && len(as.Rhs) == 1 && identObj(info, as.Lhs[0]) == i {
				v, isC := constInt(info, as.Rhs[0])
				zeroBefore = isC && v == 0
			}
			return true
		})
		if uses == 2 && zeroBefore {
			m.cursor[i] = X
			m.skip[st], m.skip[store] = true, true
			m.pureExpr(store.Rhs[0])
			m.v.collected = append(m.v.collected, X)
		}
	}
	// first pass: non-keyed writes to outer state (needed to judge reads)
	ast.Inspect(rs.Body, func(n ast.Node) bool {
		if st, ok := n.(ast.Stmt); ok && m.skip[st] {
			return false
		}
		switch x := n.(type) {
		case *ast.AssignStmt:
			for i, l := range x.Lhs {
				if len(x.Lhs) == len(x.Rhs) {
					// x = append(x, …) is a collection, judged by the sanitising rule, not a scalar write
					if call, ok := unparen(x.Rhs[i]).(*ast.CallExpr); ok && builtinName(info, call) == "append" && len(call.Args) >= 2 &&
						identObj(info, call.Args[0]) != nil && identObj(info, call.Args[0]) == identObj(info, l) {
						continue
					}
				}
				if m.isOuterScalar(l) {
					m.writes[exprString(unparen(l))] = true
				}
			}
		case *ast.IncDecStmt:
			if m.isOuterScalar(x.X) {
				m.writes[exprString(unparen(x.X))] = true
			}
		}
		return true
	})
	m.block(rs.Body.List, 0)
	return m.v
}

// isOuterScalar: an lvalue that is a variable or field living outside the iteration (not keyed, not the element).
func (m *mrCtx) isOuterScalar(l ast.Expr) bool {
	l = unparen(l)
	switch x := l.(type) {
	case *ast.Ident:
		if x.Name == "_" {
			return false
		}
		o := objOf(m.info, x)
		return o != nil && !m.inner[o] && o != m.key && o != m.val
	case *ast.SelectorExpr:
		return !m.isElement(x.X)
	}
	return false
}

// isElement: expression denotes the ranged element (the value variable, or map[key]).
func (m *mrCtx) isElement(e ast.Expr) bool {
	e = unparen(e)
	if o := identObj(m.info, e); o != nil && o == m.val && m.val != nil {
		return true
	}
	if ix, ok := e.(*ast.IndexExpr); ok {
		if identObj(m.info, ix.Index) == m.key && m.key != nil && exprString(unparen(ix.X)) == exprString(unparen(m.rs.X)) {
			return true
		}
	}
	if o := identObj(m.info, e); o != nil && m.inner[o] {
		return true // iteration-local object (e.g. a copy of the element)
	}
	return false
}

func (m *mrCtx) sens(pos token.Pos, format string, a ...interface{}) {
	m.v.sensitive = append(m.v.sensitive, m.c.pos(pos)+": "+fmt.Sprintf(format, a...))
}

// readsWritten reports an outer variable that the body writes and e reads.
func (m *mrCtx) readsWritten(e ast.Expr) string {
	hit := ""
	ast.Inspect(e, func(n ast.Node) bool {
		if x, ok := n.(ast.Expr); ok {
			switch x.(type) {
			case *ast.Ident, *ast.SelectorExpr:
				if m.writes[exprString(x)] {
					hit = exprString(x)
				}
			}
		}
		return true
	})
	return hit
}

func (m *mrCtx) pureExpr(e ast.Expr) {
	if e == nil {
		return
	}
	ast.Inspect(e, func(n ast.Node) bool {
		call, ok := n.(*ast.CallExpr)
		if !ok {
			return true
		}
		if builtinName(m.info, call) != "" {
			return true
		}
		if tv, ok := m.info.Types[call.Fun]; ok && tv.IsType() {
			return true
		}
		if why := m.pur.impureReason(callee(m.info, call)); why != "" {
			m.sens(call.Pos(), "the body calls %s, which has side effects (%s): their order follows the map's iteration order", exprString(call.Fun), why)
		}
		return true
	})
	if w := m.readsWritten(e); w != "" {
		m.sens(e.Pos(), "the body reads %s, which it also modifies: the value seen by each element depends on the iteration order", w)
	}
}

func (m *mrCtx) block(list []ast.Stmt, depth int) {
	for _, s := range list {
		m.stmt(s, depth)
	}
}

func (m *mrCtx) stmt(s ast.Stmt, depth int) {
	info := m.info
	if m.skip[s] {
		return // part of a fill-cursor collection, judged by the sanitising rule
	}
	switch x := s.(type) {
	case *ast.BlockStmt:
		m.block(x.List, depth)
	case *ast.EmptyStmt, *ast.DeclStmt:
		if d, ok := s.(*ast.DeclStmt); ok {
			if gd, ok := d.Decl.(*ast.GenDecl); ok {
				for _, sp := range gd.Specs {
					if vs, ok := sp.(*ast.ValueSpec); ok {
						for _, v := range vs.Values {
							m.pureExpr(v)
						}
					}
				}
			}
		}
	case *ast.ExprStmt:
		if call, ok := unparen(x.X).(*ast.CallExpr); ok {
			if builtinName(info, call) == "panic" {
				return // diagnostic
			}
			if f := callee(info, call); f != nil && diagStd[f.FullName()] {
				return // diagnostic on stdout
			}
		}
		m.pureExpr(x.X)
	case *ast.IncDecStmt:
		l := unparen(x.X)
		if m.isOuterScalar(l) {
			// commutative counter if never read in the body
			name := exprString(l)
			reads := 0
			ast.Inspect(m.rs.Body, func(n ast.Node) bool {
				if e, ok := n.(ast.Expr); ok && exprString(e) == name {
					switch e.(type) {
					case *ast.Ident, *ast.SelectorExpr:
						reads++
					}
				}
				return true
			})
			if reads > 1 {
				m.sens(x.Pos(), "%s is a counter that is incremented and also read inside the loop: each element receives a value that depends on the iteration order", name)
			}
			return
		}
		if ix, ok := l.(*ast.IndexExpr); ok && identObj(info, ix.Index) == m.key {
			return
		}
		if sel, ok := l.(*ast.SelectorExpr); ok && m.isElement(sel.X) {
			return
		}
		if o := identObj(info, l); o != nil && m.inner[o] {
			return // a variable declared inside the body (e.g. the index of an inner loop) is iteration-local
		}
		m.sens(x.Pos(), "non-keyed update of %s", exprString(l))
	case *ast.AssignStmt:
		for _, rhs := range x.Rhs {
			m.pureExpr(rhs)
		}
		for i, l := range x.Lhs {
			l = unparen(l)
			var rhs ast.Expr
			if len(x.Lhs) == len(x.Rhs) {
				rhs = x.Rhs[i]
			}
			switch lx := l.(type) {
			case *ast.Ident:
				if lx.Name == "_" {
					continue
				}
				o := objOf(info, lx)
				if o == nil || m.inner[o] || o == m.key || o == m.val {
					continue
				}
				// s = append(s, …): collection
				if rhs != nil {
					if call, ok := unparen(rhs).(*ast.CallExpr); ok && builtinName(info, call) == "append" && len(call.Args) >= 2 && identObj(info, call.Args[0]) == o {
						m.v.collected = append(m.v.collected, o)
						continue
					}
				}
				if x.Tok == token.ADD_ASSIGN && !isStringType(o.Type()) {
					// numeric accumulation: commutative when not read
					continue
				}
				m.sens(x.Pos(), "the body assigns the outer variable %s (%s): the surviving value depends on the iteration order (tie-break / last writer wins / concatenation)", o.Name(), x.Tok)
			case *ast.IndexExpr:
				if identObj(info, lx.Index) == m.key && m.key != nil {
					continue // keyed write
				}
				if m.isElement(lx.X) {
					continue // write into the element's own storage
				}
				if o := identObj(info, lx.X); o != nil && m.inner[o] {
					continue
				}
				m.sens(x.Pos(), "store to %s at an index that is not the range key: which element's value ends up where depends on the iteration order", exprString(l))
			case *ast.SelectorExpr:
				if m.isElement(lx.X) {
					if rhs != nil {
						if w := m.readsWritten(rhs); w != "" {
							// already reported by pureExpr
							_ = w
						}
					}
					continue
				}
				m.sens(x.Pos(), "the body assigns %s, state outside the iteration (%s)", exprString(l), x.Tok)
			default:
				m.sens(x.Pos(), "unsupported store target %s", exprString(l))
			}
		}
	case *ast.IfStmt:
		if x.Init != nil {
			m.stmt(x.Init, depth)
		}
		m.pureExpr(x.Cond)
		m.block(x.Body.List, depth)
		if x.Else != nil {
			m.stmt(x.Else, depth)
		}
	case *ast.ForStmt:
		if x.Init != nil {
			m.stmt(x.Init, depth+1)
		}
		m.pureExpr(x.Cond)
		if x.Post != nil {
			m.stmt(x.Post, depth+1)
		}
		m.block(x.Body.List, depth+1)
	case *ast.RangeStmt:
		m.pureExpr(x.X)
		m.block(x.Body.List, depth+1)
	case *ast.SwitchStmt:
		if x.Tag != nil {
			m.pureExpr(x.Tag)
		}
		for _, cc := range x.Body.List {
			cl := cc.(*ast.CaseClause)
			for _, e := range cl.List {
				m.pureExpr(e)
			}
			m.block(cl.Body, depth+1)
		}
	case *ast.BranchStmt:
		switch x.Tok {
		case token.CONTINUE:
		case token.BREAK:
			if depth == 0 || x.Label != nil {
				m.sens(x.Pos(), "the loop is left early (break): which elements were visited depends on the iteration order")
			}
		default:
			m.sens(x.Pos(), "the loop is left with %s", x.Tok)
		}
	case *ast.ReturnStmt:
		m.sens(x.Pos(), "the loop is left early (return): which elements were visited depends on the iteration order")
	default:
		m.sens(s.Pos(), "statement %T is not classified", s)
	}
}

// sanitised: after the range loop, the first statement that mentions the collected slice sorts it totally.
func sanitised(f *FuncRef, rs *ast.RangeStmt, o types.Object) (bool, string) {
	info := f.Pkg.TypesInfo
	pm := parentMap(f.Decl.Body)
	blk, ok := pm[rs].(*ast.BlockStmt)
	if !ok {
		return false, "loop is not in a block"
	}
	after := false
	for _, s := range blk.List {
		if s == ast.Stmt(rs) {
			after = true
			continue
		}
		if !after {
			continue
		}
		mentions := false
		ast.Inspect(s, func(n ast.Node) bool {
			if id, ok := n.(*ast.Ident); ok && objOf(info, id) == o {
				mentions = true
			}
			return true
		})
		if !mentions {
			continue
		}
		if es, ok := s.(*ast.ExprStmt); ok {
			if call, ok := es.X.(*ast.CallExpr); ok {
				if fn := callee(info, call); fn != nil && (fn.FullName() == "sort.Strings" || fn.FullName() == "sort.Ints") && len(call.Args) == 1 && identObj(info, call.Args[0]) == o {
					return true, fn.FullName()
				}
			}
		}
		return false, "first use after the loop is `" + stmtSummary(s) + "`, not sort.Strings/sort.Ints"
	}
	return false, "the collected slice is not sorted after the loop"
}

func stmtSummary(s ast.Stmt) string {
	switch x := s.(type) {
	case *ast.ReturnStmt:
		return "return …"
	case *ast.ExprStmt:
		return exprString(x.X)
	case *ast.AssignStmt:
		if len(x.Lhs) > 0 && len(x.Rhs) > 0 {
			return exprString(x.Lhs[0]) + " " + x.Tok.String() + " " + exprString(x.Rhs[0])
		}
	}
	return fmt.Sprintf("%T", s)
}

// ---------------------------------------------------------------------------------------------

func c14MapRanges(c *Ctx, r *Report) {
	const clause = "C14.a"
	sites := allMapRanges(c)
	r.Extra["C14_map_ranges"] = len(sites)
	pur := &purity{c: c, memo: map[*types.Func]string{}, busy: map[*types.Func]bool{}}
	if len(sites) < 10 {
		r.Undecided(clause, "R7 MAP-ORDER-TAINT", "repo/map-ranges", "-", fmt.Sprintf("only %d map ranges found; the rule was confirmed on ≥ 13 sites — the loader may have missed packages", len(sites)))
	}
	for _, s := range sites {
		construct := s.fn.Name + "/range " + s.path
		v := classifyMapRange(c, pur, s.fn, s.rs)
		// collected slices
		var unsan []string
		sanNote := ""
		seenCol := map[types.Object]bool{}
		for _, o := range v.collected {
			if seenCol[o] {
				continue
			}
			seenCol[o] = true
			if ok, how := sanitised(s.fn, s.rs, o); ok {
				sanNote += fmt.Sprintf(" %s collected and sorted with %s before use;", o.Name(), how)
			} else {
				unsan = append(unsan, fmt.Sprintf("%s is filled in iteration order and %s", o.Name(), how))
			}
		}
		problems := append([]string{}, v.sensitive...)
		problems = append(problems, unsan...)
		if len(problems) == 0 {
			r.OK(clause, "R7 MAP-ORDER-TAINT", construct, c.pos(s.rs.Pos()), "order-insensitive body (keyed writes / element writes / counters / diagnostics / pure calls);"+sanNote)
			continue
		}
		// exception table with premises
		if why, ok := c14Exception(c, s, problems); ok {
			r.OK(clause, "R7 MAP-ORDER-TAINT", construct, c.pos(s.rs.Pos()), "tabled exception, premise re-checked: "+why)
			continue
		} else if why != "" {
			r.Fail(clause, "R7 MAP-ORDER-TAINT", construct, c.pos(s.rs.Pos()), "tabled exception whose premise no longer holds: "+why)
			continue
		}
		r.Fail(clause, "R7 MAP-ORDER-TAINT", construct, c.pos(s.rs.Pos()),
			fmt.Sprintf("Go randomises map iteration order on every run and this loop lets it escape (%d effect(s)); first: %s", len(problems), problems[0]))
	}
}

// c14Exception: reasoned exceptions, each with a premise that is verified now.
func c14Exception(c *Ctx, s mapRangeSite, problems []string) (string, bool) {
	fn := s.fn.Name
	switch {
	case fn == "Utils.PackTable" && strings.HasSuffix(s.path, "nonZeroPos"):
		// premise: the body only stores payload[offset[row]+col] = table[row][col] and check[offset[row]+col] = row
		info := s.fn.Pkg.TypesInfo
		roles := packTableRoles(info, s.fn.Decl)
		if roles == nil {
			return "cannot identify PackTable's result slices", false
		}
		okStores := 0
		bad := ""
		ast.Inspect(s.rs.Body, func(n ast.Node) bool {
			switch x := n.(type) {
			case *ast.AssignStmt:
				for _, l := range x.Lhs {
					ix, ok := unparen(l).(*ast.IndexExpr)
					if !ok {
						if id, ok := unparen(l).(*ast.Ident); ok && (id.Name == "_" || (x.Tok == token.DEFINE && info.Defs[id] != nil)) {
							continue // a local of the loop body
						}
						bad = "store to " + exprString(l)
						continue
					}
					o := identObj(info, ix.X)
					if o == roles["ACT"] || o == roles["CHK"] {
						okStores++
					} else {
						bad = "store to " + exprString(l)
					}
				}
			case *ast.CallExpr:
				if builtinName(info, x) == "" {
					bad = "call " + exprString(x.Fun)
				}
			case *ast.IncDecStmt:
				bad = "update " + exprString(x.X)
			}
			return true
		})
		if bad != "" || okStores != 2 {
			return fmt.Sprintf("the output loop of PackTable does more than write the (payload, check) pair (%s, %d stores)", bad, okStores), false
		}
		return "rows are written out to slots offset[row]+col that no other row occupies (first-fit placement), so the order of rows is irrelevant; the body is exactly the paired stores checked in C05.c", true
	case strings.HasPrefix(fn, "LALR.(*LALR1).") && (strings.HasSuffix(s.path, ".DRSet") || strings.HasSuffix(s.path, ".ReadSet")):
		// the premise is about the ORDER in which the transitions are collected; it says nothing for a loop that
		// stops early, keeps a last writer or stores at a foreign index — there the key order selects WHICH
		// transition is affected
		for _, p := range problems {
			if !strings.Contains(p, "is filled in iteration order") {
				return "the exception covers collecting transitions in key order only, and this loop does more: " + p, false
			}
		}
		return c14LookaheadPremise(c)
	case fn == "Grammar.(*Grammar).CalculateCanTerminate" && strings.HasSuffix(s.path, ".VnSet"):
		// premise: callers use the result only through len() and PrintInfLoop, which only prints
		callers := 0
		bad := ""
		for _, f := range c.AllFuncs() {
			info := f.Pkg.TypesInfo
			ast.Inspect(f.Decl.Body, func(n ast.Node) bool {
				as, ok := n.(*ast.AssignStmt)
				if !ok || len(as.Rhs) != 1 {
					return true
				}
				call, ok := as.Rhs[0].(*ast.CallExpr)
				if !ok || callee(info, call) != s.fn.Obj {
					return true
				}
				callers++
				o := identObj(info, as.Lhs[0])
				// uses of o
				pm := parentMap(f.Decl.Body)
				ast.Inspect(f.Decl.Body, func(m ast.Node) bool {
					id, ok := m.(*ast.Ident)
					if !ok || objOf(info, id) != o || info.Defs[id] != nil {
						return true
					}
					par := pm[id]
					if pc, ok := par.(*ast.CallExpr); ok {
						if builtinName(info, pc) == "len" {
							return true
						}
						if cf := callee(info, pc); cf != nil && cf.Name() == "PrintInfLoop" {
							return true
						}
					}
					bad = "used in " + fmt.Sprintf("%T", par) + " at " + c.pos(id.Pos())
					return true
				})
				return true
			})
		}
		if callers == 0 || bad != "" {
			return fmt.Sprintf("the list of unproductive nonterminals is no longer used for its length and a diagnostic only (%d callers; %s)", callers, bad), false
		}
		return "the collected list of unproductive nonterminals is used only through len() and the PrintInfLoop diagnostic", true
	}
	return "", false
}

// c14LookaheadPremise: the element order of DRSet/ReadSet/FollowSet/LookAheadSet slices never matters: every read of
// these fields is (a) an argument of Digraph, (b) a key-only range, (c) inside a Show* diagnostic, (d) a range over one
// slice whose body is a keyed insertion by the element, or (e) a copy/append into one of these fields.
func c14LookaheadPremise(c *Ctx) (string, bool) {
	// (0) Digraph must compute sets that do not depend on the order of X and R: the algorithm's skeleton (C03.d)
	sub := &Report{Prop: "C14", Extra: map[string]interface{}{}}
	c03d(c, sub)
	for _, o := range sub.Obls {
		if o.Verdict != "ok" {
			return "Digraph/Traverse no longer has the algorithm's skeleton (" + o.Construct + ": " + o.Detail + "), so its result can depend on the order in which the map keys are traversed", false
		}
	}
	fields := map[string]bool{"DRSet": true, "ReadSet": true, "FollowSet": true, "LookAheadSet": true}
	n := 0
	for _, f := range c.AllFuncs() {
		if !strings.HasPrefix(f.Name, "LALR.") && !strings.HasPrefix(f.Name, "Parser.") && !strings.HasPrefix(f.Name, "Builder.") {
			continue
		}
		info := f.Pkg.TypesInfo
		pm := parentMap(f.Decl.Body)
		bad := ""
		ast.Inspect(f.Decl.Body, func(nd ast.Node) bool {
			se, ok := nd.(*ast.SelectorExpr)
			if !ok {
				return true
			}
			fv := fieldVar(info, se)
			if fv == nil || !fields[fv.Name()] || fv.Pkg() == nil || !strings.HasSuffix(fv.Pkg().Path(), "/LALR") {
				return true
			}
			n++
			if strings.HasPrefix(f.Decl.Name.Name, "Show") || f.Decl.Name.Name == "NewLALR" {
				return true
			}
			// climb: &field, field[idx]
			var cur ast.Node = se
			par := pm[cur]
			if u, ok := par.(*ast.UnaryExpr); ok && u.Op == token.AND {
				cur, par = par, pm[par]
			}
			indexed := false
			if ix, ok := par.(*ast.IndexExpr); ok && ix.X == cur {
				indexed = true
				cur, par = par, pm[par]
			}
			switch p := par.(type) {
			case *ast.CallExpr:
				if cf := callee(info, p); cf != nil && cf.Name() == "Digraph" {
					return true
				}
				if builtinName(info, p) == "append" || builtinName(info, p) == "len" {
					return true
				}
			case *ast.RangeStmt:
				if p.X == cur {
					if !indexed {
						if p.Value == nil {
							return true // key-only range: one of the R7 sites
						}
					} else {
						// for _, sy := range Set[idx] { keyed insertion by sy }
						el := identObj(info, p.Value)
						okBody := true
						declared := map[types.Object]bool{}
						ast.Inspect(p.Body, func(m ast.Node) bool {
							if as, ok := m.(*ast.AssignStmt); ok && as.Tok == token.DEFINE {
								for _, l := range as.Lhs {
									if id, ok := l.(*ast.Ident); ok && info.Defs[id] != nil {
										declared[info.Defs[id]] = true
									}
								}
							}
							return true
						})
						ast.Inspect(p.Body, func(m ast.Node) bool {
							if as, ok := m.(*ast.AssignStmt); ok {
								for _, l := range as.Lhs {
									if ix, ok := unparen(l).(*ast.IndexExpr); ok && identObj(info, ix.Index) == el {
										continue
									}
									if id, ok := unparen(l).(*ast.Ident); ok && (as.Tok == token.DEFINE || id.Name == "_" || declared[objOf(info, id)]) {
										continue
									}
									okBody = false
								}
							}
							return true
						})
						if okBody {
							return true
						}
						bad = "range over " + exprString(p.X) + " with a body that is not a keyed insertion by the element, at " + c.pos(p.Pos())
						return true
					}
				}
			case *ast.AssignStmt:
				return true // copy into / out of another set field or a local passed on
			case *ast.KeyValueExpr, *ast.CompositeLit:
				return true
			}
			bad = fmt.Sprintf("%s is read in a %T at %s", exprString(se), par, c.pos(se.Pos()))
			return true
		})
		if bad != "" {
			return "the element order of a lookahead slice can now matter: " + bad, false
		}
	}
	if n < 10 {
		return "lookahead set fields not found", false
	}
	return "the key order of DRSet/ReadSet only changes the element order of the lookahead slices; every read of those slices is a Digraph argument, a key-only range, a Show* diagnostic, or a range whose body inserts keyed by the element", true
}

// ---------------------------------------------------------------------------------------------

func c14Inventory(c *Ctx, r *Report) {
	const clause = "C14.b"
	forbiddenPkgs := map[string]bool{"time": true, "math/rand": true, "math/rand/v2": true, "crypto/rand": true, "runtime": true, "unsafe": true, "reflect": true}
	forbiddenFuncs := map[string]bool{"os.Getenv": true, "os.Environ": true, "os.Getpid": true, "os.Getwd": true, "os.Hostname": true, "os.LookupEnv": true, "os.ReadDir": true}
	var hits []string
	goStmts := 0
	var goWhere []string
	selects := 0
	pointerFmt := 0
	for _, f := range c.AllFuncs() {
		info := f.Pkg.TypesInfo
		ast.Inspect(f.Decl.Body, func(n ast.Node) bool {
			switch x := n.(type) {
			case *ast.GoStmt:
				goStmts++
				goWhere = append(goWhere, f.Name)
			case *ast.SelectStmt:
				selects++
				hits = append(hits, f.Name+" uses select at "+c.pos(x.Pos()))
			case *ast.CallExpr:
				fn := callee(info, x)
				if fn == nil || fn.Pkg() == nil {
					return true
				}
				if forbiddenPkgs[fn.Pkg().Path()] || forbiddenFuncs[fn.FullName()] {
					hits = append(hits, f.Name+" calls "+fn.FullName()+" at "+c.pos(x.Pos()))
				}
				// %p or %v of a pointer/map in a format that is not a diagnostic print
				if fn.FullName() == "fmt.Sprintf" || fn.FullName() == "fmt.Sprint" || fn.FullName() == "fmt.Fprintf" {
					fargs := x.Args
					if fn.FullName() == "fmt.Fprintf" && len(fargs) > 0 {
						fargs = fargs[1:] // the first argument is the writer, not a formatted value
					}
					for _, a := range fargs {
						if s, ok := constString(info, a); ok && strings.Contains(s, "%p") {
							pointerFmt++
							hits = append(hits, f.Name+" formats with %p at "+c.pos(x.Pos()))
						}
						if t := info.TypeOf(a); t != nil {
							switch t.Underlying().(type) {
							case *types.Pointer, *types.Map, *types.Chan, *types.Signature:
								if !strings.HasPrefix(f.Decl.Name.Name, "Show") {
									pointerFmt++
									hits = append(hits, f.Name+" formats a pointer/map/func value into a string at "+c.pos(x.Pos()))
								}
							}
						}
					}
				}
			}
			return true
		})
	}
	sort.Strings(hits)
	r.Check(len(hits) == 0, clause, "INVENTORY", "repo/no-time-rand-env-pointer-select", "-",
		"no call into time, math/rand, crypto/rand, runtime, reflect, unsafe, os.Getenv/Environ/Getpid/…, no select, no pointer or map formatted into a string",
		fmt.Sprintf("%d nondeterminism source(s): %s", len(hits), firstOf(hits)))
	r.Check(goStmts == 1 && len(goWhere) == 1 && goWhere[0] == "Parser.Lex", clause, "INVENTORY", "repo/single-producer-goroutine", "Parser/Lex.go",
		"exactly one go statement (Parser.Lex starts the lexer, the only producer of the unbuffered token channel)",
		fmt.Sprintf("%d go statements (%v): with more than one goroutine producing, the order of tokens or of output can depend on the schedule", goStmts, goWhere))
	// the token channel is unbuffered
	if f := c.need(r, clause, "Parser", "", "Lex"); f != nil {
		info := f.Pkg.TypesInfo
		unbuffered := false
		ast.Inspect(f.Decl.Body, func(n ast.Node) bool {
			if call, ok := n.(*ast.CallExpr); ok && builtinName(info, call) == "make" {
				if _, isChan := info.TypeOf(call).Underlying().(*types.Chan); isChan && len(call.Args) == 1 {
					unbuffered = true
				}
			}
			return true
		})
		r.Check(unbuffered, clause, "INVENTORY", f.Name+"/unbuffered-token-channel", c.pos(f.Decl.Pos()),
			"the token channel is unbuffered: lexer and parser run in lock step, one token at a time",
			"the token channel is not created unbuffered with make(chan Token)")
	}
}
