package main

// deps.go — R5 DEPENDENCE: an over-approximation of the struct fields on which the guards of a statement
// depend: conditions of enclosing ifs, conditions of preceding early exits (`if c { continue|break|return }`)
// in the enclosing blocks, and the ranged expressions / bounds of the enclosing loops; closed over local
// definitions (flow-insensitively: every value ever assigned to a local) and over the bodies of called
// repository functions. If a field is absent from this set the guard certainly does not depend on it.

import (
	"go/ast"
	"go/token"
	"go/types"
	"sort"
	"strings"
)

type depSet struct {
	fields map[*types.Var]bool
	funcs  map[*types.Func]bool
}

func (d *depSet) fieldNames() []string {
	var out []string
	for f := range d.fields {
		out = append(out, ownerOf(f)+"."+f.Name())
	}
	sort.Strings(out)
	return out
}

func (d *depSet) has(owner, name string) bool {
	for f := range d.fields {
		if f.Name() == name && (owner == "" || ownerOf(f) == owner) {
			return true
		}
	}
	return false
}

// ownerOf: name of the struct type that declares the field (best effort: looks it up in the field's package scope).
func ownerOf(f *types.Var) string {
	if f.Pkg() == nil {
		return ""
	}
	sc := f.Pkg().Scope()
	for _, n := range sc.Names() {
		if tn, ok := sc.Lookup(n).(*types.TypeName); ok {
			if st, ok := tn.Type().Underlying().(*types.Struct); ok {
				for i := 0; i < st.NumFields(); i++ {
					if st.Field(i) == f {
						return n
					}
				}
			}
		}
	}
	return ""
}

type depCtx struct {
	c     *Ctx
	fn    *FuncRef
	set   *depSet
	seenL map[types.Object]bool
	depth int
}

// guardDeps computes the dependence set of the guards of target inside fn.
func guardDeps(c *Ctx, fn *FuncRef, target ast.Node) *depSet {
	d := &depCtx{c: c, fn: fn, set: &depSet{fields: map[*types.Var]bool{}, funcs: map[*types.Func]bool{}}, seenL: map[types.Object]bool{}}
	pm := parentMap(fn.Decl.Body)
	var cur ast.Node = target
	for cur != nil {
		par := pm[cur]
		switch p := par.(type) {
		case *ast.IfStmt:
			if p.Init != nil {
				d.node(p.Init)
			}
			d.expr(p.Cond)
		case *ast.ForStmt:
			if p.Cond != nil {
				d.expr(p.Cond)
			}
			if p.Init != nil {
				d.node(p.Init)
			}
		case *ast.RangeStmt:
			d.expr(p.X)
		case *ast.CaseClause:
			for _, e := range p.List {
				d.expr(e)
			}
		case *ast.SwitchStmt:
			if p.Tag != nil {
				d.expr(p.Tag)
			}
		case *ast.BlockStmt:
			// early exits that precede cur in this block
			for _, s := range p.List {
				if s == cur {
					break
				}
				if is, ok := s.(*ast.IfStmt); ok && endsInExit(is.Body) {
					if is.Init != nil {
						d.node(is.Init)
					}
					d.expr(is.Cond)
				}
			}
		}
		cur = par
	}
	return d.set
}

func endsInExit(b *ast.BlockStmt) bool {
	if len(b.List) == 0 {
		return false
	}
	switch x := b.List[len(b.List)-1].(type) {
	case *ast.BranchStmt:
		return x.Tok == token.CONTINUE || x.Tok == token.BREAK || x.Tok == token.GOTO
	case *ast.ReturnStmt:
		return true
	case *ast.ExprStmt:
		if call, ok := x.X.(*ast.CallExpr); ok {
			if id, ok := call.Fun.(*ast.Ident); ok && id.Name == "panic" {
				return true
			}
		}
	}
	return false
}

func (d *depCtx) node(n ast.Node) {
	ast.Inspect(n, func(m ast.Node) bool {
		if e, ok := m.(ast.Expr); ok {
			d.expr(e)
			return false
		}
		return true
	})
}

func (d *depCtx) expr(e ast.Expr) {
	info := d.fn.Pkg.TypesInfo
	ast.Inspect(e, func(n ast.Node) bool {
		switch x := n.(type) {
		case *ast.SelectorExpr:
			if fv := fieldVar(info, x); fv != nil {
				d.set.fields[fv] = true
			}
		case *ast.Ident:
			o := objOf(info, x)
			v, ok := o.(*types.Var)
			if !ok || v.IsField() || v.Pkg() == nil || v.Parent() == v.Pkg().Scope() {
				return true
			}
			d.local(v)
		case *ast.CallExpr:
			if f := callee(info, x); f != nil {
				d.call(f)
			}
		}
		return true
	})
}

// local: every expression ever assigned to the local (including range sources) contributes.
func (d *depCtx) local(v types.Object) {
	if d.seenL[v] {
		return
	}
	d.seenL[v] = true
	info := d.fn.Pkg.TypesInfo
	ast.Inspect(d.fn.Decl.Body, func(n ast.Node) bool {
		switch x := n.(type) {
		case *ast.AssignStmt:
			for i, l := range x.Lhs {
				if identObj(info, l) == v {
					if len(x.Lhs) == len(x.Rhs) {
						d.expr(x.Rhs[i])
					} else {
						d.expr(x.Rhs[0])
					}
				}
			}
		case *ast.ValueSpec:
			for i, nm := range x.Names {
				if info.Defs[nm] == v && i < len(x.Values) {
					d.expr(x.Values[i])
				}
			}
		case *ast.RangeStmt:
			if identObj(info, x.Key) == v || identObj(info, x.Value) == v {
				d.expr(x.X)
			}
		}
		return true
	})
}

// call: all field reads in the callee's body (transitively, depth-limited).
func (d *depCtx) call(f *types.Func) {
	if d.set.funcs[f] {
		return
	}
	d.set.funcs[f] = true
	ref := d.c.FuncOf(f)
	if ref == nil || d.depth > 4 {
		return
	}
	sub := &depCtx{c: d.c, fn: ref, set: d.set, seenL: map[types.Object]bool{}, depth: d.depth + 1}
	info := ref.Pkg.TypesInfo
	ast.Inspect(ref.Decl.Body, func(n ast.Node) bool {
		switch x := n.(type) {
		case *ast.SelectorExpr:
			if fv := fieldVar(info, x); fv != nil {
				d.set.fields[fv] = true
			}
		case *ast.CallExpr:
			if g := callee(info, x); g != nil {
				sub.call(g)
			}
		}
		return true
	})
}

// findRelationAppends returns the `res = append(res, Relation{…})` statements of a function.
func findRelationAppends(fn *FuncRef) []*ast.CallExpr {
	info := fn.Pkg.TypesInfo
	var out []*ast.CallExpr
	ast.Inspect(fn.Decl.Body, func(n ast.Node) bool {
		call, ok := n.(*ast.CallExpr)
		if !ok || builtinName(info, call) != "append" || len(call.Args) < 2 {
			return true
		}
		for _, a := range call.Args[1:] {
			if cl, ok := unparen(a).(*ast.CompositeLit); ok {
				if tv, ok := info.Types[cl]; ok {
					if named, ok := tv.Type.(*types.Named); ok && named.Obj().Name() == "Relation" {
						out = append(out, call)
					}
				}
			}
		}
		return true
	})
	return out
}

// guardAtoms lists the atomic conditions that guard target inside fn: the conjuncts of enclosing if conditions and,
// negated, the conditions of preceding early exits in the enclosing blocks; rendered as canonical paths with local
// single definitions substituted. Loop domains are not included (see guardDeps for those).
func guardAtoms(c *Ctx, fn *FuncRef, target ast.Node) []string {
	info := fn.Pkg.TypesInfo
	defs := newDefs(info)
	defs.scan(fn.Decl.Body)
	pc := &pathCtx{info: info, defs: defs, root: fn.Decl.Body}
	pm := parentMap(fn.Decl.Body)
	var out []string
	addCond := func(e ast.Expr, negate bool) {
		// conjuncts with negation pushed inward: `!(a || b)` guards like `!a && !b`
		out = append(out, nnfAtoms(pc, e, negate)...)
	}
	var cur ast.Node = target
	for cur != nil {
		par := pm[cur]
		switch p := par.(type) {
		case *ast.IfStmt:
			if cur == ast.Node(p.Body) {
				if p.Init != nil {
					// `if v, err := f(); err == nil`: the definition is part of the atom through substitution
				}
				addCond(p.Cond, false)
			} else if cur == p.Else {
				addCond(p.Cond, true)
			}
		case *ast.CaseClause:
			// `switch tag { case v: … }`: the statement runs when tag equals one of the case values
			if sw, ok := pm[pm[p]].(*ast.SwitchStmt); ok && sw.Tag != nil {
				if len(p.List) == 0 {
					out = append(out, "default-of("+pc.path(sw.Tag)+")")
				} else {
					var alts []string
					for _, e := range p.List {
						alts = append(alts, "("+pc.path(sw.Tag)+" == "+pc.path(e)+")")
					}
					out = append(out, strings.Join(alts, " or "))
				}
			} else if ok && sw.Tag == nil {
				for _, e := range p.List {
					addCond(e, false)
				}
			}
		case *ast.BlockStmt:
			for _, s := range p.List {
				if s == cur {
					break
				}
				if is, ok := s.(*ast.IfStmt); ok && endsInExit(is.Body) {
					addCond(is.Cond, true)
					// leaving the whole loop (break / return) is more than skipping one element: every later
					// element is skipped too — an extra condition "never true for an earlier element"
					leavesLoop := false
					switch x := is.Body.List[len(is.Body.List)-1].(type) {
					case *ast.BranchStmt:
						leavesLoop = x.Tok != token.CONTINUE
					case *ast.ReturnStmt:
						leavesLoop = true
					} // a panic ends the program: nothing is silently skipped
					if leavesLoop {
						if enclosingLoopBody(pm, p) {
							out = append(out, "no-earlier-element-with("+pc.path(is.Cond)+")")
						}
					}
				}
			}
		}
		cur = par
	}
	sort.Strings(out)
	return out
}

// enclosingLoopBody: blk is the body of a for / range statement.
func enclosingLoopBody(pm map[ast.Node]ast.Node, blk *ast.BlockStmt) bool {
	switch pm[blk].(type) {
	case *ast.ForStmt, *ast.RangeStmt:
		return true
	}
	return false
}

// positiveForm rewrites a printed atom so that negation is folded into comparison operators:
// !(A != B) → (A == B), !(A == B) → (A != B), !(A < B) → (A >= B) …; !!X → X. Other atoms are returned unchanged
// (a leading "!" then means a genuinely negated predicate).
func positiveForm(a string) string {
	a = strings.TrimSpace(a)
	strip := func(s string) string {
		for len(s) >= 2 && s[0] == '(' && matchingParen(s, 0) == len(s)-1 {
			s = strings.TrimSpace(s[1 : len(s)-1])
		}
		return s
	}
	neg := false
	for {
		a = strip(a)
		if strings.HasPrefix(a, "!") && !strings.HasPrefix(a, "!=") {
			neg = !neg
			a = strings.TrimSpace(a[1:])
			continue
		}
		break
	}
	if !neg {
		return "(" + a + ")"
	}
	tl := topLevel(a)
	if !strings.Contains(tl, "&&") && !strings.Contains(tl, "||") {
		flip := map[string]string{"==": "!=", "!=": "==", "<=": ">", ">=": "<", "<": ">=", ">": "<="}
		for _, op := range []string{"==", "!=", "<=", ">=", "<", ">"} {
			if i := strings.Index(tl, " "+op+" "); i >= 0 {
				return "(" + a[:i] + " " + flip[op] + " " + a[i+len(op)+2:] + ")"
			}
		}
	}
	return "!(" + a + ")"
}

// topLevel blanks everything inside parentheses / brackets (same length as the input).
func topLevel(s string) string {
	b := []byte(s)
	depth := 0
	for i := range b {
		switch b[i] {
		case '(', '[':
			depth++
			b[i] = '_'
			continue
		case ')', ']':
			depth--
			b[i] = '_'
			continue
		}
		if depth > 0 {
			b[i] = '_'
		}
	}
	return string(b)
}

// nnfAtoms pushes negation inward (De Morgan, double negation) and returns the conjuncts of e (of ¬e when neg) as
// positive-form atoms: `!(a != 1 || f(x))` → [(a == 1), !(f(x))]. A disjunction that survives is one atom.
func nnfAtoms(pc *pathCtx, e ast.Expr, neg bool) []string {
	e = unparen(e)
	switch x := e.(type) {
	case *ast.UnaryExpr:
		if x.Op == token.NOT {
			return nnfAtoms(pc, x.X, !neg)
		}
	case *ast.BinaryExpr:
		if (x.Op == token.LAND && !neg) || (x.Op == token.LOR && neg) {
			return append(nnfAtoms(pc, x.X, neg), nnfAtoms(pc, x.Y, neg)...)
		}
	}
	if neg {
		return []string{positiveForm("!(" + pc.path(e) + ")")}
	}
	return []string{positiveForm(pc.path(e))}
}
